import JSight.Model.Include
import JSight.Proofs.Include
/-!
C08 — INCLUDE handling at scan time (`scanIncFile` / `scanProject` of `JSight/Model/Include.lean`).
Property theorems only (helper definitions and lemmas in `JSight/Proofs/Include.lean`).

`Live fs root stack cur` (Proofs): the include stacks the scan can build — `Live.root : Live fs root [] root`, and
`Live.push`: from a live `(stack, cur)` with `cur` not on `stack`, following the token `incl f true` at position `pos`
of the existing file `cur` to the existing regular file `f` gives the live `((cur, pos) :: stack, f)`.
-/
namespace JSight.C08
open JSight JSight.Gen

/-! ## (5) bad targets are rejected at the INCLUDE -/

/-- (5) at an INCLUDE token the directive written before it is placed first (repair F42: `processInclude` starts with
    `processCurrentDirective`).  If it cannot be placed, its context error is the result, whatever the INCLUDE names.
    If it can, a refused name, a missing file and a directory are rejected AT the INCLUDE token — whatever else the
    scan state is, and nothing behind the INCLUDE is looked at (`rest` is arbitrary) -/
theorem bad_target_rejected (fs : FS) (fuel : Nat) (stack : List (Nat × Nat)) (cur pos : Nat) (rest : List FTok)
    (st : PScan) (f : Nat) :
    (∀ e, flushPending st = .error e →
      ∀ valid, scanIncFile fs (fuel + 1) stack cur pos (FTok.incl f valid :: rest) st = .error e) ∧
    (∀ st', flushPending st = .ok st' →
      scanIncFile fs (fuel + 1) stack cur pos (FTok.incl f false :: rest) st = .error (.inc (.badName cur pos)) ∧
      (fs.get? f = none →
        scanIncFile fs (fuel + 1) stack cur pos (FTok.incl f true :: rest) st = .error (.inc (.missing cur pos))) ∧
      (fs.get? f = some .directory →
        scanIncFile fs (fuel + 1) stack cur pos (FTok.incl f true :: rest) st =
          .error (.inc (.isDirectory cur pos)))) := by
  refine ⟨?_, ?_⟩
  · intro e hfl valid; exact scanIncFile_incl_error fs fuel stack cur pos f valid rest st e hfl
  · intro st' hfl
    refine ⟨?_, ?_, ?_⟩
    · rw [scanIncFile_incl_ok fs fuel stack cur pos f false rest st st' hfl]; rfl
    · intro h; rw [scanIncFile_incl_ok fs fuel stack cur pos f true rest st st' hfl, h]; rfl
    · intro h; rw [scanIncFile_incl_ok fs fuel stack cur pos f true rest st st' hfl, h]; rfl

/-- (5, the order of events) the pending directive is placed BEFORE the INCLUDE is examined: if it cannot be placed,
    the scan of any token list from that state fails with its context error (given one unit of fuel) -/
theorem pending_error_first (fs : FS) (fuel : Nat) (stack : List (Nat × Nat)) (cur pos : Nat) (toks : List FTok)
    (st : PScan) (e : ProjErr) (hfl : flushPending st = .error e) :
    scanIncFile fs (fuel + 1) stack cur pos toks st = .error e :=
  scanIncFile_flush_error fs fuel stack cur pos toks st e hfl

/-! ## (4) JSIGHT inside an included file -/

/-- (4) a file scanned below a non-empty include stack that contains a JSIGHT directive never yields `.ok`
    (the JSIGHT error, or an earlier error) -/
theorem jsight_in_included_rejected (fs : FS) (fuel : Nat) (stack : List (Nat × Nat)) (cur pos : Nat)
    (pre post : List FTok) (d : Dir) (st r : PScan) (hk : d.kind = Kind.Jsight) (hs : stack ≠ []) :
    scanIncFile fs fuel stack cur pos (pre ++ FTok.dir d :: post) st ≠ .ok r := by
  intro h
  obtain ⟨fuel', pos', st', h'⟩ := ok_suffix fs stack cur _ r pre fuel pos st h
  exact jsight_head_not_ok fs fuel' stack cur pos' d post st' r hk hs h'

/-- (4, the error) when the JSIGHT directive is reached and the pending directive can be placed, the error is
    `jsightInIncluded` at that very token -/
theorem jsight_in_included_error (fs : FS) (fuel : Nat) (stack : List (Nat × Nat)) (cur pos : Nat)
    (rest : List FTok) (d : Dir) (st st' : PScan) (hk : d.kind = Kind.Jsight) (hs : stack ≠ [])
    (hfl : flushPending st = .ok st') :
    scanIncFile fs (fuel + 1) stack cur pos (FTok.dir d :: rest) st = .error (.inc (.jsightInIncluded cur pos)) := by
  have : stack.isEmpty = false := by
    cases stack with
    | nil => exact absurd rfl hs
    | cons a l => rfl
  rw [scanIncFile_dir, hfl]; simp [hk, this]

/-- (4, project level) a project whose root file includes (with an accepted name) a file that contains a JSIGHT
    directive is never accepted -/
theorem jsight_in_included_project (fs : FS) (root f : Nat) (pre post bpre bpost : List FTok) (d : Dir)
    (hroot : fs.get? root = some (.file (pre ++ FTok.incl f true :: post)))
    (hf : fs.get? f = some (.file (bpre ++ FTok.dir d :: bpost))) (hk : d.kind = Kind.Jsight) :
    ∀ res, scanProject fs root ≠ .ok res := by
  intro res h
  unfold scanProject at h
  rw [hroot] at h
  simp only [] at h
  split at h
  · cases h
  · rename_i st hst
    obtain ⟨fuel', pos', st', h'⟩ := ok_suffix fs [] root _ st pre _ 0 {} hst
    obtain ⟨n, body, stf, st'', _, _, _, hg, _, hin, _⟩ := incl_head_ok fs fuel' [] root pos' f true post st' st h'
    rw [hf] at hg
    cases hg
    exact jsight_in_included_rejected fs n [(root, pos')] f 0 bpre bpost d stf st'' hk (by simp) hin

/-! ## (1) the include stack never holds a file twice -/

/-- (1, the step) the invariant that the recursion check maintains: pushing the including file `cur` is refused
    unless `cur` is not on the stack, so the file ids on the stack stay pairwise distinct -/
theorem stack_nodup_step (stack : List (Nat × Nat)) (cur pos : Nat) (hn : (stack.map (·.1)).Nodup)
    (hs : stack.any (·.1 == cur) = false) : (((cur, pos) :: stack).map (·.1)).Nodup :=
  nodup_push hn hs

/-- (1, the call) the only recursive call of `scanIncFile` with a different stack is made at a live stack again: below
    a live `(stack, cur)`, at the token `incl f true` (position `pos` of `cur`) of an existing regular file `f`, once
    the pending directive is placed (giving `stf`; otherwise the scan stops with its error, `bad_target_rejected`),
    the scan either stops with `recursion` (`cur` already on the stack) or continues in `f` below
    `(cur, pos) :: stack`, which is live; (the other recursive calls keep `stack` and `cur`) -/
theorem push_is_live (fs : FS) (root fuel : Nat) (stack : List (Nat × Nat)) (cur pos f : Nat)
    (all body rest : List FTok) (st stf : PScan) (hl : Live fs root stack cur)
    (hc : fs.get? cur = some (.file all)) (ht : FTok.incl f true :: rest = all.drop pos)
    (hf : fs.get? f = some (.file body)) (hfl : flushPending st = .ok stf) :
    (stack.any (·.1 == cur) = true ∧
      scanIncFile fs (fuel + 1) stack cur pos (FTok.incl f true :: rest) st = .error (.inc (.recursion cur pos))) ∨
    (Live fs root ((cur, pos) :: stack) f ∧
      scanIncFile fs (fuel + 1) stack cur pos (FTok.incl f true :: rest) st =
        match scanIncFile fs fuel ((cur, pos) :: stack) f 0 body stf with
        | .error e => .error e
        | .ok st' => scanIncFile fs fuel stack cur (pos + 1) rest st') := by
  cases hs : stack.any (·.1 == cur) with
  | true =>
    left; refine ⟨rfl, ?_⟩
    rw [scanIncFile_incl_ok fs fuel stack cur pos f true rest st stf hfl, hf]; simp [hs]
  | false =>
    right
    exact ⟨Live.push hl hs hc (drop_cons ht).1 hf,
      scanIncFile_incl_file_ok fs fuel stack cur pos f rest body st stf hf hs hfl⟩

/-- (1) a live include stack never holds a file twice; its entries are INCLUDE tokens of existing files; it ends at the
    root file; hence its depth is at most the number of files -/
theorem stack_nodup (fs : FS) (root : Nat) (stack : List (Nat × Nat)) (cur : Nat) (h : Live fs root stack cur) :
    (stack.map (·.1)).Nodup ∧
    stack.length ≤ fs.length ∧
    (∀ x ∈ stack, ∃ all f, fs.get? x.1 = some (.file all) ∧ all[x.2]? = some (.incl f true)) ∧
    (∀ x, stack.getLast? = some x → x.1 = root) :=
  ⟨h.nodup, h.length_le, h.entry, h.bottom⟩

/-! ## (2) bounded -/

/-- (2, general) below a stack of pairwise distinct existing files, `(#files − depth) · fsSize + #tokens + 1` units of
    fuel suffice -/
theorem scanIncFile_enough_fuel (fs : FS) (fuel : Nat) (stack : List (Nat × Nat)) (cur pos : Nat) (toks : List FTok)
    (st : PScan) (hn : (stack.map (·.1)).Nodup) (hm : ∀ x ∈ stack, x.1 ∈ fs.map (·.1)) (hc : cur ∈ fs.map (·.1))
    (hb : (fs.length - stack.length) * fsSize fs + toks.length + 1 ≤ fuel) :
    scanIncFile fs fuel stack cur pos toks st ≠ .error (.inc .fuel) :=
  scanIncFile_no_fuel fs fuel stack cur pos toks st hn hm hc hb

/-- (2) BOUNDED: `scanProject` never runs out of fuel — every include cycle ends in a diagnostic after finitely many
    steps. No hypothesis on the file system (file ids need not even be unique) -/
theorem scanProject_no_fuel (fs : FS) (root : Nat) : scanProject fs root ≠ .error (.inc .fuel) := by
  unfold scanProject
  cases hroot : fs.get? root with
  | none => intro h; cases h
  | some e =>
    cases e with
    | directory => intro h; cases h
    | file toks =>
      simp only []
      have hlen := file_length_lt_fsSize hroot
      have hb : fuelBound fs [] toks ≤ (fs.length + 2) * (fsSize fs + 2) + 2 := by
        unfold fuelBound
        simp only [List.length_nil, Nat.sub_zero, Nat.add_mul, Nat.mul_add]
        omega
      have := scanIncFile_no_fuel fs _ [] root 0 toks {} List.nodup_nil (by intro x hx; cases hx)
        (get?_mem_ids hroot) hb
      split
      · rename_i e he; intro h; apply this; rw [he]; injection h with h; rw [h]
      · intro h; cases h

/-! ## (3) include cycles are rejected -/

/-- (3, general) a file that is scanned while it is on the include stack and that still has an INCLUDE token ahead
    never finishes successfully -/
theorem cycle_rejected (fs : FS) (fuel : Nat) (stack : List (Nat × Nat)) (cur pos : Nat) (toks : List FTok)
    (st r : PScan) (hs : stack.any (·.1 == cur) = true) (hi : ∃ f v, FTok.incl f v ∈ toks) :
    scanIncFile fs fuel stack cur pos toks st ≠ .ok r :=
  incl_on_stack_not_ok fs fuel stack cur pos toks st r hs hi

/-- (3) a root file that includes itself is never accepted -/
theorem self_include_rejected (fs : FS) (root : Nat) (pre post : List FTok)
    (hroot : fs.get? root = some (.file (pre ++ FTok.incl root true :: post))) :
    ∀ res, scanProject fs root ≠ .ok res := by
  intro res h
  unfold scanProject at h
  rw [hroot] at h
  simp only [] at h
  split at h
  · cases h
  · rename_i st hst
    obtain ⟨fuel', pos', st', h'⟩ := ok_suffix fs [] root _ st pre _ 0 {} hst
    obtain ⟨n, body, stf, st'', _, _, _, hg, _, hin, _⟩ := incl_head_ok fs fuel' [] root pos' root true post st' st h'
    rw [hroot] at hg
    cases hg
    refine incl_on_stack_not_ok fs n [(root, pos')] root 0 _ stf st'' (by simp) ⟨root, true, ?_⟩ hin
    simp

/-- (3, the error) if the self-INCLUDE is the first token of the root file, the diagnostic is `recursion` at that
    token (found when the file is entered the second time) -/
theorem self_include_first (fs : FS) (root : Nat) (post : List FTok)
    (hroot : fs.get? root = some (.file (FTok.incl root true :: post))) :
    scanProject fs root = .error (.inc (.recursion root 0)) := by
  unfold scanProject
  rw [hroot]
  simp only []
  have : (fs.length + 2) * (fsSize fs + 2) + 2 = ((fs.length + 2) * (fsSize fs + 2)) + 1 + 1 := rfl
  have hfl : flushPending {} = .ok {} := rfl
  rw [this, scanIncFile_incl_file_ok fs _ [] root 0 root post _ {} {} hroot rfl hfl,
    scanIncFile_incl_ok fs _ [(root, 0)] root 0 root true post {} {} hfl, hroot]
  simp

/-! ## (7) recorded traces -/

/-- (7) if the project is accepted, every recorded trace `(id, tr)` is the include stack that was live when the
    directive was read: `tr` is a live stack of a file `cur` that is NOT on `tr` (no activation chain contains a file
    twice), the directive is a token of `cur`, the file ids on `tr` are pairwise distinct, `tr` is no deeper than the
    number of files and ends at the root -/
theorem traces_live (fs : FS) (root : Nat) (forest : List Tree) (traces : List (Nat × List (Nat × Nat)))
    (h : scanProject fs root = .ok (forest, traces)) :
    ∀ e ∈ traces, ∃ (cur : Nat) (all : List FTok) (p : Nat) (d : Dir),
      Live fs root e.2 cur ∧ (cur :: e.2.map (·.1)).Nodup ∧
      fs.get? cur = some (.file all) ∧ all[p]? = some (FTok.dir d) ∧ d.id = e.1 ∧
      e.2.length ≤ fs.length ∧ (∀ x, e.2.getLast? = some x → x.1 = root) := by
  unfold scanProject at h
  cases hroot : fs.get? root with
  | none => rw [hroot] at h; cases h
  | some en =>
    cases en with
    | directory => rw [hroot] at h; cases h
    | file toks =>
      rw [hroot] at h
      simp only [] at h
      split at h
      · cases h
      · rename_i st hst
        cases h
        intro e he
        obtain ⟨cur, all, p, d, hl, hnot, hc, hp, hid⟩ :=
          scanIncFile_traces fs root _ [] root 0 toks {} toks st Live.root hroot (by simp)
            (by intro hs; cases hs) (by intro e he; cases he) hst e he
        exact ⟨cur, all, p, d, hl, List.nodup_cons.mpr ⟨hnot, hl.nodup⟩, hc, hp, hid, hl.length_le, hl.bottom⟩

/-! ## (6) textual inclusion

`view r` (Proofs) is what two runs are compared by: for `.ok st` the pair `(st.ctx, st.pending)` (hence the forest
`closeAll …`), for `.error e` the error with its position set to 0 (file id and kind are kept). Positions and
traces differ between the two runs. The two runs may use different amounts of fuel, as long as neither runs out. -/

/-- (6) TEXTUAL INCLUSION, without exception: let `f` be a regular file whose tokens `body` contain no INCLUDE and no
    JSIGHT, and let the including file `cur` not be on the stack. From the same state, the scan of
    `pre ++ incl f :: post` (cut) and the scan of `pre ++ body ++ post` (spliced) end alike — the same context and
    pending directive (hence the same forest), or the same error up to its position (`view`): AN INCLUDED FILE BEHAVES
    EXACTLY AS ITS TEXT WRITTEN IN PLACE OF THE INCLUDE.
    RESTATED (stronger) after the repair of `processEOF`: before, the statement had the alternative "… or the cut run
    is exactly `.error (.ctx .unclosedAtEOF)`", because the unclosed-parenthesis check was made at the end of every
    file, so that an included file could neither end inside a parenthesis of its own nor be included inside a
    parenthesis of the including file.  Now the check is made at the end of the root file only (`stack = []`), the
    included file is scanned below the non-empty stack `(cur, pos) :: stack`, and the alternative is gone.
    What is still done at the end of the included file is the placement of its last directive (`processEOF` →
    `processCurrentDirective`); that makes no difference to the result: in the spliced run the same directive is placed
    at the very next step (the next keyword, ")", INCLUDE, or the end of the file), before anything else is looked
    at, with the same outcome — the same context error, or the same context afterwards (`scanIncFile_flush`,
    `pending_error_first`).  The residual differences are only those that `view` erases: the positions inside
    diagnostics about INCLUDEs / JSIGHT (token indices of `post` shift by `body.length - 1`) and the recorded include
    traces of the directives of `body` (`(cur, pos) :: stack` against `stack`).
    (History: before the repair F42 the exception was "unless the cut run ends in a context error".) -/
theorem include_is_textual (fs : FS) (stack : List (Nat × Nat)) (cur pos f : Nat) (pre body post : List FTok)
    (st : PScan) (hf : fs.get? f = some (.file body)) (hincl : ∀ g v, FTok.incl g v ∉ body)
    (hjs : ∀ d, FTok.dir d ∈ body → d.kind ≠ Kind.Jsight) (hs : stack.any (·.1 == cur) = false) (n1 n2 : Nat)
    (h1 : scanIncFile fs n1 stack cur pos (pre ++ FTok.incl f true :: post) st ≠ .error (.inc .fuel))
    (h2 : scanIncFile fs n2 stack cur pos (pre ++ (body ++ post)) st ≠ .error (.inc .fuel)) :
    view (scanIncFile fs n1 stack cur pos (pre ++ FTok.incl f true :: post) st) =
      view (scanIncFile fs n2 stack cur pos (pre ++ (body ++ post)) st) := by
  refine prefix_lift fs stack cur pre (FTok.incl f true :: post) (body ++ post)
    (fun a b => view a = view b) (fun e => rfl) ?_ n1 n2 pos st h1 h2
  intro m p st1 g1 g2
  exact textual_at fs stack cur p f body post st1 hf hincl hjs hs m m g1 g2

/-- (6, errors) every error of the cut run is the error of the spliced run, up to its position; in particular a
    context error about a misplaced directive — and `unclosedAtEOF` at the end of the root file — is the same in both
    runs.  RESTATED (stronger) after the repair of `processEOF`: the hypothesis `e ≠ .ctx .unclosedAtEOF` is gone. -/
theorem include_is_textual_error (fs : FS) (stack : List (Nat × Nat)) (cur pos f : Nat) (pre body post : List FTok)
    (st : PScan) (hf : fs.get? f = some (.file body)) (hincl : ∀ g v, FTok.incl g v ∉ body)
    (hjs : ∀ d, FTok.dir d ∈ body → d.kind ≠ Kind.Jsight) (hs : stack.any (·.1 == cur) = false) (n1 n2 : Nat)
    (e : ProjErr) (h1 : scanIncFile fs n1 stack cur pos (pre ++ FTok.incl f true :: post) st = .error e)
    (he : e ≠ .inc .fuel)
    (h2 : scanIncFile fs n2 stack cur pos (pre ++ (body ++ post)) st ≠ .error (.inc .fuel)) :
    ∃ e', scanIncFile fs n2 stack cur pos (pre ++ (body ++ post)) st = .error e' ∧ erasePos e' = erasePos e := by
  have h1' : scanIncFile fs n1 stack cur pos (pre ++ FTok.incl f true :: post) st ≠ .error (.inc .fuel) := by
    rw [h1]; intro h; injection h with h; exact he h
  have h := include_is_textual fs stack cur pos f pre body post st hf hincl hjs hs n1 n2 h1' h2
  rw [h1] at h
  cases hr : scanIncFile fs n2 stack cur pos (pre ++ (body ++ post)) st with
  | ok r' => rw [hr] at h; simp [view] at h
  | error e' =>
    rw [hr] at h
    simp only [view, Except.error.injEq] at h
    exact ⟨e', rfl, h.symm⟩

/-- (6, cut ⇒ spliced) if the project with the INCLUDE is accepted, so is the spliced text, with the same context,
    pending directive and forest -/
theorem include_is_textual_ok (fs : FS) (stack : List (Nat × Nat)) (cur pos f : Nat) (pre body post : List FTok)
    (st r : PScan) (hf : fs.get? f = some (.file body)) (hincl : ∀ g v, FTok.incl g v ∉ body)
    (hjs : ∀ d, FTok.dir d ∈ body → d.kind ≠ Kind.Jsight) (hs : stack.any (·.1 == cur) = false) (n1 n2 : Nat)
    (h1 : scanIncFile fs n1 stack cur pos (pre ++ FTok.incl f true :: post) st = .ok r)
    (h2 : scanIncFile fs n2 stack cur pos (pre ++ (body ++ post)) st ≠ .error (.inc .fuel)) :
    ∃ r', scanIncFile fs n2 stack cur pos (pre ++ (body ++ post)) st = .ok r' ∧ r'.ctx = r.ctx ∧
      r'.pending = r.pending ∧ closeAll r'.ctx.frames r'.ctx.roots = closeAll r.ctx.frames r.ctx.roots := by
  have h1' : scanIncFile fs n1 stack cur pos (pre ++ FTok.incl f true :: post) st ≠ .error (.inc .fuel) := by
    rw [h1]; intro h; cases h
  have h := include_is_textual fs stack cur pos f pre body post st hf hincl hjs hs n1 n2 h1' h2
  rw [h1] at h
  cases hr : scanIncFile fs n2 stack cur pos (pre ++ (body ++ post)) st with
  | error e => rw [hr] at h; simp [view] at h
  | ok r' =>
    rw [hr] at h
    simp only [view, Except.ok.injEq, Prod.mk.injEq] at h
    exact ⟨r', rfl, h.1.symm, h.2.symm, by rw [h.1]⟩

/-- (6, spliced ⇒ cut) if the spliced text is accepted, the project with the INCLUDE is accepted with the same
    context, pending directive and forest.  RESTATED (stronger) after the repair of `processEOF`: the alternative
    "or it is refused with `unclosedAtEOF`" (the included file had to end outside every parenthesised context) is
    gone — cutting a piece without INCLUDE and JSIGHT out of an accepted file into a file of its own, at ANY place,
    gives an accepted project. -/
theorem include_is_textual_conv (fs : FS) (stack : List (Nat × Nat)) (cur pos f : Nat) (pre body post : List FTok)
    (st r' : PScan) (hf : fs.get? f = some (.file body)) (hincl : ∀ g v, FTok.incl g v ∉ body)
    (hjs : ∀ d, FTok.dir d ∈ body → d.kind ≠ Kind.Jsight) (hs : stack.any (·.1 == cur) = false) (n1 n2 : Nat)
    (h1 : scanIncFile fs n1 stack cur pos (pre ++ FTok.incl f true :: post) st ≠ .error (.inc .fuel))
    (h2 : scanIncFile fs n2 stack cur pos (pre ++ (body ++ post)) st = .ok r') :
    ∃ r, scanIncFile fs n1 stack cur pos (pre ++ FTok.incl f true :: post) st = .ok r ∧ r.ctx = r'.ctx ∧
      r.pending = r'.pending ∧ closeAll r.ctx.frames r.ctx.roots = closeAll r'.ctx.frames r'.ctx.roots := by
  have h2' : scanIncFile fs n2 stack cur pos (pre ++ (body ++ post)) st ≠ .error (.inc .fuel) := by
    rw [h2]; intro h; cases h
  have h := include_is_textual fs stack cur pos f pre body post st hf hincl hjs hs n1 n2 h1 h2'
  rw [h2] at h
  cases hc : scanIncFile fs n1 stack cur pos (pre ++ FTok.incl f true :: post) st with
  | error e => rw [hc] at h; simp [view] at h
  | ok r =>
    rw [hc] at h
    simp only [view, Except.ok.injEq, Prod.mk.injEq] at h
    exact ⟨r, rfl, h.1, h.2, by rw [h.1]⟩

/-! ## Non-vacuity checks -/

local instance : DecidableEq Tree := decTree
local instance {ε α : Type} [DecidableEq ε] [DecidableEq α] : DecidableEq (Except ε α) := decExcept

private def jsightD : Dir := { kind := .Jsight, id := 1 }
private def urlD : Dir := { kind := .URL, id := 2 }
private def getA : Dir := { kind := .Get, id := 3 }
private def getB : Dir := { kind := .Get, id := 4 }
private def tyD : Dir := { kind := .Type, id := 5 }
private def urlX : Dir := { kind := .URL, id := 6, explicit := true }

/-- a 3-file project: file 0 includes file 1 (under the URL), which includes file 2; the children of the implicitly
    nested URL come from three files; every directive carries its include trace -/
example :
    scanProject [(0, .file [.dir jsightD, .dir urlD, .incl 1, .dir tyD]),
                 (1, .file [.dir getA, .incl 2]),
                 (2, .file [.dir getB])] 0
      = .ok ([.node jsightD [], .node urlD [.node getA [], .node getB []], .node tyD []],
             [(1, []), (2, []), (3, [(0, 2)]), (4, [(1, 1), (0, 2)]), (5, [])]) := by decide +kernel

/-- a 2-cycle is rejected with `recursion`, at the second INCLUDE of file 0 (position 1), when file 0 is entered again -/
example :
    scanProject [(0, .file [.dir urlD, .incl 1]), (1, .file [.dir getA, .incl 0])] 0
      = .error (.inc (.recursion 0 1)) := by decide +kernel

/-- JSIGHT in an included file -/
example :
    scanProject [(0, .file [.dir urlD, .incl 1]), (1, .file [.dir jsightD])] 0
      = .error (.inc (.jsightInIncluded 1 0)) := by decide +kernel

/-- a root file that starts with JSIGHT and includes itself: the JSIGHT error wins over `recursion`
    (the prefix is scanned a second time, as an included file) -/
example :
    scanProject [(0, .file [.dir jsightD, .incl 0])] 0 = .error (.inc (.jsightInIncluded 0 0)) := by decide +kernel

/-- missing file, directory, refused name -/
example : scanProject [(0, .file [.dir urlD, .incl 7])] 0 = .error (.inc (.missing 0 1)) := by decide +kernel
example : scanProject [(0, .file [.dir urlD, .incl 1]), (1, .directory)] 0 = .error (.inc (.isDirectory 0 1)) := by
  decide +kernel
example : scanProject [(0, .file [.dir urlD, .incl 1 false]), (1, .file [])] 0 = .error (.inc (.badName 0 1)) := by
  decide +kernel
/-- the pending directive (a Get at top level would be placed; a Body is misplaced) is placed BEFORE the INCLUDE is
    examined (repair F42): its context error wins over the INCLUDE error -/
example : scanProject [(0, .file [.dir { kind := .Body, id := 9 }, .incl 7])] 0
    = .error (.ctx (.incorrectContext 9)) := by decide +kernel
/-- … also when the INCLUDE names an existing file: the included file is not entered with the directive unplaced
    (before the repair the JSIGHT of file 1 was reported, below the stack of file 1) -/
example : scanProject [(0, .file [.dir { kind := .Body, id := 9 }, .incl 1]), (1, .file [.dir jsightD])] 0
    = .error (.ctx (.incorrectContext 9)) := by decide +kernel

/-- the former exception of `include_is_textual` (before the repair of `processEOF`: `unclosedAtEOF` at the end of
    file 1): an included file may leave a parenthesised context open, the including file closes it — cut and spliced
    give the same forest -/
example : scanProject [(0, .file [.incl 1, .dir getA, .close]), (1, .file [.dir urlX])] 0
    = .ok ([.node urlX [.node getA []]], [(6, [(0, 0)]), (3, [])]) := by decide +kernel
example : scanProject [(0, .file [.dir urlX, .dir getA, .close])] 0
    = .ok ([.node urlX [.node getA []]], [(6, []), (3, [])]) := by decide +kernel
/-- `URL /a⏎(⏎  INCLUDE inc⏎)`: the root opens a parenthesis, INCLUDEs a file with a child directive, and closes the
    parenthesis after the INCLUDE: ACCEPTED (before the repair of `processEOF`: `unclosedAtEOF` at the end of file 1) -/
example : scanProject [(0, .file [.dir jsightD, .dir urlX, .incl 1, .close]), (1, .file [.dir getA])] 0
    = .ok ([.node jsightD [], .node urlX [.node getA []]], [(1, []), (6, []), (3, [(0, 2)])]) := by decide +kernel
/-- … also two files deep, the innermost file being empty -/
example : scanProject [(0, .file [.dir urlX, .incl 1, .close]), (1, .file [.dir getA, .incl 2]), (2, .file [])] 0
    = .ok ([.node urlX [.node getA []]], [(6, []), (3, [(0, 1)])]) := by decide +kernel
/-- a parenthesis left open at the end of the ROOT file is still rejected — whether it was opened in the root file … -/
example : scanProject [(0, .file [.dir jsightD, .dir urlX, .incl 1]), (1, .file [.dir getA])] 0
    = .error (.ctx .unclosedAtEOF) := by decide +kernel
example : scanProject [(0, .file [.dir urlX, .dir getA])] 0 = .error (.ctx .unclosedAtEOF) := by decide +kernel
/-- … or in an included file (reported at the end of the root file, as for the spliced text) -/
example : scanProject [(0, .file [.incl 1, .dir getA]), (1, .file [.dir urlX])] 0
    = .error (.ctx .unclosedAtEOF) := by decide +kernel

/-- textual inclusion at the end of the included file: the misplaced Body ends the included file and is placed there
    (context error); in the spliced text the following INCLUDE places it as well (before the repair F42 the INCLUDE
    failed first, with `missing`) -/
example : scanProject [(0, .file [.incl 1, .incl 7]), (1, .file [.dir { kind := .Body, id := 9 }])] 0
    = .error (.ctx (.incorrectContext 9)) := by decide +kernel
example : scanProject [(0, .file [.dir { kind := .Body, id := 9 }, .incl 7])] 0
    = .error (.ctx (.incorrectContext 9)) := by decide +kernel
/-- textual inclusion: the children of the implicitly nested URL, cut and spliced -/
example : (scanProject [(0, .file [.dir urlD, .incl 1, .dir tyD]), (1, .file [.dir getA, .dir getB])] 0).map (·.1)
    = (scanProject [(0, .file [.dir urlD, .dir getA, .dir getB, .dir tyD])] 0).map (·.1) := by decide +kernel

end JSight.C08
