import JSight.Model.Build
import JSight.Proofs.BuildFaith
import JSight.Proofs.BuildLocated
/-!
C02 / C11 on the catalog-construction model (`Model/Build.lean`): every diagnostic is located at a directive of
the document, one step's diagnostic is located at the directive being added (three exceptions, listed
completely), and a duplicate TYPE / SERVER is reported at the SECOND occurrence.

`flatF` (the directives of a forest in source order), `flatAF` (the same, each with the children and the ancestors
`addDirective` reads), `step` and `run` (the catalog construction as a left fold of `addDirective` over
`flatAF [] f`, see `addForest_eq_run`) are defined in `Proofs/BuildFaith.lean`.
-/
namespace JSight.C02L
open JSight JSight.Build JSight.Gen JSight.C04B

/-! ## (1) every diagnostic names a directive of the document -/

/-- whatever stage of `compile` raises the diagnostic — `collectTags`, `checkTypeNames`, `pathsForest`, the
JSIGHT-first check, a step of `addForest`, or one of the three `validate…` stages (whose diagnostics carry an id
stored in the catalog) —, its id is the id of a directive of the forest -/
theorem compile_error_located (banned : List Kind) (f : List BTree) (e : BErr)
    (h : compile banned f = .error e) : ∃ d ∈ flatF f, d.id = e.id :=
  compile_located h

/-- the invariant behind the `validate…` stages: every id stored in the catalog (`InfoM.id`, `ReqM.id`,
`RespM.id`) is the id of a directive of the forest -/
theorem catalog_ids_located {banned : List Kind} {f : List BTree} {c₀ c : Cat}
    (h0 : collectTags f {} = .ok c₀) (hr : run banned (flatAF [] f) c₀ = .ok c) :
    (∀ i, c.info = some i → ∃ d ∈ flatF f, d.id = i.id) ∧
    (∀ x ∈ c.inters, (∀ q, x.request = some q → ∃ d ∈ flatF f, d.id = q.id) ∧
      ∀ r ∈ x.responses, ∃ d ∈ flatF f, d.id = r.id) := by
  have hc : IdsIn (fun n => ∃ d ∈ flatF f, d.id = n) c :=
    run_ids _ (fun en hen => ⟨en.d, (flatAF_within [] f en hen).1, rfl⟩)
      (by rw [collectTags_empty h0]; exact IdsIn.empty _) hr
  exact ⟨hc.info, hc.inters⟩

/-! ## (2) the diagnostic of one step is located at the directive being added — three exceptions -/

/-- The complete list of exceptions:
* `Body` whose parent (not a MACRO) carries named parameters: located at the PARENT, `parentParameters`;
* `URL` whose children mix HTTP and JSON-RPC directives: located at the first CHILD of the other family,
  `mixedUrlChildren`;
* an HTTP method or JSON-RPC `Method` whose tags come from a faulty `Tags` directive — its own child, or, when it
  has none and its parent is a URL, a child of that URL —: located at that `Tags` directive, `tagNotFound`,
  `annotationForbidden` or `required ""`. -/
theorem addDirective_error_located {banned : List Kind} {d : BDir} {kids : List BDir} {anc : List Up} {c : Cat}
    {e : BErr} (h : addDirective banned d kids anc c = .error e) :
    e.id = d.id
    ∨ (d.kind = .Body ∧ ∃ p r, anc = p :: r ∧ p.d.named ≠ [] ∧ p.d.kind ≠ .Macro ∧
        e.id = p.d.id ∧ e.msg = .parentParameters)
    ∨ (d.kind = .URL ∧ ∃ k ∈ kids, k.kind ≠ .Tags ∧ e.id = k.id ∧ e.msg = .mixedUrlChildren)
    ∨ ((isHTTP d.kind = true ∨ d.kind = .Method) ∧
        ∃ td, td.kind = .Tags ∧ (td ∈ kids ∨ ∃ p r, anc = p :: r ∧ p.d.kind = .URL ∧ td ∈ p.kids) ∧
          e.id = td.id ∧ (e.msg = .tagNotFound ∨ e.msg = .annotationForbidden ∨ e.msg = .required "")) :=
  addDirective_loc banned d kids anc c e h

/-- every handler but those of `Body`, `URL` and the method directives locates its diagnostics at its directive -/
theorem addDirective_error_at_directive {banned : List Kind} {d : BDir} {kids : List BDir} {anc : List Up}
    {c : Cat} {e : BErr} (h : addDirective banned d kids anc c = .error e)
    (hk : d.kind ≠ .Body ∧ d.kind ≠ .URL ∧ isHTTP d.kind = false ∧ d.kind ≠ .Method) : e.id = d.id := by
  rcases addDirective_error_located h with h | ⟨hb, _⟩ | ⟨hu, _⟩ | ⟨hm | hm, _⟩
  · exact h
  · exact absurd hb hk.1
  · exact absurd hu hk.2.1
  · rw [hk.2.2.1] at hm; cases hm
  · exact absurd hm hk.2.2.2

/-- in a forest, the directive next to the one being added is a directive of the forest too: the diagnostic of
a failing step of the fold is located in the document -/
theorem step_error_located {banned : List Kind} {f : List BTree} {en : Ent} {c : Cat} {e : BErr}
    (hen : en ∈ flatAF [] f) (h : step banned en c = .error e) : ∃ d ∈ flatF f, d.id = e.id :=
  step_error_within (flatAF_within [] f en hen) h

/-! ## (3) duplicates are reported at the second occurrence

`i < j` are positions of `flatAF [] f`; the entries before position `j` are processed without error (`hpre`);
the stages before the fold pass (`h0`–`h3`).  Restated for F76: the state of the Path stage in `h2` is a list
(`x : List Nat`, initial state `[]`; it was `Option Nat`, `none`). -/

theorem dup_type_located {banned : List Kind} {f : List BTree} {c₀ c : Cat} {x : List Nat} {i j : Nat}
    {e₁ e₂ : Ent}
    (h0 : collectTags f {} = .ok c₀) (h1 : checkTypeNames f = .ok ()) (h2 : pathsForest [] f [] = .ok x)
    (h3 : ∀ t r, f = t :: r → t.dir.kind = .Jsight)
    (hij : i < j) (he₁ : (flatAF [] f)[i]? = some e₁) (he₂ : (flatAF [] f)[j]? = some e₂)
    (k₁ : e₁.d.kind = .Type) (k₂ : e₂.d.kind = .Type) (hn : e₁.d.param "Name" = e₂.d.param "Name")
    (hpre : run banned ((flatAF [] f).take j) c₀ = .ok c) :
    compile banned f = .error ⟨e₂.d.id, .duplicateNames⟩ :=
  compile_run_error h0 h1 h2 h3 (dup_type_run hij he₁ he₂ k₁ k₂ hn hpre)

theorem dup_server_located {banned : List Kind} {f : List BTree} {c₀ c : Cat} {x : List Nat} {i j : Nat}
    {e₁ e₂ : Ent}
    (h0 : collectTags f {} = .ok c₀) (h1 : checkTypeNames f = .ok ()) (h2 : pathsForest [] f [] = .ok x)
    (h3 : ∀ t r, f = t :: r → t.dir.kind = .Jsight)
    (hij : i < j) (he₁ : (flatAF [] f)[i]? = some e₁) (he₂ : (flatAF [] f)[j]? = some e₂)
    (k₁ : e₁.d.kind = .Server) (k₂ : e₂.d.kind = .Server) (hn : e₁.d.param "Name" = e₂.d.param "Name")
    (hpre : run banned ((flatAF [] f).take j) c₀ = .ok c) :
    compile banned f = .error ⟨e₂.d.id, .duplicateNames⟩ :=
  compile_run_error h0 h1 h2 h3 (dup_server_run hij he₁ he₂ k₁ k₂ hn hpre)

/-- the fold-level statement: whatever the initial catalog, the run fails at the second occurrence -/
theorem dup_type_located_run {banned : List Kind} {l : List Ent} {c₀ c : Cat} {i j : Nat} {e₁ e₂ : Ent}
    (hij : i < j) (he₁ : l[i]? = some e₁) (he₂ : l[j]? = some e₂) (k₁ : e₁.d.kind = .Type)
    (k₂ : e₂.d.kind = .Type) (hn : e₁.d.param "Name" = e₂.d.param "Name")
    (hpre : run banned (l.take j) c₀ = .ok c) : run banned l c₀ = .error ⟨e₂.d.id, .duplicateNames⟩ :=
  dup_type_run hij he₁ he₂ k₁ k₂ hn hpre

theorem dup_server_located_run {banned : List Kind} {l : List Ent} {c₀ c : Cat} {i j : Nat} {e₁ e₂ : Ent}
    (hij : i < j) (he₁ : l[i]? = some e₁) (he₂ : l[j]? = some e₂) (k₁ : e₁.d.kind = .Server)
    (k₂ : e₂.d.kind = .Server) (hn : e₁.d.param "Name" = e₂.d.param "Name")
    (hpre : run banned (l.take j) c₀ = .ok c) : run banned l c₀ = .error ⟨e₂.d.id, .duplicateNames⟩ :=
  dup_server_run hij he₁ he₂ k₁ k₂ hn hpre

/-! ## concrete checks -/

instance {ε α : Type} [DecidableEq ε] [DecidableEq α] : DecidableEq (Except ε α) := fun a b =>
  match a, b with
  | .ok x, .ok y => if h : x = y then isTrue (h ▸ rfl) else isFalse (fun h' => by cases h'; exact h rfl)
  | .error x, .error y => if h : x = y then isTrue (h ▸ rfl) else isFalse (fun h' => by cases h'; exact h rfl)
  | .ok _, .error _ => isFalse (fun h => by cases h)
  | .error _, .ok _ => isFalse (fun h => by cases h)

/-- JSIGHT 0.3 -/
def exJ : BTree := .node { kind := .Jsight, id := 1, named := [("Version", [48, 46, 51])] } []
/-- TYPE <name> {} -/
def exTy (id : Nat) (n : Bytes) : BTree :=
  .node { kind := .Type, id := id, named := [("Name", n)], body := some [123, 125] } []
/-- SERVER <name> -/
def exSrv (id : Nat) (n : Bytes) : BTree := .node { kind := .Server, id := id, named := [("Name", n)] } []

/-- JSIGHT, TYPE @a, TYPE @b, TYPE @a, TYPE @a: reported at the first repetition (id 4), not at the later one -/
def exDupT : List BTree := [exJ, exTy 2 [64, 97], exTy 3 [64, 98], exTy 4 [64, 97], exTy 5 [64, 97]]
def exDupTPre : Cat := match run [] ((flatAF [] exDupT).take 3) {} with | .ok c => c | .error _ => {}

example : compile [] exDupT = .error ⟨4, .duplicateNames⟩ :=
  dup_type_located (i := 1) (j := 3) (c₀ := {}) (c := exDupTPre) (x := []) (e₁ := ⟨(exTy 2 [64, 97]).dir, [], []⟩)
    (e₂ := ⟨(exTy 4 [64, 97]).dir, [], []⟩) (by decide +kernel) (by decide +kernel) (by decide +kernel)
    (by intro t r h; cases h; rfl) (by decide) rfl rfl rfl rfl rfl (by decide +kernel)
example : compile [] exDupT = .error ⟨4, .duplicateNames⟩ := by decide +kernel

/-- JSIGHT, SERVER @s, TYPE @a, SERVER @s -/
def exDupS : List BTree := [exJ, exSrv 2 [64, 115], exTy 3 [64, 97], exSrv 4 [64, 115]]
def exDupSPre : Cat := match run [] ((flatAF [] exDupS).take 3) {} with | .ok c => c | .error _ => {}

example : compile [] exDupS = .error ⟨4, .duplicateNames⟩ :=
  dup_server_located (i := 1) (j := 3) (c₀ := {}) (c := exDupSPre) (x := []) (e₁ := ⟨(exSrv 2 [64, 115]).dir, [], []⟩)
    (e₂ := ⟨(exSrv 4 [64, 115]).dir, [], []⟩) (by decide +kernel) (by decide +kernel) (by decide +kernel)
    (by intro t r h; cases h; rfl) (by decide) rfl rfl rfl rfl rfl (by decide +kernel)

/-- the three exceptions of (2) occur.  URL /a (2): GET (3) [200 [] (4)], Protocol (5) — mixed children: the
diagnostic of the URL step is located at the Protocol child -/
def exMixed : List BTree := [exJ,
  .node { kind := .URL, id := 2, named := [("Path", [47, 97])] } [
    .node { kind := .Get, id := 3 } [.node { kind := .HTTPResponseCode, id := 4, keyword := [50, 48, 48], body := some [91, 93] } []],
    .node { kind := .Protocol, id := 5, named := [("ProtocolName", jsonRpc20)] } []]]
example : compile [] exMixed = .error ⟨5, .mixedUrlChildren⟩ := by decide +kernel
example : ∃ d ∈ flatF exMixed, d.id = 5 :=
  compile_error_located [] exMixed ⟨5, .mixedUrlChildren⟩ (by decide +kernel)

/-- URL /a (2): POST (3) [Request (Type "@x") (4) [Body {} (5)]]: the diagnostic of the Body step is located at
the Request -/
def exParent : List BTree := [exJ,
  .node { kind := .URL, id := 2, named := [("Path", [47, 97])] } [
    .node { kind := .Post, id := 3 } [
      .node { kind := .Request, id := 4, named := [("Type", [64, 120])] } [
        .node { kind := .Body, id := 5, body := some [123, 125] } []]]]]
example : compile [] exParent = .error ⟨4, .parentParameters⟩ := by decide +kernel

/-- URL /a (2): GET (3) [200 [] (4)], Tags @x (5), no TAG @x: the diagnostic of the GET step is located at the
URL's Tags directive -/
def exTags : List BTree := [exJ,
  .node { kind := .URL, id := 2, named := [("Path", [47, 97])] } [
    .node { kind := .Get, id := 3 } [.node { kind := .HTTPResponseCode, id := 4, keyword := [50, 48, 48], body := some [91, 93] } []],
    .node { kind := .Tags, id := 5, unnamed := [[64, 120]] } []]]
example : compile [] exTags = .error ⟨5, .tagNotFound⟩ := by decide +kernel

/-- the `validate…` stages: INFO (2) without children; a response (4) without a body; a Request (4) without one -/
def exInfo : List BTree := [exJ, .node { kind := .Info, id := 2 } []]
example : compile [] exInfo = .error ⟨2, .emptyInfo⟩ := by decide +kernel
def exResp : List BTree := [exJ,
  .node { kind := .URL, id := 2, named := [("Path", [47, 97])] } [
    .node { kind := .Get, id := 3 } [.node { kind := .HTTPResponseCode, id := 4, keyword := [50, 48, 48] } []]]]
example : compile [] exResp = .error ⟨4, .undefinedResponseBody⟩ := by decide +kernel
def exReq : List BTree := [exJ,
  .node { kind := .URL, id := 2, named := [("Path", [47, 97])] } [
    .node { kind := .Post, id := 3 } [.node { kind := .Request, id := 4 } [],
      .node { kind := .HTTPResponseCode, id := 5, keyword := [50, 48, 48], body := some [91, 93] } []]]]
example : compile [] exReq = .error ⟨4, .undefinedRequestBody⟩ := by decide +kernel
example : ∃ d ∈ flatF exReq, d.id = 4 :=
  compile_error_located [] exReq ⟨4, .undefinedRequestBody⟩ (by decide +kernel)

end JSight.C02L
