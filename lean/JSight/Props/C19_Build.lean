import JSight.Model.Build
import JSight.Props.C19
import JSight.Proofs.C19Build
/-!
C19 — the tagging rule, on the catalog-construction model (`Model/Build.lean`, `tagsFor`):
own Tags directive, else the enclosing URL's Tags directive, else the one automatic tag of the path.
Property theorems only (helper lemmas: `JSight/Proofs/C19Build.lean`).

Reading guide: `http_method_tags` / `rpc_method_tags` say that an accepted method directive appends one
interaction `x` whose tags are the list `tagsFor` returns; `tagging_rule` (or, piecewise, `own_tags`,
`url_tags`, `auto_tag` with `tags_directive_spec`) says what that list is.  `second_tags_refused` /
`two_tags_never_accepted` (F72): the rule reads the FIRST Tags child of a context, and a second one is refused
(`notUnique`) instead of being validated and ignored.
-/
namespace JSight.C19B
open JSight JSight.Gen JSight.Build

/-- the URL-level Tags directive visible from a method: the first Tags child of the parent, when the parent is a URL -/
def urlTags : List Up → Option BDir
  | u :: _ => if u.d.kind == .URL then tagsChild u.kids else none
  | [] => none

/-- the automatic tag of a path: its name, and the catalog with that tag created (undeclared) when absent -/
def autoTag (c : Cat) (p : Bytes) : List Bytes × Cat :=
  match c.getTag (tagName (pathTagTitle p)) with
  | some _ => ([tagName (pathTagTitle p)], c)
  | none => ([tagName (pathTagTitle p)],
      { c with tags := c.tags ++ [{ name := tagName (pathTagTitle p), title := pathTagTitle p, declared := false }] })

/-- the whole rule in one equation -/
theorem tagsFor_eq (c : Cat) (kids : List BDir) (anc : List Up) (i : IId) :
    tagsFor c kids anc i =
      match tagsChild kids with
      | some td => (tagsFromDirective c td).map (fun ns => (ns, c))
      | none =>
        match urlTags anc with
        | some td => (tagsFromDirective c td).map (fun ns => (ns, c))
        | none => .ok (autoTag c i.path) := by
  unfold tagsFor
  cases tagsChild kids with
  | some td => exact bind_pure_eq_map _ _
  | none =>
    cases anc with
    | nil =>
      simp only [urlTags, autoTag]
      cases c.getTag (tagName (pathTagTitle i.path)) <;> rfl
    | cons u r =>
      simp only [urlTags, autoTag]
      generalize (if (u.d.kind == Kind.URL) = true then tagsChild u.kids else none) = o
      cases o with
      | some td => exact bind_pure_eq_map _ _
      | none => cases c.getTag (tagName (pathTagTitle i.path)) <;> rfl

/-- **own Tags win**: with a Tags child, the interaction carries exactly the names written there — each
must be declared by a TAG directive, the list must not be empty, and no annotation is allowed -/
theorem own_tags (c : Cat) (kids : List BDir) (anc : List Up) (i : IId) (td : BDir)
    (h : tagsChild kids = some td) :
    tagsFor c kids anc i = (tagsFromDirective c td).map (fun ns => (ns, c)) := by
  rw [tagsFor_eq, h]

/-- **else the URL's Tags** -/
theorem url_tags (c : Cat) (kids : List BDir) (anc : List Up) (i : IId) (td : BDir)
    (h : tagsChild kids = none) (hu : urlTags anc = some td) :
    tagsFor c kids anc i = (tagsFromDirective c td).map (fun ns => (ns, c)) := by
  rw [tagsFor_eq, h, hu]

/-- **else exactly one automatic tag**, named after the first segment of the path; it is created when the
catalog does not have a tag of that name yet, and the catalog is otherwise unchanged -/
theorem auto_tag (c : Cat) (kids : List BDir) (anc : List Up) (i : IId)
    (h : tagsChild kids = none) (hu : urlTags anc = none) :
    ∃ c', tagsFor c kids anc i = .ok ([tagName (pathTagTitle i.path)], c') ∧
      (c' = c ∨ c' = { c with tags := c.tags ++ [{ name := tagName (pathTagTitle i.path), title := pathTagTitle i.path, declared := false }] }) ∧
      (c'.getTag (tagName (pathTagTitle i.path))).isSome := by
  rw [tagsFor_eq, h, hu]
  simp only [autoTag]
  cases hg : c.getTag (tagName (pathTagTitle i.path)) with
  | some t => exact ⟨c, rfl, Or.inl rfl, by rw [hg]; rfl⟩
  | none =>
    refine ⟨_, rfl, Or.inr rfl, ?_⟩
    simp only [Cat.getTag] at hg ⊢
    rw [List.find?_append, hg]
    simp

/-- a Tags directive is accepted only when every name is DECLARED; then the names are exactly the ones written -/
theorem tags_directive_spec (c : Cat) (td : BDir) (ns : List Bytes) :
    tagsFromDirective c td = .ok ns ↔
      td.annot = [] ∧ td.unnamed ≠ [] ∧ ns = td.unnamed ∧
      ∀ n ∈ td.unnamed, ∃ t, c.getTag n = some t ∧ t.declared = true := by
  unfold tagsFromDirective fail
  constructor
  · intro h
    split at h
    · cases h
    · rename_i ha
      split at h
      · cases h
      · rename_i hu
        split at h
        · rename_i hall
          injection h with h
          refine ⟨by simpa using ha, by simpa using hu, h.symm, ?_⟩
          intro n hn
          have := (List.all_eq_true.mp hall) n hn
          cases hg : c.getTag n with
          | none => rw [hg] at this; cases this
          | some t => rw [hg] at this; exact ⟨t, rfl, this⟩
        · cases h
  · rintro ⟨ha, hu, rfl, hd⟩
    rw [if_neg (by simp [ha]), if_neg (by simpa using hu)]
    split
    · rfl
    · rename_i hall
      exfalso
      apply hall
      apply List.all_eq_true.mpr
      intro n hn
      obtain ⟨t, hg, ht⟩ := hd n hn
      simp only [hg]
      exact ht

/-- an undeclared name in a Tags directive is a diagnostic located at that directive -/
theorem undeclared_rejected (c : Cat) (td : BDir) (n : Bytes) (ha : td.annot = []) (hn : n ∈ td.unnamed)
    (hu : ∀ t, c.getTag n = some t → t.declared = false) :
    tagsFromDirective c td = .error ⟨td.id, .tagNotFound⟩ := by
  unfold tagsFromDirective fail
  have hne : ¬ td.unnamed.isEmpty = true := by
    intro h
    rw [List.isEmpty_iff] at h
    rw [h] at hn; cases hn
  rw [if_neg (by simp [ha]), if_neg hne]
  split
  · rename_i h
    exfalso
    have := (List.all_eq_true.mp h) n hn
    cases hg : c.getTag n with
    | none => rw [hg] at this; cases this
    | some t =>
      rw [hg] at this
      have ht : t.declared = true := this
      rw [hu t hg] at ht
      cases ht
  · rfl

/-- **the rule, read off an accepted result**: the names come from the method's own Tags directive, else from the
URL's, and are all declared; else the list is the single automatic tag of the path -/
theorem tagging_rule (c c1 : Cat) (kids : List BDir) (anc : List Up) (i : IId) (ns : List Bytes)
    (h : tagsFor c kids anc i = .ok (ns, c1)) :
    (∃ td, (tagsChild kids = some td ∨ (tagsChild kids = none ∧ urlTags anc = some td)) ∧
        c1 = c ∧ ns = td.unnamed ∧ ns ≠ [] ∧ ∀ n ∈ ns, ∃ t, c.getTag n = some t ∧ t.declared = true) ∨
    (tagsChild kids = none ∧ urlTags anc = none ∧ ns = [tagName (pathTagTitle i.path)] ∧
        (c1.getTag (tagName (pathTagTitle i.path))).isSome ∧
        (c1 = c ∨ c1 = { c with tags := c.tags ++ [{ name := tagName (pathTagTitle i.path), title := pathTagTitle i.path, declared := false }] })) := by
  have fromDir : ∀ td, (tagsFromDirective c td).map (fun ns => (ns, c)) = .ok (ns, c1) →
      c1 = c ∧ ns = td.unnamed ∧ ns ≠ [] ∧ ∀ n ∈ ns, ∃ t, c.getTag n = some t ∧ t.declared = true := by
    intro td h
    obtain ⟨ns', h1, h2⟩ := map_ok _ _ _ h
    injection h2 with e1 e2
    subst e1 e2
    obtain ⟨_, hne, rfl, hd⟩ := (tags_directive_spec c td ns').mp h1
    exact ⟨rfl, rfl, hne, hd⟩
  cases hk : tagsChild kids with
  | some td =>
    rw [own_tags c kids anc i td hk] at h
    exact Or.inl ⟨td, Or.inl rfl, fromDir td h⟩
  | none =>
    cases hu : urlTags anc with
    | some td =>
      rw [url_tags c kids anc i td hk hu] at h
      exact Or.inl ⟨td, Or.inr ⟨rfl, rfl⟩, fromDir td h⟩
    | none =>
      obtain ⟨c', h1, h2, h3⟩ := auto_tag c kids anc i hk hu
      rw [h1] at h
      injection h with h
      injection h with e1 e2
      subst e1 e2
      exact Or.inr ⟨rfl, rfl, rfl, h3, h2⟩

/-- an interaction never ends up without a tag -/
theorem tagsFor_nonempty (c c1 : Cat) (kids : List BDir) (anc : List Up) (i : IId) (ns : List Bytes)
    (h : tagsFor c kids anc i = .ok (ns, c1)) : ns ≠ [] := by
  rcases tagging_rule c c1 kids anc i ns h with ⟨_, _, _, _, hne, _⟩ | ⟨_, _, rfl, _⟩
  · exact hne
  · simp

/-- computing the tags leaves the interactions of the catalog alone -/
theorem tagsFor_inters (c c1 : Cat) (kids : List BDir) (anc : List Up) (i : IId) (ns : List Bytes)
    (h : tagsFor c kids anc i = .ok (ns, c1)) : c1.inters = c.inters := by
  rcases tagging_rule c c1 kids anc i ns h with ⟨_, _, rfl, _⟩ | ⟨_, _, _, _, rfl | rfl⟩ <;> rfl

/-- **an HTTP method directive** (GET, POST, …) that is accepted appends exactly one interaction `x`: its id is
the one of the directive (`httpIdOf`), its annotation the directive's, and its tags are exactly the list
`tagsFor` returns for the catalog at that point (`c` with the similar-paths table updated: same tags, same
interactions) — see `tagging_rule`.  Every tag named receives the id (`attachAll`). -/
theorem http_method_tags (d : BDir) (kids : List BDir) (anc : List Up) (c c' : Cat)
    (h : addHTTPMethod d kids anc c = .ok c') :
    ∃ x sim c1,
      c'.inters = c.inters ++ [x] ∧ x.annot = d.annot ∧
      httpIdOf (d :: anc.map (·.d)) = .ok x.iid ∧
      tagsFor { c with similar := sim } kids anc x.iid = .ok (x.tags, c1) ∧
      c'.tags = (attachAll c1 x.iid x.tags).tags := by
  unfold addHTTPMethod at h
  simp only [bind, Except.bind] at h
  split at h
  · cases h
  · split at h
    · cases h
    · split at h
      · cases h
      · rename_i sim hs
        split at h
        · cases h
        · rename_i i hi
          split at h
          · cases h
          · split at h
            · cases h
            · rename_i r hr
              obtain ⟨ns, c1⟩ := r
              simp only [pure, Except.pure] at h
              injection h with h
              subst h
              refine ⟨{ iid := i, annot := d.annot, tags := ns }, sim, c1, ?_, rfl, liftAt_ok _ _ _ hi, hr, rfl⟩
              show (attachAll c1 i ns).inters ++ _ = _
              rw [attachAll_inters, tagsFor_inters _ _ _ _ _ _ hr]

/-- **a JSON-RPC Method directive**: the same, with the JSON-RPC id and the catalog `c` itself -/
theorem rpc_method_tags (d : BDir) (kids : List BDir) (anc : List Up) (c c' : Cat)
    (h : addJsonRpcMethod d kids anc c = .ok c') :
    ∃ x c1,
      c'.inters = c.inters ++ [x] ∧ x.annot = d.annot ∧
      rpcIdOf (d :: anc.map (·.d)) = .ok x.iid ∧
      tagsFor c kids anc x.iid = .ok (x.tags, c1) ∧
      c'.tags = (attachAll c1 x.iid x.tags).tags := by
  unfold addJsonRpcMethod at h
  simp only [bind, Except.bind] at h
  split at h
  · cases h
  · split at h
    · cases h
    · split at h
      · cases h
      · split at h
        · cases h
        · rename_i i hi
          split at h
          · cases h
          · split at h
            · cases h
            · rename_i r hr
              obtain ⟨ns, c1⟩ := r
              simp only [pure, Except.pure] at h
              injection h with h
              subst h
              refine ⟨{ iid := i, annot := d.annot, tags := ns }, c1, ?_, rfl, liftAt_ok _ _ _ hi, hr, rfl⟩
              show (attachAll c1 i ns).inters ++ _ = _
              rw [attachAll_inters, tagsFor_inters _ _ _ _ _ _ hr]

/-- the interaction added by a method directive of either protocol carries at least one tag -/
theorem tagged_nonempty (d : BDir) (kids : List BDir) (anc : List Up) (c c' : Cat)
    (h : addHTTPMethod d kids anc c = .ok c' ∨ addJsonRpcMethod d kids anc c = .ok c') :
    ∃ x, c'.inters = c.inters ++ [x] ∧ x.tags ≠ [] := by
  rcases h with h | h
  · obtain ⟨x, _, c1, h1, _, _, h4, _⟩ := http_method_tags d kids anc c c' h
    exact ⟨x, h1, tagsFor_nonempty _ _ _ _ _ _ h4⟩
  · obtain ⟨x, c1, h1, _, _, h4, _⟩ := rpc_method_tags d kids anc c c' h
    exact ⟨x, h1, tagsFor_nonempty _ _ _ _ _ _ h4⟩

/-! ### one context has one Tags directive (F72) -/

/-- **a second Tags directive in one context is refused**: `addDirective` on a Tags directive that is not the first
Tags child of its parent fails with `notUnique`, whatever the catalog (before the repair the directive was validated
and then ignored: `tagsFor` reads the first Tags child only) -/
theorem second_tags_refused (banned : List Kind) (d : BDir) (kids : List BDir) (p : Up) (anc : List Up) (c : Cat)
    (hk : d.kind = .Tags) (hb : ¬ banned.contains d.kind = true)
    (t : BDir) (ht : tagsChild p.kids = some t) (hne : t.id ≠ d.id) :
    addDirective banned d kids (p :: anc) c = .error ⟨d.id, .notUnique⟩ := by
  unfold addDirective
  rw [if_neg hb, hk]
  show addTags d (p :: anc) c = _
  have hs : secondTags d (p :: anc) = true := by
    simp only [secondTags, ht, Option.map_some, bne_iff_ne, ne_eq, Option.some.injEq]
    exact hne
  unfold addTags
  rw [if_pos hs]; rfl

/-- … and the first one is not: the first Tags child of its parent is checked as before (its names must be declared),
and the catalog is left as it is -/
theorem first_tags_checked (banned : List Kind) (d : BDir) (kids : List BDir) (p : Up) (anc : List Up) (c : Cat)
    (hk : d.kind = .Tags) (hb : ¬ banned.contains d.kind = true) (ht : tagsChild p.kids = some d) :
    addDirective banned d kids (p :: anc) c = (tagsFromDirective c d).map (fun _ => c) := by
  unfold addDirective
  rw [if_neg hb, hk]
  show addTags d (p :: anc) c = _
  have hs : ¬ secondTags d (p :: anc) = true := by
    simp [secondTags, ht]
  unfold addTags
  rw [if_neg hs]
  exact bind_pure_eq_map _ _

open JSight.C04B in
/-- forest level: a forest with a Tags directive `e` that is not the first Tags child of its parent is never accepted
(`e ∈ flatAF [] f`: the directive `e.d` of the forest with its children `e.kids` and its ancestors `e.anc`) -/
theorem second_tags_never_accepted (banned : List Kind) (f : List BTree) (e : Ent) (he : e ∈ flatAF [] f)
    (hk : e.d.kind = .Tags) (p : Up) (r : List Up) (ha : e.anc = p :: r)
    (t : BDir) (ht : tagsChild p.kids = some t) (hne : t.id ≠ e.d.id) :
    ∀ c, compile banned f ≠ .ok c := by
  intro c h
  obtain ⟨c₀, _, _, _, _, hrun, _⟩ := compile_ok h
  refine run_fails_of_mem (fun _ => True) _ (fun _ _ _ _ _ _ => trivial) e he ?_ c₀ c trivial hrun
  intro c₁ c₂ _ hs
  unfold step at hs
  by_cases hb : banned.contains e.d.kind = true
  · unfold addDirective at hs; rw [if_pos hb] at hs; cases hs
  · rw [ha, second_tags_refused banned e.d e.kids p r c₁ hk hb t ht hne] at hs; cases hs

open JSight.C04B in
/-- **two Tags directives in one context**: a forest in which some directive `m` (a method, a URL, …) has two Tags
children with distinct ids is never accepted -/
theorem two_tags_never_accepted (banned : List Kind) (f : List BTree) (m : Ent) (hm : m ∈ flatAF [] f)
    (t₁ t₂ : BDir) (h₁ : t₁ ∈ m.kids) (h₂ : t₂ ∈ m.kids) (hk₁ : t₁.kind = .Tags) (hk₂ : t₂.kind = .Tags)
    (hne : t₁.id ≠ t₂.id) : ∀ c, compile banned f ≠ .ok c := by
  cases ht : tagsChild m.kids with
  | none =>
    have := List.find?_eq_none.1 ht t₁ h₁
    simp [hk₁] at this
  | some t =>
    by_cases h : t.id = t₁.id
    · obtain ⟨e, he, rfl, ha⟩ := kid_ent_forest [] f m hm t₂ h₂
      exact second_tags_never_accepted banned f e he hk₂ _ _ ha t ht (by rw [h]; exact hne)
    · obtain ⟨e, he, rfl, ha⟩ := kid_ent_forest [] f m hm t₁ h₁
      exact second_tags_never_accepted banned f e he hk₁ _ _ ha t ht h

/-- two paths get the same automatic tag name exactly when their first segments (`pathTagTitle`) agree -/
theorem same_segment_same_tag (p₁ p₂ : Bytes) :
    tagName (pathTagTitle p₁) = tagName (pathTagTitle p₂) ↔ pathTagTitle p₁ = pathTagTitle p₂ :=
  ⟨C19.auto_tag_injective p₁ p₂, fun h => by rw [h]⟩

/-- so two methods without Tags directives share their automatic tag exactly when their paths start alike -/
theorem auto_tags_agree (c₁ c₂ : Cat) (i₁ i₂ : IId) :
    (autoTag c₁ i₁.path).1 = (autoTag c₂ i₂.path).1 ↔ pathTagTitle i₁.path = pathTagTitle i₂.path := by
  have e : ∀ (c : Cat) (p : Bytes), (autoTag c p).1 = [tagName (pathTagTitle p)] := by
    intro c p
    unfold autoTag
    cases c.getTag (tagName (pathTagTitle p)) <;> rfl
  rw [e, e]
  constructor
  · intro h
    injection h with h
    exact (same_segment_same_tag _ _).mp h
  · intro h
    rw [h]

/-! ### concrete catalogs -/

section Examples

/-- "a" and "b" are declared by TAG directives; "c" is not -/
private def cat0 : Cat :=
  { tags := [{ name := [97], title := [97], declared := true }, { name := [98], title := [98], declared := true }] }

private def tagsDir (id : Nat) (ns : List Bytes) : BDir := { kind := .Tags, id := id, unnamed := ns }
/-- `URL /p/q` -/
private def urlDir : BDir := { kind := .URL, id := 1, named := [("Path", [47, 112, 47, 113])] }
private def getDir : BDir := { kind := .Get, id := 2, annot := [120] }
private def protoDir : BDir := { kind := .Protocol, id := 3, named := [("ProtocolName", jsonRpc20)] }
private def methodDir : BDir := { kind := .Method, id := 4, named := [("MethodName", [109])] }

private def tagsOfInters (r : R Cat) : Option (List (List Bytes)) :=
  match r with
  | .ok c => some (c.inters.map (·.tags))
  | .error _ => none

private def errOf {α} (r : R α) : Option BErr :=
  match r with
  | .ok _ => none
  | .error e => some e

private def httpOf (r : R Cat) : List (Bytes × List Bytes) :=
  match r with
  | .ok c => c.tags.map fun t => (t.name, t.http)
  | .error _ => []

/-- own Tags ("a") beat the URL's Tags ("b"); the tag "a" receives the id `GET /p/q` -/
example : tagsOfInters (addHTTPMethod getDir [tagsDir 5 [[97]]] [⟨urlDir, [tagsDir 6 [[98]], getDir]⟩] cat0)
    = some [[[97]]] := by decide +kernel
example : httpOf (addHTTPMethod getDir [tagsDir 5 [[97]]] [⟨urlDir, [tagsDir 6 [[98]], getDir]⟩] cat0)
    = [([97], [[104, 116, 116, 112, 32, 71, 69, 84, 32, 47, 112, 47, 113]]), ([98], [])] := by decide +kernel

/-- the URL's Tags ("b") are inherited by a JSON-RPC method -/
example : tagsOfInters (addJsonRpcMethod methodDir [] [⟨urlDir, [protoDir, tagsDir 6 [[98]], methodDir]⟩] cat0)
    = some [[[98]]] := by decide +kernel

/-- … and by an HTTP method without Tags of its own -/
example : tagsOfInters (addHTTPMethod getDir [] [⟨urlDir, [tagsDir 6 [[98]], getDir]⟩] cat0)
    = some [[[98]]] := by decide +kernel

/-- no Tags anywhere: the single automatic tag "@p" of the path /p/q, created undeclared -/
example : tagsOfInters (addHTTPMethod getDir [] [⟨urlDir, [getDir]⟩] cat0)
    = some [[tagName (pathTagTitle [47, 112, 47, 113])]] := by decide +kernel
example : tagName (pathTagTitle [47, 112, 47, 113]) = [64, 112] := by decide +kernel
example : ((addHTTPMethod getDir [] [⟨urlDir, [getDir]⟩] cat0).toOption.map fun c =>
      c.tags.map fun t => (t.name, t.title, t.declared))
    = some [([97], [97], true), ([98], [98], true), ([64, 112], [47, 112], false)] := by decide +kernel

/-- a Tags directive under something that is not a URL is not inherited -/
example : tagsOfInters (addHTTPMethod getDir [] [⟨{ urlDir with kind := .Macro }, [tagsDir 6 [[98]]]⟩, ⟨urlDir, []⟩] cat0)
    = some [[[64, 112]]] := by decide +kernel

/-- an undeclared name ("c") is rejected, at the Tags directive -/
example : errOf (tagsFromDirective cat0 (tagsDir 5 [[97], [99]])) = some ⟨5, .tagNotFound⟩ := by decide +kernel
example : errOf (addTags (tagsDir 5 [[99]]) [⟨getDir, [tagsDir 5 [[99]]]⟩] cat0) = some ⟨5, .tagNotFound⟩ := by decide +kernel
example : errOf (addHTTPMethod getDir [tagsDir 5 [[99]]] [⟨urlDir, [getDir]⟩] cat0) = some ⟨5, .tagNotFound⟩ := by
  decide +kernel
example : errOf (addJsonRpcMethod methodDir [] [⟨urlDir, [protoDir, tagsDir 6 [[99]], methodDir]⟩] cat0)
    = some ⟨6, .tagNotFound⟩ := by decide +kernel
/-- an automatic tag exists but is not declared: naming it in a Tags directive is rejected too -/
example : errOf ((addHTTPMethod getDir [] [⟨urlDir, [getDir]⟩] cat0).bind
    (addTags (tagsDir 5 [[64, 112]]) [⟨urlDir, [getDir, tagsDir 5 [[64, 112]]]⟩]))
    = some ⟨5, .tagNotFound⟩ := by decide +kernel

/-! one context has one Tags directive: `JSIGHT 0.3`, `TAG @a`, `TAG @b`, `GET /x` with the children `Tags @a` (5),
`Tags @b` (6), `200 []` (7) is refused at the second Tags directive; without it the forest is accepted, tagged "@a" -/
private def exJ : BTree := .node { kind := .Jsight, id := 1, named := [("Version", [48, 46, 51])] } []
private def exTAG (id : Nat) (n : Bytes) : BTree := .node { kind := .TAG, id := id, named := [("TagName", n)] } []
private def exTagsT (id : Nat) (n : Bytes) : BTree := .node (tagsDir id [n]) []
private def ex200 : BTree :=
  .node { kind := .HTTPResponseCode, id := 7, keyword := [50, 48, 48], body := some [91, 93] } []
private def exGetX : BDir := { kind := .Get, id := 4, named := [("Path", [47, 120])] }
private def exTwo : List BTree := [exJ, exTAG 2 [64, 97], exTAG 3 [64, 98],
  .node exGetX [exTagsT 5 [64, 97], exTagsT 6 [64, 98], ex200]]
private def exOne : List BTree := [exJ, exTAG 2 [64, 97], exTAG 3 [64, 98], .node exGetX [exTagsT 5 [64, 97], ex200]]
/-- the same two Tags directives below a URL -/
private def exTwoURL : List BTree := [exJ, exTAG 2 [64, 97], exTAG 3 [64, 98],
  .node { kind := .URL, id := 8, named := [("Path", [47, 120])] } [exTagsT 5 [64, 97], exTagsT 6 [64, 98],
    .node { kind := .Get, id := 4 } [ex200]]]

example : errOf (compile [] exTwo) = some ⟨6, .notUnique⟩ := by decide +kernel
example : tagsOfInters (compile [] exOne) = some [[[64, 97]]] := by decide +kernel
example : errOf (compile [] exTwoURL) = some ⟨6, .notUnique⟩ := by decide +kernel
/-- the hypotheses of `two_tags_never_accepted` hold of `exTwo` (the GET directive is the entry `m`) -/
example : ∀ c, compile [] exTwo ≠ .ok c :=
  two_tags_never_accepted [] exTwo ⟨exGetX, [tagsDir 5 [[64, 97]], tagsDir 6 [[64, 98]], ex200.dir], []⟩
    (List.mem_of_getElem? (i := 3) (by rfl)) (tagsDir 5 [[64, 97]]) (tagsDir 6 [[64, 98]])
    (by simp) (by simp) rfl rfl (by decide)
/-- … and of `second_tags_refused`: the step of `Tags @b` (6) below the GET directive, in any catalog -/
example (c : Cat) : addDirective [] (tagsDir 6 [[64, 98]]) []
      [⟨exGetX, [tagsDir 5 [[64, 97]], tagsDir 6 [[64, 98]], ex200.dir]⟩] c = .error ⟨6, .notUnique⟩ :=
  second_tags_refused [] _ _ _ _ c rfl (by decide) (tagsDir 5 [[64, 97]]) (by decide +kernel) (by decide)

end Examples

end JSight.C19B
