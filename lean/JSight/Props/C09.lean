import JSight.Basic
import JSight.Model.Ids
import JSight.Proofs.C09
/-!
C09 — interaction id keys.

The serialised key of an interaction is the text of its id (`Model/Ids.lean`).
HTTP keys determine (method, path) because verbs contain no space; JSON-RPC keys
do not when method names may contain spaces (defect F13) — the fix is a textual
collision check on insertion, under which accepted keys never repeat.
-/
namespace JSight.C09

/-- the HTTP key determines method and path when the method contains no space
(true for the five verbs) -/
theorem http_id_injective (m₁ m₂ p₁ p₂ : Bytes) (h₁ : (32 : UInt8) ∉ m₁) (h₂ : (32 : UInt8) ∉ m₂)
    (h : httpId m₁ p₁ = httpId m₂ p₂) : m₁ = m₂ ∧ p₁ = p₂ :=
  prefixed_injective httpPrefix m₁ m₂ p₁ p₂ h₁ h₂ h

theorem verbs_no_space : ∀ v ∈ verbs, (32 : UInt8) ∉ v := by decide

/-- JSON-RPC keys are NOT injective in (name, path) when names may contain
spaces — the concrete witness of defect F13: name `"a b"`, path `"c"` and
name `"a"`, path `"b c"` both give `"json-rpc-2.0 a b c"` -/
theorem rpc_id_not_injective :
    ∃ n₁ p₁ n₂ p₂, (n₁, p₁) ≠ (n₂, p₂) ∧ rpcId n₁ p₁ = rpcId n₂ p₂ :=
  ⟨[97, 32, 98], [99], [97], [98, 32, 99], by decide, by decide⟩

/-- … but they are when the method name contains no space -/
theorem rpc_id_injective (n₁ n₂ p₁ p₂ : Bytes) (h₁ : (32 : UInt8) ∉ n₁) (h₂ : (32 : UInt8) ∉ n₂)
    (h : rpcId n₁ p₁ = rpcId n₂ p₂) : n₁ = n₂ ∧ p₁ = p₂ :=
  prefixed_injective rpcPrefix n₁ n₂ p₁ p₂ h₁ h₂ h

/-- an HTTP key and a JSON-RPC key never coincide -/
theorem http_rpc_disjoint (m p n q : Bytes) : httpId m p ≠ rpcId n q := by
  intro h
  simp [httpId, rpcId, httpPrefix, rpcPrefix] at h

/-- with the textual collision check, the serialised interaction keys of an
accepted document never repeat -/
theorem no_dup_keys (ks : List Bytes) (res : List Bytes)
    (h : addInteractions [] ks = some res) : res.Nodup ∧ res = ks := by
  simpa using addInteractions_spec ks [] res List.nodup_nil h

/-! concrete checks -/

-- "http GET /a"
example : httpId [71, 69, 84] [47, 97] = [104, 116, 116, 112, 32, 71, 69, 84, 32, 47, 97] := by
  decide
-- the F13 witness: both serialise as "json-rpc-2.0 a b c"
example : rpcId [97, 32, 98] [99] = rpcId [97] [98, 32, 99] := by decide
-- the collision check refuses the second of two equal keys, accepts distinct ones
example : addInteractions [] [rpcId [97, 32, 98] [99], rpcId [97] [98, 32, 99]] = none := by
  decide
example : addInteractions [] [[1], [2], [3]] = some [[1], [2], [3]] := by decide
example : addInteractions [] [[1], [2], [1]] = none := by decide

end JSight.C09
