import JSight.Basic
namespace JSight.C09
end JSight.C09
