import JSight.Model.Param
import JSight.Props.C17
/-!
C17 — "title, version, base URL, query example, path, method name are read back exactly": the quoted spelling
through `AppendParameter` (`Model/Param.lean`), for every byte string.  Property theorems only.
-/
namespace JSight.C17P
open JSight JSight.Param Gen

/-- the value-carrying directives and the named parameter their value becomes -/
def valueKinds : List (Kind × String) :=
  [(.Title, "Title"), (.Version, "Version"), (.Jsight, "Version"), (.BaseURL, "Path"), (.Protocol, "ProtocolName"),
   (.Method, "MethodName"), (.URL, "Path"), (.Get, "Path"), (.Post, "Path"), (.Put, "Path"), (.Patch, "Path"),
   (.Delete, "Path")]

/-- the value written in quotes is the value stored, whatever bytes it holds -/
theorem value_roundtrip (k : Kind) (n : String) (h : (k, n) ∈ valueKinds) (v : Bytes) :
    appendParameter k {} (quoteParam v) = .ok { named := [(n, v)] } := by
  simp only [valueKinds, List.mem_cons, Prod.mk.injEq, List.not_mem_nil, or_false] at h
  rcases h with h | h | h | h | h | h | h | h | h | h | h | h <;> obtain ⟨rfl, rfl⟩ := h <;>
    simp [appendParameter, C17.roundtrip, setNamed]

/-- a query example is read back exactly (the two format words are taken as the format) -/
theorem query_example_roundtrip (v : Bytes) (h1 : v ≠ wHtmlFormEncoded) (h2 : v ≠ wNoFormat) :
    appendParameter .Query {} (quoteParam v) = .ok { named := [("QueryExample", v)] } := by
  simp [appendParameter, C17.roundtrip, setNamed, h1, h2]

/-- a value that needs no quotes means the same with or without them — for every directive kind and whatever
    was written before it -/
theorem bare_eq_quoted (k : Kind) (p : Params) (v : Bytes) (h : inQuotes v = false) :
    appendParameter k p v = appendParameter k p (quoteParam v) := by
  unfold appendParameter
  rw [C17.roundtrip, C17.bare v h]

/-- a second value for the same named parameter is refused -/
theorem second_value_rejected (k : Kind) (n : String) (h : (k, n) ∈ valueKinds) (a b : Bytes) :
    appendAll k {} [quoteParam a, quoteParam b] = .error (.alreadyDefined n) := by
  simp only [appendAll]
  rw [value_roundtrip k n h a]
  simp only [valueKinds, List.mem_cons, Prod.mk.injEq, List.not_mem_nil, or_false] at h
  rcases h with h | h | h | h | h | h | h | h | h | h | h | h <;> obtain ⟨rfl, rfl⟩ := h <;>
    simp [appendParameter, C17.roundtrip, setNamed]

/-- names: `@` followed by at least one letter, digit, `-` or `_` -/
theorem userTypeName_spec (b : Bytes) :
    isUserTypeName b = true ↔ ∃ c r, b = 64 :: c :: r ∧ ∀ x ∈ c :: r, isNameByte x = true := by
  constructor
  · intro h
    unfold isUserTypeName at h
    split at h
    · rename_i c r
      exact ⟨c, r, rfl, by simpa using h⟩
    · cases h
  · rintro ⟨c, r, rfl, h⟩
    simpa [isUserTypeName] using h

/-- results as options, for the closing examples (`Except` has no `DecidableEq` in core) -/
def okOf {α} : Except PErr α → Option α | .ok a => some a | .error _ => none
def errOf {α} : Except PErr α → Option PErr | .ok _ => none | .error e => some e

-- non-vacuity
example : okOf (appendParameter .Title {} (quoteParam [97, 34, 92, 32])) = some { named := [("Title", [97, 34, 92, 32])] } := by
  decide
example : okOf (appendAll .Query {} [[34, 97, 61, 49, 34], wNoFormat]) =
    some { named := [("QueryExample", [97, 61, 49]), ("Format", wNoFormat)] } := by decide
example : okOf (appendParameter .Request {} [64, 116]) = some { named := [("Type", [64, 116])] } := by decide
example : errOf (appendParameter .Tags {} [116]) = some .incorrect := by decide

end JSight.C17P

namespace JSight.C17P
open JSight JSight.Param Gen

/-- the names under which `AppendParameter` stores values — exactly the names the catalog construction
(`Model/Build.lean`, `BDir.param`) reads -/
def knownNames : List String :=
  ["Path", "SchemaNotation", "Type", "Name", "Format", "QueryExample", "Version", "Title", "ProtocolName",
   "MethodName", "TagName"]

theorem setNamed_names {p p' : Params} {k : String} {v : Bytes} (h : setNamed p k v = .ok p') :
    p'.named = p.named ++ [(k, v)] ∧ p'.unnamed = p.unnamed := by
  unfold setNamed at h
  split at h
  · cases h
  · injection h with h; subst h; exact ⟨rfl, rfl⟩

/-- a parameter is stored under a known name, or (Tags) appended to the unnamed ones; nothing else changes -/
theorem appendParameter_names (k : Kind) (p p' : Params) (raw : Bytes) (h : appendParameter k p raw = .ok p') :
    (∃ n ∈ knownNames, p'.named = p.named ++ [(n, unescape raw)] ∧ p'.unnamed = p.unnamed) ∨
    (k = .Tags ∧ p'.named = p.named ∧ p'.unnamed = p.unnamed ++ [unescape raw]) := by
  unfold appendParameter at h
  cases k <;> simp only at h <;>
    first
    | (cases h; done)
    | (left; first
        | exact ⟨_, by decide, setNamed_names h⟩
        | (split at h <;> first
            | exact ⟨_, by decide, setNamed_names h⟩
            | (split at h <;> first
                | exact ⟨_, by decide, setNamed_names h⟩
                | (split at h <;> first
                    | exact ⟨_, by decide, setNamed_names h⟩
                    | (cases h; done)))
            | (cases h; done)))
    | (right; split at h
       · injection h with h; subst h; exact ⟨rfl, rfl, rfl⟩
       · cases h)

end JSight.C17P
