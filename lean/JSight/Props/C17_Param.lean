import JSight.Model.Param
import JSight.Model.ParamTableInterp
import JSight.Props.C17
/-!
C17 — "title, version, base URL, query example, path, method name are read back exactly": the quoted spelling
through `AppendParameter` (`Model/Param.lean`), for every byte string.  Property theorems only.
-/
namespace JSight.C17P
open JSight JSight.Param Gen

/-- the value-carrying directives and the named parameter their value becomes -/
def valueKinds : List (Kind × String) :=
  [(.Title, "Title"), (.Version, "Version"), (.Jsight, "Version"), (.BaseURL, "Path"), (.Protocol, "ProtocolName"),
   (.Method, "MethodName"), (.URL, "Path"), (.Get, "Path"), (.Post, "Path"), (.Put, "Path"), (.Patch, "Path"),
   (.Delete, "Path")]

/-- the value written in quotes is the value stored, whatever bytes it holds -/
theorem value_roundtrip (k : Kind) (n : String) (h : (k, n) ∈ valueKinds) (v : Bytes) :
    appendParameter k {} (quoteParam v) = .ok { named := [(n, v)] } := by
  simp only [valueKinds, List.mem_cons, Prod.mk.injEq, List.not_mem_nil, or_false] at h
  rcases h with h | h | h | h | h | h | h | h | h | h | h | h <;> obtain ⟨rfl, rfl⟩ := h <;>
    simp [appendParameter, C17.roundtrip, setNamed]

/-- a query example is read back exactly (the two format words are taken as the format) -/
theorem query_example_roundtrip (v : Bytes) (h1 : v ≠ wHtmlFormEncoded) (h2 : v ≠ wNoFormat) :
    appendParameter .Query {} (quoteParam v) = .ok { named := [("QueryExample", v)] } := by
  simp [appendParameter, C17.roundtrip, setNamed, h1, h2]

/-- a value that needs no quotes means the same with or without them — for every directive kind and whatever
    was written before it -/
theorem bare_eq_quoted (k : Kind) (p : Params) (v : Bytes) (h : inQuotes v = false) :
    appendParameter k p v = appendParameter k p (quoteParam v) := by
  unfold appendParameter
  rw [C17.roundtrip, C17.bare v h]

/-- a second value for the same named parameter is refused -/
theorem second_value_rejected (k : Kind) (n : String) (h : (k, n) ∈ valueKinds) (a b : Bytes) :
    appendAll k {} [quoteParam a, quoteParam b] = .error (.alreadyDefined n) := by
  simp only [appendAll]
  rw [value_roundtrip k n h a]
  simp only [valueKinds, List.mem_cons, Prod.mk.injEq, List.not_mem_nil, or_false] at h
  rcases h with h | h | h | h | h | h | h | h | h | h | h | h <;> obtain ⟨rfl, rfl⟩ := h <;>
    simp [appendParameter, C17.roundtrip, setNamed]

/-- names: `@` followed by at least one letter, digit, `-` or `_` -/
theorem userTypeName_spec (b : Bytes) :
    isUserTypeName b = true ↔ ∃ c r, b = 64 :: c :: r ∧ ∀ x ∈ c :: r, isNameByte x = true := by
  constructor
  · intro h
    unfold isUserTypeName at h
    split at h
    · rename_i c r
      exact ⟨c, r, rfl, by simpa using h⟩
    · cases h
  · rintro ⟨c, r, rfl, h⟩
    simpa [isUserTypeName] using h

/-- results as options, for the closing examples (`Except` has no `DecidableEq` in core) -/
def okOf {α} : Except PErr α → Option α | .ok a => some a | .error _ => none
def errOf {α} : Except PErr α → Option PErr | .ok _ => none | .error e => some e

-- non-vacuity
example : okOf (appendParameter .Title {} (quoteParam [97, 34, 92, 32])) = some { named := [("Title", [97, 34, 92, 32])] } := by
  decide
example : okOf (appendAll .Query {} [[34, 97, 61, 49, 34], wNoFormat]) =
    some { named := [("QueryExample", [97, 61, 49]), ("Format", wNoFormat)] } := by decide
example : okOf (appendParameter .Request {} [64, 116]) = some { named := [("Type", [64, 116])] } := by decide
example : errOf (appendParameter .Tags {} [116]) = some .incorrect := by decide

end JSight.C17P

namespace JSight.C17P
open JSight JSight.Param Gen

/-- the names under which `AppendParameter` stores values — exactly the names the catalog construction
(`Model/Build.lean`, `BDir.param`) reads -/
def knownNames : List String :=
  ["Path", "SchemaNotation", "Type", "Name", "Format", "QueryExample", "Version", "Title", "ProtocolName",
   "MethodName", "TagName"]

theorem setNamed_names {p p' : Params} {k : String} {v : Bytes} (h : setNamed p k v = .ok p') :
    p'.named = p.named ++ [(k, v)] ∧ p'.unnamed = p.unnamed := by
  unfold setNamed at h
  split at h
  · cases h
  · injection h with h; subst h; exact ⟨rfl, rfl⟩

/-- a parameter is stored under a known name, or (Tags) appended to the unnamed ones; nothing else changes -/
theorem appendParameter_names (k : Kind) (p p' : Params) (raw : Bytes) (h : appendParameter k p raw = .ok p') :
    (∃ n ∈ knownNames, p'.named = p.named ++ [(n, unescape raw)] ∧ p'.unnamed = p.unnamed) ∨
    (k = .Tags ∧ p'.named = p.named ∧ p'.unnamed = p.unnamed ++ [unescape raw]) := by
  unfold appendParameter at h
  cases k <;> simp only at h <;>
    first
    | (cases h; done)
    | (left; first
        | exact ⟨_, by decide, setNamed_names h⟩
        | (split at h <;> first
            | exact ⟨_, by decide, setNamed_names h⟩
            | (split at h <;> first
                | exact ⟨_, by decide, setNamed_names h⟩
                | (split at h <;> first
                    | exact ⟨_, by decide, setNamed_names h⟩
                    | (cases h; done)))
            | (cases h; done)))
    | (right; split at h
       · injection h with h; subst h; exact ⟨rfl, rfl, rfl⟩
       · cases h)

end JSight.C17P

/-!
The hand-written model `Param.appendParameter` and the regenerated table `Gen.paramTable` (tools/extract/paramtable.go,
from the AST of `(*Directive).AppendParameter`): the model IS the interpretation (`Model/ParamTableInterp.lean`) of the
table, so an edit of the Go function that changes the table breaks this file.
-/
namespace JSight.C17P
open JSight JSight.Param Gen

/-- the UTF-8 bytes of the words the Go code compares with are the byte strings of the model -/
theorem strBytes_words :
    ["jsight", "", "regex", "any", "empty", "htmlFormEncoded", "noFormat"].map strBytes
      = [wJsight, [], wRegex, wAny, wEmpty, wHtmlFormEncoded, wNoFormat] := by
  with_unfolding_all decide

theorem strBytes_htmlFormEncoded : strBytes "htmlFormEncoded" = wHtmlFormEncoded := by
  with_unfolding_all decide

theorem strBytes_noFormat : strBytes "noFormat" = wNoFormat := by with_unfolding_all decide

/-! The theorems below read the regenerated table and are stated under `paramTableAvailable = true`: when the Go function
has been rewritten into a shape the translator does not know (a helper function, another control structure), the table
is declared unavailable and EMPTY, these theorems hold vacuously, and the model of `AppendParameter` is tied by its
correspondence alone (the check records which of the two ties was in force). -/

/-- the hand-written model of `AppendParameter` is the interpretation of the regenerated table, for every directive
    kind, whatever was stored before and whatever bytes are written -/
theorem appendParameter_eq_table (hav : paramTableAvailable = true) (k : Kind) (p : Params) (raw : Bytes) :
    appendParameter k p raw = appendParameterT paramTable k p raw := by
  first
  | exact absurd hav (by decide)
  | (cases k <;>
      first
      | rfl
      | (show _ = runAlts p (unescape raw) _
         simp [appendParameter, runAlts, evalGuard, runAct, strBytes_htmlFormEncoded, strBytes_noFormat]))

/-- no directive kind occurs in two `case` clauses (nor twice in one) -/
theorem paramTable_kinds_nodup : (paramTable.flatMap (·.1)).Nodup := by decide

/-- the directive kinds without a `case` clause: a parameter written after them is always "incorrect" -/
theorem paramTable_missing (hav : paramTableAvailable = true) :
    Kind.all.filter (fun k => !(paramTable.flatMap (·.1)).contains k)
      = [.Info, .Description, .Path, .Headers, .Include, .Params, .Result] := by
  first
  | exact absurd hav (by decide)
  | decide

theorem appendParameter_no_clause (k : Kind) (h : k ∈ [Kind.Info, .Description, .Path, .Headers, .Include, .Params, .Result])
    (p : Params) (raw : Bytes) : appendParameter k p raw = .error .incorrect := by
  simp only [List.mem_cons, List.not_mem_nil, or_false] at h
  rcases h with h | h | h | h | h | h | h <;> subst h <;> rfl

/-- when the table is available, the function has the expected frame: it starts with
    `b = unescapeParameter(b); s := b.String()`, ends with the "incorrect parameter" error, `isSchemaNotation(s)` is
    "`notation.NewSchemaNotation(s)` succeeds" and `IsArrayOfTypes` has the shape `Param.isArrayOfTypes` was written
    against -/
theorem paramTable_frame (hav : paramTableAvailable = true) :
    paramUnescapesFirst = true ∧ paramFallsToIncorrect = true ∧ isSchemaNotationIsNewSchemaNotationOk = true ∧
      isArrayOfTypesShape = true := by
  first
  | exact absurd hav (by decide)
  | decide

/-- the strings `notation.NewSchemaNotation` accepts: the four notation names and the EMPTY string (which it takes
    as "jsight") -/
theorem schemaNotations_eq (hav : paramTableAvailable = true) :
    schemaNotations = ["jsight", "", "regex", "any", "empty"] := by
  first
  | exact absurd hav (by decide)
  | decide

/-- `Param.isNotation` accepts exactly the byte strings of the strings `NewSchemaNotation` accepts -/
theorem isNotation_eq_schemaNotations (hav : paramTableAvailable = true) (b : Bytes) :
    isNotation b = schemaNotations.any (fun s => b == strBytes s) := by
  rw [schemaNotations_eq hav]
  have h := strBytes_words
  simp only [List.map_cons, List.map_nil, List.cons.injEq, and_true] at h
  obtain ⟨h1, h2, h3, h4, h5, -, -⟩ := h
  simp only [List.any_cons, List.any_nil, h1, h2, h3, h4, h5, isNotation, Bool.or_false]
  have he : b.isEmpty = (b == []) := by cases b <;> rfl
  rw [he]
  generalize (b == []) = x0, (b == wJsight) = x1, (b == wRegex) = x2, (b == wAny) = x3, (b == wEmpty) = x4
  cases x0 <;> cases x1 <;> cases x2 <;> cases x3 <;> cases x4 <;> rfl

-- on the current tree the table IS available (this example fails, harmlessly for the theorems, when it is not:
-- it is what tells the reader of the build log which tie is in force)
-- example : paramTableAvailable = true := by decide

end JSight.C17P
