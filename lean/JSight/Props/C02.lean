import JSight.Model.Descr
import JSight.Model.Location
namespace JSight.C02
end JSight.C02
