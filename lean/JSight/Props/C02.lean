import JSight.Model.Location
import JSight.Proofs.C02
/-!
C02 (and the fault-freedom half of C01): error locations — `LineBeginning`, `LineNumber`, `LineEnd`,
`quote`, `NewLocation` of `jerr/utils.go` / `jerr/location.go`.  Core Lean only.
-/
namespace JSight.C02
open JSight

/-- the computed line beginning is just after the nearest line end strictly before the position
    (a line-end byte AT the position does not count), or 0; there is no line end between it and the position -/
theorem lineBeginning_spec (content : Bytes) (pos : Nat) (nl : UInt8) (h : content ≠ []) :
    (lineBeginning content pos nl = 0 ∨
      (byteAt content (lineBeginning content pos nl - 1) = nl ∧ lineBeginning content pos nl - 1 ≠ pos)) ∧
    (∀ k, lineBeginning content pos nl ≤ k → k ≤ min pos (content.length - 1) → k ≠ pos → byteAt content k ≠ nl) := by
  refine ⟨lineBeginning_prev content pos nl, ?_⟩
  rw [lineBeginning_eq content pos nl h]
  exact lbLoop_no_nl content pos nl _

theorem lineBeginning_le (content : Bytes) (pos : Nat) (nl : UInt8) (h : content ≠ []) :
    lineBeginning content pos nl ≤ min pos (content.length - 1) + 1 := by
  rw [lineBeginning_eq content pos nl h]
  exact lbLoop_le content pos nl _

/-- the line number is 1 + the number of line ends up to the (clamped) position, not counting one at the position -/
theorem lineNumber_spec (content : Bytes) (pos : Nat) (nl : UInt8) (h : content ≠ []) :
    lineNumber content pos nl =
      1 + ((List.range (min pos (content.length - 1) + 1)).filter
            (fun k => byteAt content k == nl && k != pos)).length := by
  rw [lineNumber_eq content pos nl h, lnLoop_eq, Nat.add_comm]

/-- line number and line beginning agree: the number of the line is 1 + the number of line ends before its beginning -/
theorem line_matches_beginning (content : Bytes) (pos : Nat) (nl : UInt8) (h : content ≠ []) :
    lineNumber content pos nl =
      1 + ((List.range (lineBeginning content pos nl)).filter
            (fun k => byteAt content k == nl && k != pos)).length := by
  rw [lineNumber_eq content pos nl h, lineBeginning_eq content pos nl h, lnLoop_eq_lb, Nat.add_comm]

/-- the end of the line lies inside the content and there is no line end between the position and it -/
theorem lineEnd_spec (content : Bytes) (pos : Nat) (nl : UInt8) :
    lineEnd content pos nl ≤ content.length ∧
    (∀ k, min pos content.length ≤ k → k < lineEnd content pos nl → byteAt content k ≠ nl) := by
  have h1 := lineEnd_le_scanOf content pos nl
  have h2 := scanOf_le content pos nl
  refine ⟨Nat.le_trans h1 h2, ?_⟩
  intro k hk1 hk2
  exact scan_no_nl content nl _ _ k hk1 (Nat.lt_of_lt_of_le hk2 h1)

/-- the quoted slice never has end < begin: no slice-bounds fault -/
theorem lineBeginning_le_lineEnd (content : Bytes) (pos : Nat) (nl : UInt8) :
    lineBeginning content pos nl ≤ lineEnd content pos nl := by
  have hlb := lineBeginning_le_clamp content pos nl
  have hge := scanOf_ge content pos nl
  rcases lineEnd_cases content pos nl with he | ⟨hpos, he, hne⟩
  · rw [he]; exact Nat.le_trans hlb hge
  · rw [he]
    rcases lineBeginning_prev content pos nl with h0 | ⟨hb, _⟩
    · rw [h0]; exact Nat.zero_le _
    · -- the line beginning sits just after an `nl` byte, the scan result just after a non-`nl` byte
      have hneq : lineBeginning content pos nl ≠ scanOf content pos nl := by
        intro e
        rw [e] at hb
        exact hne hb
      omega

/-- C01/C02: computing a location never faults, for every content (including empty) and every index -/
theorem location_total (content : Bytes) (i : Nat) : (newLocation content i).isSome := by
  have h := lineBeginning_le_lineEnd content i (detectNL content)
  have hq : ∃ q, quoteAt content i (lineBeginning content i (detectNL content)) (detectNL content) = some q := by
    unfold quoteAt
    simp only []
    rw [if_neg (Nat.not_lt.2 h)]
    split
    · exact ⟨_, rfl⟩
    · exact ⟨_, rfl⟩
  obtain ⟨q, hq⟩ := hq
  unfold newLocation
  simp only []
  rw [hq]
  rfl

/-! ### additional facts -/

/-- sharper than `lineBeginning_le`: the line beginning never exceeds the (clamped) position itself -/
theorem lineBeginning_le_pos (content : Bytes) (pos : Nat) (nl : UInt8) :
    lineBeginning content pos nl ≤ min pos content.length :=
  lineBeginning_le_clamp content pos nl

/-- the position (clamped to the content) is inside the raw scanned line `[lineBeginning, scan]`; `lineEnd`
    is that scan result or one less -/
theorem lineEnd_ge (content : Bytes) (pos : Nat) (nl : UInt8) :
    min pos content.length ≤ lineEnd content pos nl + 1 := by
  have hge := scanOf_ge content pos nl
  rcases lineEnd_cases content pos nl with he | ⟨_, he, _⟩ <;> omega

/-- `lineEnd` stops at the end of the content or on a line end (possibly one byte earlier, on the `\r` of `\r\n`
    resp. the `\n` of `\n\r`) -/
theorem lineEnd_stop (content : Bytes) (pos : Nat) (nl : UInt8) :
    lineEnd content pos nl = content.length ∨ lineEnd content pos nl + 1 = content.length ∨
      byteAt content (lineEnd content pos nl) = nl ∨ byteAt content (lineEnd content pos nl + 1) = nl := by
  have hle := scanOf_le content pos nl
  have hstop := scan_stop content nl (content.length - min pos content.length + 1)
    (min pos content.length) (Nat.le_refl _)
  change content.length ≤ scanOf content pos nl ∨ byteAt content (scanOf content pos nl) = nl at hstop
  rcases lineEnd_cases content pos nl with he | ⟨hp, he, _⟩
  · rw [he]
    rcases hstop with h | h
    · exact Or.inl (by omega)
    · exact Or.inr (Or.inr (Or.inl h))
  · have e : lineEnd content pos nl + 1 = scanOf content pos nl := by omega
    rw [e]
    rcases hstop with h | h
    · exact Or.inr (Or.inl (by omega))
    · exact Or.inr (Or.inr (Or.inr h))

/-! ### non-vacuity checks -/

-- "ab\ncd"
example : lineBeginning [97, 98, 10, 99, 100] 3 10 = 3 := by decide
example : lineNumber [97, 98, 10, 99, 100] 3 10 = 2 := by decide
example : lineEnd [97, 98, 10, 99, 100] 3 10 = 5 := by decide
example : newLocation [97, 98, 10, 99, 100] 3 = some ⟨2, [99, 100]⟩ := by decide
-- error position on the line end itself: it belongs to the line it terminates
example : lineBeginning [97, 98, 10, 99, 100] 2 10 = 0 := by decide
example : lineNumber [97, 98, 10, 99, 100] 2 10 = 1 := by decide
example : newLocation [97, 98, 10, 99, 100] 2 = some ⟨1, [97, 98]⟩ := by decide
-- index past the end, empty content
example : newLocation [97, 98, 10, 99, 100] 1000 = some ⟨2, [99, 100]⟩ := by decide
example : newLocation [] 7 = some ⟨1, []⟩ := by decide
-- CRLF: "ab\r\ncd\r\nef"
example : detectNL [97, 98, 13, 10, 99, 100, 13, 10, 101, 102] = 10 := by decide
example : lineEnd [97, 98, 13, 10, 99, 100, 13, 10, 101, 102] 4 10 = 6 := by decide
example : newLocation [97, 98, 13, 10, 99, 100, 13, 10, 101, 102] 5 = some ⟨2, [99, 100]⟩ := by decide
-- CRLF, error position on the `\n` of an empty line "a\r\n\r\nb": lineEnd steps back onto lineBeginning
example : lineBeginning [97, 13, 10, 13, 10, 98] 3 10 = 3 := by decide
example : lineEnd [97, 13, 10, 13, 10, 98] 3 10 = 3 := by decide
example : newLocation [97, 13, 10, 13, 10, 98] 3 = some ⟨2, []⟩ := by decide

end JSight.C02
