import JSight.Model.PathBind
import JSight.Proofs.PathBind
/-!
C13 (binding part) — `core/compile_catalog.go BuildResourceMethodsPathVariables`:
for every HTTP interaction, `pathVariables` lists exactly those `{name}` segments of its path for which
some Path directive declares a property at that path prefix, in path order; interactions without
declared parameters have none; a Path property matching no segment and a parameter declared twice for one
prefix are rejected.

Property theorems only; helper lemmas (stated for an arbitrary start table) are in
`JSight/Proofs/PathBind.lean`.
-/
namespace JSight.C13B
open JSight JSight.PathBind

/-- what the compiler guarantees of every collected Path directive: its parameters are those of one
    path, with distinct names (`checkedPathParameters` at collection time) -/
def WFRaw (v : RawPV) : Prop := ∃ p, v.params = pathParameters p ∧ (v.params.map (·.2)).Nodup

/-- a prefix determines the parameter name (the prefix ends with the segment "{name}");
    no hypothesis on the paths or names is needed -/
theorem prefix_determines_name (p1 p2 pre n1 n2 : Bytes)
    (h1 : (pre, n1) ∈ pathParameters p1) (h2 : (pre, n2) ∈ pathParameters p2) : n1 = n2 := by
  rw [mem_pathParameters_name p1 pre n1 h1, mem_pathParameters_name p2 pre n2 h2]

/-- accepted ⇒ no prefix is bound twice -/
theorem table_keys_nodup {rs : List RawPV} {m : PMap} (h : bindAll rs [] = .ok m) :
    (m.map (·.1)).Nodup :=
  bindAll_keys_nodup rs [] m h List.nodup_nil

/-- EXACTNESS of the table: its entries are exactly the (prefix, directive, name) triples such that the
    directive has the parameter `name` at `pre` and declares the property `name` -/
theorem table_exact {rs : List RawPV} {m : PMap} (hwf : ∀ v ∈ rs, WFRaw v)
    (h : bindAll rs [] = .ok m) (pre : Bytes) (id : Nat) (name : Bytes) :
    (pre, (id, name)) ∈ m ↔ ∃ v ∈ rs, v.id = id ∧ (pre, name) ∈ v.params ∧ name ∈ v.props := by
  constructor
  · intro hx
    rcases bindAll_sound rs [] m h pre id name hx with h0 | h1
    · cases h0
    · exact h1
  · rintro ⟨v, hv, rfl, hps, hpp⟩
    obtain ⟨_, _, hnd⟩ := hwf v hv
    exact bindAll_complete rs [] m h v hv hnd pre name hps hpp

/-- **C13**: the variables of a path are exactly its declared parameters … -/
theorem variables_exact {rs : List RawPV} {m : PMap} (hwf : ∀ v ∈ rs, WFRaw v)
    (h : bindAll rs [] = .ok m) (path : Bytes) (n : Bytes) (id : Nat) :
    (n, id) ∈ variablesOf m path ↔
      ∃ pre, (pre, n) ∈ pathParameters path ∧
        ∃ v ∈ rs, v.id = id ∧ (pre, n) ∈ v.params ∧ n ∈ v.props := by
  rw [mem_variablesOf]
  constructor
  · rintro ⟨pre, name, hmem, hg⟩
    have hx := mem_of_get_eq_some m pre (id, name) hg
    rcases (table_exact hwf h pre id name).mp hx with ⟨v, hv, hid, hps, hpp⟩
    obtain ⟨p, hp, _⟩ := hwf v hv
    have hn : n = name := prefix_determines_name path p pre n name hmem (hp ▸ hps)
    subst hn
    exact ⟨pre, hmem, v, hv, hid, hps, hpp⟩
  · rintro ⟨pre, hmem, v, hv, hid, hps, hpp⟩
    have hx := (table_exact hwf h pre id n).mpr ⟨v, hv, hid, hps, hpp⟩
    exact ⟨pre, n, hmem, get_eq_some_of_mem m (table_keys_nodup h) pre (id, n) hx⟩

/-- … in path order (for any table) -/
theorem variables_in_path_order (m : PMap) (path : Bytes) :
    ((variablesOf m path).map (·.1)).Sublist ((pathParameters path).map (·.2)) :=
  filterMap_names_sublist (PMap.get m) (pathParameters path)

/-- … and an interaction without declared parameters has none -/
theorem none_declared {rs : List RawPV} {m : PMap} (hwf : ∀ v ∈ rs, WFRaw v)
    (h : bindAll rs [] = .ok m) (path : Bytes)
    (hn : ∀ pre n, (pre, n) ∈ pathParameters path →
      ¬ ∃ v ∈ rs, (pre, n) ∈ v.params ∧ n ∈ v.props) :
    variablesOf m path = [] := by
  apply List.eq_nil_iff_forall_not_mem.mpr
  rintro ⟨n, id⟩ hx
  rcases (variables_exact hwf h path n id).mp hx with ⟨pre, hmem, v, hv, _, hps, hpp⟩
  exact hn pre n hmem ⟨v, hv, hps, hpp⟩

/-- each declared parameter is listed once (for any table: the names of an accepted path are distinct) -/
theorem variables_nodup (m : PMap) (path : Bytes) {pp : List (Bytes × Bytes)}
    (hp : checkedPathParameters path = .ok pp) : ((variablesOf m path).map (·.1)).Nodup := by
  exact (variables_in_path_order m path).nodup (checked_ok_nodup path pp hp)

/-! ### REJECTIONS -/

/-- a Path property that matches no `{name}` segment of the directive's path is rejected -/
theorem unused_rejected {rs : List RawPV} {v : RawPV} {n : Bytes} (hv : v ∈ rs) (hn : n ∈ v.props)
    (hno : n ∉ v.params.map (·.2)) : ∀ m, bindAll rs [] ≠ .ok m := by
  intro m h
  exact hno (bindAll_all_used rs [] m h v hv n hn)

/-- a parameter declared twice for one prefix (by two Path directives, or by the same directive listed
    twice) is rejected -/
theorem twice_rejected (rs1 rs2 rs3 : List RawPV) (v1 v2 : RawPV) (pre n : Bytes)
    (h1 : (pre, n) ∈ v1.params) (h1' : n ∈ v1.props) (h2 : (pre, n) ∈ v2.params) (h2' : n ∈ v2.props)
    (hwf : WFRaw v1 ∧ WFRaw v2) : ∀ m, bindAll (rs1 ++ v1 :: rs2 ++ v2 :: rs3) [] ≠ .ok m := by
  intro m h
  obtain ⟨⟨_, _, hnd1⟩, ⟨_, _, hnd2⟩⟩ := hwf
  rcases (bindAll_append_ok_iff _ _ _ _).mp h with ⟨mb, ha, hb⟩
  have hx : (pre, (v1.id, n)) ∈ mb :=
    bindAll_complete _ [] mb ha v1 (by simp) hnd1 pre n h1 h1'
  rcases (bindAll_cons_ok_iff _ _ _ _).mp hb with ⟨m1, hc, _⟩
  exact bindParams_clash v2.id v2.params v2.props mb hnd2 pre n h2 h2'
    (List.mem_map.mpr ⟨_, hx, rfl⟩) _ hc

/-! ### the verdict does not depend on the order of the Path directives -/

/-- ACCEPTANCE, characterised: a project is accepted iff every property of every Path directive names a
    `{name}` segment of the directive's path and no prefix is bound twice -/
theorem accepted_iff {rs : List RawPV} (hwf : ∀ v ∈ rs, WFRaw v) :
    (∃ m, bindAll rs [] = .ok m) ↔
      (∀ v ∈ rs, ∀ n ∈ v.props, n ∈ v.params.map (·.2)) ∧
      (rs.flatMap fun v => (v.params.filter fun x => v.props.contains x.2).map (·.1)).Nodup := by
  rw [bindAll_ok_iff rs [] (fun v hv => (hwf v hv).choose_spec.2)]
  constructor
  · rintro ⟨h1, h2, _⟩; exact ⟨h1, h2⟩
  · rintro ⟨h1, h2⟩; exact ⟨h1, h2, fun _ _ hk => by cases hk⟩

/-- `bindAll` accepts `rs` iff it accepts any permutation of `rs` … -/
theorem order_free {rs rs' : List RawPV} (hwf : ∀ v ∈ rs, WFRaw v) (hp : rs.Perm rs') :
    (∃ m, bindAll rs [] = .ok m) ↔ ∃ m', bindAll rs' [] = .ok m' := by
  have hwf' : ∀ v ∈ rs', WFRaw v := fun v hv => hwf v (hp.mem_iff.mpr hv)
  rw [accepted_iff hwf, accepted_iff hwf', (hp.flatMap_right _).nodup_iff]
  constructor
  · rintro ⟨h1, h2⟩; exact ⟨fun v hv => h1 v (hp.mem_iff.mpr hv), h2⟩
  · rintro ⟨h1, h2⟩; exact ⟨fun v hv => h1 v (hp.mem_iff.mp hv), h2⟩

/-- … and then the tables agree as sets, hence so do the variables of every path -/
theorem order_free_table {rs rs' : List RawPV} {m m' : PMap} (hwf : ∀ v ∈ rs, WFRaw v)
    (hp : rs.Perm rs') (h : bindAll rs [] = .ok m) (h' : bindAll rs' [] = .ok m') :
    ∀ x, x ∈ m ↔ x ∈ m' := by
  have hwf' : ∀ v ∈ rs', WFRaw v := fun v hv => hwf v (hp.mem_iff.mpr hv)
  rintro ⟨pre, id, name⟩
  rw [table_exact hwf h, table_exact hwf' h']
  constructor
  · rintro ⟨v, hv, hr⟩; exact ⟨v, hp.mem_iff.mp hv, hr⟩
  · rintro ⟨v, hv, hr⟩; exact ⟨v, hp.mem_iff.mpr hv, hr⟩

/-- … so every interaction gets the same variables, whatever the order of the Path directives -/
theorem order_free_variables {rs rs' : List RawPV} {m m' : PMap} (hwf : ∀ v ∈ rs, WFRaw v)
    (hp : rs.Perm rs') (h : bindAll rs [] = .ok m) (h' : bindAll rs' [] = .ok m') (path : Bytes) :
    variablesOf m path = variablesOf m' path := by
  have hget : ∀ pre, PMap.get m pre = PMap.get m' pre := by
    intro pre
    cases hg : PMap.get m' pre with
    | none =>
      rw [get_eq_none_iff] at hg ⊢
      intro hk
      rcases List.mem_map.mp hk with ⟨⟨k, x⟩, hx, rfl⟩
      exact hg (List.mem_map.mpr ⟨_, (order_free_table hwf hp h h' _).mp hx, rfl⟩)
    | some x =>
      exact get_eq_some_of_mem m (table_keys_nodup h) pre x
        ((order_free_table hwf hp h h' _).mpr (mem_of_get_eq_some m' pre x hg))
  have e : PMap.get m = PMap.get m' := funext hget
  unfold variablesOf
  rw [e]

/-! ### non-vacuity checks on a concrete project -/

/-- `Except` has no `DecidableEq` in core; needed only for the `decide` checks below -/
local instance : DecidableEq (Except BindErr PMap)
  | .ok a, .ok b => if h : a = b then isTrue (by rw [h]) else isFalse (fun e => h (Except.ok.inj e))
  | .error a, .error b =>
    if h : a = b then isTrue (by rw [h]) else isFalse (fun e => h (Except.error.inj e))
  | .ok _, .error _ => isFalse (fun e => by cases e)
  | .error _, .ok _ => isFalse (fun e => by cases e)

/-- "/a/{x}" -/
private def pAX : Bytes := [47, 97, 47, 123, 120, 125]
/-- "/a/{x}/b/{y}" -/
private def pAXBY : Bytes := [47, 97, 47, 123, 120, 125, 47, 98, 47, 123, 121, 125]
/-- "/a/{z}/b/{y}" -/
private def pAZBY : Bytes := [47, 97, 47, 123, 122, 125, 47, 98, 47, 123, 121, 125]

/-- `Path /a/{x}` declaring `x` (directive 1); `Path /a/{x}/b/{y}` declaring `y` (directive 2) -/
private def proj : List RawPV :=
  [⟨1, pathParameters pAX, [[120]]⟩, ⟨2, pathParameters pAXBY, [[121]]⟩]

/-- the table: "a/{x}/b/{y}" ↦ (2, y), "a/{x}" ↦ (1, x) -/
private def tbl : PMap :=
  [([97, 47, 123, 120, 125, 47, 98, 47, 123, 121, 125], (2, [121])),
   ([97, 47, 123, 120, 125], (1, [120]))]

example : ∀ v ∈ proj, WFRaw v := by
  intro v hv
  simp only [proj, List.mem_cons, List.not_mem_nil, or_false] at hv
  rcases hv with rfl | rfl
  · exact ⟨pAX, rfl, by decide⟩
  · exact ⟨pAXBY, rfl, by decide⟩

example : bindAll proj [] = .ok tbl := by decide

-- GET /a/{x} : x, declared by directive 1
example : variablesOf tbl pAX = [([120], 1)] := by decide
-- GET /a/{x}/b/{y} : x (directive 1) then y (directive 2), in path order
example : variablesOf tbl pAXBY = [([120], 1), ([121], 2)] := by decide
-- GET /a/{z}/b/{y} : nothing is declared at the prefixes "a/{z}" and "a/{z}/b/{y}"
example : variablesOf tbl pAZBY = [] := by decide

-- `Path /a/{x}` declaring `x` and `z`: "z" matches no segment
example : bindAll [⟨1, pathParameters pAX, [[120], [122]]⟩] [] = .error (.unused 1 [[122]]) := by decide

-- `x` of "a/{x}" declared by `Path /a/{x}` and again by `Path /a/{x}/b/{y}`
example : bindAll [⟨1, pathParameters pAX, [[120]]⟩, ⟨2, pathParameters pAXBY, [[120], [121]]⟩] [] =
    .error (.alreadyDefined 2 [120]) := by decide

end JSight.C13B
