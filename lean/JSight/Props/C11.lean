import JSight.Basic
namespace JSight.C11
end JSight.C11
