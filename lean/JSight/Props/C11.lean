import JSight.Proofs.Registry
/-!
C11 — uniqueness of named declarations (name-level registry model `JSight.Reg`): a document is accepted iff
no (collection, key) pair occurs twice; the diagnostic is located at the second occurrence.
-/
namespace JSight.C11
open JSight.Reg

/-- a second declaration with the same (collection, key) is rejected, and the diagnostic is located at the SECOND one,
    provided the declarations before it are pairwise distinct -/
theorem duplicate_rejected (pre mid post : List Decl) (d₁ d₂ : Decl)
    (hk : d₁.coll = d₂.coll ∧ d₁.key = d₂.key)
    (hdist : ((pre ++ d₁ :: mid).map (fun d => (d.coll, d.key))).Nodup) :
    addAll [] (pre ++ d₁ :: mid ++ d₂ :: post) = .error d₂.id := by
  rw [addAll_append, addAll_of_nodup [] _ hdist (by intro x _ hx; cases hx)]
  simp only [addAll]
  rw [add_dup_eq]
  rw [← hk.1, ← hk.2]
  simp

/-- accepted ⇒ no (collection, key) occurs twice -/
theorem accepted_nodup (ds : List Decl) (es : Entries) (h : addAll [] ds = .ok es) :
    (ds.map (fun d => (d.coll, d.key))).Nodup ∧ es = ds.map (fun d => (d.coll, d.key)) :=
  (addAll_nil_ok_iff ds es).mp h

/-- accepted ⇔ distinct -/
theorem accepted_iff (ds : List Decl) :
    (∃ es, addAll [] ds = .ok es) ↔ (ds.map (fun d => (d.coll, d.key))).Nodup := by
  constructor
  · intro ⟨es, h⟩; exact (accepted_nodup ds es h).1
  · intro h; exact ⟨_, (addAll_nil_ok_iff ds _).mpr ⟨h, rfl⟩⟩

/-! non-vacuity -/
local instance {ε α : Type} [DecidableEq ε] [DecidableEq α] : DecidableEq (Except ε α) := decExcept
example : addAll [] [⟨.types, 1, 10⟩, ⟨.enums, 1, 20⟩, ⟨.types, 2, 30⟩, ⟨.types, 1, 40⟩, ⟨.enums, 1, 50⟩]
    = .error 40 := by decide
example : addAll [] [⟨.types, 1, 10⟩, ⟨.enums, 1, 20⟩, ⟨.types, 2, 30⟩]
    = .ok [(.types, 1), (.enums, 1), (.types, 2)] := by decide

end JSight.C11
