import JSight.Model.IncName
import JSight.Proofs.C08
/-!
C08 — include file names.  Property theorems only (helper lemmas in `JSight/Proofs/C08.lean`).
-/
namespace JSight.C08
open JSight

/-- an accepted include file name is non-empty, relative, backslash-free and has no "." / ".." component
    — for EVERY byte string -/
theorem valid_components (s : Bytes) (h : validName s = .ok ()) :
    s ≠ [] ∧ s.head? ≠ some B.slash ∧ B.bsl ∉ s ∧
    ∀ c ∈ splitSlash s, c ≠ [B.dot] ∧ c ≠ [B.dot, B.dot] := by
  obtain ⟨c, t, hs, hc, hany, hb⟩ := validName_ok s h
  refine ⟨?_, ?_, ?_, ?_⟩
  · rw [hs]; exact List.cons_ne_nil _ _
  · rw [hs]; intro h'
    have : c = B.slash := by simpa using h'
    rw [this] at hc; simp at hc
  · intro hm
    have : s.contains B.bsl = true := List.contains_iff_mem.mpr hm
    rw [hb] at this; exact Bool.noConfusion this
  · intro p hp
    have hn : ¬ (p = [B.dot] ∨ p = [B.dot, B.dot]) := by
      intro hor
      have : (splitSlash s).any (fun p => decide (p = [B.dot] ∨ p = [B.dot, B.dot])) = true :=
        List.any_eq_true.mpr ⟨p, hp, decide_eq_true hor⟩
      rw [hany] at this; exact Bool.noConfusion this
    exact ⟨fun h1 => hn (Or.inl h1), fun h2 => hn (Or.inr h2)⟩

/-- absolute names, names with a "." / ".." component and names with a backslash are rejected -/
theorem rejects (s : Bytes)
    (h : s.head? = some B.slash ∨ B.bsl ∈ s ∨ ∃ c ∈ splitSlash s, c = [B.dot] ∨ c = [B.dot, B.dot]) :
    validName s ≠ .ok () := by
  intro hok
  obtain ⟨_, hhead, hb, hcomp⟩ := valid_components s hok
  rcases h with h | h | ⟨c, hc, h⟩
  · exact hhead h
  · exact hb h
  · rcases h with h | h
    · exact (hcomp c hc).1 h
    · exact (hcomp c hc).2 h

/-- rootedness is inherited from the directory -/
theorem join_rooted (dir s : Bytes) (hd : dir ≠ []) : isRooted (dir ++ B.slash :: s) = isRooted dir :=
  isRooted_append dir (B.slash :: s) hd

/-- the cleaned components of `dir/s` are the cleaned components of `dir` followed by the non-empty
    components of `s`: joining an accepted name never leaves the directory (lexically) -/
theorem confined (dir s : Bytes) (hd : dir ≠ []) (h : validName s = .ok ()) :
    cleanComps (isRooted (dir ++ B.slash :: s)) [] (splitSlash (dir ++ B.slash :: s)) =
      cleanComps (isRooted dir) [] (splitSlash dir) ++ (splitSlash s).filter (fun c => !c.isEmpty) := by
  rw [join_rooted dir s hd, splitSlash_append, cleanComps_append,
    cleanComps_plain _ _ _ (valid_components s h).2.2.2]

/-! ### Non-vacuity checks -/

/-- core has no `DecidableEq (Except ε α)`; local to the checks below -/
local instance : DecidableEq (Except IncErr Unit)
  | .ok (), .ok () => isTrue rfl
  | .error a, .error b => if h : a = b then isTrue (h ▸ rfl) else isFalse (fun h' => h (Except.error.inj h'))
  | .ok _, .error _ => isFalse nofun
  | .error _, .ok _ => isFalse nofun

-- "sub/inc.jst"
example : validName [115,117,98,47,105,110,99,46,106,115,116] = .ok () := by decide
-- "a/../b"
example : validName [97,47,46,46,47,98] = .error .dotPart := by decide
-- ".."
example : validName [46,46] = .error .dotPart := by decide
-- "."
example : validName [46] = .error .dotPart := by decide
-- "/etc/passwd"
example : validName [47,101,116,99,47,112,97,115,115,119,100] = .error .absolute := by decide
-- "a\\b"
example : validName [97,92,98] = .error .backslash := by decide
-- "" (Go panic, modelled as an error)
example : validName [] = .error .empty := by decide
-- "..a/b.." is a legitimate name (dots inside a component are fine)
example : validName [46,46,97,47,98,46,46] = .ok () := by decide
-- pathJoin "/x/y" "sub/inc.jst" = "/x/y/sub/inc.jst"
example : pathJoin [47,120,47,121] [115,117,98,47,105,110,99,46,106,115,116]
    = [47,120,47,121,47,115,117,98,47,105,110,99,46,106,115,116] := by decide
-- pathJoin "x/../.." "a//b" = "../a/b"  (the directory's own ".." are the directory's business)
example : pathJoin [120,47,46,46,47,46,46] [97,47,47,98] = [46,46,47,97,47,98] := by decide
-- an instance of `confined`: "/x/y" + "sub/inc.jst"
example : cleanComps true [] (splitSlash ([47,120,47,121] ++ B.slash :: [115,117,98,47,105]))
    = [[120],[121],[115,117,98],[105]] := by decide

end JSight.C08
