import JSight.Model.TagName
import JSight.Model.PathPar
import JSight.Model.IncName
namespace JSight.C08
end JSight.C08
