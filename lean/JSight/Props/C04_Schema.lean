import JSight.Proofs.SchemaContent
/-!
C04 on the schema-content model (`Model/SchemaContent.lean`): what the conversion of the schema library's AST into the
schema content of the catalog (`contentOf`) keeps, lists and collects.

Vocabulary (all in `Proofs/SchemaContent.lean`):
* accessors `Ast.tokenType / schemaType / key / value / comment / rules / children / isKeyShortcut`,
  `Content.key / tokenType / type / scalar / note / rules / kids / isKeyRef / optional`, `RuleC.children` …
* `SameShape a c` (`sameShape a c = true`, a Bool function, decidable): recursively the same token type, type, value,
  note (`annotation` of the comment) and key-shortcut flag; the properties of an object in order with their keys, the
  items of an array in order and optional, no children under any other node.  Unfolded by `SameShape_iff`.
* `listed kv`: the rule is not a generated "type" / "or" rule.
* `mentions a`: the names the conversion adds to the used user types, in the order it meets them (pre-order): per node
  `rulesMentions` (for each rule in order `ruleMentions`: "type" / "additionalProperties": the value when it starts with
  '@'; "allOf": the value when not empty and the value of EVERY item — the code does not look at the first byte here, see
  `allOf_item_not_checked` —; "or": the resolved name `orItemType` of each item when it starts with '@'), then for an
  OBJECT each property's mentions followed by its key when the key is a type shortcut, for an ARRAY each item's mentions
  (the key-shortcut flag of an item is not looked at), and nothing for the children of any other node.
  `mentionsAll` is the plain reading ("every child, key shortcut or not, whatever the token type"); both agree on
  `regular` ASTs (`mentions_eq_mentionsAll`), and differ otherwise (`mentionsAll_differs_*`).
* `WellFormed a` (`wellFormed a = true`, decidable; unfolded by `WellFormed_iff` / `RuleWF`): every visited node's
  "type" and "additionalProperties" rules have a non-empty value, every item of an "or" rule resolves to a non-empty
  name, every "optional" rule holds a word of `strconv.ParseBool`.
* `nodes a`: the nodes the conversion visits; `RuleFaults st kv f`: the rule `kv` of a node of type `st` is a cause of
  the fault `f`.
-/
namespace JSight.C04S
open JSight JSight.SC

/-! ## (1) shape -/

/-- the content tree has the shape of the AST, recursively -/
theorem content_sameShape {a : Ast} {u u' : List Bytes} {c : Content} (h : contentOf a u = .ok (c, u')) :
    SameShape a c :=
  (contentOf_spec a u c u' h).2.1

/-- the root of the content has no key (a property gets its key from the object that holds it) -/
theorem content_key_none {a : Ast} {u u' : List Bytes} {c : Content} (h : contentOf a u = .ok (c, u')) :
    c.key = none :=
  (contentOf_spec a u c u' h).2.2

/-- the shape of the root: same token type / type / value; object properties keep their keys, in order; array items are
as many and optional; no other node has children -/
theorem content_shape (a : Ast) (u : List Bytes) (c : Content) (u' : List Bytes) (h : contentOf a u = .ok (c, u')) :
    c.tokenType = a.tokenType ∧ c.type = a.schemaType ∧ c.scalar = a.value ∧
    (a.tokenType = bObject → c.kids.map Content.key = a.children.map (fun k => some k.key)) ∧
    (a.tokenType = bArray → c.kids.length = a.children.length ∧ ∀ k ∈ c.kids, k.optional = true) ∧
    (a.tokenType ≠ bObject → a.tokenType ≠ bArray → c.kids = []) := by
  have hs := content_sameShape h
  obtain ⟨tt, st, k, v, cm, rules, children, kr⟩ := a
  unfold SameShape at hs
  rw [sameShape_node] at hs
  simp only [Bool.and_eq_true, beq_iff_eq] at hs
  obtain ⟨⟨⟨⟨⟨h1, h2⟩, h3⟩, _⟩, _⟩, hk⟩ := hs
  unfold sameKidsShape at hk
  refine ⟨h1, h2, h3, ?_, ?_, ?_⟩
  · intro e
    have e : tt = bObject := e
    subst e
    exact samePropsShape_keys (l := children) (by simpa using hk)
  · intro e
    have e : tt = bArray := e
    subst e
    have ne : (bArray == bObject) = false := by decide
    exact sameItemsShape_optional (l := children) (by simpa [ne] using hk)
  · intro e1 e2
    have e1 : ¬tt = bObject := e1
    have e2 : ¬tt = bArray := e2
    simpa [e1, e2] using hk

/-- the note is the annotation of the comment and the key-shortcut flag is kept -/
theorem content_note_keyRef {a : Ast} {u u' : List Bytes} {c : Content} (h : contentOf a u = .ok (c, u')) :
    c.note = annotation a.comment ∧ c.isKeyRef = a.isKeyShortcut := by
  have := (SameShape_iff a c).mp (content_sameShape h)
  exact ⟨this.2.2.2.1, this.2.2.2.2.1⟩

/-! ## (2) rules -/

/-- the listed rules are the rules of the node in order, except generated "type" / "or" rules -/
theorem rules_listed {st : Bytes} {rs : List (Bytes × RuleAst)} {u u' : List Bytes} {out : List RuleC}
    (h : collectRules st rs u = .ok (out, u')) :
    out.map RuleC.key = (rs.filter (fun kv => !((kv.1 == bType || kv.1 == bOr) && kv.2.generated))).map (·.1) := by
  rw [(collectRules_ok h).1, List.map_map]
  have : (RuleC.key ∘ fun (kv : Bytes × RuleAst) => (ruleOf kv.2).withKey kv.1) = (·.1) := by
    funext kv; simp
  rw [this]
  rfl

/-- … each the image (`ruleOf`) of its rule, under its key -/
theorem rules_listed_exact {st : Bytes} {rs : List (Bytes × RuleAst)} {u u' : List Bytes} {out : List RuleC}
    (h : collectRules st rs u = .ok (out, u')) :
    out = (rs.filter listed).map (fun kv => (ruleOf kv.2).withKey kv.1) :=
  (collectRules_ok h).1

/-- the rules of a content node are the listed rules of the AST node, and its "optional" flag is the boolean of the first
"optional" rule (false when there is none) -/
theorem content_rules {a : Ast} {u u' : List Bytes} {c : Content} (h : contentOf a u = .ok (c, u')) :
    c.rules = (a.rules.filter listed).map (fun kv => (ruleOf kv.2).withKey kv.1) ∧
    optOf c.rules = .ok c.optional := by
  obtain ⟨tt, st, k, v, cm, rules, children, kr⟩ := a
  obtain ⟨rs, u1, o, cs, h1, h2, _, rfl⟩ := contentOf_inv h
  exact ⟨(collectRules_ok h1).1, h2⟩

/-! ## (3) used user types -/

/-- the used types after the conversion: those before, then the new names the AST mentions, in first-occurrence order -/
theorem used_exact {a : Ast} {u u' : List Bytes} {c : Content} (h : contentOf a u = .ok (c, u')) :
    u' = addAll u (mentions a) :=
  (contentOf_spec a u c u' h).1

/-- the used types only grow -/
theorem used_monotone {a : Ast} {u u' : List Bytes} {c : Content} (h : contentOf a u = .ok (c, u')) :
    ∀ x ∈ u, x ∈ u' := by
  intro x hx
  rw [used_exact h]
  exact mem_addAll.mpr (Or.inl hx)

/-- … at the end: the list before is a prefix of the list after -/
theorem used_prefix {a : Ast} {u u' : List Bytes} {c : Content} (h : contentOf a u = .ok (c, u')) :
    ∃ t, u' = u ++ t := by
  rw [used_exact h]
  exact addAll_prefix u _

/-- the used types never hold a name twice -/
theorem used_nodup {a : Ast} {u u' : List Bytes} {c : Content} (hu : u.Nodup) (h : contentOf a u = .ok (c, u')) :
    u'.Nodup := by
  rw [used_exact h]
  exact nodup_addAll hu

/-- starting from nothing, the used types are exactly the names the AST mentions -/
theorem used_exact_set {a : Ast} {u' : List Bytes} {c : Content} (h : contentOf a [] = .ok (c, u')) :
    ∀ x, x ∈ u' ↔ x ∈ mentions a := by
  intro x
  rw [used_exact h, mem_addAll]
  simp

/-- the used types of the rules of one node -/
theorem used_rules {st : Bytes} {rs : List (Bytes × RuleAst)} {u u' : List Bytes} {out : List RuleC}
    (h : collectRules st rs u = .ok (out, u')) : u' = addAll u (rulesMentions st rs) :=
  (collectRules_ok h).2

/-- on regular ASTs (only objects and arrays have children, array items are not key shortcuts) `mentions` is the plain
"rules of the node, then every child's mentions followed by its key if it is a key shortcut" -/
theorem mentions_eq_mentionsAll {a : Ast} (h : regular a = true) : mentions a = mentionsAll a :=
  mentions_eq_mentionsAll_aux a h

/-! ## (4) faults -/

/-- no fault on well-formed ASTs -/
theorem contentOf_total {a : Ast} (hw : WellFormed a) (u : List Bytes) : ∃ c u', contentOf a u = .ok (c, u') :=
  contentOf_total_aux a hw u

/-- each fault has its cause: a visited node with a rule that produces it -/
theorem fault_cause {a : Ast} {u : List Bytes} {f : SC.Fault} (h : contentOf a u = .error f) :
    ∃ n ∈ nodes a, ∃ kv ∈ n.rules, RuleFaults n.schemaType kv f :=
  contentOf_error_aux a u f h

/-- `.emptyValue "type"`: some node has a "type" rule with an empty value -/
theorem fault_emptyType {a : Ast} {u : List Bytes} (h : contentOf a u = .error (.emptyValue bType)) :
    ∃ n ∈ nodes a, ∃ kv ∈ n.rules, kv.1 = bType ∧ kv.2.value = [] := by
  obtain ⟨n, hn, kv, hkv, hk, hf⟩ := fault_cause h
  refine ⟨n, hn, kv, hkv, hk, ?_⟩
  rcases hf with ⟨_, hv⟩ | ⟨e, _⟩
  · exact hv
  · exact absurd e (by decide)

/-- `.emptyValue "additionalProperties"`: some node has an "additionalProperties" rule with an empty value -/
theorem fault_emptyAdditional {a : Ast} {u : List Bytes} (h : contentOf a u = .error (.emptyValue bAdditional)) :
    ∃ n ∈ nodes a, ∃ kv ∈ n.rules, kv.1 = bAdditional ∧ kv.2.value = [] := by
  obtain ⟨n, hn, kv, hkv, hk, hf⟩ := fault_cause h
  refine ⟨n, hn, kv, hkv, hk, ?_⟩
  rcases hf with ⟨_, hv⟩ | ⟨e, _⟩
  · exact hv
  · exact absurd e (by decide)

/-- `.emptyValue "or"`: some node has an "or" rule with an item that resolves to the empty name -/
theorem fault_emptyOr {a : Ast} {u : List Bytes} (h : contentOf a u = .error (.emptyValue bOr)) :
    ∃ n ∈ nodes a, ∃ kv ∈ n.rules, kv.1 = bOr ∧ ∃ i ∈ kv.2.items, orItemType n.schemaType i = [] := by
  obtain ⟨n, hn, kv, hkv, hk, hf⟩ := fault_cause h
  refine ⟨n, hn, kv, hkv, hk, ?_⟩
  rcases hf with ⟨e, _⟩ | ⟨_, hv⟩
  · rcases e with e | e <;> exact absurd e (by decide)
  · exact hv

/-- `.optionalNotBool`: some node has an "optional" rule whose value is not a boolean word -/
theorem fault_optional {a : Ast} {u : List Bytes} (h : contentOf a u = .error .optionalNotBool) :
    ∃ n ∈ nodes a, ∃ kv ∈ n.rules, kv.1 = bOptional ∧ parseBool kv.2.value = none :=
  fault_cause h

/-- the only faults are these -/
theorem fault_kinds {a : Ast} {u : List Bytes} {f : SC.Fault} (h : contentOf a u = .error f) :
    f = .emptyValue bType ∨ f = .emptyValue bAdditional ∨ f = .emptyValue bOr ∨ f = .optionalNotBool := by
  obtain ⟨n, _, kv, _, hf⟩ := fault_cause h
  cases f with
  | optionalNotBool => simp
  | emptyValue r =>
    rcases hf.2 with ⟨e | e, _⟩ | ⟨e, _⟩ <;> simp [e]

/-! ## (5) `ruleOf` -/

/-- `ruleOf` keeps the rule: token type, value, note; its children are the properties (with their keys) first, then the
items, each converted in turn -/
theorem ruleOf_structure (r : RuleAst) :
    (ruleOf r).key = [] ∧ (ruleOf r).tokenType = r.tokenType ∧ (ruleOf r).scalar = r.value ∧
    (ruleOf r).note = r.comment ∧
    (ruleOf r).children = r.props.map (fun kv => (ruleOf kv.2).withKey kv.1) ++ r.items.map ruleOf := by
  refine ⟨ruleOf_key r, ruleOf_tokenType r, ruleOf_scalar r, ruleOf_note r, ?_⟩
  rw [ruleOf_children_eq, propsOf_eq_map, itemsOf_eq_map]

/-- sizes add up -/
theorem ruleOf_children (r : RuleAst) : (ruleOf r).children.length = r.props.length + r.items.length := by
  rw [(ruleOf_structure r).2.2.2.2]
  simp

/-- the properties keep their keys, the items have none -/
theorem ruleOf_children_keys (r : RuleAst) :
    (ruleOf r).children.map RuleC.key = r.props.map (·.1) ++ r.items.map (fun _ => []) := by
  rw [(ruleOf_structure r).2.2.2.2]
  simp [Function.comp_def]

/-! ## closed examples -/

private def s (x : String) : Bytes := x.toUTF8.toList
private def rule (v : String) (props : List (Bytes × RuleAst) := []) (items : List RuleAst := []) (g := false) :
    RuleAst :=
  .node (s "string") (s v) [] props items g
private def ruleC (k v : String) (children : List RuleC := []) : RuleC := .node (s k) (s "string") (s v) [] children

/-- an object `{allOf: ["@base", "@mixin"]}` with a property "pet" of type "@cat" (rule type "@cat"), a key-shortcut
property "@dog" (generated type rule, optional), and an array "list" whose item has an "or" rule naming "@a", "@b"
(through a "type" property) and "string" -/
private def exAst : Ast :=
  .node (s "object") (s "object") [] [] [] [(s "allOf", rule "" [] [rule "@base", rule "@mixin"])]
    [ .node (s "reference") (s "@cat") (s "pet") (s "@cat") [] [(s "type", rule "@cat")] [] false,
      .node (s "reference") (s "@dog") (s "@dog") (s "@dog") []
        [(s "type", rule "@dog" [] [] true), (s "optional", rule "true")] [] true,
      .node (s "array") (s "array") (s "list") [] [] []
        [ .node (s "string") (s "mixed") [] (s "\"x\"") []
            [(s "or", rule "" [] [rule "@a", rule "" [(s "type", rule "@b")], rule "string"])] [] false ] false ]
    false

private def exContent : Content :=
  .node none (s "object") (s "object") [] [] [ruleC "allOf" "" [ruleC "" "@base", ruleC "" "@mixin"]]
    [ .node (some (s "pet")) (s "reference") (s "@cat") (s "@cat") [] [ruleC "type" "@cat"] [] false false,
      .node (some (s "@dog")) (s "reference") (s "@dog") (s "@dog") [] [ruleC "optional" "true"] [] true true,
      .node (some (s "list")) (s "array") (s "array") [] [] []
        [ .node none (s "string") (s "mixed") (s "\"x\"") []
            [ruleC "or" "" [ruleC "" "@a", ruleC "" "" [ruleC "type" "@b"], ruleC "" "string"]] [] false true ]
        false false ]
    false false

private def exUsed : List Bytes := [s "@base", s "@mixin", s "@cat", s "@dog", s "@a", s "@b"]

/-- its content and its used types -/
example : contentOf exAst [] = .ok (exContent, exUsed) := by decide +kernel
/-- what it mentions ("@dog" twice: the generated type rule and the key shortcut) -/
example : mentions exAst = [s "@base", s "@mixin", s "@cat", s "@dog", s "@dog", s "@a", s "@b"] := by decide +kernel
example : addAll [] (mentions exAst) = exUsed := by decide +kernel
example : SameShape exAst exContent := by decide +kernel
example : WellFormed exAst ∧ regular exAst = true := by decide +kernel
/-- a name that is already used is not added again, the list only grows at the end -/
example : (contentOf exAst [s "@a", s "@cat"]).toOption.map (·.2)
    = some [s "@a", s "@cat", s "@base", s "@mixin", s "@dog", s "@b"] := by decide +kernel

/-- faults: an empty "type" value; an "or" item without a name under a node without a type; "optional" that is no
boolean -/
example : contentOf (.node (s "string") [] [] [] [] [(s "type", rule "")] [] false) []
    = .error (.emptyValue bType) := by decide +kernel
example : contentOf (.node (s "string") [] [] [] [] [(s "or", rule "" [] [rule ""])] [] false) []
    = .error (.emptyValue bOr) := by decide +kernel
example : contentOf (.node (s "string") (s "string") [] [] [] [(s "optional", rule "yes")] [] false) []
    = .error .optionalNotBool := by decide +kernel

/-- ADJUSTMENT 1: the names of an "allOf" rule are NOT filtered on '@' (`usedUserTypes.Add(i.Value)` unconditionally):
an item "plain" and an item with an empty value are both added to the used user types -/
theorem allOf_item_not_checked :
    (contentOf (.node (s "object") (s "object") [] [] [] [(s "allOf", rule "" [] [rule "plain", rule ""])] [] false)
      []).toOption.map (·.2) = some [s "plain", []] := by decide +kernel

/-- ADJUSTMENT 2: the key shortcut of an ARRAY ITEM is not a used type: the plain reading `mentionsAll` differs -/
theorem mentionsAll_differs_array :
    let a : Ast := .node (s "array") (s "array") [] [] [] []
      [.node (s "reference") (s "@x") (s "@x") (s "@x") [] [] [] true] false
    (contentOf a []).toOption.map (·.2) = some [] ∧ mentions a = [] ∧ mentionsAll a = [s "@x"] := by decide +kernel

/-- ADJUSTMENT 3: the children of a node that is neither an object nor an array are not visited -/
theorem mentionsAll_differs_scalar :
    let a : Ast := .node (s "string") (s "string") [] [] [] []
      [.node (s "reference") (s "@y") (s "k") (s "@y") [] [(s "type", rule "@y")] [] false] false
    (contentOf a []).toOption.map (·.2) = some [] ∧ mentions a = [] ∧ mentionsAll a = [s "@y"] := by decide +kernel

end JSight.C04S
