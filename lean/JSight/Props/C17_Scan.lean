import JSight.Props.C17
import JSight.Proofs.ScanParam
/-!
C17 (scanner part) — the quoted spelling of a parameter value goes through the SCANNER unchanged.

`Props/C17.lean` proves `unescape (quoteParam v) = v` for the pure decoding function.  Here the run of the
scanner model (`byteStep` … `lexAll` / `scanFile` over the regenerated table `Gen.code`) is connected to it:
for EVERY value `v` without line ends and zero bytes (`∀ c ∈ v, c ≠ 10 ∧ c ≠ 13 ∧ c ≠ 0`), EVERY oracle:

* `in_quotes_accepts` — the in-quotes loop consumes `escBody v` and stays in `stateParameterInQuoted`;
  `in_quotes_plain/backslash/escaped/closing/line_end/end_of_file/bad_escape/backslash_end_of_file` — what ONE
  byte does there (so: exactly the escaped bytes are accepted);
* `quoted_param_lexeme`, `quoted_param_scanFile`, `quoted_param_prefix`, `quoted_param_anywhere` — the Parameter
  lexeme is exactly the occurrence of `quoteParam v`, hence decodes to `v`;
* `bad_escape_rejected`, `unterminated_rejected`, `unterminated_at_eof`, `backslash_at_eof` — the error positions;
* `two_quoted_params`, `quoted_param_then_annotation` — two parameters; an annotation after the parameter.

Conventions of the model: a lexeme is `[b, e1)` (`e1` = Go's `end + 1`); an error is `Stop.diag idx`;
`scanFile` first refuses a file that is not valid UTF-8 — its theorems carry `firstInvalidUTF8 content = none`
(discharged by `firstInvalidUTF8_ascii` for ASCII files), the `lexAll` theorems need nothing of the kind.

Method: `Proofs/ScanParam.lean`.  The facts about the table are one-byte-step lemmas on the few states involved,
proved by `simp [code, …]` on these states, i.e. re-checked against the regenerated table on every run.
-/
namespace JSight.C17S
open JSight JSight.Gen JSight.ScanParam

/-! ## the in-quotes loop accepts exactly escaped bytes -/

section one_byte
variable (d : Src) (o : Oracle) (stk : List St) (es : List (Ev × Nat)) (lp : List (Nat × Nat)) (p : Nat)

/-- an ordinary byte is consumed -/
theorem in_quotes_plain (hp : p < d.size)
    (h : d.get p ≠ 0 ∧ d.get p ≠ 10 ∧ d.get p ≠ 13 ∧ d.get p ≠ 92 ∧ d.get p ≠ 34) :
    byteStep d o (cfg .stateParameterInQuoted stk es lp p) = .ok (cfg .stateParameterInQuoted stk es lp (p + 1)) :=
  stepQ_plain d o stk es lp p hp h.1 h.2.1 h.2.2.1 h.2.2.2.1 h.2.2.2.2

/-- a backslash opens an escape -/
theorem in_quotes_backslash (hp : p < d.size) (h : d.get p = 92) :
    byteStep d o (cfg .stateParameterInQuoted stk es lp p) =
      .ok (cfg .stateParameterInQuotedSlash stk es lp (p + 1)) :=
  stepQ_bsl d o stk es lp p hp h

/-- after a backslash `"` and `\` are consumed, back in the quotes -/
theorem in_quotes_escaped (hp : p < d.size) (h : d.get p = 34 ∨ d.get p = 92) :
    byteStep d o (cfg .stateParameterInQuotedSlash stk es lp p) =
      .ok (cfg .stateParameterInQuoted stk es lp (p + 1)) :=
  stepQS_ok d o stk es lp p hp h

/-- the quote ends the parameter at this byte -/
theorem in_quotes_closing (hp : p < d.size) (h : d.get p = 34) :
    byteStep d o (cfg .stateParameterInQuoted stk es lp p) =
      .ok ⟨.stateParameterOrAnnotation, stk, [(.parameterEnd, p)], es, lp, p + 1, 0⟩ :=
  stepQ_quote d o stk es lp p hp h

/-- a line end (or a zero byte) is an error at this byte -/
theorem in_quotes_line_end (hp : p < d.size) (h : d.get p = 10 ∨ d.get p = 13 ∨ d.get p = 0) :
    byteStep d o (cfg .stateParameterInQuoted stk es lp p) = .error (.diag p) :=
  stepQ_bad d o stk es lp p hp h

/-- the end of the file is an error at the end of the file -/
theorem in_quotes_end_of_file (hp : p = d.size) :
    byteStep d o (cfg .stateParameterInQuoted stk es lp p) = .error (.diag p) :=
  stepQ_eof d o stk es lp p hp

/-- a backslash before any byte other than `"` and `\` is an error at that byte -/
theorem in_quotes_bad_escape (hp : p < d.size) (h : d.get p ≠ 34 ∧ d.get p ≠ 92) :
    byteStep d o (cfg .stateParameterInQuotedSlash stk es lp p) = .error (.diag p) :=
  stepQS_bad d o stk es lp p hp h.1 h.2

/-- a backslash before the end of the file is an error at the end of the file -/
theorem in_quotes_backslash_end_of_file (hp : p = d.size) :
    byteStep d o (cfg .stateParameterInQuotedSlash stk es lp p) = .error (.diag p) :=
  stepQS_eof d o stk es lp p hp

/-- **the invariant**: the escaped spelling of `v` is consumed entirely; the scanner is still in
`stateParameterInQuoted`, and the step stack, the open events (with `ParameterBegin`), the parameters of the
directive and the queue of found events (empty) are what they were -/
theorem in_quotes_accepts (v : Bytes) (fuel : Nat) (hv : ∀ c ∈ v, c ≠ 10 ∧ c ≠ 13 ∧ c ≠ 0)
    (hat : At d p (escBody v)) :
    byteLoop d o (fuel + (escBody v).length) (cfg .stateParameterInQuoted stk es lp p) =
      byteLoop d o fuel (cfg .stateParameterInQuoted stk es lp (p + (escBody v).length)) :=
  loopQ d o stk es lp v p fuel hv hat

end one_byte

/-! ## (1) the lexeme of a quoted parameter -/

/-- **C17S.quoted_param_anywhere** — after ANY keyword or previous parameter (the scanner is in
`stateParameterOrAnnotation` with an empty queue; step stack, open events, earlier parameters arbitrary):
a blank `sp`, further blanks `ws`, then `quoteParam v` yield, in one `Next`, the Parameter lexeme that is exactly
this occurrence of `quoteParam v`; its bytes decode to `v`; the scanner is in `stateParameterOrAnnotation` again,
right after the closing quote, with the parameter recorded. -/
theorem quoted_param_anywhere (d : Src) (o : Oracle) (stk : List St) (es : List (Ev × Nat)) (lp : List (Nat × Nat))
    (v : Bytes) (sp : UInt8) (ws : Bytes) (p fuel : Nat)
    (hv : ∀ c ∈ v, c ≠ 10 ∧ c ≠ 13 ∧ c ≠ 0) (hsp : sp = 32 ∨ sp = 9) (hws : ∀ w ∈ ws, w = 32 ∨ w = 9)
    (hat : At d p (sp :: (ws ++ quoteParam v))) :
    next d o (fuel + 1 + ws.length + (quoteParam v).length) (cfg .stateParameterOrAnnotation stk es lp p) =
      .ok (some ⟨.parameter, p + 1 + ws.length, p + 1 + ws.length + (quoteParam v).length⟩,
        cfg .stateParameterOrAnnotation stk es
          (lp ++ [(p + 1 + ws.length, p + 1 + ws.length + (quoteParam v).length)])
          (p + 1 + ws.length + (quoteParam v).length)) ∧
    unescape (d.slice (p + 1 + ws.length) (p + 1 + ws.length + (quoteParam v).length)) = v := by
  refine ⟨param_byteLoop d o stk es lp v sp ws p fuel hv hsp hws hat, ?_⟩
  have h := (At.append (a := sp :: ws) (b := quoteParam v) hat).2
  have e : p + (sp :: ws).length = p + 1 + ws.length := by simp only [List.length_cons]; omega
  rw [e] at h
  rw [At.slice h, C17.roundtrip]

/-- **C17S.quoted_param_lexeme** — the file `GET "<escBody v>"⏎`: for every oracle the run ends cleanly with
exactly the Keyword lexeme `[0,3)` and the Parameter lexeme `[4, 4 + |quoteParam v|)`; the bytes of the latter
are `quoteParam v` and decode to `v`. -/
theorem quoted_param_lexeme (v : Bytes) (hv : ∀ c ∈ v, c ≠ 10 ∧ c ≠ 13 ∧ c ≠ 0) (o : Oracle) (d : Src)
    (hH : Holds d ([71, 69, 84, 32] ++ quoteParam v ++ [10])) :
    lexAll d o (d.size + 2) Sc.init [] =
      ([⟨.keyword, 0, 3⟩, ⟨.parameter, 4, 4 + (quoteParam v).length⟩], none,
        cfg .stateExpectKeyword [] [] [(4, 4 + (quoteParam v).length)] (d.size + 1)) ∧
    d.slice 4 (4 + (quoteParam v).length) = quoteParam v ∧
    unescape (d.slice 4 (4 + (quoteParam v).length)) = v := by
  have h := get_quoted_eol d o 32 [] (Or.inl rfl) (by simp) v 10 hv (Or.inl rfl) hH
  have hs : d.slice 4 (4 + (quoteParam v).length) = quoteParam v :=
    At.slice (at_of_holds (quoteParam v) [71, 69, 84, 32] [10] hH)
  refine ⟨?_, hs, by rw [hs, C17.roundtrip]⟩
  simpa using h

/-- the same through `scanFile` (which first checks the encoding of the file) -/
theorem quoted_param_scanFile (v : Bytes) (hv : ∀ c ∈ v, c ≠ 10 ∧ c ≠ 13 ∧ c ≠ 0) (o : Oracle)
    (hutf : firstInvalidUTF8 ([71, 69, 84, 32] ++ quoteParam v ++ [10]) = none) :
    scanFile ([71, 69, 84, 32] ++ quoteParam v ++ [10]) o =
      ([⟨.keyword, 0, 3⟩, ⟨.parameter, 4, 4 + (quoteParam v).length⟩], none,
        cfg .stateExpectKeyword [] [] [(4, 4 + (quoteParam v).length)] (4 + (quoteParam v).length + 2)) := by
  rw [scanFile_valid _ _ hutf, (quoted_param_lexeme v hv o _ (holds_ofArray _)).1, size_ofArray]
  simp only [List.length_append, List.length_cons, List.length_nil]

/-- for an ASCII value the encoding check passes: no hypothesis on the file is left -/
theorem quoted_param_scanFile_ascii (v : Bytes) (hv : ∀ c ∈ v, c ≠ 10 ∧ c ≠ 13 ∧ c ≠ 0) (ha : ∀ c ∈ v, c < 0x80)
    (o : Oracle) :
    scanFile ([71, 69, 84, 32] ++ quoteParam v ++ [10]) o =
      ([⟨.keyword, 0, 3⟩, ⟨.parameter, 4, 4 + (quoteParam v).length⟩], none,
        cfg .stateExpectKeyword [] [] [(4, 4 + (quoteParam v).length)] (4 + (quoteParam v).length + 2)) :=
  quoted_param_scanFile v hv o (quoted_file_ascii v ha)

/-- **C17S.quoted_param_prefix** — `GET`, a blank, further blanks, `quoteParam v`, then ANYTHING (`rest`):
the first two lexemes are the keyword and the parameter (exactly the occurrence of `quoteParam v`, which decodes
to `v`); what follows is the run from `stateParameterOrAnnotation` right after the closing quote. -/
theorem quoted_param_prefix (v : Bytes) (hv : ∀ c ∈ v, c ≠ 10 ∧ c ≠ 13 ∧ c ≠ 0) (o : Oracle) (d : Src)
    (sp : UInt8) (ws rest : Bytes) (hsp : sp = 32 ∨ sp = 9) (hws : ∀ w ∈ ws, w = 32 ∨ w = 9)
    (hH : Holds d ([71, 69, 84] ++ (sp :: (ws ++ quoteParam v)) ++ rest)) :
    lexAll d o (d.size + 2) Sc.init [] =
      (⟨.keyword, 0, 3⟩ :: ⟨.parameter, 4 + ws.length, 4 + ws.length + (quoteParam v).length⟩ ::
        (lexAll d o d.size (afterParam (4 + ws.length) (4 + ws.length + (quoteParam v).length)) []).1,
       (lexAll d o d.size (afterParam (4 + ws.length) (4 + ws.length + (quoteParam v).length)) []).2) ∧
    unescape (d.slice (4 + ws.length) (4 + ws.length + (quoteParam v).length)) = v := by
  refine ⟨get_quoted_lexAll d o sp ws hsp hws v rest hv hH, ?_⟩
  have hat : At d 3 (sp :: (ws ++ quoteParam v)) := at_of_holds _ [71, 69, 84] rest hH
  have h := (At.append (a := sp :: ws) (b := quoteParam v) hat).2
  have e : 3 + (sp :: ws).length = 4 + ws.length := by simp only [List.length_cons]; omega
  rw [e] at h
  rw [At.slice h, C17.roundtrip]

/-- the file may also end right after the closing quote -/
theorem quoted_param_at_eof (v : Bytes) (hv : ∀ c ∈ v, c ≠ 10 ∧ c ≠ 13 ∧ c ≠ 0) (o : Oracle) (d : Src)
    (hH : Holds d ([71, 69, 84, 32] ++ quoteParam v)) :
    lexAll d o (d.size + 2) Sc.init [] =
      ([⟨.keyword, 0, 3⟩, ⟨.parameter, 4, 4 + (quoteParam v).length⟩], none,
        cfg .stateExpectKeyword [] [] [(4, 4 + (quoteParam v).length)] (d.size + 1)) := by
  simpa using get_quoted_eof d o 32 [] (Or.inl rfl) (by simp) v hv hH

/-! ## (2) a backslash before any other byte -/

/-- **C17S.bad_escape_rejected** — `GET "`, the escaped spelling of any `u` (no line ends, no zero bytes), a
backslash, a byte `c` other than `"` and `\`, then anything: the keyword is delivered and the run stops with the
ERROR whose position is the index of `c`. -/
theorem bad_escape_rejected (u rest : Bytes) (c : UInt8) (hu : ∀ c ∈ u, c ≠ 10 ∧ c ≠ 13 ∧ c ≠ 0)
    (hc : c ≠ 34 ∧ c ≠ 92) (o : Oracle) (d : Src)
    (hH : Holds d ([71, 69, 84, 32, 34] ++ escBody u ++ [92, c] ++ rest)) :
    lexAll d o (d.size + 2) Sc.init [] =
      ([⟨.keyword, 0, 3⟩], some (.diag (5 + (escBody u).length + 1)), afterGET) ∧
    d.get (5 + (escBody u).length + 1) = c := by
  have hH' : Holds d ([71, 69, 84] ++ (32 :: ([] ++ 34 :: (escBody u ++ 92 :: c :: rest)))) := by simpa using hH
  refine ⟨by simpa using get_badEscape d o 32 [] (Or.inl rfl) (by simp) u rest c hu hc.1 hc.2 hH', ?_⟩
  have hat := at_of_holds [c] ([71, 69, 84, 32, 34] ++ escBody u ++ [92]) rest (by simpa using hH)
  have e : ([71, 69, 84, 32, 34] ++ escBody u ++ [92]).length = 5 + (escBody u).length + 1 := by
    simp only [List.length_append, List.length_cons, List.length_nil]
  rw [e] at hat
  exact hat.2.1

/-- the statement of the task: `pre` free of `"`, `\`, line ends and zero bytes is its own escaped spelling -/
theorem bad_escape_rejected_plain (pre rest : Bytes) (c : UInt8)
    (hpre : ∀ c ∈ pre, c ≠ 34 ∧ c ≠ 92 ∧ c ≠ 10 ∧ c ≠ 13 ∧ c ≠ 0) (hc : c ≠ 34 ∧ c ≠ 92) (o : Oracle) (d : Src)
    (hH : Holds d ([71, 69, 84, 32, 34] ++ pre ++ [92, c] ++ rest)) :
    lexAll d o (d.size + 2) Sc.init [] = ([⟨.keyword, 0, 3⟩], some (.diag (5 + pre.length + 1)), afterGET) := by
  have he : escBody pre = pre := escBody_plain pre fun x hx => ⟨(hpre x hx).1, (hpre x hx).2.1⟩
  have h := (bad_escape_rejected pre rest c (fun x hx => (hpre x hx).2.2) hc o d (by rw [he]; exact hH)).1
  rwa [he] at h

/-- through `scanFile` -/
theorem bad_escape_scanFile (u rest : Bytes) (c : UInt8) (hu : ∀ c ∈ u, c ≠ 10 ∧ c ≠ 13 ∧ c ≠ 0)
    (hc : c ≠ 34 ∧ c ≠ 92) (o : Oracle)
    (hutf : firstInvalidUTF8 ([71, 69, 84, 32, 34] ++ escBody u ++ [92, c] ++ rest) = none) :
    scanFile ([71, 69, 84, 32, 34] ++ escBody u ++ [92, c] ++ rest) o =
      ([⟨.keyword, 0, 3⟩], some (.diag (5 + (escBody u).length + 1)), afterGET) := by
  rw [scanFile_valid _ _ hutf, (bad_escape_rejected u rest c hu hc o _ (holds_ofArray _)).1]

/-! ## (3) an unterminated quote -/

/-- **C17S.unterminated_rejected** — a line end (or a zero byte) before the closing quote: error at that byte -/
theorem unterminated_rejected (u rest : Bytes) (e : UInt8) (hu : ∀ c ∈ u, c ≠ 10 ∧ c ≠ 13 ∧ c ≠ 0)
    (he : e = 10 ∨ e = 13 ∨ e = 0) (o : Oracle) (d : Src)
    (hH : Holds d ([71, 69, 84, 32, 34] ++ escBody u ++ [e] ++ rest)) :
    lexAll d o (d.size + 2) Sc.init [] = ([⟨.keyword, 0, 3⟩], some (.diag (5 + (escBody u).length)), afterGET) := by
  have hH' : Holds d ([71, 69, 84] ++ (32 :: ([] ++ 34 :: (escBody u ++ e :: rest)))) := by simpa using hH
  simpa using get_lineEnd d o 32 [] (Or.inl rfl) (by simp) u rest e hu he hH'

/-- **C17S.unterminated_at_eof** — the end of the file before the closing quote: error at the end of the file -/
theorem unterminated_at_eof (u : Bytes) (hu : ∀ c ∈ u, c ≠ 10 ∧ c ≠ 13 ∧ c ≠ 0) (o : Oracle) (d : Src)
    (hH : Holds d ([71, 69, 84, 32, 34] ++ escBody u)) :
    lexAll d o (d.size + 2) Sc.init [] = ([⟨.keyword, 0, 3⟩], some (.diag d.size), afterGET) ∧
    d.size = 5 + (escBody u).length := by
  have hH' : Holds d ([71, 69, 84] ++ (32 :: ([] ++ 34 :: escBody u))) := by simpa using hH
  refine ⟨get_eof d o 32 [] (Or.inl rfl) (by simp) u hu hH', ?_⟩
  rw [hH.1]; simp only [List.length_append, List.length_cons, List.length_nil]

/-- a backslash and the end of the file: error at the end of the file -/
theorem backslash_at_eof (u : Bytes) (hu : ∀ c ∈ u, c ≠ 10 ∧ c ≠ 13 ∧ c ≠ 0) (o : Oracle) (d : Src)
    (hH : Holds d ([71, 69, 84, 32, 34] ++ escBody u ++ [92])) :
    lexAll d o (d.size + 2) Sc.init [] = ([⟨.keyword, 0, 3⟩], some (.diag d.size), afterGET) ∧
    d.size = 5 + (escBody u).length + 1 := by
  have hH' : Holds d ([71, 69, 84] ++ (32 :: ([] ++ 34 :: (escBody u ++ [92])))) := by simpa using hH
  refine ⟨get_bslEof d o 32 [] (Or.inl rfl) (by simp) u hu hH', ?_⟩
  rw [hH.1]; simp only [List.length_append, List.length_cons, List.length_nil]

/-- through `scanFile` -/
theorem unterminated_scanFile (u rest : Bytes) (e : UInt8) (hu : ∀ c ∈ u, c ≠ 10 ∧ c ≠ 13 ∧ c ≠ 0)
    (he : e = 10 ∨ e = 13 ∨ e = 0) (o : Oracle)
    (hutf : firstInvalidUTF8 ([71, 69, 84, 32, 34] ++ escBody u ++ [e] ++ rest) = none) :
    scanFile ([71, 69, 84, 32, 34] ++ escBody u ++ [e] ++ rest) o =
      ([⟨.keyword, 0, 3⟩], some (.diag (5 + (escBody u).length)), afterGET) := by
  rw [scanFile_valid _ _ hutf, unterminated_rejected u rest e hu he o _ (holds_ofArray _)]

theorem unterminated_eof_scanFile (u : Bytes) (hu : ∀ c ∈ u, c ≠ 10 ∧ c ≠ 13 ∧ c ≠ 0) (o : Oracle)
    (hutf : firstInvalidUTF8 ([71, 69, 84, 32, 34] ++ escBody u) = none) :
    scanFile ([71, 69, 84, 32, 34] ++ escBody u) o =
      ([⟨.keyword, 0, 3⟩], some (.diag (5 + (escBody u).length)), afterGET) := by
  have h := unterminated_at_eof u hu o _ (holds_ofArray ([71, 69, 84, 32, 34] ++ escBody u))
  rw [scanFile_valid _ _ hutf, h.1, h.2]

/-! ## (4) two parameters; an annotation after the parameter -/

/-- **C17S.two_quoted_params** — `GET "<v1>" "<v2>"⏎`: both Parameter lexemes are exactly the occurrences of the
quoted spellings and decode to `v1`, `v2` -/
theorem two_quoted_params (v1 v2 : Bytes) (hv1 : ∀ c ∈ v1, c ≠ 10 ∧ c ≠ 13 ∧ c ≠ 0)
    (hv2 : ∀ c ∈ v2, c ≠ 10 ∧ c ≠ 13 ∧ c ≠ 0) (o : Oracle) (d : Src) (b2 : Nat)
    (hb2 : b2 = 4 + (quoteParam v1).length + 1)
    (hH : Holds d ([71, 69, 84, 32] ++ quoteParam v1 ++ [32] ++ quoteParam v2 ++ [10])) :
    lexAll d o (d.size + 2) Sc.init [] =
      ([⟨.keyword, 0, 3⟩, ⟨.parameter, 4, 4 + (quoteParam v1).length⟩, ⟨.parameter, b2, b2 + (quoteParam v2).length⟩],
        none,
        cfg .stateExpectKeyword [] [] [(4, 4 + (quoteParam v1).length), (b2, b2 + (quoteParam v2).length)]
          (d.size + 1)) ∧
    unescape (d.slice 4 (4 + (quoteParam v1).length)) = v1 ∧
    unescape (d.slice b2 (b2 + (quoteParam v2).length)) = v2 := by
  have hH' : Holds d (([71, 69, 84] ++ (32 :: ([] ++ quoteParam v1))) ++ (32 :: ([] ++ quoteParam v2)) ++ [10]) := by
    simpa using hH
  refine ⟨get_two_quoted_eol d o v1 v2 32 32 [] [] 10 hv1 hv2 (Or.inl rfl) (by simp) (Or.inl rfl) (by simp)
    (Or.inl rfl) 4 b2 rfl (by simpa using hb2) hH', ?_, ?_⟩
  · have h : At d 4 (quoteParam v1) :=
      at_of_holds (quoteParam v1) [71, 69, 84, 32] ([32] ++ quoteParam v2 ++ [10]) (by simpa using hH)
    rw [At.slice h, C17.roundtrip]
  · have h := at_of_holds (quoteParam v2) ([71, 69, 84, 32] ++ quoteParam v1 ++ [32]) [10] hH
    have e : ([71, 69, 84, 32] ++ quoteParam v1 ++ [32]).length = b2 := by
      rw [hb2]; simp only [List.length_append, List.length_cons, List.length_nil]
    rw [e] at h
    rw [At.slice h, C17.roundtrip]

/-- **C17S.quoted_param_then_annotation** — `GET "<v>" //<text>⏎` (text non-empty, without `#`, line ends, zero
bytes): Keyword, the Parameter lexeme that decodes to `v`, and the Annotation lexeme that is the text -/
theorem quoted_param_then_annotation (v : Bytes) (x : UInt8) (t : Bytes) (hv : ∀ c ∈ v, c ≠ 10 ∧ c ≠ 13 ∧ c ≠ 0)
    (ht : ∀ c ∈ x :: t, c ≠ 0 ∧ c ≠ 10 ∧ c ≠ 13 ∧ c ≠ 35) (o : Oracle) (d : Src) (b2 : Nat)
    (hb2 : b2 = 4 + (quoteParam v).length + 3)
    (hH : Holds d ([71, 69, 84, 32] ++ quoteParam v ++ [32, 47, 47] ++ (x :: t) ++ [10])) :
    lexAll d o (d.size + 2) Sc.init [] =
      ([⟨.keyword, 0, 3⟩, ⟨.parameter, 4, 4 + (quoteParam v).length⟩, ⟨.annotation, b2, b2 + 1 + t.length⟩], none,
        cfg .stateExpectKeyword [] [] [(4, 4 + (quoteParam v).length)] (d.size + 1)) ∧
    unescape (d.slice 4 (4 + (quoteParam v).length)) = v ∧
    d.slice b2 (b2 + (1 + t.length)) = x :: t := by
  have hH' : Holds d (([71, 69, 84] ++ (32 :: ([] ++ quoteParam v))) ++
      (32 :: ([] ++ 47 :: 47 :: x :: (t ++ [10]))) ++ []) := by simpa using hH
  refine ⟨get_quoted_annot d o v 32 32 [] [] x t 10 hv (Or.inl rfl) (by simp) (Or.inl rfl) (by simp) ht
    (Or.inl rfl) 4 b2 rfl (by simpa using hb2) hH', ?_, ?_⟩
  · have h : At d 4 (quoteParam v) :=
      at_of_holds (quoteParam v) [71, 69, 84, 32] ([32, 47, 47] ++ (x :: t) ++ [10]) (by simpa using hH)
    rw [At.slice h, C17.roundtrip]
  · have h := at_of_holds (x :: t) ([71, 69, 84, 32] ++ quoteParam v ++ [32, 47, 47]) [10] hH
    have e : ([71, 69, 84, 32] ++ quoteParam v ++ [32, 47, 47]).length = b2 := by
      rw [hb2]; simp only [List.length_append, List.length_cons, List.length_nil]
    rw [e] at h
    have := At.slice h
    rwa [List.length_cons, Nat.add_comm t.length 1] at this

/-! ## non-vacuity: concrete files through `scanFile` (kernel evaluation of the model over the table) -/

-- `GET "/a b"⏎`
example : (scanFile [71, 69, 84, 32, 34, 47, 97, 32, 98, 34, 10] ⟨fun _ => .miss, fun _ => .miss⟩).1 =
      [⟨.keyword, 0, 3⟩, ⟨.parameter, 4, 10⟩] ∧
    (scanFile [71, 69, 84, 32, 34, 47, 97, 32, 98, 34, 10] ⟨fun _ => .miss, fun _ => .miss⟩).2.1 = none := by
  decide +kernel
-- `GET "a\"b\\"⏎`: the lexeme `[4,12)` decodes to `a"b\`
example : (scanFile [71, 69, 84, 32, 34, 97, 92, 34, 98, 92, 92, 34, 10] ⟨fun _ => .miss, fun _ => .miss⟩).1 =
      [⟨.keyword, 0, 3⟩, ⟨.parameter, 4, 12⟩] ∧
    (scanFile [71, 69, 84, 32, 34, 97, 92, 34, 98, 92, 92, 34, 10] ⟨fun _ => .miss, fun _ => .miss⟩).2.1 = none ∧
    unescape ((Src.ofList [71, 69, 84, 32, 34, 97, 92, 34, 98, 92, 92, 34, 10]).slice 4 12) = [97, 34, 98, 92] ∧
    quoteParam [97, 34, 98, 92] = [34, 97, 92, 34, 98, 92, 92, 34] := by
  decide +kernel
-- a bad escape `GET "a\n"⏎` (backslash, letter n): error at the `n`
example : (scanFile [71, 69, 84, 32, 34, 97, 92, 110, 34, 10] ⟨fun _ => .miss, fun _ => .miss⟩).1 = [⟨.keyword, 0, 3⟩] ∧
    (scanFile [71, 69, 84, 32, 34, 97, 92, 110, 34, 10] ⟨fun _ => .miss, fun _ => .miss⟩).2.1 = some (.diag 7) := by
  decide +kernel
-- unterminated quotes `GET "abc⏎`, `GET "abc`, `GET "abc\`: error at the line end / at the end of the file
example : (scanFile [71, 69, 84, 32, 34, 97, 98, 99, 10] ⟨fun _ => .miss, fun _ => .miss⟩).2.1 = some (.diag 8) ∧
    (scanFile [71, 69, 84, 32, 34, 97, 98, 99] ⟨fun _ => .miss, fun _ => .miss⟩).2.1 = some (.diag 8) ∧
    (scanFile [71, 69, 84, 32, 34, 97, 98, 99, 92] ⟨fun _ => .miss, fun _ => .miss⟩).2.1 = some (.diag 9) := by
  decide +kernel
-- `GET "/a" // note⏎`
example : (scanFile [71, 69, 84, 32, 34, 47, 97, 34, 32, 47, 47, 32, 110, 111, 116, 101, 10]
      ⟨fun _ => .miss, fun _ => .miss⟩).1 = [⟨.keyword, 0, 3⟩, ⟨.parameter, 4, 8⟩, ⟨.annotation, 11, 16⟩] := by
  decide +kernel
-- the theorems apply to these files (instances of the hypotheses)
example : (lexAll (Src.ofList ([71, 69, 84, 32] ++ quoteParam [97, 34, 98, 92] ++ [10])) ⟨fun _ => .miss, fun _ => .miss⟩
      ((Src.ofList ([71, 69, 84, 32] ++ quoteParam [97, 34, 98, 92] ++ [10])).size + 2) Sc.init []).1 = [⟨.keyword, 0, 3⟩, ⟨.parameter, 4, 4 + (quoteParam [97, 34, 98, 92]).length⟩] :=
  congrArg Prod.fst (quoted_param_lexeme [97, 34, 98, 92] (by decide) _ _ (holds_ofList _)).1

end JSight.C17S
