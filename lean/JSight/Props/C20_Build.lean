import JSight.Model.Build
import JSight.Proofs.BuildLocal
import JSight.Props.C04_Build
import JSight.Props.C04_Content
import JSight.Props.C10_Inters
/-!
C20 (locality) on the catalog-construction model (`Model/Build.lean`): an HTTP-METHOD BLOCK appended to a forest.

`Props/C04_Build.lean` (section C) shows locality for an appended TYPE, SERVER, SERVER with BaseUrl and TAG
declaration (`add_type_local`, `add_server_local`, `add_server_baseurl_local`, `add_tag_local`).  Here the appended
tree is a method block `t`: an HTTP method directive of the top level with a Path parameter and, below it at any
depth, the directives `Gen.childAllowed` allows there — Description, Query, Request, response codes, Headers, Body,
Path, Paste, Tags (`C10I.isMethodBlock'`).

* `add_method_local`: when `f` and `f ++ [t]` are accepted, the catalog of `f ++ [t]` is the catalog of `f` with
  exactly one more interaction (the last one; id = verb and path of `t`, annotation of `t`, tag names of `t`), the
  same `jsight`, `info`, `servers`, `types`, and tags that extend the old ones (`TagsExtend`): every old tag is still
  there, at the same position, with the same name / title / declaration flag / description / JSON-RPC ids, and its
  HTTP id list is the old one followed by the new id once per occurrence of the tag's name among the tag names of the
  new interaction (`TagsExtend.old_kept`, `TagsExtend.untouched`); at most one tag is new — the automatic tag of the
  path, after all old ones, holding exactly the new id (`TagsExtend.new_tags`);
* `add_method_content`: what the new interaction holds is read off `t` alone (`C04C.interOf`; for forests that obey
  the nesting table, `C04C.obeysF`, as everywhere in `Props/C04_Content.lean`);
* `remove_method_accepted`: deleting the last method block of an accepted forest leaves an accepted forest — no side
  condition (in the model nothing can refer to an interaction; every stage of `compile` accepts a prefix of an
  accepted forest, and the three checks after the fold are per interaction);
* `remove_method_local`: … and its catalog is the longer one minus the entry (the statement of `add_method_local`
  read from the other side);
* `add_method_transfer`: ACCEPTANCE IS LOCAL TOO — a block accepted at the end of one forest is accepted at the end
  of any accepted forest with the same TAG names whose similar-paths table admits the path, that has no interaction
  of that (verb, path) and whose Path stage admits the block; the interaction it yields is the same;
* `insert_method_local_partial`, `remove_method_accepted_partial` (PARTIAL): the block anywhere among the interaction
  blocks of the top level, through the exchange theorems of `Props/C10_Inters.lean` (`move_block_last`) — the catalog
  up to the order of the collections only, and no Path directives in the blocks concerned;
* `add_method_iff`: the converse for acceptance.  `f ++ [t]` is accepted exactly when (1) the Path stage accepts `t`
  in the state the stage has after `f`, (2) `addBranch` accepts `t` on the catalog of `f`, (3) the request and the
  responses of the new interaction have bodies.  (1) cannot be dropped: `path_stage_matters` (the stage threads
  the identities of the contexts that already have a Path directive through the forest, F76); without Path
  directives in `t` it holds (`add_method_iff_noPath`).

Nothing is weakened relative to the statement asked for, but one point is stated more precisely than "its list of
interaction ids is the old list or the old list followed by the new id": a Tags directive may name a tag twice, and
then the tag receives the id twice (`tag_named_twice`).
-/
namespace JSight.C20B
open JSight JSight.Build JSight.Gen

/-! ## vocabulary -/

/-- the interaction id of a top-level method block: (HTTP, verb, Path parameter) -/
def methodId (t : BTree) : IId := ⟨.http, verbOf t.dir.kind, t.dir.param "Path"⟩

/-- the automatic tag of a path: named after its first segment, not declared -/
def autoTagOf (p : Bytes) : TagM := { name := tagName (pathTagTitle p), title := pathTagTitle p, declared := false }

/-- the tag names of the interaction of a top-level method block: the names written in its first Tags child, else
the automatic tag of its path -/
def tagNamesOf (t : BTree) : List Bytes :=
  match tagsChild (t.kids.map BTree.dir) with
  | some td => td.unnamed
  | none => [(autoTagOf (t.dir.param "Path")).name]

/-- the tag `t` after the HTTP interaction `x` is attached: the id once per occurrence of the tag's name among
the tag names of `x` -/
def bump (x : InterM) (t : TagM) : TagM :=
  { t with http := t.http ++ List.replicate (x.tags.count t.name) x.iid.text }

/-- the tags after the new HTTP interaction `x`: either every tag `x` names was there — the list is the old one,
tag by tag, with the id attached — or `x` has the automatic tag of its path, which was not there: it is appended,
holding the id of `x`, and no old tag changes -/
def TagsExtend (old new : List TagM) (x : InterM) : Prop :=
  (new = old.map (bump x) ∧ ∀ n ∈ x.tags, ∃ t ∈ old, t.name = n) ∨
  (new = old ++ [{ autoTagOf x.iid.path with http := [x.iid.text] }] ∧ x.tags = [(autoTagOf x.iid.path).name] ∧
    ∀ t ∈ old, t.name ≠ (autoTagOf x.iid.path).name)

theorem bump_core (x : InterM) (t : TagM) :
    (bump x t).name = t.name ∧ (bump x t).title = t.title ∧ (bump x t).declared = t.declared ∧
      (bump x t).descr = t.descr ∧ (bump x t).rpc = t.rpc := ⟨rfl, rfl, rfl, rfl, rfl⟩

/-- a tag the new interaction does not name is unchanged -/
theorem bump_untouched {x : InterM} {t : TagM} (h : t.name ∉ x.tags) : bump x t = t := by
  unfold bump
  rw [List.count_eq_zero_of_not_mem h]
  simp

/-- every old tag is still there, at the same position, with the same name, title, declaration flag,
description and JSON-RPC ids; its HTTP ids are the old ones followed by the new id (once per naming) -/
theorem TagsExtend.old_kept {old new : List TagM} {x : InterM} (h : TagsExtend old new x) (k : Nat) (t : TagM)
    (hk : old[k]? = some t) :
    ∃ t', new[k]? = some t' ∧ t'.name = t.name ∧ t'.title = t.title ∧ t'.declared = t.declared ∧
      t'.descr = t.descr ∧ t'.rpc = t.rpc ∧
      t'.http = t.http ++ List.replicate (x.tags.count t.name) x.iid.text := by
  rcases h with ⟨rfl, _⟩ | ⟨rfl, hx, hfresh⟩
  · exact ⟨bump x t, by simp [hk], rfl, rfl, rfl, rfl, rfl, rfl⟩
  · refine ⟨t, ?_, rfl, rfl, rfl, rfl, rfl, ?_⟩
    · have hlt : k < old.length := by
        rcases Nat.lt_or_ge k old.length with h | h
        · exact h
        · rw [List.getElem?_eq_none h] at hk; cases hk
      rw [List.getElem?_append_left hlt]; exact hk
    · have hmem : t ∈ old := List.mem_of_getElem? hk
      have : t.name ∉ x.tags := by
        rw [hx, List.mem_singleton]; exact hfresh t hmem
      rw [List.count_eq_zero_of_not_mem this]; simp

/-- a tag that the new interaction does not name is literally unchanged -/
theorem TagsExtend.untouched {old new : List TagM} {x : InterM} (h : TagsExtend old new x) (k : Nat) (t : TagM)
    (hk : old[k]? = some t) (hn : t.name ∉ x.tags) : new[k]? = some t := by
  obtain ⟨t', h1, _⟩ := h.old_kept k t hk
  rcases h with ⟨rfl, _⟩ | ⟨rfl, _, _⟩
  · simp [hk, bump_untouched hn]
  · have hlt : k < old.length := by
      rcases Nat.lt_or_ge k old.length with h | h
      · exact h
      · rw [List.getElem?_eq_none h] at hk; cases hk
    rw [List.getElem?_append_left hlt]; exact hk

/-- the new tags come after the old ones: there is none, or there is exactly one — the automatic tag of the
path of the new interaction, holding exactly its id -/
theorem TagsExtend.new_tags {old new : List TagM} {x : InterM} (h : TagsExtend old new x) :
    new.drop old.length = [] ∨
      new.drop old.length = [{ autoTagOf x.iid.path with http := [x.iid.text] }] := by
  rcases h with ⟨rfl, _⟩ | ⟨rfl, _, _⟩
  · left; simp
  · right; simp

/-- every tag the new interaction names is in the new list -/
theorem TagsExtend.named {old new : List TagM} {x : InterM} (h : TagsExtend old new x) :
    ∀ n ∈ x.tags, ∃ t ∈ new, t.name = n := by
  rcases h with ⟨rfl, hx⟩ | ⟨rfl, hx, _⟩
  · intro n hn
    obtain ⟨t, ht, rfl⟩ := hx n hn
    exact ⟨bump x t, List.mem_map_of_mem ht, rfl⟩
  · intro n hn
    rw [hx, List.mem_singleton] at hn
    subst hn
    exact ⟨_, List.mem_append_right _ (List.mem_singleton.2 rfl), rfl⟩

/-! ## the helper files speak of the same things -/

theorem isMethodBlock'_node {d : BDir} {kids : List BTree} (ht : C10I.isMethodBlock' (.node d kids) = true) :
    isHTTP d.kind = true ∧ BuildPerm.allF BuildPermI.localKindT kids = true := by
  rw [C10I.isMethodBlock'_eq, Bool.and_eq_true] at ht
  exact ht

theorem http_kind_ne {k : Kind} (h : isHTTP k = true) : k ≠ .TAG ∧ k ≠ .Type ∧ k ≠ .Jsight := by
  refine ⟨?_, ?_, ?_⟩ <;> (intro e; rw [e] at h; exact absurd h (by decide))

theorem nsOfTop_eq (d : BDir) (kids : List BTree) :
    BuildLocal.nsOfTop (kids.map BTree.dir) (BuildLocal.topId d) = tagNamesOf (.node d kids) := rfl

theorem bumpT_eq {new : InterM} {txt : Bytes} {ns : List Bytes} (h1 : new.iid.text = txt) (h2 : new.tags = ns) :
    BuildLocal.bumpT txt ns = bump new := by
  funext t
  unfold BuildLocal.bumpT bump
  rw [h1, h2]

/-- the catalog after an accepted method block, in the vocabulary of this file -/
theorem block_step {banned : List Kind} {t : BTree} {c c' : Cat} (ht : C10I.isMethodBlock' t = true)
    (h : addBranch banned [] t c = .ok c') :
    ∃ new : InterM, c'.inters = c.inters ++ [new] ∧ new.iid = methodId t ∧ new.annot = t.dir.annot ∧
      new.tags = tagNamesOf t ∧ httpIdOf [t.dir] = .ok (methodId t) ∧ (∀ x ∈ c.inters, x.iid ≠ new.iid) ∧
      c'.jsight = c.jsight ∧ c'.info = c.info ∧ c'.servers = c.servers ∧ c'.types = c.types ∧
      c'.uniqURL = c.uniqURL ∧ c'.protoURLs = c.protoURLs ∧ TagsExtend c.tags c'.tags new := by
  cases t with
  | node d kids =>
    obtain ⟨hk, hl⟩ := isMethodBlock'_node ht
    obtain ⟨sim, extra, new, e1, e2, e3, hid, hhas, _, rfl, hex⟩ := BuildLocal.method_block_step hk hl h
    have e1' : new.iid = methodId (.node d kids) := e1
    have e3' : new.tags = tagNamesOf (.node d kids) := e3
    refine ⟨new, rfl, e1', e2, e3', hid, ?_, rfl, rfl, rfl, rfl, rfl, rfl, ?_⟩
    · intro x hx
      unfold Cat.hasInter at hhas
      rw [List.any_eq_false] at hhas
      have := hhas x hx
      rw [e1]
      simpa using this
    · have hb := bumpT_eq (new := new) (txt := (BuildLocal.topId d).text)
        (ns := BuildLocal.nsOfTop (kids.map BTree.dir) (BuildLocal.topId d)) (by rw [e1]) e3
      simp only [hb]
      rcases hex with ⟨rfl, hall⟩ | ⟨rfl, hns, hfresh⟩
      · left
        refine ⟨by simp, ?_⟩
        rw [e3]; exact hall
      · right
        have hns' : new.tags = [(autoTagOf new.iid.path).name] := by
          rw [e3, hns, e1]; rfl
        have hfresh' : ∀ t ∈ c.tags, t.name ≠ (autoTagOf new.iid.path).name := by
          rw [e1]; exact hfresh
        refine ⟨?_, hns', hfresh'⟩
        have hold : c.tags.map (bump new) = c.tags := by
          conv => rhs; rw [← List.map_id c.tags]
          apply List.map_congr_left
          intro t ht
          refine bump_untouched ?_
          rw [hns', List.mem_singleton]; exact hfresh' t ht
        rw [List.map_append, hold]
        congr 1
        simp only [List.map_cons, List.map_nil, bump, hns', BuildLocal.autoTag, BuildPerm.autoName, autoTagOf, e1,
          List.count_singleton_self, List.replicate_one, List.nil_append]

/-! ## the theorems -/

/-- LOCALITY OF AN APPENDED METHOD BLOCK.  `f` is accepted with catalog `c`, `t` is a method block, `f ++ [t]` is
accepted with catalog `c'`.  Then
* `c'` has the interactions of `c`, unchanged and in the same order, and exactly one more, the last one: `new`, with
  the id (HTTP, verb of `t`, Path parameter of `t`) — an id no interaction of `c` has —, the annotation of `t` and
  the tag names of `t` (`tagNamesOf`);
* `jsight`, `info`, `servers`, `types` (and the bookkeeping `uniqURL`, `protoURLs`) are unchanged;
* the tags extend the old ones (`TagsExtend`, see `TagsExtend.old_kept`, `.untouched`, `.new_tags`, `.named`). -/
theorem add_method_local (banned : List Kind) (f : List BTree) (t : BTree) (c c' : Cat)
    (ht : C10I.isMethodBlock' t = true)
    (h : compile banned f = .ok c) (h' : compile banned (f ++ [t]) = .ok c') :
    ∃ new : InterM, c'.inters = c.inters ++ [new] ∧ new.iid = methodId t ∧ new.annot = t.dir.annot ∧
      new.tags = tagNamesOf t ∧ (∀ x ∈ c.inters, x.iid ≠ new.iid) ∧
      c'.jsight = c.jsight ∧ c'.info = c.info ∧ c'.servers = c.servers ∧ c'.types = c.types ∧
      c'.uniqURL = c.uniqURL ∧ c'.protoURLs = c.protoURLs ∧ TagsExtend c.tags c'.tags new := by
  have hk : isHTTP t.dir.kind = true := by
    cases t with
    | node d kids => exact (isMethodBlock'_node ht).1
  obtain ⟨k1, k2, k3⟩ := http_kind_ne hk
  obtain ⟨c₀, x, y, c₁, hf, h0, h1, h2, h2', h3, h4, h4', h5⟩ :=
    (BuildLocal.compile_snoc_iff banned f t c' k1 k2 k3).1 h'
  obtain ⟨c₀', x', g0, g1, g2, g3, g4, g5⟩ := (BuildLocal.compile_iff banned f c).1 h
  rw [h0] at g0
  have e0 : c₀ = c₀' := Except.ok.inj g0
  subst e0
  rw [h4] at g4
  have e1 : c₁ = c := Except.ok.inj g4
  subst e1
  obtain ⟨new, a1, a2, a3, a4, _, a5, a6⟩ := block_step ht h4'
  exact ⟨new, a1, a2, a3, a4, a5, a6⟩

/-- DELETING the last method block of an accepted forest leaves an accepted forest.  No side condition: nothing
refers to an interaction, every stage of `compile` accepts a prefix of what it accepts, and the checks after the
fold (`validateRequestBody`, `validateResponseBody`) are per interaction -/
theorem remove_method_accepted (banned : List Kind) (f : List BTree) (t : BTree) (c' : Cat)
    (ht : C10I.isMethodBlock' t = true) (h' : compile banned (f ++ [t]) = .ok c') :
    ∃ c, compile banned f = .ok c := by
  have hk : isHTTP t.dir.kind = true := by
    cases t with
    | node d kids => exact (isMethodBlock'_node ht).1
  obtain ⟨k1, k2, k3⟩ := http_kind_ne hk
  obtain ⟨c₀, x, y, c₁, hf, h0, h1, h2, h2', h3, h4, h4', h5⟩ :=
    (BuildLocal.compile_snoc_iff banned f t c' k1 k2 k3).1 h'
  obtain ⟨new, a1, _, _, _, _, _, _, a7, _⟩ := block_step ht h4'
  exact ⟨c₁, (BuildLocal.compile_iff banned f c₁).2
    ⟨c₀, x, h0, h1, h2, h3, h4, ((BuildLocal.chk_snoc a7 a1).1 h5).1⟩⟩

/-- … and the catalog of the shorter forest is the longer one minus exactly the entry of the block: the last
interaction goes, its id leaves the tags that held it, the automatic tag goes if the block created it -/
theorem remove_method_local (banned : List Kind) (f : List BTree) (t : BTree) (c' : Cat)
    (ht : C10I.isMethodBlock' t = true) (h' : compile banned (f ++ [t]) = .ok c') :
    ∃ (c : Cat) (new : InterM), compile banned f = .ok c ∧ c'.inters = c.inters ++ [new] ∧ new.iid = methodId t ∧
      c'.jsight = c.jsight ∧ c'.info = c.info ∧ c'.servers = c.servers ∧ c'.types = c.types ∧
      TagsExtend c.tags c'.tags new := by
  obtain ⟨c, h⟩ := remove_method_accepted banned f t c' ht h'
  obtain ⟨new, a1, a2, _, _, _, a6, a7, a8, a9, _, _, a12⟩ := add_method_local banned f t c c' ht h h'
  exact ⟨c, new, h, a1, a2, a6, a7, a8, a9, a12⟩

/-- ACCEPTANCE of the longer forest, given an accepted `f` (not empty: JSIGHT comes first) whose Path stage ends in
the state `x` (restated for F76: `x : List Nat`, the stage starts from `[]`; it was `Option Nat`, `none`):
`f ++ [t]` is accepted with catalog `c'` exactly when
1. the Path stage accepts `t` in the state `x`,
2. the fold accepts the block on the catalog of `f`, giving `c'` (the ban list, the path and its parameters, the
   similar-paths table, a fresh (verb, path), declared tag names, and the children on the new interaction),
3. the request and every response of the new (last) interaction have a body. -/
theorem add_method_iff (banned : List Kind) (f : List BTree) (t : BTree) (c c' : Cat) (x : List Nat)
    (ht : C10I.isMethodBlock' t = true) (h : compile banned f = .ok c) (hf : f ≠ [])
    (hp : pathsForest [] f [] = .ok x) :
    compile banned (f ++ [t]) = .ok c' ↔
      (∃ y, pathsTree [] t x = .ok y) ∧ addBranch banned [] t c = .ok c' ∧
      (∀ new, c'.inters.getLast? = some new →
        (∀ q, new.request = some q → q.body.isSome = true) ∧ (∀ r ∈ new.responses, r.body.isSome = true)) := by
  have hk : isHTTP t.dir.kind = true := by
    cases t with
    | node d kids => exact (isMethodBlock'_node ht).1
  obtain ⟨k1, k2, k3⟩ := http_kind_ne hk
  obtain ⟨c₀, x', g0, g1, g2, g3, g4, g5⟩ := (BuildLocal.compile_iff banned f c).1 h
  rw [hp] at g2
  have ex : x = x' := Except.ok.inj g2
  subst ex
  rw [BuildLocal.compile_snoc_iff banned f t c' k1 k2 k3]
  constructor
  · rintro ⟨c₀', x', y, c₁, _, h0, h1, h2, h2', h3, h4, h4', h5⟩
    rw [g0] at h0
    have e0 : c₀ = c₀' := Except.ok.inj h0
    subst e0
    rw [g4] at h4
    have e1 : c = c₁ := Except.ok.inj h4
    subst e1
    rw [hp] at h2
    have e2 : x = x' := Except.ok.inj h2
    subst e2
    obtain ⟨new, a1, _, _, _, _, _, _, a7, _⟩ := block_step ht h4'
    refine ⟨⟨y, h2'⟩, h4', ?_⟩
    intro n hn
    rw [a1, List.getLast?_append, List.getLast?_singleton] at hn
    simp only [Option.some_or] at hn
    cases hn
    exact ((BuildLocal.chk_snoc a7 a1).1 h5).2
  · rintro ⟨⟨y, hy⟩, hb, hbody⟩
    obtain ⟨new, a1, _, _, _, _, _, _, a7, _⟩ := block_step ht hb
    have hl : c'.inters.getLast? = some new := by
      rw [a1, List.getLast?_append, List.getLast?_singleton]; rfl
    exact ⟨c₀, x, y, c, hf, g0, g1, hp, hy, g3, g4, hb, (BuildLocal.chk_snoc a7 a1).2 ⟨g5, hbody new hl⟩⟩

/-- a block without Path directives passes the Path stage in every state (restated for F76: `x : List Nat`) -/
theorem paths_of_noPath {t : BTree} (hn : C10I.noPathTree t = true) (x : List Nat) :
    pathsTree [] t x = .ok x := by
  rw [C10I.noPathTree_eq] at hn
  exact BuildPermI.pathsTree_noPath t [] x hn

/-- acceptance of the longer forest when the block holds no Path directive: the fold and the body checks decide -/
theorem add_method_iff_noPath (banned : List Kind) (f : List BTree) (t : BTree) (c c' : Cat)
    (ht : C10I.isMethodBlock' t = true) (hn : C10I.noPathTree t = true) (h : compile banned f = .ok c)
    (hf : f ≠ []) :
    compile banned (f ++ [t]) = .ok c' ↔
      addBranch banned [] t c = .ok c' ∧
      (∀ new, c'.inters.getLast? = some new →
        (∀ q, new.request = some q → q.body.isSome = true) ∧ (∀ r ∈ new.responses, r.body.isSome = true)) := by
  obtain ⟨c₀, x, _, _, g2, _⟩ := (BuildLocal.compile_iff banned f c).1 h
  rw [add_method_iff banned f t c c' x ht h hf g2]
  constructor
  · rintro ⟨_, a, b⟩; exact ⟨a, b⟩
  · rintro ⟨a, b⟩; exact ⟨⟨x, paths_of_noPath hn x⟩, a, b⟩

/-! ## acceptance is local -/

/-- the tag names declared at the top level of a forest -/
def tagDecls (f : List BTree) : List Bytes :=
  ((f.map BTree.dir).filter (·.kind == .TAG)).map (·.param "TagName")

/-- whether the catalog has the tag `n` as a DECLARED one (what a Tags directive asks of a catalog) -/
def declaredIn (c : Cat) (n : Bytes) : Bool :=
  match c.getTag n with
  | some t => t.declared
  | none => false

/-- the declared tags of an accepted catalog are the TAG directives of the top level -/
theorem declaredIn_compile {banned : List Kind} {f : List BTree} {c : Cat} (h : compile banned f = .ok c)
    (n : Bytes) : declaredIn c n = true ↔ n ∈ tagDecls f := by
  have key : (c.tags.filter (·.declared)).map (·.name) = tagDecls f := by
    have := congrArg (List.map Prod.fst) (C04B.declared_tags_faithful h)
    simpa [List.map_map, Function.comp_def, tagDecls] using this
  rw [← key]
  have hnd := (BuildInv.compile_inv h).tags_nodup
  unfold declaredIn
  constructor
  · intro hd
    cases hg : c.getTag n with
    | none => rw [hg] at hd; cases hd
    | some t =>
      rw [hg] at hd
      unfold Cat.getTag at hg
      have hn : t.name = n := by simpa using List.find?_some hg
      exact List.mem_map.2 ⟨t, List.mem_filter.2 ⟨List.mem_of_find?_eq_some hg, hd⟩, hn⟩
  · intro hm
    obtain ⟨t, ht, rfl⟩ := List.mem_map.1 hm
    obtain ⟨ht, hd⟩ := List.mem_filter.1 ht
    have : c.getTag t.name = some t := BuildLocal.find_of_nodup hnd ht
    rw [this]; exact hd

/-- ACCEPTANCE OF A METHOD BLOCK IS LOCAL.  The block `t` is accepted at the end of SOME forest `f₀`; `f` is another
accepted forest.  If `f` declares the same tag names as `f₀` (only the names in the Tags directives of `t` matter, but
the hypothesis is on all), the similar-paths table of `f` (`Cat.similar`, the map `core.similarPaths`) admits the
path parameters of `t`, no interaction of `f` has the (verb, path) of `t`, and the Path stage admits `t` after `f`
(automatic when `t` holds no Path directive: `paths_of_noPath`), then `f ++ [t]` is accepted — `add_method_local`
then says what its catalog is — and the new interaction is the one `t` yields after `f₀`.
Restated for F76: the Path stage in `hpath` starts from `[]` (it was `none`). -/
theorem add_method_transfer (banned : List Kind) (f₀ f : List BTree) (t : BTree) (c₀' c : Cat)
    (ht : C10I.isMethodBlock' t = true) (h₀' : compile banned (f₀ ++ [t]) = .ok c₀')
    (h : compile banned f = .ok c) (hf : f ≠ [])
    (htags : ∀ n, n ∈ tagDecls f₀ ↔ n ∈ tagDecls f)
    (hsim : ∀ pp, checkedPathParameters (t.dir.param "Path") = .ok pp → (checkSimilar c.similar pp).isSome = true)
    (hfresh : ∀ x ∈ c.inters, x.iid ≠ methodId t)
    (hpath : ∀ x, pathsForest [] f [] = .ok x → ∃ y, pathsTree [] t x = .ok y) :
    ∃ c', compile banned (f ++ [t]) = .ok c' ∧ c'.inters.getLast? = c₀'.inters.getLast? := by
  cases t with
  | node d kids =>
    obtain ⟨hk, hl⟩ := isMethodBlock'_node ht
    obtain ⟨k1, k2, k3⟩ := http_kind_ne hk
    obtain ⟨c₀₀, x₀, y₀, c₀, hf₀, h0, h1, h2, h2', h3, h4, h4', h5⟩ :=
      (BuildLocal.compile_snoc_iff banned f₀ (.node d kids) c₀' k1 k2 k3).1 h₀'
    obtain ⟨new₀, a1, _, _, _, _, _, _, a7, _⟩ := block_step ht h4'
    have hchk := (BuildLocal.chk_snoc a7 a1).1 h5
    have hc₀ : compile banned f₀ = .ok c₀ :=
      (BuildLocal.compile_iff banned f₀ c₀).2 ⟨c₀₀, x₀, h0, h1, h2, h3, h4, hchk.1⟩
    have hdecl : BuildPermI.DeclEq c₀ c := by
      intro n
      have e1 := declaredIn_compile hc₀ n
      have e2 := declaredIn_compile h n
      have : declaredIn c n = declaredIn c₀ n := by
        rw [Bool.eq_iff_iff, e1, e2]; exact (htags n).symm
      exact this
    have hfr : c.hasInter (BuildLocal.topId d) = false := by
      unfold Cat.hasInter
      rw [List.any_eq_false]
      intro x hx
      have : x.iid ≠ BuildLocal.topId d := hfresh x hx
      simpa using this
    obtain ⟨c', hb, hlast⟩ := BuildLocal.method_block_transfer hk hl h4' hdecl
      (fun path pp hp hpp => by
        have e := BuildLocal.pathChain_top hk hp
        subst e
        exact hsim pp (BuildLocal.checkedParams_ok hpp)) hfr
    obtain ⟨c₀₁, x, _, _, g2, _⟩ := (BuildLocal.compile_iff banned f c).1 h
    refine ⟨c', (add_method_iff banned f (.node d kids) c c' x ht h hf g2).2 ⟨hpath x g2, hb, ?_⟩, hlast⟩
    intro new hnew
    rw [hlast, a1, List.getLast?_append, List.getLast?_singleton] at hnew
    simp only [Option.some_or] at hnew
    cases hnew
    exact hchk.2

/-- a path without parameters is admitted by every similar-paths table -/
theorem similar_no_params (m : List (Bytes × Bytes)) : (checkSimilar m []).isSome = true := rfl

/-! ## a method block in the middle of the forest (partial) -/

/-- an interaction block may be moved behind the interaction blocks that follow it (no Path directives in the blocks
concerned): same verdict, catalogs equal up to order (the simulation relation of `Props/C10_Inters.lean`) -/
theorem move_block_last (banned : List Kind) (t : BTree) (ht : C10I.isInterBlock' t = true)
    (hnt : C10I.noPathTree t = true) : ∀ (post pre : List BTree), pre ≠ [] →
    (∀ b ∈ post, C10I.isInterBlock' b = true) → (∀ b ∈ post, C10I.noPathTree b = true) →
    BuildPerm.RRel BuildPermI.Sim (compile banned (pre ++ t :: post)) (compile banned (pre ++ post ++ [t]))
  | [], pre, _, _, _ => by
    rw [List.append_nil]
    cases h : compile banned (pre ++ [t]) with
    | error e => trivial
    | ok c => exact BuildPermI.Sim.refl (BuildInv.compile_inv h)
  | b :: post, pre, hpre, hb, hn => by
    have hbb := hb b List.mem_cons_self
    have hnb := hn b List.mem_cons_self
    have ht' := ht
    rw [C10I.isInterBlock'_eq] at ht' hbb
    have hnt' := hnt
    rw [C10I.noPathTree_eq] at hnt' hnb
    have s1 := BuildPermI.swap_blocks_rrel banned pre post t b ht' hbb hpre
      (by rw [BuildPermI.pathsForest_swap_noPath pre post t b hnt' hnb []])
    have s2 := move_block_last banned t ht hnt post (pre ++ [b]) (by simp)
      (fun x hx => hb x (List.mem_cons_of_mem _ hx)) (fun x hx => hn x (List.mem_cons_of_mem _ hx))
    have e1 : pre ++ [b] ++ t :: post = pre ++ b :: t :: post := by simp
    have e2 : pre ++ [b] ++ post ++ [t] = pre ++ b :: post ++ [t] := by simp
    rw [e1, e2] at s2
    exact BuildPermI.rsim_trans s1 s2

/-- PARTIAL (a method block ANYWHERE among the interaction blocks).  `t` is a method block followed by interaction
blocks `post` (method blocks or URL blocks, `C10I.isInterBlock'`), none of them with Path directives.  If the forest
with `t` and the forest without it are accepted, then the catalog with `t` is — UP TO THE ORDER of the collections
(`C10I.SameUpToOrder'`) — a catalog `c'` that is the one without `t` plus exactly the entry of `t`, as in
`add_method_local`.  MISSING for the full statement: equality instead of "up to order" (the interaction of `t` sits
in the middle of the list and its automatic tag may precede later ones), blocks with Path directives, declarations
after `t` (these can be moved first with `C10B.swap_decl`). -/
theorem insert_method_local_partial (banned : List Kind) (pre post : List BTree) (t : BTree) (c c₁ : Cat)
    (ht : C10I.isMethodBlock' t = true) (hnt : C10I.noPathTree t = true) (hpre : pre ≠ [])
    (hpost : ∀ b ∈ post, C10I.isInterBlock' b = true) (hnpost : ∀ b ∈ post, C10I.noPathTree b = true)
    (h : compile banned (pre ++ post) = .ok c) (h₁ : compile banned (pre ++ t :: post) = .ok c₁) :
    ∃ (c' : Cat) (new : InterM), C10I.SameUpToOrder' c₁ c' ∧ compile banned (pre ++ post ++ [t]) = .ok c' ∧
      c'.inters = c.inters ++ [new] ∧ new.iid = methodId t ∧ new.annot = t.dir.annot ∧ new.tags = tagNamesOf t ∧
      c'.jsight = c.jsight ∧ c'.info = c.info ∧ c'.servers = c.servers ∧ c'.types = c.types ∧
      TagsExtend c.tags c'.tags new := by
  have hib : C10I.isInterBlock' t = true := by unfold C10I.isInterBlock'; rw [ht]; rfl
  obtain ⟨c', hc', hs⟩ := (move_block_last banned t hib hnt post pre hpre hpost hnpost).both.1 c₁ h₁
  obtain ⟨new, a1, a2, a3, a4, _, a6, a7, a8, a9, _, _, a12⟩ :=
    add_method_local banned (pre ++ post) t c c' ht h hc'
  exact ⟨c', new, C10I.same_of_sim hs, hc', a1, a2, a3, a4, a6, a7, a8, a9, a12⟩

/-- deleting a method block from among interaction blocks leaves an accepted forest (same restrictions) -/
theorem remove_method_accepted_partial (banned : List Kind) (pre post : List BTree) (t : BTree) (c₁ : Cat)
    (ht : C10I.isMethodBlock' t = true) (hnt : C10I.noPathTree t = true) (hpre : pre ≠ [])
    (hpost : ∀ b ∈ post, C10I.isInterBlock' b = true) (hnpost : ∀ b ∈ post, C10I.noPathTree b = true)
    (h₁ : compile banned (pre ++ t :: post) = .ok c₁) : ∃ c, compile banned (pre ++ post) = .ok c := by
  have hib : C10I.isInterBlock' t = true := by unfold C10I.isInterBlock'; rw [ht]; rfl
  obtain ⟨c', hc', _⟩ := (move_block_last banned t hib hnt post pre hpre hpost hnpost).both.1 c₁ h₁
  exact remove_method_accepted banned (pre ++ post) t c' ht hc'

/-! ## the content of the new interaction -/

theorem mem_subsF_last (f : List BTree) (t : BTree) : (([] : List Up), t) ∈ C04C.subsF [] (f ++ [t]) := by
  induction f with
  | nil =>
    cases t with
    | node d kids => simp [C04C.subsF, C04C.subs]
  | cons a r ih =>
    rw [List.cons_append, C04C.subsF]
    exact List.mem_append_right _ ih

/-- what the new interaction holds is read off the block alone: `C04C.interOf` of the id, the directive, the tag
names and the children of `t` (description, query, request, responses, in the vocabulary of `Props/C04_Content.lean`)
— for a forest in the form the context resolution produces (`obeysF`: every child is admitted by its parent) -/
theorem add_method_content (banned : List Kind) (f : List BTree) (t : BTree) (c' : Cat)
    (ht : C10I.isMethodBlock' t = true) (h' : compile banned (f ++ [t]) = .ok c')
    (ho : C04C.obeysF (f ++ [t]) = true) :
    c'.inters.getLast? = some (C04C.interOf (methodId t) t.dir (tagNamesOf t) t.kids) := by
  have hk : isHTTP t.dir.kind = true := by
    cases t with
    | node d kids => exact (isMethodBlock'_node ht).1
  obtain ⟨c, h⟩ := remove_method_accepted banned f t c' ht h'
  obtain ⟨k1, k2, k3⟩ := http_kind_ne hk
  obtain ⟨c₀, x, y, c₁, hf, h0, h1, h2, h2', h3, h4, h4', h5⟩ :=
    (BuildLocal.compile_snoc_iff banned f t c' k1 k2 k3).1 h'
  obtain ⟨new, a1, a2, _, a4, hid, _⟩ := block_step ht h4'
  have hmem : new ∈ c'.inters := by rw [a1]; exact List.mem_append_right _ (List.mem_singleton.2 rfl)
  have hne : (t.dir.kind == Kind.Method) = false := by
    cases hkk : t.dir.kind <;> first | rfl | (rw [hkk] at hk; exact absurd hk (by decide))
  have hxi : C04B.idOf (C04C.entOf (([] : List Up), t)) = .ok new.iid := by
    unfold C04B.idOf C04C.entOf C04B.Ent.chain
    simp only [hne, Bool.false_eq_true, if_false, List.map_nil]
    rw [a2]; exact hid
  have := C04C.interaction_content h' ho (mem_subsF_last f t) (by simp [C04B.isMeth, hk]) hmem hxi
  rw [a1, List.getLast?_append, List.getLast?_singleton]
  simp only [Option.some_or]
  rw [this, a2, a4]

/-! ## concrete forests: the hypotheses are satisfiable, the side conditions are needed -/

private def s (x : String) : Bytes := x.toUTF8.toList

private def J : BTree := .node { kind := .Jsight, id := 1, src := 1, named := [("Version", s "0.3")] } []

private def resp (id : Nat) (code : String) : BTree :=
  .node { kind := .HTTPResponseCode, id := id, src := id, keyword := s code, named := [("SchemaNotation", s "any")] } []

/-- GET /a with a `200 any` response -/
private def Ga : BTree := .node { kind := .Get, id := 10, src := 10, named := [("Path", s "/a")] } [resp 11 "200"]
/-- POST /b // new b, with a request and a `201 any` response -/
private def Pb : BTree :=
  .node { kind := .Post, id := 20, src := 20, named := [("Path", s "/b")], annot := s "new b" }
    [.node { kind := .Request, id := 21, src := 21, body := some (s "{}") } [], resp 22 "201"]
/-- POST /a/x: its automatic tag `@a` is the one of GET /a -/
private def Pax : BTree :=
  .node { kind := .Post, id := 30, src := 30, named := [("Path", s "/a/x")] } [resp 31 "200"]
private def Tg : BTree := .node { kind := .TAG, id := 40, src := 40, named := [("TagName", s "@pets")] } []
/-- PUT /c with `Tags @pets @pets` -/
private def Pc2 : BTree :=
  .node { kind := .Put, id := 50, src := 50, named := [("Path", s "/c")] }
    [.node { kind := .Tags, id := 51, src := 51, unnamed := [s "@pets", s "@pets"] } [], resp 52 "200"]

private def cat (f : List BTree) : Cat := match compile [] f with | .ok c => c | .error _ => {}

/-- both forests are accepted and `POST /b` is a method block: the premises of `add_method_local` hold -/
example : compile [] [J, Ga] = .ok (cat [J, Ga]) ∧ compile [] ([J, Ga] ++ [Pb]) = .ok (cat [J, Ga, Pb]) ∧
    C10I.isMethodBlock' Pb = true ∧ C10I.isMethodBlock' Ga = true := by decide +kernel

/-- … and what the theorem says about them, computed: one more interaction (`POST /b`), a new automatic tag `@b`
after the old tag `@a`, which is unchanged -/
example : (cat [J, Ga, Pb]).inters.map (·.iid.text) = [s "http GET /a", s "http POST /b"] ∧
    (cat [J, Ga]).inters.map (·.iid.text) = [s "http GET /a"] ∧
    (cat [J, Ga]).tags.map (fun t => (t.name, t.http)) = [(s "@a", [s "http GET /a"])] ∧
    (cat [J, Ga, Pb]).tags.map (fun t => (t.name, t.http)) =
      [(s "@a", [s "http GET /a"]), (s "@b", [s "http POST /b"])] := by decide +kernel

/-- the same through the theorem -/
example : ∃ new : InterM, (cat [J, Ga, Pb]).inters = (cat [J, Ga]).inters ++ [new] ∧
    new.iid = ⟨.http, s "POST", s "/b"⟩ ∧ new.annot = s "new b" ∧ (cat [J, Ga, Pb]).types = (cat [J, Ga]).types ∧
    TagsExtend (cat [J, Ga]).tags (cat [J, Ga, Pb]).tags new := by
  obtain ⟨new, h1, h2, h3, _, _, _, _, _, h9, _, _, h12⟩ := add_method_local [] [J, Ga] Pb (cat [J, Ga]) (cat [J, Ga, Pb])
    (by decide +kernel) (by decide +kernel) (by decide +kernel)
  exact ⟨new, h1, by rw [h2]; decide +kernel, by rw [h3]; decide +kernel, h9, h12⟩

/-- the other case of `TagsExtend`: `POST /a/x` has the automatic tag `@a`, which is there — no new tag, the old one
receives the id -/
example : compile [] ([J, Ga] ++ [Pax]) = .ok (cat [J, Ga, Pax]) ∧ C10I.isMethodBlock' Pax = true ∧
    (cat [J, Ga, Pax]).tags.map (fun t => (t.name, t.http)) =
      [(s "@a", [s "http GET /a", s "http POST /a/x"])] := by decide +kernel

/-- a Tags directive that names a tag twice: the tag receives the id twice (hence `List.replicate` in `bump`) -/
theorem tag_named_twice : compile [] ([J, Tg, Ga] ++ [Pc2]) = .ok (cat [J, Tg, Ga, Pc2]) ∧
    C10I.isMethodBlock' Pc2 = true ∧
    (cat [J, Tg, Ga]).tags.map (fun t => (t.name, t.http)) = [(s "@pets", []), (s "@a", [s "http GET /a"])] ∧
    (cat [J, Tg, Ga, Pc2]).tags.map (fun t => (t.name, t.http)) =
      [(s "@pets", [s "http PUT /c", s "http PUT /c"]), (s "@a", [s "http GET /a"])] := by decide +kernel

/-- deleting: the premise of `remove_method_accepted` holds for `[J, Ga] ++ [Pb]`, and the shorter forest is accepted -/
example : ∃ c, compile [] [J, Ga] = .ok c :=
  remove_method_accepted [] [J, Ga] Pb (cat [J, Ga, Pb]) (by decide +kernel) (by decide +kernel)

/-- acceptance through `add_method_iff_noPath` -/
example : compile [] ([J, Ga] ++ [Pb]) = .ok (cat [J, Ga, Pb]) :=
  (add_method_iff_noPath [] [J, Ga] Pb (cat [J, Ga]) (cat [J, Ga, Pb]) (by decide +kernel) (by decide +kernel)
    (by decide +kernel) (by decide)).2 ⟨by decide +kernel, by decide +kernel⟩

/-- acceptance transferred: `POST /b` is accepted after `[J]`, hence after `[J, Ga]` (same TAG names — none —, no path
parameters, `POST /b` is new, no Path directive), with the same interaction -/
example : ∃ c', compile [] ([J, Ga] ++ [Pb]) = .ok c' ∧ c'.inters.getLast? = (cat [J, Pb]).inters.getLast? := by
  have e0 : tagDecls [J] = [] := by decide +kernel
  have e1 : tagDecls [J, Ga] = [] := by decide +kernel
  have e2 : checkedPathParameters (Pb.dir.param "Path") = .ok [] := by decide +kernel
  refine add_method_transfer [] [J] [J, Ga] Pb (cat [J, Pb]) (cat [J, Ga]) (by decide +kernel) (by decide +kernel)
    (by decide +kernel) (by decide) (by rw [e0, e1]; exact fun _ => Iff.rfl) ?_ (by decide +kernel)
    (fun x _ => ⟨x, paths_of_noPath (by decide +kernel) x⟩)
  intro pp hpp
  rw [e2] at hpp
  cases hpp
  rfl

/-- the block in the middle: `[J, Pb, Ga]` against `[J, Ga]` -/
example : ∃ (c' : Cat) (new : InterM), C10I.SameUpToOrder' (cat [J, Pb, Ga]) c' ∧
    c'.inters = (cat [J, Ga]).inters ++ [new] ∧ new.iid = methodId Pb := by
  obtain ⟨c', new, h1, _, h3, h4, _⟩ := insert_method_local_partial [] [J] [Ga] Pb (cat [J, Ga]) (cat [J, Pb, Ga])
    (by decide +kernel) (by decide +kernel) (by decide) (by decide +kernel) (by decide +kernel) (by decide +kernel)
    (by decide +kernel)
  exact ⟨c', new, h1, h3, h4⟩

private def pathDir (id : Nat) : BTree := .node { kind := .Path, id := id, src := id, body := some (s "{}") } []
/-- two methods with a Path directive each and the same IDENTITY (70) — which no forest numbered by the decoration
has; since F44 the Path stage goes by identity, so one method of a macro pasted twice (same `src`, its own `id`: `M5p`)
is accepted -/
private def M5 : BTree := .node { kind := .Get, id := 70, src := 5, named := [("Path", s "/p/{a}")] } [pathDir 71, resp 72 "200"]
private def M5' : BTree := .node { kind := .Get, id := 70, src := 5, named := [("Path", s "/r/{a}")] } [pathDir 75, resp 76 "200"]
private def M5p : BTree := .node { kind := .Get, id := 77, src := 5, named := [("Path", s "/r/{a}")] } [pathDir 78, resp 79 "200"]

/-- condition (1) of `add_method_iff` cannot be dropped for arbitrary trees: `[J, M5]` is accepted, the fold accepts the
block `M5'` on its catalog and the new interaction has its bodies, but `[J, M5] ++ [M5']` is rejected — by the Path
stage, which remembers the identities of the contexts that have a Path directive (`pathsTree` in the state `[70]`).
Restated for F76: the state is a list (`[]`, `[70]`), it was `none`, `some 70` -/
theorem path_stage_matters :
    (compile [] [J, M5]).isOk = true ∧ C10I.isMethodBlock' M5' = true ∧
    (addBranch [] [] M5' (cat [J, M5])).isOk = true ∧
    pathsForest [] [J, M5] [] = .ok [70] ∧ pathsTree [] M5' [70] = .error ⟨75, .notUnique⟩ ∧
    compile [] ([J, M5] ++ [M5']) = .error ⟨75, .notUnique⟩ := by decide +kernel

/-- F44 in the model: the second copy of a macro's method (same coordinates, its own identity) is accepted -/
theorem pasted_copy_accepted : (compile [] ([J, M5] ++ [M5p])).isOk = true := by decide +kernel

/-- a method on a "similar" path (`/p/{b}` after `/p/{a}`) and a second `GET /a` are refused by the fold (condition 2) -/
private def Msim : BTree := .node { kind := .Put, id := 80, src := 80, named := [("Path", s "/p/{b}")] } [resp 81 "200"]
private def Ga2 : BTree := .node { kind := .Get, id := 90, src := 90, named := [("Path", s "/a")] } [resp 91 "200"]
example : addBranch [] [] Msim (cat [J, M5]) = .error ⟨80, .similarPaths⟩ ∧
    compile [] ([J, M5] ++ [Msim]) = .error ⟨80, .similarPaths⟩ ∧
    addBranch [] [] Ga2 (cat [J, Ga]) = .error ⟨90, .methodDefined⟩ ∧
    compile [] ([J, Ga] ++ [Ga2]) = .error ⟨90, .methodDefined⟩ := by decide +kernel

/-- a response without a body is refused by the checks after the fold (condition 3) -/
private def Gnb : BTree :=
  .node { kind := .Get, id := 100, src := 100, named := [("Path", s "/n")] }
    [.node { kind := .HTTPResponseCode, id := 101, src := 101, keyword := s "200" } []]
example : (addBranch [] [] Gnb (cat [J, Ga])).isOk = true ∧
    compile [] ([J, Ga] ++ [Gnb]) = .error ⟨101, .undefinedResponseBody⟩ := by decide +kernel

end JSight.C20B
