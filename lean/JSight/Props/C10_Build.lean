import JSight.Model.Build
import JSight.Proofs.BuildPerm
/-!
C10 (catalog construction) — named declarations may be written before or after their use: exchanging a
top-level declaration (TYPE, SERVER with its BaseUrl, TAG with its Description, ENUM, MACRO) of the directive
forest with the block that follows it changes neither the verdict of `compile` (`Model/Build.lean`) nor, up to
the order of `servers`, `types`, `tags`, the catalog.  The diagnostics of a rejected document may differ between
the two orders (another directive is reached first), so only the verdict is compared there.

Shape of the blocks (what context resolution guarantees of a real forest, see `Gen.childAllowed`):
a declaration is a TYPE / ENUM / MACRO without children, a SERVER whose children are BaseUrl directives, or a
TAG whose children are Description directives; the neighbour it is exchanged with is another declaration or a tree
that holds no TYPE, SERVER, BaseUrl, TAG directive at any depth (JSIGHT, INFO, URL, a method with everything
below it).  Without that restriction the statement is false in the model (not in a real forest): a BaseUrl under
a node that is not its SERVER, e.g. `[JSIGHT, SERVER @s, MACRO @s {BaseUrl}]`, is accepted in this order and
rejected ("server not found") in the other one.

Helper lemmas: `Proofs/BuildPerm.lean`.
-/
namespace JSight.C10B
open JSight JSight.Build JSight.Gen

/-- a directive of kind `k` without children -/
def leafOf (k : Kind) (t : BTree) : Bool := t.dir.kind == k && t.kids.isEmpty

/-- a "pure declaration" at the top level: TYPE, ENUM, MACRO (no children), SERVER with its BaseUrl children,
TAG with its Description children -/
def isDecl (t : BTree) : Bool :=
  match t.dir.kind with
  | .Type | .Enum | .Macro => t.kids.isEmpty
  | .Server => t.kids.all (leafOf .BaseURL)
  | .TAG => t.kids.all (leafOf .Description)
  | _ => false

def plainKind (d : BDir) : Bool :=
  d.kind != .Type && d.kind != .Server && d.kind != .BaseURL && d.kind != .TAG

mutual
  /-- no TYPE, SERVER, BaseUrl, TAG directive at any depth -/
  def plainTree : BTree → Bool
    | .node d kids => plainKind d && plainForest kids
  def plainForest : List BTree → Bool
    | [] => true
    | t :: r => plainTree t && plainForest r
end

/-- what a declaration may be exchanged with: another declaration, or a tree without declarations inside -/
def isBlock (t : BTree) : Bool := isDecl t || plainTree t

/-- two catalogs are equal up to the order of the declared collections (an entry of `tags` carries its
interaction lists: the entries are the same, only their order changes) -/
structure SameUpToOrder (c c' : Cat) : Prop where
  jsight : c'.jsight = c.jsight
  info : c'.info = c.info
  inters : c'.inters = c.inters
  servers : c'.servers.Perm c.servers
  types : c'.types.Perm c.types
  tags : c'.tags.Perm c.tags

theorem SameUpToOrder.refl (c : Cat) : SameUpToOrder c c :=
  ⟨rfl, rfl, rfl, List.Perm.refl _, List.Perm.refl _, List.Perm.refl _⟩

theorem SameUpToOrder.symm {c c' : Cat} (h : SameUpToOrder c c') : SameUpToOrder c' c :=
  ⟨h.1.symm, h.2.symm, h.3.symm, h.4.symm, h.5.symm, h.6.symm⟩

theorem SameUpToOrder.trans {c c' c'' : Cat} (h : SameUpToOrder c c') (h' : SameUpToOrder c' c'') :
    SameUpToOrder c c'' :=
  ⟨h'.1.trans h.1, h'.2.trans h.2, h'.3.trans h.3, h'.4.trans h.4, h'.5.trans h.5, h'.6.trans h.6⟩

/-! the definitions above are the ones of `Proofs/BuildPerm.lean` -/

theorem isDecl_eq (t : BTree) : isDecl t = BuildPerm.isDecl t := rfl

mutual
  theorem plainTree_eq : ∀ t : BTree, plainTree t = BuildPerm.allT BuildPerm.plainKind t
    | .node d kids => by rw [plainTree, BuildPerm.allT, plainForest_eq kids]; rfl
  theorem plainForest_eq : ∀ ts : List BTree, plainForest ts = BuildPerm.allF BuildPerm.plainKind ts
    | [] => by rw [plainForest, BuildPerm.allF]
    | t :: r => by rw [plainForest, BuildPerm.allF, plainTree_eq t, plainForest_eq r]
end

theorem isBlock_eq (t : BTree) : isBlock t = BuildPerm.isBlock t := by
  unfold isBlock BuildPerm.isBlock
  rw [plainTree_eq, isDecl_eq]

theorem same_of_sim {c c' : Cat} (h : BuildPerm.FSim.Rel c c') : SameUpToOrder c c' :=
  ⟨h.eq6.jsight, h.eq6.info, h.eq6.inters, h.s.1, h.t, h.g.1⟩

/-- (1) exchanging a top-level declaration with its right neighbour (JSIGHT stays first) changes neither the
verdict nor, up to order, the catalog -/
theorem swap_decl (banned : List Kind) (pre post : List BTree) (a b : BTree) (ha : isDecl a = true)
    (hb : isBlock b = true) (hpre : pre ≠ []) :
    (∀ c, compile banned (pre ++ a :: b :: post) = .ok c →
      ∃ c', compile banned (pre ++ b :: a :: post) = .ok c' ∧ SameUpToOrder c c') ∧
    (∀ c', compile banned (pre ++ b :: a :: post) = .ok c' →
      ∃ c, compile banned (pre ++ a :: b :: post) = .ok c ∧ SameUpToOrder c c') := by
  rw [isDecl_eq] at ha
  rw [isBlock_eq] at hb
  obtain ⟨h1, h2⟩ := (BuildPerm.swap_rrel banned pre post a b ha hb hpre).both
  refine ⟨fun c hc => ?_, fun c' hc' => ?_⟩
  · obtain ⟨c', h, hs⟩ := h1 c hc; exact ⟨c', h, same_of_sim hs⟩
  · obtain ⟨c, h, hs⟩ := h2 c' hc'; exact ⟨c, h, same_of_sim hs⟩

/-- the verdict alone -/
theorem swap_decl_verdict (banned : List Kind) (pre post : List BTree) (a b : BTree) (ha : isDecl a = true)
    (hb : isBlock b = true) (hpre : pre ≠ []) :
    (∃ c, compile banned (pre ++ a :: b :: post) = .ok c) ↔ (∃ c', compile banned (pre ++ b :: a :: post) = .ok c') := by
  obtain ⟨h1, h2⟩ := swap_decl banned pre post a b ha hb hpre
  constructor
  · rintro ⟨c, hc⟩; obtain ⟨c', h, _⟩ := h1 c hc; exact ⟨c', h⟩
  · rintro ⟨c', hc'⟩; obtain ⟨c, h, _⟩ := h2 c' hc'; exact ⟨c, h⟩

/-- (2) the reorderings that move declarations only: the relative order of the other blocks is kept -/
inductive DeclMove : List BTree → List BTree → Prop
  | refl (f : List BTree) : DeclMove f f
  | swap (pre post : List BTree) (a b : BTree) : pre ≠ [] → isDecl a = true → isBlock b = true →
      DeclMove (pre ++ a :: b :: post) (pre ++ b :: a :: post)
  | symm {f g : List BTree} : DeclMove f g → DeclMove g f
  | trans {f g h : List BTree} : DeclMove f g → DeclMove g h → DeclMove f h

theorem reorder_decls (banned : List Kind) {f f' : List BTree} (h : DeclMove f f') :
    (∀ c, compile banned f = .ok c → ∃ c', compile banned f' = .ok c' ∧ SameUpToOrder c c') ∧
    (∀ c', compile banned f' = .ok c' → ∃ c, compile banned f = .ok c ∧ SameUpToOrder c c') := by
  induction h with
  | refl f => exact ⟨fun c hc => ⟨c, hc, .refl c⟩, fun c hc => ⟨c, hc, .refl c⟩⟩
  | swap pre post a b hpre ha hb => exact swap_decl banned pre post a b ha hb hpre
  | symm _ ih =>
    refine ⟨fun c hc => ?_, fun c' hc' => ?_⟩
    · obtain ⟨x, hx, hs⟩ := ih.2 c hc; exact ⟨x, hx, hs.symm⟩
    · obtain ⟨x, hx, hs⟩ := ih.1 c' hc'; exact ⟨x, hx, hs.symm⟩
  | trans _ _ ih1 ih2 =>
    refine ⟨fun c hc => ?_, fun c' hc' => ?_⟩
    · obtain ⟨x, hx, hs⟩ := ih1.1 c hc
      obtain ⟨y, hy, hs'⟩ := ih2.1 x hx
      exact ⟨y, hy, hs.trans hs'⟩
    · obtain ⟨x, hx, hs⟩ := ih2.2 c' hc'
      obtain ⟨y, hy, hs'⟩ := ih1.2 x hx
      exact ⟨y, hy, hs'.trans hs⟩

/-- the verdict is the same for both orders -/
theorem reorder_decls_verdict (banned : List Kind) {f f' : List BTree} (h : DeclMove f f') :
    (∃ c, compile banned f = .ok c) ↔ (∃ c', compile banned f' = .ok c') := by
  obtain ⟨h1, h2⟩ := reorder_decls banned h
  constructor
  · rintro ⟨c, hc⟩; obtain ⟨c', h, _⟩ := h1 c hc; exact ⟨c', h⟩
  · rintro ⟨c', hc'⟩; obtain ⟨c, h, _⟩ := h2 c' hc'; exact ⟨c, h⟩

/-- a declaration moved over several blocks -/
theorem DeclMove.over (pre : List BTree) (a : BTree) (hpre : pre ≠ []) (ha : isDecl a = true) :
    ∀ (bs post : List BTree), (∀ b ∈ bs, isBlock b = true) → DeclMove (pre ++ a :: (bs ++ post)) (pre ++ bs ++ a :: post)
  | [], post, _ => by simpa using DeclMove.refl _
  | b :: bs, post, h => by
    have h1 : DeclMove (pre ++ a :: (b :: bs ++ post)) (pre ++ b :: a :: (bs ++ post)) :=
      DeclMove.swap pre (bs ++ post) a b hpre ha (h b List.mem_cons_self)
    have h2 := DeclMove.over (pre ++ [b]) a (by simp) ha bs post (fun x hx => h x (List.mem_cons_of_mem _ hx))
    have e1 : pre ++ [b] ++ a :: (bs ++ post) = pre ++ b :: a :: (bs ++ post) := by simp
    have e2 : pre ++ [b] ++ bs ++ a :: post = pre ++ (b :: bs) ++ a :: post := by simp
    rw [e1, e2] at h2
    exact h1.trans h2

/-- (3) use before declaration: a Tags directive may name a TAG declared LATER in the document (the TAG
directives are collected before anything else): a top-level TAG written before some blocks or after them gives
the same verdict and, up to order, the same catalog -/
theorem tag_before_or_after (banned : List Kind) (pre bs post : List BTree) (tag : BTree) (hpre : pre ≠ [])
    (ht : isDecl tag = true) (_hk : tag.dir.kind = .TAG) (hbs : ∀ b ∈ bs, isBlock b = true) :
    ((∃ c, compile banned (pre ++ tag :: (bs ++ post)) = .ok c) ↔
      (∃ c', compile banned (pre ++ bs ++ tag :: post) = .ok c')) ∧
    (∀ c c', compile banned (pre ++ tag :: (bs ++ post)) = .ok c →
      compile banned (pre ++ bs ++ tag :: post) = .ok c' → SameUpToOrder c c') := by
  have hm := DeclMove.over pre tag hpre ht bs post hbs
  refine ⟨reorder_decls_verdict banned hm, ?_⟩
  intro c c' hc hc'
  obtain ⟨x, hx, hs⟩ := (reorder_decls banned hm).1 c hc
  rw [hc'] at hx; cases hx
  exact hs

/-! ### concrete forests -/

/-- a decidable form of `SameUpToOrder` -/
def sameB (c c' : Cat) : Bool :=
  c'.jsight == c.jsight && c'.info == c.info && c'.inters == c.inters &&
    c'.servers.isPerm c.servers && c'.types.isPerm c.types && c'.tags.isPerm c.tags

theorem sameB_sound {c c' : Cat} (h : sameB c c' = true) : SameUpToOrder c c' := by
  simp only [sameB, Bool.and_eq_true, beq_iff_eq, List.isPerm_iff] at h
  obtain ⟨⟨⟨⟨⟨h1, h2⟩, h3⟩, h4⟩, h5⟩, h6⟩ := h
  exact ⟨h1, h2, h3, h4, h5, h6⟩

/-- both orders are accepted, with catalogs equal up to order -/
def bothSame (banned : List Kind) (f f' : List BTree) : Bool :=
  match compile banned f, compile banned f' with
  | .ok c, .ok c' => sameB c c'
  | _, _ => false

theorem bothSame_sound {banned : List Kind} {f f' : List BTree} (h : bothSame banned f f' = true) :
    ∃ c c', compile banned f = .ok c ∧ compile banned f' = .ok c' ∧ SameUpToOrder c c' := by
  unfold bothSame at h
  split at h
  · rename_i c c' h1 h2; exact ⟨c, c', h1, h2, sameB_sound h⟩
  · cases h

/-- both orders are rejected -/
def bothRejected (banned : List Kind) (f f' : List BTree) : Bool :=
  match compile banned f, compile banned f' with
  | .error _, .error _ => true
  | _, _ => false

private def s (x : String) : Bytes := x.toUTF8.toList

private def J : BTree := .node { kind := .Jsight, id := 1, src := 1, named := [("Version", s "0.3")] } []
private def Ta : BTree :=
  .node { kind := .Type, id := 2, src := 2, named := [("Name", s "@a")], body := some (s "{}") } []
private def Gx : BTree :=
  .node { kind := .Get, id := 3, src := 3, named := [("Path", s "/x")] }
    [.node { kind := .Tags, id := 4, src := 4, unnamed := [s "@t"] } [],
     .node { kind := .HTTPResponseCode, id := 5, src := 5, keyword := s "200", body := some (s "1") } []]
private def Tt : BTree :=
  .node { kind := .TAG, id := 6, src := 6, named := [("TagName", s "@t")] }
    [.node { kind := .Description, id := 7, src := 7, body := some (s "orders") } []]
private def Ss : BTree :=
  .node { kind := .Server, id := 8, src := 8, named := [("Name", s "@s")] }
    [.node { kind := .BaseURL, id := 9, src := 9, named := [("Path", s "http://x")] } []]
/-- a second TYPE of the same name -/
private def Ta2 : BTree :=
  .node { kind := .Type, id := 10, src := 10, named := [("Name", s "@a")], body := some (s "1") } []

/-- JSIGHT, TYPE @a, GET /x (Tags @t), TAG @t, SERVER @s: the tag is declared after its use -/
example : isDecl Ta = true ∧ isDecl Tt = true ∧ isDecl Ss = true ∧ isBlock Gx = true ∧ isDecl Gx = false := by
  decide +kernel

/-- the declarations first, in another order -/
example : bothSame [] [J, Ta, Gx, Tt, Ss] [J, Ss, Tt, Ta, Gx] = true := by decide +kernel

/-- the declarations last -/
example : bothSame [] [J, Ta, Gx, Tt, Ss] [J, Gx, Ss, Ta, Tt] = true := by decide +kernel

example : ∃ c c', compile [] [J, Ta, Gx, Tt, Ss] = .ok c ∧ compile [] [J, Gx, Tt, Ta, Ss] = .ok c' ∧
    SameUpToOrder c c' := bothSame_sound (by decide +kernel)

/-- the diagnostic of a rejected compilation -/
def errIs (r : R Cat) (e : BErr) : Bool :=
  match r with
  | .error x => x == e
  | .ok _ => false

private def Tu : BTree := .node { kind := .TAG, id := 12, src := 12, named := [("TagName", s "@u")] } []

/-- the order of the entries does change: the catalogs are not equal, only equal up to order -/
example : bothSame [] [J, Tt, Tu, Gx] [J, Tu, Gx, Tt] = true ∧
    ((compile [] [J, Tt, Tu, Gx]).toOption == (compile [] [J, Tu, Gx, Tt]).toOption) = false := by
  decide +kernel

/-- a rejected document (two TYPEs of one name) stays rejected, at another directive -/
example : bothRejected [] [J, Ta, Ta2, Gx, Tt] [J, Ta2, Gx, Ta, Tt] = true ∧
    errIs (compile [] [J, Ta, Ta2, Gx, Tt]) ⟨10, .duplicateNames⟩ = true ∧
    errIs (compile [] [J, Ta2, Gx, Ta, Tt]) ⟨2, .duplicateNames⟩ = true := by
  decide +kernel

private def srv : BTree := .node { kind := .Server, id := 8, named := [("Name", s "@s")] } []
private def mac : BTree :=
  .node { kind := .Macro, id := 10, named := [("Name", s "@s")] }
    [.node { kind := .BaseURL, id := 11, named := [("Path", s "http://y")] } []]

/-- the restriction on the neighbour is needed in the model: a BaseUrl that is not under its SERVER (never the
case after context resolution: a MACRO is not part of the expanded forest) makes the order matter -/
example : (compile [] [J, srv, mac]).toOption.isSome = true ∧
    errIs (compile [] [J, mac, srv]) ⟨11, .serverNotFound⟩ = true ∧ isDecl srv = true ∧ isBlock mac = false := by
  decide +kernel

end JSight.C10B
