import JSight.Model.Build
import JSight.Proofs.BuildInv
/-!
C09 (catalog construction) — every catalog produced by `compile` (`Model/Build.lean`: `collectTags`, the preorder
fold `addBranch`/`addForest` over the directive forest with every `add…` function, `validate…`) is
SELF-CONSISTENT: interactions are serialised under pairwise different keys, tag/server/type names are unique,
every interaction carries at least one tag, the tags an interaction names exist and list it, every id listed by
a tag belongs to an interaction that names the tag, bodies carry the serialisation format of their notation,
and HTTP ids use one of the five verbs.

Helper lemmas (the invariant and its preservation by each step): `Proofs/BuildInv.lean`.
-/
namespace JSight.C09B
open JSight JSight.Build

/-- the interaction ids listed by a tag for the protocol of `i` -/
def groupOf (t : TagM) (p : Proto) : List Bytes := match p with | .http => t.http | .rpc => t.rpc

structure Consistent (c : Cat) : Prop where
  /-- no two interactions are serialised under one key -/
  keys_nodup    : (c.inters.map (·.iid.text)).Nodup
  tags_nodup    : (c.tags.map (·.name)).Nodup
  servers_nodup : (c.servers.map (·.name)).Nodup
  types_nodup   : (c.types.map (·.name)).Nodup
  /-- every interaction carries at least one tag -/
  tagged        : ∀ x ∈ c.inters, x.tags ≠ []
  /-- a tag named by an interaction exists and lists the interaction under its protocol -/
  tag_exists    : ∀ x ∈ c.inters, ∀ n ∈ x.tags, ∃ t ∈ c.tags, t.name = n ∧ x.iid.text ∈ groupOf t x.iid.proto
  /-- an id listed by a tag is the key of an interaction of that protocol which names the tag -/
  tag_back      : ∀ t ∈ c.tags, ∀ p, ∀ i ∈ groupOf t p,
                    ∃ x ∈ c.inters, x.iid.proto = p ∧ x.iid.text = i ∧ t.name ∈ x.tags
  /-- the serialisation format of a body is the one of its notation -/
  body_format   : ∀ x ∈ c.inters, (∀ r ∈ x.responses, ∀ b, r.body = some b → b.format = formatOf b.nota) ∧
                                   (∀ q, x.request = some q → ∀ b, q.body = some b → b.format = formatOf b.nota)
  /-- the method of an HTTP id is one of the five verbs of `Model/Ids.lean` -/
  id_shape      : ∀ x ∈ c.inters, (x.iid.proto = .http → x.iid.method ∈ verbs)

theorem groupOf_eq (t : TagM) (p : Proto) : groupOf t p = BuildInv.grp t p := by
  cases p <;> rfl

/-- **C09 (model)**: whatever the forest, an accepted compilation yields a self-consistent catalog -/
theorem compile_consistent (banned : List Gen.Kind) (forest : List BTree) (c : Cat)
    (h : compile banned forest = .ok c) : Consistent c := by
  have hi := BuildInv.compile_inv h
  constructor
  · exact hi.keys_nodup
  · exact hi.tags_nodup
  · exact hi.servers_nodup
  · exact hi.types_nodup
  · exact hi.tagged
  · intro x hx n hn
    obtain ⟨t, ht, e, m⟩ := hi.tag_exists x hx n hn
    exact ⟨t, ht, e, by rw [groupOf_eq]; exact m⟩
  · intro t ht p i hi'
    rw [groupOf_eq] at hi'
    exact hi.tag_back t ht p i hi'
  · exact hi.body_format
  · exact hi.id_shape

/-- accepted ⇒ every request and every response has a body (`validateRequestBody` / `validateResponseBody`) -/
theorem compile_bodies (banned : List Gen.Kind) (forest : List BTree) (c : Cat)
    (h : compile banned forest = .ok c) :
    ∀ x ∈ c.inters, (∀ r ∈ x.responses, r.body.isSome) ∧ (∀ q, x.request = some q → q.body.isSome) :=
  BuildInv.compile_bodies h

/-- the key of an HTTP interaction determines its method and path -/
theorem text_injective_http (m1 m2 : Bytes) (h1 : m1 ∈ verbs) (h2 : m2 ∈ verbs) (p1 p2 : Bytes) :
    httpId m1 p1 = httpId m2 p2 → m1 = m2 ∧ p1 = p2 :=
  BuildInv.httpId_inj m1 m2 p1 p2 h1 h2

/-- … and an HTTP key is never a JSON-RPC key: the key determines the protocol -/
theorem http_ne_rpc (m p n q : Bytes) : httpId m p ≠ rpcId n q :=
  BuildInv.http_ne_rpc m p n q

/-- within a self-consistent catalog the key determines the whole id (protocol, method, path) of an HTTP
interaction, and two interactions with one key are the same entry -/
theorem key_determines_http_id (c : Cat) (hc : Consistent c) (x y : InterM) (hx : x ∈ c.inters) (hy : y ∈ c.inters)
    (hp : x.iid.proto = .http) (e : x.iid.text = y.iid.text) : x.iid = y.iid := by
  have sx := hc.id_shape x hx
  have sy := hc.id_shape y hy
  generalize x.iid = a at *
  generalize y.iid = b at *
  obtain ⟨ap, am, apath⟩ := a
  obtain ⟨bp, bm, bpath⟩ := b
  simp only at hp; subst hp
  cases bp with
  | rpc => exact absurd e (by simpa [IId.text] using http_ne_rpc am apath bm bpath)
  | http =>
    simp only [IId.text] at e
    obtain ⟨e1, e2⟩ := text_injective_http am bm (sx rfl) (sy rfl) apath bpath e
    subst e1; subst e2; rfl

/-! ### a concrete accepted document: the hypotheses are satisfiable

```
JSIGHT 0.3
TAG @a
URL /x
  Tags @a            -- explicit tag
  GET
    200 any
GET /y               -- no Tags: the automatic tag @y
URL /r
  Protocol json-rpc-2.0
  Method f           -- automatic tag @r
    Params {}
```
-/

def exForest : List BTree := [
  .node { kind := .Jsight, id := 1, named := [("Version", [48, 46, 51])] } [],
  .node { kind := .TAG, id := 2, named := [("TagName", [64, 97])] } [],
  .node { kind := .URL, id := 3, named := [("Path", [47, 120])] } [
    .node { kind := .Tags, id := 4, unnamed := [[64, 97]] } [],
    .node { kind := .Get, id := 5 } [
      .node { kind := .HTTPResponseCode, id := 6, keyword := [50, 48, 48],
              named := [("SchemaNotation", [97, 110, 121])] } []]],
  .node { kind := .Get, id := 7, named := [("Path", [47, 121])] } [],
  .node { kind := .URL, id := 8, named := [("Path", [47, 114])] } [
    .node { kind := .Protocol, id := 9, named := [("ProtocolName", jsonRpc20)] } [],
    .node { kind := .Method, id := 10, named := [("MethodName", [102])] } [
      .node { kind := .Params, id := 11, body := some [123, 125] } []]]]

def exCat : Cat :=
  { jsight := [48, 46, 51],
    tags := [
      -- @a (declared): "http GET /x"
      { name := [64, 97], title := [64, 97], declared := true,
        http := [[104, 116, 116, 112, 32, 71, 69, 84, 32, 47, 120]] },
      -- @y (automatic): "http GET /y"
      { name := [64, 121], title := [47, 121], declared := false,
        http := [[104, 116, 116, 112, 32, 71, 69, 84, 32, 47, 121]] },
      -- @r (automatic): "json-rpc-2.0 f /r"
      { name := [64, 114], title := [47, 114], declared := false,
        rpc := [[106, 115, 111, 110, 45, 114, 112, 99, 45, 50, 46, 48, 32, 102, 32, 47, 114]] }],
    inters := [
      { iid := { proto := .http, method := [71, 69, 84], path := [47, 120] }, annot := [], tags := [[64, 97]],
        responses := [{ id := 6, code := [50, 48, 48], annot := [],
                        body := some { format := [98, 105, 110, 97, 114, 121], nota := [97, 110, 121] } }] },
      { iid := { proto := .http, method := [71, 69, 84], path := [47, 121] }, annot := [], tags := [[64, 121]] },
      { iid := { proto := .rpc, method := [102], path := [47, 114] }, annot := [], tags := [[64, 114]],
        params := true }],
    uniqURL := [[47, 114], [47, 120]],
    protoURLs := [8] }

instance : DecidableEq (R Cat) := fun a b =>
  match a, b with
  | .ok x, .ok y => if h : x = y then isTrue (by rw [h]) else isFalse (by intro e; cases e; exact h rfl)
  | .error x, .error y => if h : x = y then isTrue (by rw [h]) else isFalse (by intro e; cases e; exact h rfl)
  | .ok _, .error _ => isFalse (by intro e; cases e)
  | .error _, .ok _ => isFalse (by intro e; cases e)

/-- the document is accepted and this is its catalog -/
theorem exForest_compiles : compile [] exForest = .ok exCat := by decide +kernel

example : Consistent exCat := compile_consistent [] exForest exCat exForest_compiles

-- the three keys: "http GET /x", "http GET /y", "json-rpc-2.0 f /r"
example : exCat.inters.map (·.iid.text) =
    [[104, 116, 116, 112, 32, 71, 69, 84, 32, 47, 120], [104, 116, 116, 112, 32, 71, 69, 84, 32, 47, 121],
     [106, 115, 111, 110, 45, 114, 112, 99, 45, 50, 46, 48, 32, 102, 32, 47, 114]] := by decide +kernel
-- the explicit tag and the two automatic ones
example : exCat.inters.map (·.tags) = [[[64, 97]], [[64, 121]], [[64, 114]]] := by decide +kernel
example : exCat.tags.map (fun t => (t.name, t.declared)) =
    [([64, 97], true), ([64, 121], false), ([64, 114], false)] := by decide +kernel
-- a second GET /y is refused (methodDefined at the second GET): the accepted catalogs are a proper subset
example : compile [] (exForest ++ [.node { kind := .Get, id := 12, named := [("Path", [47, 121])] } []])
    = .error ⟨12, .methodDefined⟩ := by decide +kernel

end JSight.C09B
