import JSight.Model.TagName
import JSight.Model.PathPar
import JSight.Model.IncName
namespace JSight.C19
end JSight.C19
