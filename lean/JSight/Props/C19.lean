import JSight.Model.TagName
import JSight.Proofs.C19
/-!
C19 — automatic tag names.  Property theorems only (helper lemmas: `JSight/Proofs/C19.lean`).
-/
namespace JSight.C19
open JSight

/-- `tagName "/"++s` is "@_" for empty `s`, otherwise "@" followed by the per-byte encoding -/
theorem tagName_eq_enc (s : Bytes) :
    tagName (B.slash :: s) = if s = [] then [B.at_, B.us] else B.at_ :: s.flatMap enc :=
  tagName_slash_cons s

/-- the per-byte encoding is decodable -/
theorem dec_enc (s : Bytes) : dec (s.flatMap enc) = s := dec_flatMap_enc s

/-- `tagName_injective` does not even need the "no '/'" hypotheses -/
theorem tagName_injective' (s₁ s₂ : Bytes)
    (h : tagName (B.slash :: s₁) = tagName (B.slash :: s₂)) : s₁ = s₂ := by
  rw [tagName_slash_cons, tagName_slash_cons] at h
  by_cases e₁ : s₁ = [] <;> by_cases e₂ : s₂ = []
  · rw [e₁, e₂]
  · rw [if_pos e₁, if_neg e₂] at h
    exact absurd (List.tail_eq_of_cons_eq h).symm (flatMap_enc_ne_us s₂)
  · rw [if_neg e₁, if_pos e₂] at h
    exact absurd (List.tail_eq_of_cons_eq h) (flatMap_enc_ne_us s₁)
  · rw [if_neg e₁, if_neg e₂] at h
    exact flatMap_enc_injective (List.tail_eq_of_cons_eq h)

/-- the automatic tag name is injective on first segments (for ALL byte strings without '/') -/
theorem tagName_injective (s₁ s₂ : Bytes) (h₁ : B.slash ∉ s₁) (h₂ : B.slash ∉ s₂)
    (h : tagName (B.slash :: s₁) = tagName (B.slash :: s₂)) : s₁ = s₂ := by
  -- the hypotheses `h₁ h₂` are not needed: a '/' inside the segment is escaped to "_2F"
  have _ := h₁; have _ := h₂
  exact tagName_injective' s₁ s₂ h

/-- the title computed from a path is "/" followed by a component without '/' -/
theorem pathTagTitle_shape (p : Bytes) : ∃ seg, pathTagTitle p = B.slash :: seg ∧ B.slash ∉ seg := by
  unfold pathTagTitle
  cases hd : dropEmptyDot (splitSlash p) with
  | nil => exact ⟨[], rfl, by simp⟩
  | cons q t =>
    refine ⟨q, rfl, ?_⟩
    apply splitSlash_noSlash p
    apply dropEmptyDot_subset
    rw [hd]; exact List.mem_cons_self

/-- declarative reading of pathTagTitle: the first component that is neither "" nor "." -/
theorem pathTagTitle_spec (p : Bytes) :
    pathTagTitle p =
      match (splitSlash p).find? (fun c => !(decide (c = []) || decide (c = [B.dot]))) with
      | some seg => B.slash :: seg
      | none => [B.slash] := by
  rw [pathTagTitle_head?, dropEmptyDot_head?]
  cases List.find? _ (splitSlash p) <;> rfl

/-- different first segments get different automatic tag names -/
theorem auto_tag_injective (p₁ p₂ : Bytes)
    (h : tagName (pathTagTitle p₁) = tagName (pathTagTitle p₂)) : pathTagTitle p₁ = pathTagTitle p₂ := by
  obtain ⟨g₁, e₁, n₁⟩ := pathTagTitle_shape p₁
  obtain ⟨g₂, e₂, n₂⟩ := pathTagTitle_shape p₂
  rw [e₁, e₂] at h ⊢
  rw [tagName_injective g₁ g₂ n₁ n₂ h]

/-! ### non-vacuity checks on concrete byte strings -/

-- tagName "/a_b c" = "@a__b_20c"
example : tagName [47, 97, 95, 98, 32, 99] = [64, 97, 95, 95, 98, 95, 50, 48, 99] := by decide
-- tagName "/" = "@_"
example : tagName [47] = [64, 95] := by decide
-- tagName "/%" = "@_25",  tagName "/_" = "@__"
example : tagName [47, 37] = [64, 95, 50, 53] := by decide
example : tagName [47, 95] = [64, 95, 95] := by decide
-- tagName "/\xff~" = "@_FF~"
example : tagName [47, 255, 126] = [64, 95, 70, 70, 126] := by decide
-- the decoder inverts the encoding on a concrete string
example : dec ([97, 95, 98, 32, 99, 37, 255].flatMap enc) = [97, 95, 98, 32, 99, 37, 255] := by decide
-- splitSlash "/./cats/{id}" = ["", ".", "cats", "{id}"]
example : splitSlash [47, 46, 47, 99, 97, 116, 115, 47, 123, 105, 100, 125]
    = [[], [46], [99, 97, 116, 115], [123, 105, 100, 125]] := by decide
-- pathTagTitle "/./cats/{id}" = "/cats",  pathTagTitle "//." = "/"
example : pathTagTitle [47, 46, 47, 99, 97, 116, 115, 47, 123, 105, 100, 125]
    = [47, 99, 97, 116, 115] := by decide
example : pathTagTitle [47, 47, 46] = [47] := by decide
-- tagName (pathTagTitle "/my_cats/x") = "@my__cats"
example : tagName (pathTagTitle [47, 109, 121, 95, 99, 97, 116, 115, 47, 120])
    = [64, 109, 121, 95, 95, 99, 97, 116, 115] := by decide
-- two different paths with different first segments get different tag names
example : tagName (pathTagTitle [47, 97, 47, 98]) ≠ tagName (pathTagTitle [47, 97, 95]) := by decide

end JSight.C19
