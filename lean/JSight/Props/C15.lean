import JSight.Model.Descr
import JSight.Model.Location
namespace JSight.C15
end JSight.C15
