import JSight.Model.Descr
import JSight.Proofs.C15
/-!
C15 — description / annotation normal forms.  Property theorems only; helper lemmas are in
`JSight/Proofs/C15.lean`.
-/
namespace JSight.C15
open JSight

/-- (1) line ends are normalised: no CR survives -/
theorem normNL_no_cr (b : Bytes) : B.cr ∉ normNL b := normNL_no_cr' b

/-- (2) a description never contains CR -/
theorem description_no_cr (b d : Bytes) (h : description b = .ok d) : B.cr ∉ d :=
  description_no_cr' b d h

/-- (3) the annotation text is stable: normalising twice changes nothing -/
theorem annotation_idempotent (s : Bytes) : annotation (annotation s) = annotation s :=
  annotation_idempotent' s

/-- (4) surrounding blanks are immaterial (the `//` and `/* */` spellings deliver the same bytes up to them) -/
theorem annotation_surrounding_blanks (s : Bytes) : annotation (B.sp :: (s ++ [B.sp])) = annotation s :=
  annotation_surrounding_blanks' s

/-- (4, Unicode) the same for every white-space sequence that `strings.TrimSpace` removes — an ASCII space
or the UTF-8 encoding of a Unicode space (`spaceSeqs`): one in front and one behind are immaterial -/
theorem annotation_surrounding_spaces (p q s : Bytes) (hp : p ∈ spaceSeqs) (hq : q ∈ spaceSeqs) :
    annotation (p ++ s ++ q) = annotation s :=
  annotation_surrounding_spaces' p q s hp hq

/-- (4, Unicode) instances: LINE SEPARATOR U+2028 (`E2 80 A8`) in front, NO-BREAK SPACE U+00A0 (`C2 A0`) behind -/
theorem annotation_surrounding_u2028_u00A0 (s : Bytes) :
    annotation ([0xE2, 0x80, 0xA8] ++ s ++ [0xC2, 0xA0]) = annotation s :=
  annotation_surrounding_spaces' _ _ s (by decide) (by decide)

/-- `trimSpaceU` (the model of `TrimSpace`) only removes bytes at the two ends, its result neither starts nor ends
with a white-space sequence, and such a text is left alone -/
theorem trimSpaceU_spec (b : Bytes) :
    (∃ pre post, b = pre ++ trimSpaceU b ++ post) ∧ NoPre (trimSpaceU b) ∧ NoSuf (trimSpaceU b) ∧
    trimSpaceU (trimSpaceU b) = trimSpaceU b :=
  ⟨trimSpaceU_infix b, trimSpaceU_noPre b, trimSpaceU_noSuf b,
    trimSpaceU_eq_self _ (trimSpaceU_noPre b) (trimSpaceU_noSuf b)⟩

/-- (5) in an annotation every white-space run is a single space: no TAB/LF/FF/CR, no two spaces in a row -/
theorem annotation_collapsed (s : Bytes) :
    (∀ c ∈ annotation s, c = B.sp ∨ isReSpace c = false) ∧
    ∀ pre post, annotation s ≠ pre ++ B.sp :: B.sp :: post :=
  ⟨collapseWsAux_mem false _, fun pre post => collapseWsAux_no_double false _ pre post⟩

/-- (6) a description has no trailing white space and no leading blank line -/
theorem description_trimmed (b d : Bytes) (h : description b = .ok d) :
    d.getLast?.all (fun c => !isTrimRightSet c) :=
  description_last b d h

/-- (6, second half) a description has no leading blank line: `trimLeadingBlankLines` finds nothing to drop -/
theorem description_no_leading_blank_line (b d : Bytes) (h : description b = .ok d) :
    trimLeadingBlankLines d = d :=
  (description_nf b d h).no_blank_head

/-- every result of `description` is in normal form: no CR, no leading blank line, no trailing white
space, and no white-space prefix common to all non-blank lines -/
theorem description_normal_form (b d : Bytes) (h : description b = .ok d) : NF d :=
  description_nf b d h

/-- the text looks like "( … )" (so that `description` would strip the parentheses again) -/
def parenShaped (d : Bytes) : Prop :=
  let t := trimSpaceU d
  2 ≤ t.length ∧ t.head? = some B.lpar ∧ t.getLast? = some B.rpar

/-- a normal form that does not look like "( … )" is a fixed point -/
theorem description_nf_fixed (d : Bytes) (hn : NF d) (hp : ¬ parenShaped d) : description d = .ok d :=
  description_nf_fixed' d hn hp

/-- (7) normalising twice changes nothing, unless the normal form itself looks like "( … )".

History (finding F27): on the model of the code *before* the repair `dde7910` (where
`longestWhitespacePrefix` skipped only empty lines, not white-space-only lines) this statement was
false: `b = "  a\n \n  b"` (hex 2020610a200a202062) gave `d = " a\n\n b"`, and `description d` gave
`"a\n\nb"`.  With the repaired rule the same input gives `"a\n \nb"`, which is stable (see the
examples below). -/
theorem description_idempotent (b d : Bytes) (h : description b = .ok d) (hp : ¬ parenShaped d) :
    description d = .ok d :=
  description_nf_fixed d (description_nf b d h) hp

/-! ### non-vacuity checks -/

deriving instance DecidableEq for Except

instance (d : Bytes) : Decidable (parenShaped d) := by unfold parenShaped; exact inferInstance

/-- `"  foo\n    bar\n"` ↦ `"foo\n  bar"` -/
example : description [32,32,102,111,111,10,32,32,32,32,98,97,114,10]
    = .ok [102,111,111,10,32,32,98,97,114] := by decide

/-- `"(\n a\n)"` ↦ `"a"` -/
example : description [40,10,32,97,10,41] = .ok [97] := by decide

/-- `"(a)"` is rejected -/
example : description [40,97,41] = .error .parens := by decide

/-- CR LF and CR are line ends: `"  a\r\n  b\r"` ↦ `"a\nb"` -/
example : description [32,32,97,13,10,32,32,98,13] = .ok [97,10,98] := by decide

/-- F27 regression: `"  a\n \n  b"` ↦ `"a\n \nb"`, and that is a fixed point -/
example : description [32,32,97,10,32,10,32,32,98] = .ok [97,10,32,10,98] := by decide
example : description [97,10,32,10,98] = .ok [97,10,32,10,98] := by decide

/-- the exclusion in (7) is needed: `"(\n(\na\n)\n)"` ↦ `"(\na\n)"` ↦ `"a"` -/
example : description [40,10,40,10,97,10,41,10,41] = .ok [40,10,97,10,41] := by decide
example : parenShaped [40,10,97,10,41] := by decide
example : description [40,10,97,10,41] = .ok [97] := by decide

/-- `"  a \t b "` ↦ `"a b"` -/
example : annotation [32,32,97,32,9,32,98,32] = [97,32,98] := by decide

/-- VT is trimmed at the ends but is not collapsed inside: `"\x0b a\x0b\x0b b"` ↦ `"a\x0b\x0b b"` -/
example : annotation [11,32,97,11,11,32,98] = [97,11,11,32,98] := by decide

/-- Unicode spaces are trimmed at the ends (as `strings.TrimSpace` does) but not collapsed inside (the regexp
`\s` is ASCII): `"\u2028 a\u00a0\u00a0b \u3000"` ↦ `"a\u00a0\u00a0b"`; the text `"\u2028"` ↦ `""` -/
example : annotation [0xE2,0x80,0xA8,32,97,0xC2,0xA0,0xC2,0xA0,98,32,0xE3,0x80,0x80] = [97,0xC2,0xA0,0xC2,0xA0,98] := by decide
example : annotation [0xE2,0x80,0xA8] = [] := by decide

/-- invalid UTF-8 is not white space: a lone continuation byte or a truncated sequence stops the trimming -/
example : annotation [32,0xA8,32] = [0xA8] := by decide
example : annotation [0xE2,0x80,32] = [0xE2,0x80] := by decide
example : annotation [0xC2,0xA0,0xA0,0xC2] = [0xA0,0xC2] := by decide

/-- the parentheses of a description may be surrounded by Unicode spaces: `"\u00a0(\n a\n)\u2028"` ↦ `"a"` -/
example : description [0xC2,0xA0,40,10,32,97,10,41,0xE2,0x80,0xA8] = .ok [97] := by decide

end JSight.C15
