import JSight.Model.OMap
import JSight.Model.RWLock
import JSight.Gen.Facts
import JSight.Proofs.C16
import JSight.Proofs.C16Lock
/-!
C16 — the generated insertion-ordered collections (`catalog/*_gen.go`, `directive/directives_gen.go`):
sequential correctness of `data` + `order`, the `sync.RWMutex` discipline, and the premises about the
Go source that make the lock-level model applicable.  Property theorems only; helper lemmas are in
`JSight/Proofs/C16.lean` (collections) and `JSight/Proofs/C16Lock.lean` (lock model).
-/
namespace JSight.C16
open JSight

/-! ### Part 1 — sequential layer: every key appears exactly once in the order; no update is lost -/

theorem inv_empty {κ ν} [DecidableEq κ] : (({} : OMap κ ν)).Inv := inv_empty'

theorem inv_apply {κ ν} [DecidableEq κ] (m : OMap κ ν) (op : OMap.Op κ ν) (h : m.Inv) :
    (m.apply op).Inv := inv_apply' m op h

theorem inv_run {κ ν} [DecidableEq κ] (ops : List (OMap.Op κ ν)) :
    (OMap.run ({} : OMap κ ν) ops).Inv := inv_run_from _ ops inv_empty'

/-- no lost update: after any operation sequence every key holds what the abstract finite map holds -/
theorem lookup_run {κ ν} [DecidableEq κ] (ops : List (OMap.Op κ ν)) (k : κ) :
    (OMap.run ({} : OMap κ ν) ops).lookup k = OMap.specFun ops (fun _ => none) k :=
  lookup_run_from _ ops inv_empty' k

/-- what is serialised (`entries`) has no repeated key and every listed key has a value -/
theorem entries_nodup {κ ν} [DecidableEq κ] (m : OMap κ ν) (h : m.Inv) :
    (m.entries.map (·.1)).Nodup ∧ ∀ e ∈ m.entries, e.2.isSome := by
  constructor
  · have : m.entries.map (·.1) = m.order := by
      simp [OMap.entries, Function.comp_def]
    rw [this]; exact h.1
  · intro e he
    unfold OMap.entries at he
    obtain ⟨k, hk, rfl⟩ := List.mem_map.mp he
    exact (lk_isSome_iff m.data k).mpr ((h.2.2 k).mp hk)

/-- a key is in the order iff it was ever set (`Set` or `SetToTop`; `Update` and `Map` never add a key) -/
theorem mem_order_run {κ ν} [DecidableEq κ] (ops : List (OMap.Op κ ν)) (k : κ) :
    k ∈ (OMap.run ({} : OMap κ ν) ops).order ↔
      ∃ op ∈ ops, (∃ v, op = .set k v) ∨ (∃ v, op = .setToTop k v) := by
  have := mem_order_run_from ({} : OMap κ ν) ops inv_empty' k
  simpa [Op.Sets] using this

theorem oset_nodup {κ} [DecidableEq κ] (ks : List κ) : (OSet.ofList ks).order.Nodup :=
  oset_fold_nodup ks {} List.nodup_nil

/-! ### Part 2 — lock-level layer -/

/-- mutual exclusion: never a writer together with another holder -/
theorem mutex {σ} (calls : List (RW.Call σ)) (x : σ) (sched : List Nat) :
    let s := RW.runSched (RW.init calls x) sched
    RW.writerHolds s = true → (RW.holders s).length = 1 := by
  intro s hw
  exact mutex_of_excl calls s (excl_runSched calls _ sched (excl_init calls x)) hw

/-- atomicity / no lost update: when every thread has finished, the shared state is what you get by
applying the whole bodies one after the other in the order in which the threads acquired the lock
(readers' bodies are required not to modify the state, so in effect: the WRITERS' whole bodies in
their acquisition order) -/
theorem linearizable {σ} (calls : List (RW.Call σ)) (x : σ) (sched : List Nat)
    (hro : ∀ c ∈ calls, c.mode = .r → ∀ f ∈ c.body, ∀ y, f y = y)
    (hfin : RW.allFinished (RW.runSched (RW.init calls x) sched) = true) :
    (RW.runSched (RW.init calls x) sched).shared =
      ((RW.runSched (RW.init calls x) sched).acquired.filterMap (fun i => calls[i]?)).foldl
        (fun acc c => c.apply acc) x := by
  have hL := lin_runSched calls x _ sched hro (excl_init calls x) (lin_init calls x)
  exact hL.nowr (fun i n _ hp _ => absurd hp (no_holder_of_allFinished _ hfin i n))

/-- the same, for every reachable state (not only final ones) in which no writer is inside -/
theorem linearizable_quiescent {σ} (calls : List (RW.Call σ)) (x : σ) (sched : List Nat)
    (hro : ∀ c ∈ calls, c.mode = .r → ∀ f ∈ c.body, ∀ y, f y = y)
    (hq : RW.writerHolds (RW.runSched (RW.init calls x) sched) = false) :
    (RW.runSched (RW.init calls x) sched).shared =
      ((RW.runSched (RW.init calls x) sched).acquired.filterMap (fun i => calls[i]?)).foldl
        (fun acc c => c.apply acc) x := by
  have hE := excl_runSched calls _ sched (excl_init calls x)
  have hL := lin_runSched calls x _ sched hro (excl_init calls x) (lin_init calls x)
  have := no_writer_of_writerHolds_false _ hq
  rw [hE.hcalls] at this
  exact hL.nowr this

/-! ### Part 3 — premises extracted from the Go source (re-checked on every run) -/

/-- every exported method of a mutex-guarded generated collection takes the write lock iff it writes the
fields, the read lock otherwise, as its first statement, with the unlock deferred; unexported helpers take
no lock -/
theorem lock_discipline : ∀ f ∈ Gen.lockFacts, f.hasMutex = true →
    (f.exported = true → (f.lock = (if f.writes then "Lock" else "RLock") ∧ f.deferred = true)) ∧
    (f.exported = false → f.lock = "none") := by decide

/-- scope of `lock_discipline`: the only generated collection WITHOUT a mutex is `UserSchemas`
(`catalog/user_schemas_gen.go`); its methods take no lock at all, so Part 2 says nothing about it -/
theorem unguarded_only_userSchemas :
    ∀ f ∈ Gen.lockFacts, f.hasMutex = false → f.type = "UserSchemas" ∧ f.lock = "none" := by decide

/-- no package-level variable is written after initialisation (mutexes and `sync.Once`-guarded tables
excepted) -/
theorem globals_readonly : ∀ g ∈ Gen.globals, g.2.2 ≠ "written" := by decide

/-- no goroutine is started and no clock / randomness is imported by the library itself -/
theorem no_goroutines : Gen.goStatements = [] ∧ Gen.nondetImports = [] := by decide

/-! ### examples -/

private def exOps : List (OMap.Op String Nat) :=
  [.set "a" 1, .set "b" 2, .setToTop "c" 3, .set "a" 10, .update "b" (· + 5), .update "zz" (· + 1),
   .mapVals (fun k v => v + k.length), .setToTop "b" 0]

example : (OMap.run {} exOps).order = ["c", "a", "b"] := by decide
example : (OMap.run {} exOps).entries = [("c", some 4), ("a", some 11), ("b", some 0)] := by decide
example : (OMap.run {} exOps).lookup "a" = some 11 ∧ (OMap.run {} exOps).lookup "zz" = none := by decide
example : (OSet.ofList ["x", "y", "x", "z", "y"]).order = ["x", "y", "z"] := by decide

/-- three threads on a counter: two non-atomic increments (read-modify-write split in two micro-steps on
a pair (counter, scratch)) and one reader; under the lock no increment is lost whatever the schedule -/
private def exCalls : List (RW.Call (Nat × Nat)) :=
  [⟨.w, [fun s => (s.1, s.1), fun s => (s.2 + 1, s.2)]⟩,
   ⟨.r, [id, id]⟩,
   ⟨.w, [fun s => (s.1, s.1), fun s => (s.2 + 10, s.2)]⟩]

private def exSched : List Nat := [1, 0, 2, 1, 0, 1, 2, 1, 0, 2, 0, 0, 2, 0, 2, 2, 2, 2]

example : RW.allFinished (RW.runSched (RW.init exCalls (0, 0)) exSched) = true := by decide
example : (RW.runSched (RW.init exCalls (0, 0)) exSched).acquired = [1, 0, 2] := by decide
example : (RW.runSched (RW.init exCalls (0, 0)) exSched).shared.1 = 11 := by decide
/-- thread 0 is blocked while reader 1 holds; after 5 scheduler slots only the reader is inside;
after 10 slots writer 0 is inside alone -/
example : RW.holders (RW.runSched (RW.init exCalls (0, 0)) (exSched.take 5)) = [1] := by decide
example : RW.holders (RW.runSched (RW.init exCalls (0, 0)) (exSched.take 10)) = [0] ∧
    RW.writerHolds (RW.runSched (RW.init exCalls (0, 0)) (exSched.take 10)) = true := by decide

end JSight.C16
