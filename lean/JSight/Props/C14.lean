import JSight.Model.Scanner
import JSight.Proofs.ScanLexAbs
import JSight.Proofs.ScanLex
/-!
# C14 — lexical integrity of the scanner

Theorems about `lexAll`, the model of repeated `Scanner.Next()` over the regenerated scanner table
(`Gen.code`).  Method (`Proofs/ScanLexAbs.lean`, `Proofs/ScanLex.lean`):

* an abstract interpreter `aRun` of the table (open Begin event, distance to the end of the last event,
  byte classes read since `KeywordBegin`, path condition on the current byte, step register / step stack);
* per-state certificates `certs` COMPUTED from the table (`certMapC`: depth-first propagation from
  `stateRoot`; `stackableC`: the states that can be on the step stack);
* the table theorem `ScanLex.table_ok : ∀ st ∈ St.all, stateOK certs st = true` by `decide +kernel` over the
  CURRENT table — it fails when the Go scanner is changed so that a property below breaks;
* generic soundness of the abstract interpreter (`interp_sound`, `byteStep_inv`) and induction over
  `drainFinds` / `byteLoop` / `next` / `lexAll` (`lexAll_good`).

Deviations from the planned statements (all found by evaluating the model, see the `example`s at the end):

* (1) for Enum: `scanEnumBody` advances by `enumLength - 1` only `if enumLength > 0`, so an oracle answer
  `len 0` gives a lexeme of length 1 — the statement has `max k 1`; `body_is_library_value'` is the planned
  statement under the hypothesis that the enum library never answers `len 0` (it is given a `[`).
* (3) holds WITHOUT the hypotheses on the oracle (a body that overruns the input ends the byte loop before
  `SchemaEnd` is found); `in_bounds'` is the planned statement.  No End event is ever found at `d.size`.
-/
namespace JSight.C14
open JSight Gen ScanLex

/-- (1) a body lexeme is exactly what the schema library delimited: a Schema lexeme starting at p has length
    `n` where the oracle answered `len n` at p (Enum: `max n 1`, see the header) -/
theorem body_is_library_value (d : Src) (o : Oracle) (n : Nat) :
    ∀ lex ∈ (lexAll d o n Sc.init []).1,
      (lex.ty = .schema → ∃ k, o.schemaLen lex.b = .len k ∧ lex.e1 = lex.b + k) ∧
      (lex.ty = .enum → ∃ k, o.enumLen lex.b = .len k ∧ lex.e1 = lex.b + max k 1) := by
  intro lex hl
  have h := (lexAll_good d o n).2 lex hl
  exact ⟨h.2.2.1, h.2.2.2.1⟩

/-- (1), as planned, when the enum library never delimits an empty body -/
theorem body_is_library_value' (d : Src) (o : Oracle) (n : Nat) (hne : ∀ p, o.enumLen p ≠ .len 0) :
    ∀ lex ∈ (lexAll d o n Sc.init []).1,
      (lex.ty = .schema → ∃ k, o.schemaLen lex.b = .len k ∧ lex.e1 = lex.b + k) ∧
      (lex.ty = .enum → ∃ k, o.enumLen lex.b = .len k ∧ lex.e1 = lex.b + k) := by
  intro lex hl
  obtain ⟨h1, h2⟩ := body_is_library_value d o n lex hl
  refine ⟨h1, fun ht => ?_⟩
  obtain ⟨k, hk, he⟩ := h2 ht
  refine ⟨k, hk, ?_⟩
  cases k with
  | zero => exact absurd hk (hne _)
  | succ k => rw [he]; congr 1; omega

/-- a 3-digit response code 1xx–5xx (exactly Go's `IsHTTPResponseCode`: 100–599) -/
def isResponseCode (b : Bytes) : Bool :=
  match b with
  | [a, x, y] => (49 ≤ a && a ≤ 53) && (48 ≤ x && x ≤ 57) && (48 ≤ y && y ≤ 57)
  | _ => false

/-- (2) every keyword lexeme spells a directive name of the directive table, or a 3-digit response code 1xx–5xx -/
theorem keyword_spells (d : Src) (o : Oracle) (n : Nat) :
    ∀ lex ∈ (lexAll d o n Sc.init []).1, lex.ty = .keyword →
      (∃ k ∈ Kind.all, k ≠ Kind.HTTPResponseCode ∧ d.slice lex.b lex.e1 = k.name.toUTF8.toList)
      ∨ isResponseCode (d.slice lex.b lex.e1) = true := by
  intro lex hl ht
  have h := ((lexAll_good d o n).2 lex hl).2.2.2.2 ht
  simp only [isKw, Bool.or_eq_true, List.any_eq_true, Bool.and_eq_true, bne_iff_ne, beq_iff_eq] at h
  rcases h with h | ⟨k, hk, hne, he⟩
  · exact .inr h
  · exact .inl ⟨k, hk, hne, he.symm⟩

/-- (3) lexemes lie inside the input and are well formed (no hypothesis on the oracle is needed) -/
theorem in_bounds (d : Src) (o : Oracle) (n : Nat) :
    ∀ lex ∈ (lexAll d o n Sc.init []).1, lex.b ≤ lex.e1 ∧ lex.e1 ≤ d.size := by
  intro lex hl
  have h := (lexAll_good d o n).2 lex hl
  exact ⟨h.1, h.2.1⟩

/-- (3) as planned -/
theorem in_bounds' (d : Src) (o : Oracle) (n : Nat)
    (_ho : ∀ p k, o.schemaLen p = .len k → p + k ≤ d.size) (_ho' : ∀ p k, o.enumLen p = .len k → p + k ≤ d.size) :
    ∀ lex ∈ (lexAll d o n Sc.init []).1, lex.b ≤ lex.e1 ∧ lex.e1 ≤ d.size :=
  in_bounds d o n

/-- (4) lexemes come in increasing position and do not overlap -/
theorem ordered (d : Src) (o : Oracle) (n : Nat) :
    List.Pairwise (fun l₁ l₂ : Lexeme => l₁.e1 ≤ l₂.b) (lexAll d o n Sc.init []).1 :=
  (lexAll_good d o n).1

/-! ### concrete runs -/

def noOracle : Oracle := ⟨fun _ => .miss, fun _ => .miss⟩

def lexemes (s : String) (o : Oracle := noOracle) : List (LexTy × Nat × Nat) :=
  ((lexAll (Src.ofList s.toUTF8.toList) o 100 Sc.init []).1).map fun l => (l.ty, l.b, l.e1)

example : lexemes "GET /a // x\n  200 any\n" =
    [(.keyword, 0, 3), (.parameter, 4, 6), (.annotation, 9, 11), (.keyword, 14, 17), (.parameter, 18, 21)] := by
  decide +kernel

/-- empty lexemes (`//` with nothing after it, `/**/`) are `(b, b)`; `ordered` is stated with `≤` -/
example : lexemes "GET /a //" = [(.keyword, 0, 3), (.parameter, 4, 6), (.annotation, 9, 9)] := by decide +kernel
example : lexemes "GET /**/\n" = [(.keyword, 0, 3), (.annotation, 6, 6)] := by decide +kernel

/-- an empty Description text followed by `)`: the empty Text lexeme and the ContextClose lexeme start at the
same position -/
example : lexemes "Description\n)" = [(.keyword, 0, 11), (.text, 12, 12), (.contextClose, 12, 13)] := by
  decide +kernel

/-- a schema body is what the library delimited -/
example : lexemes "TYPE @a\n{}\n" ⟨fun p => if p = 8 then .len 2 else .miss, fun _ => .miss⟩ =
    [(.keyword, 0, 4), (.parameter, 5, 7), (.schema, 8, 10)] := by decide +kernel

/-- a body that overruns the input is never delivered (so `in_bounds` needs no hypothesis on the oracle) -/
example : lexemes "TYPE @a\n{}" ⟨fun _ => .len 3, fun _ => .miss⟩ = [(.keyword, 0, 4), (.parameter, 5, 7)] := by
  decide +kernel

/-- the reason for `max k 1` in (1): an enum answer `len 0` still gives a lexeme of length 1 -/
example : lexemes "ENUM @a\n[ 1]" ⟨fun _ => .miss, fun _ => .len 0⟩ =
    [(.keyword, 0, 4), (.parameter, 5, 7), (.enum, 8, 9)] := by decide +kernel

/-- response codes: exactly 100–599 -/
example : lexemes "200" = [(.keyword, 0, 3)] := by decide +kernel
example : lexemes "600" = [] := by decide +kernel

end JSight.C14
