import JSight.Model.Scanner
namespace JSight.C14
end JSight.C14
