import JSight.Props.C01_Project
/-!
# The project model (`processFS`) against the single-file model (`process`)

`Model/Project.lean` holds two executable composed models: `process` (one file) and `processFS` (several files, INCLUDE at
the level of bytes; directives identified by `pos * n + file`).

* `processFS_single` — on a file system with exactly ONE entry whose file has no INCLUDE keyword the two models are EQUAL:
  same catalog skeleton or same diagnostic (located in file 0), for every content, oracle and ban set.  The pieces:
  `flushF_one` (the context diagnostic of `flushF` sits where `flush` puts it, by `C01P.place_error_id`),
  `runLexs_eq_steps` (the lexeme loop at the root, with `n = 1`, is `steps`), `runFile_single` (the scan phase),
  `decoForestF_one` (the decoration).
* `processFS_build_obeys` — the analogue of `C01P.process_build_obeys` for projects of several files: the forest handed to
  the catalog construction by an accepted project run satisfies `C04C.obeysF`; `processFS_ok_inv` exposes the stages.
* `noIncludeB_iff` — the hypothesis is decidable; examples on the sample document of `C01_Project`.
-/
namespace JSight.C08P
open JSight JSight.Gen JSight.Project JSight.C01P

/-- lift a single-file outcome to the project vocabulary: everything is in file 0 -/
def lift {α : Type} : Except PErr α → Except FErr α
  | .ok c => .ok c
  | .error e => .error ⟨0, e⟩

/-- with one file, `processCurrentDirective` of the project model is that of the single-file model: `place` fails only with a
diagnostic that carries the identity of the directive being placed, which is its keyword position -/
theorem flushF_one (st : ASt) : flushF 1 st = lift (flush st) := by
  unfold flushF flush
  cases hc : st.cur with
  | none => rfl
  | some r =>
    simp only
    cases hp : place st.ctx.frames st.ctx.roots r.toDir with
    | error e =>
      rcases place_error_id hp with rfl | rfl <;>
        simp [lift, idFile, idPos, ctxErrIdx, RDir.toDir, Nat.mod_one]
    | ok c =>
      simp only
      cases (if r.kind == Kind.Jsight then firstNotJsight st.done else none) with
      | none => rfl
      | some f => simp [lift, idFile, idPos, Nat.mod_one]

/-- the lexeme is not an INCLUDE keyword -/
def lexNoInc (d : Src) (l : Lexeme × Nat) : Prop :=
  ¬ (l.1.ty = .keyword ∧ d.slice l.1.b l.1.e1 = includeName)

/-- one lexeme of the root file of a one-entry file system, not an INCLUDE: `core.next` of the single-file model -/
theorem runLexs_cons (d : Src) (name : Bytes) (fs : PFS) (banned : List Kind) (stop : Option Stop)
    (incl : List (Nat × Nat) → Nat → ASt → Except FErr ASt) (lex : Lexeme) (cur : Nat)
    (rest : List (Lexeme × Nat)) (st : ASt) (h0 : lexNoInc d (lex, cur)) :
    runLexs 1 d name fs banned stop incl [] 0 ((lex, cur) :: rest) st =
      match step d banned st lex cur with
      | .error e => .error ⟨0, e⟩
      | .ok st' => runLexs 1 d name fs banned stop incl [] 0 rest st' := by
  have c1 : (lex.ty == .keyword && d.slice lex.b lex.e1 == includeName) = false := by
    unfold lexNoInc at h0
    cases hh : (lex.ty == .keyword && d.slice lex.b lex.e1 == includeName) with
    | false => rfl
    | true =>
      simp only [Bool.and_eq_true, beq_iff_eq] at hh
      exact absurd hh h0
  rw [runLexs.eq_def]
  simp only [c1, Bool.false_eq_true, ↓reduceIte, List.isEmpty_nil, Bool.not_true, Bool.and_false, Bool.false_and]
  cases hty : lex.ty
  case keyword =>
    have c2 : (d.slice lex.b lex.e1 == includeName) = false := by
      simpa [hty] using c1
    simp only [step, hty, c2, Bool.false_eq_true, ↓reduceIte, flushF_one]
    cases hf : flush st with
    | error e => rfl
    | ok st1 =>
      simp only [lift]
      cases hk : kindOfKeyword (d.slice lex.b lex.e1) with
      | none => rfl
      | some k =>
        simp only
        split
        · rfl
        · simp [codeId]
  case contextClose =>
    simp only [step, hty, flushF_one]
    cases hf : flush st with
    | error e => rfl
    | ok st1 =>
      simp only [lift]
      cases hc : closeExplicit st1.ctx.frames st1.ctx.roots with
      | error e => rfl
      | ok c => rfl
  all_goals
    simp only
    cases hs : step d banned st lex cur <;> rfl

/-- for a one-entry file system, at the root, the run over lexemes without INCLUDE is the single-file assembly -/
theorem runLexs_eq_steps (d : Src) (name : Bytes) (fs : PFS) (banned : List Kind) (stop : Option Stop)
    (incl : List (Nat × Nat) → Nat → ASt → Except FErr ASt) :
    ∀ (lexs : List (Lexeme × Nat)) (st : ASt), (∀ l ∈ lexs, lexNoInc d l) →
      runLexs 1 d name fs banned stop incl [] 0 lexs st = lift (steps d banned st lexs)
  | [], st, _ => by simp [runLexs, steps, lift]
  | (lex, cur) :: rest, st, h => by
    rw [runLexs_cons d name fs banned stop incl lex cur rest st (h _ List.mem_cons_self)]
    rw [steps.eq_def]
    simp only
    cases hs : step d banned st lex cur with
    | error e => rfl
    | ok st' =>
      simp only
      exact runLexs_eq_steps d name fs banned stop incl rest st' (fun l hl => h l (List.mem_cons_of_mem _ hl))


/-- no keyword lexeme of the file spells INCLUDE -/
def noInclude (content : Bytes) (o : Oracle) : Prop :=
  ∀ l ∈ (scanBytes content o).lexs,
    ¬ (l.1.ty = .keyword ∧ (Src.ofArray content.toArray).slice l.1.b l.1.e1 = includeName)

/-- the scan phase of the one-file project is the scan of the single-file model -/
theorem runFile_single (name content : Bytes) (o : Nat → Oracle) (banned : List Kind) (fuel : Nat)
    (h : noInclude content (o 0)) :
    match runFile [(name, some content)] o banned (fuel + 1) [] 0 {} with
    | .error e => scan content (o 0) banned = .error e.err ∧ e.file = 0
    | .ok st => scan content (o 0) banned = .ok (closeAll st.ctx.frames st.ctx.roots, st.done) := by
  unfold noInclude at h
  rw [runFile.eq_def]
  simp only [List.getElem?_cons_zero, List.length_singleton]
  rw [runLexs_eq_steps _ _ _ _ _ _ _ _ h]
  unfold scan
  unfold scanBytes at h ⊢
  cases hu : firstInvalidUTF8 content with
  | some i => simp [steps, lift]
  | none =>
    simp only [hu] at h ⊢
    generalize lexAllC (Src.ofArray content.toArray) (o 0) ((Src.ofArray content.toArray).size + 2) Sc.init [] = res at h ⊢
    rcases res with ⟨lexs, stop, sc⟩
    simp only at h ⊢
    cases hs : steps (Src.ofArray content.toArray) banned {} lexs with
    | error e => simp [lift]
    | ok st =>
      simp only [lift]
      cases stop with
      | some s => cases s <;> simp
      | none =>
        simp only [flushF_one]
        cases hf : flush st with
        | error e => simp [lift]
        | ok st1 =>
          simp only [lift]
          cases hx : anyExplicit st1.ctx.frames <;> simp


/-! ### the decoration -/

theorem toBDirF_one (name content : Bytes) (done : List RDir) (id : Nat) (x : Dir) :
    toBDirF [(name, some content)] done id x = toBDir (Src.ofArray content.toArray) done id x := by
  unfold toBDirF toBDir
  split <;> simp [idFile, Nat.mod_one]

mutual
  theorem decoTreeF_one (name content : Bytes) (done : List RDir) :
      ∀ (t : Tree) (id : Nat),
        decoTreeF [(name, some content)] done t id = decoTree (Src.ofArray content.toArray) done t id
    | .node x kids, id => by
      simp only [decoTreeF, decoTree, toBDirF_one, decoForestF_one name content done kids (id + 1)]
  theorem decoForestF_one (name content : Bytes) (done : List RDir) :
      ∀ (f : List Tree) (id : Nat),
        decoForestF [(name, some content)] done f id = decoForest (Src.ofArray content.toArray) done f id
    | [], _ => by simp only [decoForestF, decoForest]
    | t :: r, id => by
      simp only [decoForestF, decoForest, decoTreeF_one name content done t id, decoForestF_one name content done r]
end

theorem lift_error {α : Type} (e : PErr) : lift (.error e : Except PErr α) = .error ⟨0, e⟩ := rfl

/-- **a project of ONE file without INCLUDE is the single-file model.**  For every name, content, oracle and ban set:
if no keyword lexeme of the file spells INCLUDE, the project model `processFS` over the file system with that single
entry yields exactly the outcome of the single-file model `process` — the same catalog skeleton, or the same diagnostic,
located in file 0.  (Invalid UTF-8, scanner diagnostics, assembly, context resolution, expansion and catalog
construction included; no adjustment of the suggested statement was needed.) -/
theorem processFS_single (name content : Bytes) (o : Nat → Oracle) (banned : List Kind)
    (h : noInclude content (o 0)) :
    processFS [(name, some content)] o banned = lift (process content (o 0) banned) := by
  have hr := runFile_single name content o banned 2 h
  unfold processFS process
  simp only [List.length_singleton] at hr ⊢
  cases hrf : runFile [(name, some content)] o banned (1 + 2) [] 0 {} with
  | error e =>
    rw [hrf] at hr
    simp only at hr
    rcases e with ⟨f, e⟩
    simp only at hr
    rw [hr.1, hr.2]
    rfl
  | ok st =>
    rw [hrf] at hr
    simp only at hr
    rw [hr]
    simp only
    cases he : expand (closeAll st.ctx.frames st.ctx.roots) with
    | error e => simp [lift, idFile, Nat.mod_one]
    | ok expanded =>
      simp only [decoForestF_one]
      generalize decoForest (Src.ofArray content.toArray) st.done expanded 0 = bf
      rcases bf with ⟨bf, k⟩
      simp only
      have hloc : ∀ x : Build.BErr,
          (match buildErrAt st.done expanded x with
            | .build e' i be => (⟨idFile 1 i, .build e' i be⟩ : FErr)
            | y => ⟨0, y⟩) = ⟨0, buildErrAt st.done expanded x⟩ := by
        intro x
        split
        · rename_i hb; rw [hb]; simp [idFile, Nat.mod_one]
        · rfl
      cases hru : Build.checkRules bf [] with
      | error x => simp only [lift]; exact congrArg Except.error (hloc x)
      | ok u =>
        simp only
        cases hc : Build.compile banned bf with
        | error x => simp only [lift]; exact congrArg Except.error (hloc x)
        | ok c => rfl

/-- acceptance is the same in both models -/
theorem processFS_single_ok (name content : Bytes) (o : Nat → Oracle) (banned : List Kind)
    (h : noInclude content (o 0)) (c : Build.Cat) :
    processFS [(name, some content)] o banned = .ok c ↔ process content (o 0) banned = .ok c := by
  rw [processFS_single name content o banned h]
  cases process content (o 0) banned with
  | ok c' => simp [lift]
  | error e => simp [lift]

/-- a diagnostic of the one-file project is the diagnostic of the single-file model, in file 0 -/
theorem processFS_single_error (name content : Bytes) (o : Nat → Oracle) (banned : List Kind)
    (h : noInclude content (o 0)) (e : FErr) :
    processFS [(name, some content)] o banned = .error e ↔ (process content (o 0) banned = .error e.err ∧ e.file = 0) := by
  rw [processFS_single name content o banned h]
  rcases e with ⟨f, e⟩
  cases process content (o 0) banned with
  | ok c' => simp [lift]
  | error e' =>
    simp only [lift, Except.error.injEq, FErr.mk.injEq]
    constructor
    · rintro ⟨rfl, rfl⟩; exact ⟨rfl, rfl⟩
    · rintro ⟨rfl, rfl⟩; exact ⟨rfl, rfl⟩

/-! ## the seam to the catalog construction, for projects of several files -/

theorem toBDirF_kind (fs : PFS) (done : List RDir) (id : Nat) (x : Dir) : (toBDirF fs done id x).kind = x.kind := by
  unfold toBDirF
  split <;> rfl

theorem decoTreeF_dir (fs : PFS) (done : List RDir) (x : Dir) (kids : List Tree) (id : Nat) :
    (decoTreeF fs done (.node x kids) id).1.dir = toBDirF fs done id x := by
  simp [decoTreeF, Build.BTree.dir]

mutual
  theorem decoTreeF_obeys (fs : PFS) (done : List RDir) :
      ∀ (t : Tree) (id : Nat), C06O.obeysTree t = true → C04C.obeysT (decoTreeF fs done t id).1 = true
    | .node x kids, id, h => by
      simp only [C06O.obeysTree, Bool.and_eq_true] at h
      simp only [decoTreeF, C04C.obeysT, Bool.and_eq_true]
      exact ⟨decoForestF_edges fs done x (toBDirF fs done id x) (toBDirF_kind fs done id x) kids (id + 1) h.1,
        decoForestF_obeys fs done kids (id + 1) h.2⟩
  theorem decoForestF_obeys (fs : PFS) (done : List RDir) :
      ∀ (f : List Tree) (id : Nat), C06O.obeysForest f = true → C04C.obeysF (decoForestF fs done f id).1 = true
    | [], _, _ => rfl
    | t :: r, id, h => by
      simp only [C06O.obeysForest, Bool.and_eq_true] at h
      simp only [decoForestF, C04C.obeysF, Bool.and_eq_true]
      exact ⟨decoTreeF_obeys fs done t id h.1, decoForestF_obeys fs done r _ h.2⟩
  theorem decoForestF_edges (fs : PFS) (done : List RDir) (x : Dir) (bx : Build.BDir) (hbx : bx.kind = x.kind) :
      ∀ (kids : List Tree) (id : Nat), kids.all (fun k => admitsDir x k.dir) = true →
        (((decoForestF fs done kids id).1).map Build.BTree.dir).all (fun k => C04C.admitsK bx.kind k.kind) = true
    | [], _, _ => rfl
    | .node y ys :: r, id, h => by
      simp only [List.all_cons, Bool.and_eq_true] at h
      simp only [decoForestF, List.map_cons, List.all_cons, Bool.and_eq_true]
      refine ⟨?_, decoForestF_edges fs done x bx hbx r _ h.2⟩
      rw [decoTreeF_dir, toBDirF_kind, hbx, C04Br.admitsK_eq]
      exact C04Br.admitsDir_admits h.1
end

/-- the stages of an accepted project run -/
theorem processFS_ok_inv {fs : PFS} {o : Nat → Oracle} {banned : List Kind} {c : Build.Cat}
    (h : processFS fs o banned = .ok c) :
    ∃ st expanded,
      runFile fs o banned (fs.length + 2) [] 0 {} = .ok st ∧
      expand (closeAll st.ctx.frames st.ctx.roots) = .ok expanded ∧
      Build.checkRules (decoForestF fs st.done expanded 0).1 [] = .ok () ∧
      Build.compile banned (decoForestF fs st.done expanded 0).1 = .ok c := by
  unfold processFS at h
  simp only at h
  cases hr : runFile fs o banned (fs.length + 2) [] 0 {} with
  | error x => simp [hr] at h
  | ok st =>
    simp only [hr] at h
    cases he : expand (closeAll st.ctx.frames st.ctx.roots) with
    | error x => simp [he] at h
    | ok expanded =>
      simp only [he] at h
      refine ⟨st, expanded, rfl, he, ?_⟩
      generalize decoForestF fs st.done expanded 0 = bf at h ⊢
      rcases bf with ⟨bf, n⟩
      simp only at h ⊢
      cases hru : Build.checkRules bf [] with
      | error x => simp [hru] at h
      | ok u =>
      simp only [hru] at h
      cases hc : Build.compile banned bf with
      | ok c' => simp only [hc] at h; injection h with h; subst h; exact ⟨rfl, rfl⟩
      | error x => simp [hc] at h

/-- **the seam closed for projects of several files**: whatever the files contain and however they include one another,
the forest the catalog construction receives from an accepted project run — the expanded forest decorated with what the
assembly collected from the lexemes of ALL the files — satisfies the hypothesis `obeysF` of the content theorems of
`C04_Content`, which therefore hold of every accepted project -/
theorem processFS_build_obeys {fs : PFS} {o : Nat → Oracle} {banned : List Kind} {c : Build.Cat}
    (h : processFS fs o banned = .ok c) :
    ∃ bf, Build.compile banned bf = .ok c ∧ C04C.obeysF bf = true := by
  rcases processFS_ok_inv h with ⟨st, expanded, _, he, _, hc⟩
  exact ⟨_, hc, decoForestF_obeys fs st.done expanded 0 (C06O.expand_obeys _ expanded he).2⟩

/-! ## non-vacuity -/

/-- the decidable form of `noInclude` -/
def noIncludeB (content : Bytes) (o : Oracle) : Bool :=
  (scanBytes content o).lexs.all fun l =>
    !(l.1.ty == .keyword && (Src.ofArray content.toArray).slice l.1.b l.1.e1 == includeName)

theorem noIncludeB_iff (content : Bytes) (o : Oracle) : noIncludeB content o = true ↔ noInclude content o := by
  unfold noIncludeB noInclude
  simp only [List.all_eq_true, Bool.not_eq_true', Bool.and_eq_false_iff, beq_eq_false_iff_ne, ne_eq]
  constructor
  · intro h l hl hh
    rcases h l hl with h1 | h1
    · exact h1 hh.1
    · exact h1 hh.2
  · intro h l hl
    by_cases h1 : l.1.ty = .keyword
    · exact Or.inr (fun h2 => h l hl ⟨h1, h2⟩)
    · exact Or.inl h1

-- the sample document of `C01_Project` has no INCLUDE ...
example : noInclude sampleDoc noOracle := (noIncludeB_iff _ _).mp (by decide +kernel)
-- ... so the theorem applies to it ...
example : processFS [(b "root.jst", some sampleDoc)] noOracleF [] = lift (process sampleDoc noOracle []) :=
  processFS_single _ _ _ _ ((noIncludeB_iff _ _).mp (by decide +kernel))
-- ... it is accepted as a one-file project, with the two interactions of the single-file run ...
example : stageOfF (processFS [(b "root.jst", some sampleDoc)] noOracleF []) = (0, 0, 2) := by decide +kernel
-- ... and a document with an INCLUDE is outside the hypothesis (the single-file model stops at the keyword)
example : noIncludeB (b "JSIGHT 0.3\nINCLUDE a.jst\n") noOracle = false := by decide +kernel
-- diagnostics agree too: the context error of the project model is located where the single-file model locates it
example : (match processFS [(b "r.jst", some (b "JSIGHT 0.3\nBody any\n"))] noOracleF [] with
    | .error ⟨0, .ctx (.incorrectContext 11) 11⟩ => true | _ => false) = true := by decide +kernel

end JSight.C08P

