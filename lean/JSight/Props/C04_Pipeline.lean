import JSight.Model.Build
import JSight.Gen.BuildTable
/-!
C04 / C11 — the hand-written catalog-construction model (`Model/Build.lean`) against tables REGENERATED from
the Go source on every run (`Gen/BuildTable.lean`): the order of the pipeline stages, the dispatch table
`directiveFunctions`, and the message constants the correspondence check classifies diagnostics by.
A change of the source that registers, drops or swaps an add-function, or reorders the stages, breaks one of
these obligations.
-/
namespace JSight.C04P
open JSight JSight.Gen JSight.Build

/-- the stages run in the order the model `compile` composes them:
`collectTags` → (`collectUserTypes`, `compileUserTypes`: oracle) → `checkUserTypeNames` → `collectPaths` →
`buildCatalog` = `addDirectives` → (`compileCatalog`: oracle / `Model/PathBind`, `Model/AllOf`) →
`validateInfo` → `validateRequestBody` → `validateResponseBody` → (headers, used types: oracle) -/
theorem stage_order :
    callSeq.lookup "processJApiProject" = some ["scanProject", "compileCore", "buildCatalog", "compileCatalog", "validateCatalog"] ∧
    callSeq.lookup "compileCore" = some ["collectMacro", "checkMacroForRecursion", "processPaste", "collectRules", "collectTags",
      "collectUserTypes", "compileUserTypes", "checkUserTypeNames", "collectPaths"] ∧
    callSeq.lookup "buildCatalog" = some ["addDirectives"] ∧
    callSeq.lookup "addDirectives" = some ["addDirectiveBranch"] ∧
    callSeq.lookup "addDirectiveBranch" = some ["addDirective", "addDirectiveBranch"] ∧
    callSeq.lookup "compileCatalog" = some ["ProcessAllOf", "ExpandRawPathVariableShortcuts", "CheckRawPathVariableSchemas",
      "BuildResourceMethodsPathVariables"] ∧
    callSeq.lookup "validateCatalog" = some ["validateInfo", "validateRequestBody", "validateResponseBody", "validateHeaders",
      "validateUsedUserTypes"] := by decide

/-- the add-function the model runs for a directive kind (its `match` in `addDirective`), by the name of the Go method -/
def modelFunction : Kind → Option String
  | .Jsight => some "addJSight" | .Info => some "addInfo" | .Title => some "addTitle" | .Version => some "addVersion"
  | .Description => some "addDescription" | .Server => some "addServer" | .BaseURL => some "addBaseUrl"
  | .Type => some "addType" | .URL => some "addURL"
  | .Get | .Post | .Put | .Patch | .Delete => some "addHTTPMethod"
  | .Query => some "addQuery" | .Request => some "addRequest" | .HTTPResponseCode => some "addResponse"
  | .Headers => some "addHeaders" | .Body => some "addBody" | .Protocol => some "addProtocol"
  | .Method => some "addJsonRpcMethod" | .Params => some "addJsonRpcParams" | .Result => some "addJsonRpcResult"
  | .Tags => some "addTags"
  | _ => none

/-- `core.directiveFunctions` is exactly the model's dispatch -/
theorem dispatch_table : ∀ k ∈ Kind.all, dirFunctions.lookup k = modelFunction k := by decide

theorem kinds_complete : ∀ k : Kind, k ∈ Kind.all := by intro k; cases k <;> decide

/-- a directive whose kind has no add-function (Path, ENUM, TAG, MACRO, PASTE, INCLUDE) leaves the catalog as it is -/
theorem unhandled_inert (banned : List Kind) (d : BDir) (kids : List BDir) (anc : List Up) (c : Cat)
    (h : dirFunctions.lookup d.kind = none) (hb : banned.contains d.kind = false) :
    addDirective banned d kids anc c = .ok c := by
  have hk := dispatch_table d.kind (kinds_complete d.kind)
  rw [h] at hk
  unfold addDirective
  rw [hb]
  cases hd : d.kind <;> simp [hd, modelFunction] at hk ⊢

/-- a banned kind is refused at the directive, whatever the directive is -/
theorem banned_refused (banned : List Kind) (d : BDir) (kids : List BDir) (anc : List Up) (c : Cat)
    (hb : banned.contains d.kind = true) : addDirective banned d kids anc c = .error ⟨d.id, .notAllowed⟩ := by
  unfold addDirective
  rw [hb]
  rfl

/-- each handled kind runs its function (spelled out for the reader; `rfl`-checked against the model) -/
theorem dispatch_examples (d : BDir) (kids : List BDir) (anc : List Up) (c : Cat) :
    (d.kind = .Type → addDirective [] d kids anc c = addType d c) ∧
    (d.kind = .Server → addDirective [] d kids anc c = addServer d c) ∧
    (d.kind = .URL → addDirective [] d kids anc c = addURL d kids anc c) ∧
    (d.kind = .Get → addDirective [] d kids anc c = addHTTPMethod d kids anc c) ∧
    (d.kind = .Method → addDirective [] d kids anc c = addJsonRpcMethod d kids anc c) ∧
    (d.kind = .Tags → addDirective [] d kids anc c = addTags d anc c) ∧
    (d.kind = .Body → addDirective [] d kids anc c = addBody d anc c) := by
  refine ⟨?_, ?_, ?_, ?_, ?_, ?_, ?_⟩ <;> intro h <;> simp [addDirective, h]

/-- the texts of the message constants by which the correspondence check classifies diagnostics -/
theorem messages_fixed :
    messages.lookup "RequiredParameterNotSpecified" = some "required parameter(s) not specified" ∧
    messages.lookup "ParametersAreForbiddenForTheDirective" = some "parameters are forbidden for the directive" ∧
    messages.lookup "AnnotationIsForbiddenForTheDirective" = some "annotation is forbidden for the directive" ∧
    messages.lookup "EmptyDescription" = some "empty description" ∧
    messages.lookup "EmptyBody" = some "empty body" ∧
    messages.lookup "HTTPResourceNotFound" = some "resource not found" ∧
    messages.lookup "JsonRpcResourceNotFound" = some "resource not found" ∧
    messages.lookup "ResponsesIsEmpty" = some "responses is empty" ∧
    messages.lookup "RequestIsEmpty" = some "request is empty" ∧
    messages.lookup "NotUniqueDirective" = some "not a unique directive" ∧
    messages.lookup "HTTPMethodNotFound" = some "HTTP method not found" ∧
    messages.lookup "PathNotFound" = some "path not found" ∧
    messages.lookup "IncorrectPath" = some "incorrect path" ∧
    messages.lookup "CannotUseTheTypeAndSchemaNotationParametersTogether" = some "cannot use the Type and SchemaNotation parameters together" ∧
    messages.lookup "DirectiveNotAllowed" = some "directive not allowed" ∧
    messages.lookup "JsonRpcMethodNotFound" = some "JSON-RPC method not found" ∧
    messages.lookup "ApartFromTheOpeningParenthesis" = some "apart from the opening parenthesis, there should be nothing else on this line" ∧
    messages.lookup "DuplicateNames" = some "duplicate names are not allowed" ∧
    messages.lookup "TagNotFound" = some "tag not found" := by decide

-- non-vacuity: an unhandled and a handled kind
example : dirFunctions.lookup Kind.Path = none ∧ dirFunctions.lookup Kind.Enum = none ∧
    dirFunctions.lookup Kind.Type = some "addType" := by decide

end JSight.C04P
