import JSight.Model.Context
import JSight.Proofs.Parens
/-!
C05 (part): "putting a directive's children in explicit parentheses when they would nest there anyway" does
not change the directive tree.

* `parens_immaterial`: if a token stream resolves to the forest `F`, the pre-order stream of `F` with the
  parenthesis flag set on the directive(s) with one identity — i.e. the stream with "(" after that directive
  and ")" after its last descendant — resolves to `F` with that flag set.  No side condition.
* `parens_immaterial_general`: the same for an arbitrary set of directives (a predicate on `Dir`), which covers
  repeated identities, several directives at once and directives that are parenthesised already.
* `insertParens_spec`: that stream IS the original one with the flags set and one ")" inserted per newly
  parenthesised directive, at the point where the original resolution leaves the directive (`insertParens`).
* `parens_converse_fails`: the converse does not hold — removing parentheses can let a later directive nest
  into the formerly parenthesised one.

History: with the former hoisting rule of `place` (a path-bearing HTTP method met at a URL closed every open
directive and went to top level) the statement was false: `MACRO URL GET/path` gave `[MACRO[URL], GET/path]`
but `MACRO URL ( ) GET/path` gave `[MACRO[URL, GET/path]]`.  The closing examples pin the repaired behaviour.

All theorems are parametric in the admissibility tables (only the closing examples unfold them).  Core Lean only.
-/
namespace JSight.C05P
open JSight Gen

mutual
  /-- set the parenthesis flag on the directive(s) with identity `id` -/
  def markTree (id : Nat) : Tree → Tree
    | .node d kids => .node (if d.id = id then { d with explicit := true } else d) (markForest id kids)
  def markForest (id : Nat) : List Tree → List Tree
    | [] => []
    | t :: r => markTree id t :: markForest id r
end

/-- the selection predicate of `markForest id` -/
def hasId (id : Nat) (d : Dir) : Bool := d.id == id

mutual
  theorem markTree_eq (id : Nat) : ∀ t, markTree id t = markTreeP (hasId id) t
    | .node d kids => by
      rw [markTree, markTreeP, markForest_eq id kids]
      simp [mk, hasId]
  theorem markForest_eq (id : Nat) : ∀ F, markForest id F = markForestP (hasId id) F
    | [] => by rw [markForest, markForestP]
    | t :: r => by rw [markForest, markForestP, markTree_eq id t, markForest_eq id r]
end

/-! ### any set of directives -/

/-- the rewritten stream resolves to the original forest with the flags set -/
theorem insertParens_resolves (p : Dir → Bool) (toks : List Tok) (F : List Tree) (h : resolve toks = .ok F) :
    resolve (insertParens p {} toks) = .ok (markForestP p F) :=
  resolve_sim p toks F h

/-- the pre-order stream of the flagged forest IS the rewritten stream -/
theorem flatten_mark_eq_insertParens (p : Dir → Bool) (toks : List Tok) (F : List Tree)
    (h : resolve toks = .ok F) :
    flattenForest (markForestP p F) = insertParens p {} toks :=
  resolve_flatten _ _ (resolve_sim p toks F h)

/-- **parentheses are immaterial**, for an arbitrary set of directives -/
theorem parens_immaterial_general (p : Dir → Bool) (toks : List Tok) (F : List Tree) (h : resolve toks = .ok F) :
    resolve (flattenForest (markForestP p F)) = .ok (markForestP p F) := by
  rw [flatten_mark_eq_insertParens p toks F h]
  exact resolve_sim p toks F h

/-- the rewriting only flags the directives … -/
theorem insertParens_dirs (p : Dir → Bool) (toks : List Tok) (F : List Tree) (h : resolve toks = .ok F) :
    dirsOf (insertParens p {} toks) = (dirsOf toks).map (mk p) := by
  unfold resolve at h
  split at h
  · cases h
  · rename_i c hc
    exact dirsOf_insertParens p toks {} c hc

/-- … and inserts exactly one ")" per newly parenthesised directive -/
theorem insertParens_closes (p : Dir → Bool) (toks : List Tok) (F : List Tree) (h : resolve toks = .ok F) :
    closesOf (insertParens p {} toks) = closesOf toks + nwCount p toks := by
  unfold resolve at h
  split at h
  · cases h
  · rename_i c hc
    simpa [pend] using closesOf_insertParens p toks {} c hc

/-! ### one identity -/

/-- **parentheses are immaterial**: if a token stream resolves to the forest `F`, then the stream in which one
    directive is followed by "(" and its last descendant by ")" — i.e. `flattenForest (markForest id F)` — resolves
    to the same forest (with that flag set).  Together with `resolve_flatten` this says: the rewritten document
    has the same tree. -/
theorem parens_immaterial (toks : List Tok) (F : List Tree) (h : resolve toks = .ok F) (id : Nat) :
    resolve (flattenForest (markForest id F)) = .ok (markForest id F) := by
  rw [markForest_eq]
  exact parens_immaterial_general (hasId id) toks F h

/-- the rewritten stream is the original one with the flag set on that directive and one ")" inserted where the
    original resolution leaves it: its directives are the original ones with the flag set, and it has one more
    ")" for each directive `id` that was not parenthesised already -/
theorem insertParens_spec (toks : List Tok) (F : List Tree) (h : resolve toks = .ok F) (id : Nat) :
    flattenForest (markForest id F) = insertParens (hasId id) {} toks ∧
    dirsOf (insertParens (hasId id) {} toks) = (dirsOf toks).map (mk (hasId id)) ∧
    closesOf (insertParens (hasId id) {} toks) = closesOf toks + nwCount (hasId id) toks := by
  rw [markForest_eq]
  exact ⟨flatten_mark_eq_insertParens (hasId id) toks F h, insertParens_dirs _ toks F h,
    insertParens_closes _ toks F h⟩

/-! ### the converse fails; non-vacuity on the real tables -/
section Examples
private def mcr : Dir := { kind := .Macro, name := 1, id := 1 }
private def mcrX : Dir := { kind := .Macro, name := 1, explicit := true, id := 1 }
private def url : Dir := { kind := .URL, id := 2 }
private def urlX : Dir := { kind := .URL, explicit := true, id := 2 }
private def get : Dir := { kind := .Get, id := 3 }
private def getX : Dir := { kind := .Get, explicit := true, id := 3 }
private def getP : Dir := { kind := .Get, hasPath := true, id := 3 }
private def code : Dir := { kind := .HTTPResponseCode, id := 4 }
private def codeX : Dir := { kind := .HTTPResponseCode, explicit := true, id := 4 }
private def ty : Dir := { kind := .Type, id := 5 }
private def tyX : Dir := { kind := .Type, explicit := true, id := 5 }
private def path : Dir := { kind := .Path, id := 6 }

/-- the converse fails: REMOVING parentheses can let a later directive nest into the formerly parenthesised
    one.  `URL GET ( ) Path`: the Path belongs to the URL; `URL GET Path`: to the GET. -/
theorem parens_removal_counterexample :
    resolve [.dir url, .dir getX, .close, .dir path] = .ok [.node url [.node getX [], .node path []]] ∧
    markForest 3 [.node url [.node get [], .node path []]] = [.node url [.node getX [], .node path []]] ∧
    flattenForest [.node url [.node get [], .node path []]] = [.dir url, .dir get, .dir path] ∧
    resolve [.dir url, .dir get, .dir path] = .ok [.node url [.node get [.node path []]]] := by decide +kernel

theorem parens_converse_fails :
    ∃ (F : List Tree) (id : Nat),
      resolve (flattenForest (markForest id F)) = .ok (markForest id F) ∧ resolve (flattenForest F) ≠ .ok F :=
  ⟨[.node url [.node get [], .node path []]], 3, by decide +kernel⟩

/-- the former counterexample (path-bearing method after a URL inside a MACRO): now the same tree either way -/
example : resolve [.dir mcr, .dir url, .dir getP] = .ok [.node mcr [.node url [], .node getP []]] := by
  decide +kernel
example : resolve [.dir mcr, .dir urlX, .close, .dir getP] =
    .ok [.node mcr [.node urlX [], .node getP []]] := by decide +kernel
example : resolve [.dir mcrX, .dir url, .dir getP, .close] =
    .ok [.node mcrX [.node url [], .node getP []]] := by decide +kernel
/-- at top level the method follows the URL as a sibling, with or without parentheses around the URL's children -/
example : resolve [.dir url, .dir get, .dir { getP with id := 7 }] =
    .ok [.node url [.node get []], .node { getP with id := 7 } []] := by decide +kernel
example : resolve [.dir urlX, .dir get, .close, .dir { getP with id := 7 }] =
    .ok [.node urlX [.node get []], .node { getP with id := 7 } []] := by decide +kernel
/-- inside the parentheses of a URL a path-bearing method is rejected -/
example : resolve [.dir urlX, .dir getP, .close] = .error (.pathMethodInExplicit 3) := by decide +kernel

/-- `URL GET 200 TYPE` and its parenthesised variants resolve to the same tree -/
example : resolve [.dir url, .dir get, .dir code, .dir ty] =
    .ok [.node url [.node get [.node code []]], .node ty []] := by decide +kernel
example : resolve [.dir urlX, .dir get, .dir code, .close, .dir ty] =
    .ok [.node urlX [.node get [.node code []]], .node ty []] := by decide +kernel
example : resolve [.dir url, .dir getX, .dir code, .close, .dir ty] =
    .ok [.node url [.node getX [.node code []]], .node ty []] := by decide +kernel
example : resolve [.dir url, .dir get, .dir codeX, .close, .dir ty] =
    .ok [.node url [.node get [.node codeX []]], .node ty []] := by decide +kernel
example : resolve [.dir url, .dir get, .dir code, .dir tyX, .close] =
    .ok [.node url [.node get [.node code []]], .node tyX []] := by decide +kernel
example : resolve [.dir urlX, .dir getX, .dir codeX, .close, .close, .close, .dir tyX, .close] =
    .ok [.node urlX [.node getX [.node codeX []]], .node tyX []] := by decide +kernel

/-- `insertParens` computes these variants -/
example : insertParens (hasId 2) {} [.dir url, .dir get, .dir code, .dir ty] =
    [.dir urlX, .dir get, .dir code, .close, .dir ty] := by decide +kernel
example : insertParens (hasId 3) {} [.dir url, .dir get, .dir code, .dir ty] =
    [.dir url, .dir getX, .dir code, .close, .dir ty] := by decide +kernel
example : insertParens (hasId 4) {} [.dir url, .dir get, .dir code, .dir ty] =
    [.dir url, .dir get, .dir codeX, .close, .dir ty] := by decide +kernel
example : insertParens (hasId 5) {} [.dir url, .dir get, .dir code, .dir ty] =
    [.dir url, .dir get, .dir code, .dir tyX, .close] := by decide +kernel
example : insertParens (fun _ => true) {} [.dir url, .dir get, .dir code, .dir ty] =
    [.dir urlX, .dir getX, .dir codeX, .close, .close, .close, .dir tyX, .close] := by decide +kernel
/-- an already parenthesised directive gets no second ")" -/
example : insertParens (hasId 2) {} [.dir urlX, .dir get, .dir code, .close, .dir ty] =
    [.dir urlX, .dir get, .dir code, .close, .dir ty] := by decide +kernel
/-- the theorem instantiated -/
example : resolve (flattenForest (markForest 3 [.node url [.node get [.node code []]], .node ty []])) =
    .ok (markForest 3 [.node url [.node get [.node code []]], .node ty []]) :=
  parens_immaterial [.dir url, .dir get, .dir code, .dir ty] _ (by decide +kernel) 3
end Examples

end JSight.C05P
