import JSight.Model.Build
import JSight.Proofs.BuildFaith
/-!
C04 / C11 / C20 on the catalog-construction model (`Model/Build.lean`).

`flat`/`flatF` (the directives of a forest in source order), `flatA`/`flatAF` (the same with the children and the
ancestor chain `addDirective` reads), `Ent.chain`, `idOf` and `declTag` are defined in `Proofs/BuildFaith.lean`.
-/
namespace JSight.C04B
open JSight JSight.Build JSight.Gen

/-! ## A. FAITHFULNESS (C04): the catalog lists exactly the declared entries, in source order -/

variable {banned : List Kind} {f : List BTree} {c : Cat}

theorem types_faithful (h : compile banned f = .ok c) :
    c.types.map (fun t => (t.name, t.annot)) =
      ((flatF f).filter (·.kind == .Type)).map (fun d => (d.param "Name", d.annot)) := by
  obtain ⟨c₀, h0, _, _, _, hr, _⟩ := compile_ok h
  rw [types_run hr, flatAF_dirs, collectTags_empty h0]; rfl

theorem servers_faithful (h : compile banned f = .ok c) :
    c.servers.map (fun s => (s.name, s.annot)) =
      ((flatF f).filter (·.kind == .Server)).map (fun d => (d.param "Name", d.annot)) := by
  obtain ⟨c₀, h0, _, _, _, hr, _⟩ := compile_ok h
  rw [servers_run hr, flatAF_dirs, collectTags_empty h0]; rfl

/-- TAG directives are read at the top level only -/
theorem declared_tags_faithful (h : compile banned f = .ok c) :
    (c.tags.filter (·.declared)).map (fun t => (t.name, t.title)) =
      ((f.map BTree.dir).filter (·.kind == .TAG)).map
        (fun d => (d.param "TagName", if d.annot.isEmpty then d.param "TagName" else d.annot)) := by
  obtain ⟨c₀, h0, _, _, _, hr, _⟩ := compile_ok h
  rw [(tags_run hr).1, collectTags_empty h0]
  have : (declTags f).filter (·.declared) = declTags f := by
    rw [List.filter_eq_self]; exact declTags_all f
  simp only [this]
  simp [declTags, declTag]

/-- declared tags precede the automatic ones -/
theorem declared_tags_first (h : compile banned f = .ok c) :
    ∃ n, (c.tags.take n).all (·.declared) ∧ (c.tags.drop n).all (fun t => !t.declared) := by
  obtain ⟨c₀, h0, _, _, _, hr, _⟩ := compile_ok h
  refine Part_split ((tags_run hr).2 ?_)
  rw [collectTags_empty h0]
  exact Part_of_all (declTags_all f)

/-- one interaction per method directive, in source order -/
theorem interactions_faithful (h : compile banned f = .ok c) :
    c.inters.map (fun x => x.annot) =
      ((flatF f).filter (fun d => isHTTP d.kind || d.kind == .Method)).map (·.annot) := by
  obtain ⟨c₀, h0, _, _, _, hr, _⟩ := compile_ok h
  have := congrArg (List.map Prod.snd) (inters_run hr)
  rw [collectTags_empty h0] at this
  simp only [List.map_map, List.map_nil, List.nil_append] at this
  rw [← flatAF_dirs [] f, List.filter_map, List.map_map]
  exact this

/-- … and the i-th interaction's id is the id of the i-th method directive: `httpIdOf` (`rpcIdOf` for a `Method`)
of the chain "the directive, then its ancestors" (`idOf`) -/
theorem interaction_of_method (h : compile banned f = .ok c) :
    c.inters.map (fun x => ((Except.ok x.iid : Except Msg IId), x.annot)) =
      ((flatAF [] f).filter (fun e => isHTTP e.d.kind || e.d.kind == .Method)).map (fun e => (idOf e, e.d.annot)) := by
  obtain ⟨c₀, h0, _, _, _, hr, _⟩ := compile_ok h
  have := inters_run hr
  rw [collectTags_empty h0] at this
  simpa [isMeth] using this

theorem jsight_first (h : compile banned f = .ok c) (hne : f ≠ []) : ∃ t r, f = t :: r ∧ t.dir.kind = .Jsight := by
  obtain ⟨c₀, _, _, _, hj, _⟩ := compile_ok h
  cases f with
  | nil => exact absurd rfl hne
  | cons t r => exact ⟨t, r, rfl, hj t r rfl⟩

theorem jsight_version (h : compile banned f = .ok c) (hne : f ≠ []) : c.jsight = v03 := by
  obtain ⟨c₀, _, _, _, hj, hr, _⟩ := compile_ok h
  cases f with
  | nil => exact absurd rfl hne
  | cons t r =>
    obtain ⟨rest, hrest⟩ := @flatAF_head [] t r
    rw [hrest] at hr
    exact jsight_run (hj t r rfl) hr

theorem banned_absent (h : compile banned f = .ok c) : ∀ d ∈ flatF f, d.kind ∉ banned := by
  obtain ⟨c₀, _, _, _, _, hr, _⟩ := compile_ok h
  intro d hd
  rw [← flatAF_dirs [] f, List.mem_map] at hd
  obtain ⟨e, he, rfl⟩ := hd
  exact run_all (fun e => e.d.kind ∉ banned) (fun e c c' hs => (step_ok hs).1) _ _ _ hr e he

/-! ## C. LOCALITY (C20): adding an independent declaration adds exactly its entry -/

theorem add_type_local {nt : Bytes} (h : compile banned f = .ok c) (d : BDir) (hk : d.kind = .Type)
    (hn : d.param "Name" ≠ []) (hfresh : ∀ t ∈ c.types, t.name ≠ d.param "Name")
    (hnot : newNotation (d.param "SchemaNotation") = .ok nt)
    (hbody : (nt = nJsight ∨ nt = nRegex) → d.body.isSome) (hban : d.kind ∉ banned) (hf : f ≠ []) :
    compile banned (f ++ [.node d []]) =
      .ok { c with types := c.types ++ [{ name := d.param "Name", annot := d.annot, nota := nt }] } := by
  refine compile_snoc h hf _ (by simp [BTree.dir, hk]) (by simp [BTree.dir, hn]) ?_
    (add_type_run hk hn hfresh hnot hbody hban) rfl rfl
  intro last
  exact ⟨last, by simp [pathsTree, pathsForest, hk]⟩

/-- `SERVER @fresh` without children -/
theorem add_server_local (h : compile banned f = .ok c) (d : BDir) (hk : d.kind = .Server)
    (hn : d.param "Name" ≠ []) (hfresh : ∀ s ∈ c.servers, s.name ≠ d.param "Name") (hban : d.kind ∉ banned)
    (hf : f ≠ []) :
    compile banned (f ++ [.node d []]) =
      .ok { c with servers := c.servers ++ [{ name := d.param "Name", annot := d.annot }] } := by
  refine compile_snoc h hf _ (by simp [BTree.dir, hk]) (by simp [BTree.dir, hk]) ?_
    (add_server_run hk hn hfresh hban) rfl rfl
  intro last
  exact ⟨last, by simp [pathsTree, pathsForest, hk]⟩

/-- `SERVER @fresh` with a `BaseUrl` child -/
theorem add_server_baseurl_local (h : compile banned f = .ok c) (d b : BDir) (hk : d.kind = .Server)
    (hn : d.param "Name" ≠ []) (hfresh : ∀ s ∈ c.servers, s.name ≠ d.param "Name") (hban : d.kind ∉ banned)
    (hkb : b.kind = .BaseURL) (hp : b.param "Path" ≠ []) (hab : b.annot = []) (hbanb : b.kind ∉ banned)
    (hf : f ≠ []) :
    compile banned (f ++ [.node d [.node b []]]) =
      .ok { c with servers := c.servers ++
              [{ name := d.param "Name", annot := d.annot, baseUrl := b.param "Path" }] } := by
  refine compile_snoc h hf _ (by simp [BTree.dir, hk]) (by simp [BTree.dir, hk]) ?_
    (add_server_baseurl_run hk hn hfresh hban hkb hp hab hbanb) rfl rfl
  intro last
  exact ⟨last, by simp [pathsTree, pathsForest, hk, hkb]⟩

end JSight.C04B
