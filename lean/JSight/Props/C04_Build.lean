import JSight.Model.Build
import JSight.Proofs.BuildFaith
/-!
C04 / C11 / C20 on the catalog-construction model (`Model/Build.lean`).

`flat`/`flatF` (the directives of a forest in source order), `flatA`/`flatAF` (the same with the children and the
ancestor chain `addDirective` reads), `Ent.chain`, `idOf` and `declTag` are defined in `Proofs/BuildFaith.lean`.
-/
namespace JSight.C04B
open JSight JSight.Build JSight.Gen

/-! ## A. FAITHFULNESS (C04): the catalog lists exactly the declared entries, in source order -/

variable {banned : List Kind} {f : List BTree} {c : Cat}

theorem types_faithful (h : compile banned f = .ok c) :
    c.types.map (fun t => (t.name, t.annot)) =
      ((flatF f).filter (·.kind == .Type)).map (fun d => (d.param "Name", d.annot)) := by
  obtain ⟨c₀, h0, _, _, _, hr, _⟩ := compile_ok h
  rw [types_run hr, flatAF_dirs, collectTags_empty h0]; rfl

theorem servers_faithful (h : compile banned f = .ok c) :
    c.servers.map (fun s => (s.name, s.annot)) =
      ((flatF f).filter (·.kind == .Server)).map (fun d => (d.param "Name", d.annot)) := by
  obtain ⟨c₀, h0, _, _, _, hr, _⟩ := compile_ok h
  rw [servers_run hr, flatAF_dirs, collectTags_empty h0]; rfl

/-- TAG directives are read at the top level only -/
theorem declared_tags_faithful (h : compile banned f = .ok c) :
    (c.tags.filter (·.declared)).map (fun t => (t.name, t.title)) =
      ((f.map BTree.dir).filter (·.kind == .TAG)).map
        (fun d => (d.param "TagName", if d.annot.isEmpty then d.param "TagName" else d.annot)) := by
  obtain ⟨c₀, h0, _, _, _, hr, _⟩ := compile_ok h
  rw [(tags_run hr).1, collectTags_empty h0]
  have : (declTags f).filter (·.declared) = declTags f := by
    rw [List.filter_eq_self]; exact declTags_all f
  simp only [this]
  simp [declTags, declTag]

/-- declared tags precede the automatic ones -/
theorem declared_tags_first (h : compile banned f = .ok c) :
    ∃ n, (c.tags.take n).all (·.declared) ∧ (c.tags.drop n).all (fun t => !t.declared) := by
  obtain ⟨c₀, h0, _, _, _, hr, _⟩ := compile_ok h
  refine Part_split ((tags_run hr).2 ?_)
  rw [collectTags_empty h0]
  exact Part_of_all (declTags_all f)

/-- one interaction per method directive, in source order -/
theorem interactions_faithful (h : compile banned f = .ok c) :
    c.inters.map (fun x => x.annot) =
      ((flatF f).filter (fun d => isHTTP d.kind || d.kind == .Method)).map (·.annot) := by
  obtain ⟨c₀, h0, _, _, _, hr, _⟩ := compile_ok h
  have := congrArg (List.map Prod.snd) (inters_run hr)
  rw [collectTags_empty h0] at this
  simp only [List.map_map, List.map_nil, List.nil_append] at this
  rw [← flatAF_dirs [] f, List.filter_map, List.map_map]
  exact this

/-- … and the i-th interaction's id is the id of the i-th method directive: `httpIdOf` (`rpcIdOf` for a `Method`)
of the chain "the directive, then its ancestors" (`idOf`) -/
theorem interaction_of_method (h : compile banned f = .ok c) :
    c.inters.map (fun x => ((Except.ok x.iid : Except Msg IId), x.annot)) =
      ((flatAF [] f).filter (fun e => isHTTP e.d.kind || e.d.kind == .Method)).map (fun e => (idOf e, e.d.annot)) := by
  obtain ⟨c₀, h0, _, _, _, hr, _⟩ := compile_ok h
  have := inters_run hr
  rw [collectTags_empty h0] at this
  simpa [isMeth] using this

theorem jsight_first (h : compile banned f = .ok c) (hne : f ≠ []) : ∃ t r, f = t :: r ∧ t.dir.kind = .Jsight := by
  obtain ⟨c₀, _, _, _, hj, _⟩ := compile_ok h
  cases f with
  | nil => exact absurd rfl hne
  | cons t r => exact ⟨t, r, rfl, hj t r rfl⟩

theorem jsight_version (h : compile banned f = .ok c) (hne : f ≠ []) : c.jsight = v03 := by
  obtain ⟨c₀, _, _, _, hj, hr, _⟩ := compile_ok h
  cases f with
  | nil => exact absurd rfl hne
  | cons t r =>
    obtain ⟨rest, hrest⟩ := @flatAF_head [] t r
    rw [hrest] at hr
    exact jsight_run (hj t r rfl) hr

theorem banned_absent (h : compile banned f = .ok c) : ∀ d ∈ flatF f, d.kind ∉ banned := by
  obtain ⟨c₀, _, _, _, _, hr, _⟩ := compile_ok h
  intro d hd
  rw [← flatAF_dirs [] f, List.mem_map] at hd
  obtain ⟨e, he, rfl⟩ := hd
  exact run_all (fun e => e.d.kind ∉ banned) (fun e c c' hs => (step_ok hs).1) _ _ _ hr e he

/-! ## C. LOCALITY (C20): adding an independent declaration adds exactly its entry -/

theorem add_type_local {nt : Bytes} (h : compile banned f = .ok c) (d : BDir) (hk : d.kind = .Type)
    (hn : d.param "Name" ≠ []) (hfresh : ∀ t ∈ c.types, t.name ≠ d.param "Name")
    (hnot : newNotation (d.param "SchemaNotation") = .ok nt)
    (hbody : (nt = nJsight ∨ nt = nRegex) → d.body.isSome) (hban : d.kind ∉ banned) (hf : f ≠ []) :
    compile banned (f ++ [.node d []]) =
      .ok { c with types := c.types ++ [{ name := d.param "Name", annot := d.annot, nota := nt }] } := by
  refine compile_snoc h hf _ (by simp [BTree.dir, hk]) (by simp [BTree.dir, hn]) ?_
    (add_type_run hk hn hfresh hnot hbody hban) rfl rfl
  intro last
  exact ⟨last, by simp [pathsTree, pathsForest, hk]⟩

/-- `SERVER @fresh` without children -/
theorem add_server_local (h : compile banned f = .ok c) (d : BDir) (hk : d.kind = .Server)
    (hn : d.param "Name" ≠ []) (hfresh : ∀ s ∈ c.servers, s.name ≠ d.param "Name") (hban : d.kind ∉ banned)
    (hf : f ≠ []) :
    compile banned (f ++ [.node d []]) =
      .ok { c with servers := c.servers ++ [{ name := d.param "Name", annot := d.annot }] } := by
  refine compile_snoc h hf _ (by simp [BTree.dir, hk]) (by simp [BTree.dir, hk]) ?_
    (add_server_run hk hn hfresh hban) rfl rfl
  intro last
  exact ⟨last, by simp [pathsTree, pathsForest, hk]⟩

/-- `SERVER @fresh` with a `BaseUrl` child -/
theorem add_server_baseurl_local (h : compile banned f = .ok c) (d b : BDir) (hk : d.kind = .Server)
    (hn : d.param "Name" ≠ []) (hfresh : ∀ s ∈ c.servers, s.name ≠ d.param "Name") (hban : d.kind ∉ banned)
    (hkb : b.kind = .BaseURL) (hp : b.param "Path" ≠ []) (hab : b.annot = []) (hbanb : b.kind ∉ banned)
    (hf : f ≠ []) :
    compile banned (f ++ [.node d [.node b []]]) =
      .ok { c with servers := c.servers ++
              [{ name := d.param "Name", annot := d.annot, baseUrl := b.param "Path" }] } := by
  refine compile_snoc h hf _ (by simp [BTree.dir, hk]) (by simp [BTree.dir, hk]) ?_
    (add_server_baseurl_run hk hn hfresh hban hkb hp hab hbanb) rfl rfl
  intro last
  exact ⟨last, by simp [pathsTree, pathsForest, hk, hkb]⟩

/-- a top-level `TAG @fresh` appended: the new tag is inserted after the declared tags and before the automatic
ones (see `declared_tags_first`), nothing else changes — provided no tag of `c`, declared or automatic, has that
name (an automatic tag of that name would become the declared one and keep its interactions) -/
theorem add_tag_local (h : compile banned f = .ok c) (d : BDir) (hk : d.kind = .TAG)
    (hn : d.param "TagName" ≠ []) (hfresh : ∀ t ∈ c.tags, t.name ≠ d.param "TagName") (hban : d.kind ∉ banned)
    (hf : f ≠ []) :
    compile banned (f ++ [.node d []]) =
      .ok { c with tags := c.tags.filter (·.declared) ++
              { name := d.param "TagName", title := if d.annot.isEmpty then d.param "TagName" else d.annot,
                declared := true } :: c.tags.filter (fun t => !t.declared) } :=
  compile_add_tag h d hk hn hfresh hban hf

/-! ## B. STATIC CHECKS (C11): a duplicate or a second singleton is rejected

Positions are positions of `flatF f` (all directives, source order) or of `flatAF [] f` (the same list, each
directive with its children and ancestors), except for TAG declarations, which are read at the top level. -/

theorem dup_type_rejected {i j : Nat} {d₁ d₂ : BDir} (hij : i ≠ j)
    (h₁ : (flatF f)[i]? = some d₁) (h₂ : (flatF f)[j]? = some d₂) (k₁ : d₁.kind = .Type) (k₂ : d₂.kind = .Type)
    (hn : d₁.param "Name" = d₂.param "Name") : ∀ c, compile banned f ≠ .ok c :=
  dup_type hij h₁ h₂ k₁ k₂ hn

theorem dup_server_rejected {i j : Nat} {d₁ d₂ : BDir} (hij : i ≠ j)
    (h₁ : (flatF f)[i]? = some d₁) (h₂ : (flatF f)[j]? = some d₂) (k₁ : d₁.kind = .Server)
    (k₂ : d₂.kind = .Server) (hn : d₁.param "Name" = d₂.param "Name") : ∀ c, compile banned f ≠ .ok c :=
  dup_server hij h₁ h₂ k₁ k₂ hn

/-- two top-level TAG directives of the same name -/
theorem dup_tag_rejected {i j : Nat} {t₁ t₂ : BTree} (hij : i ≠ j) (h₁ : f[i]? = some t₁) (h₂ : f[j]? = some t₂)
    (k₁ : t₁.dir.kind = .TAG) (k₂ : t₂.dir.kind = .TAG)
    (hn : t₁.dir.param "TagName" = t₂.dir.param "TagName") : ∀ c, compile banned f ≠ .ok c := by
  intro c h
  obtain ⟨c₀, h0, _⟩ := compile_ok h
  rcases Nat.lt_or_gt_of_ne hij with hlt | hgt
  · exact collectTags_dup f i j t₁ t₂ hlt h₁ h₂ k₁ k₂ hn _ _ h0
  · exact collectTags_dup f j i t₂ t₁ hgt h₂ h₁ k₂ k₁ hn.symm _ _ h0

/-- two URL directives (anywhere) with the same path -/
theorem dup_url_rejected {i j : Nat} {d₁ d₂ : BDir} (hij : i ≠ j)
    (h₁ : (flatF f)[i]? = some d₁) (h₂ : (flatF f)[j]? = some d₂) (k₁ : d₁.kind = .URL) (k₂ : d₂.kind = .URL)
    (hn : d₁.param "Path" = d₂.param "Path") : ∀ c, compile banned f ≠ .ok c :=
  dup_url hij h₁ h₂ k₁ k₂ hn

/-- two method directives (HTTP verbs or JSON-RPC `Method`) that yield the same interaction id -/
theorem dup_method_rejected {i j : Nat} {e₁ e₂ : Ent} {x : IId} (hij : i ≠ j)
    (h₁ : (flatAF [] f)[i]? = some e₁) (h₂ : (flatAF [] f)[j]? = some e₂)
    (k₁ : isHTTP e₁.d.kind || e₁.d.kind == .Method) (k₂ : isHTTP e₂.d.kind || e₂.d.kind == .Method)
    (i₁ : idOf e₁ = .ok x) (i₂ : idOf e₂ = .ok x) : ∀ c, compile banned f ≠ .ok c :=
  dup_method hij h₁ h₂ k₁ k₂ i₁ i₂

/-- the diagnostic of the second HTTP method directive, when the checks before the duplicate test pass -/
theorem second_method_message {d : BDir} {kids : List BDir} {anc : List Up} {c : Cat} {i : IId} {path : Bytes}
    {pp sim : List (Bytes × Bytes)} (hpath : pathChain (d :: anc.map (·.d)) = .ok path)
    (hpp : checkedParams d path = .ok pp) (hsim : checkSimilar c.similar pp = some sim)
    (hi : httpIdOf (d :: anc.map (·.d)) = .ok i) (hhas : c.hasInter i = true) :
    addHTTPMethod d kids anc c = .error ⟨d.id, .methodDefined⟩ :=
  addHTTPMethod_defined hpath hpp hsim hi hhas

/-- two Title directives anywhere (a fortiori under one INFO) -/
theorem second_title_rejected {i j : Nat} {d₁ d₂ : BDir} (hij : i ≠ j)
    (h₁ : (flatF f)[i]? = some d₁) (h₂ : (flatF f)[j]? = some d₂) (k₁ : d₁.kind = .Title)
    (k₂ : d₂.kind = .Title) : ∀ c, compile banned f ≠ .ok c :=
  dup_title hij h₁ h₂ k₁ k₂

theorem second_version_rejected {i j : Nat} {d₁ d₂ : BDir} (hij : i ≠ j)
    (h₁ : (flatF f)[i]? = some d₁) (h₂ : (flatF f)[j]? = some d₂) (k₁ : d₁.kind = .Version)
    (k₂ : d₂.kind = .Version) : ∀ c, compile banned f ≠ .ok c :=
  dup_version hij h₁ h₂ k₁ k₂

/-- two Description directives whose parent is an INFO directive -/
theorem second_info_description_rejected {i j : Nat} {e₁ e₂ : Ent} (hij : i ≠ j)
    (h₁ : (flatAF [] f)[i]? = some e₁) (h₂ : (flatAF [] f)[j]? = some e₂)
    (k₁ : e₁.d.kind = .Description) (k₂ : e₂.d.kind = .Description)
    (u₁ : ∃ p r, e₁.anc = p :: r ∧ p.d.kind = .Info) (u₂ : ∃ p r, e₂.anc = p :: r ∧ p.d.kind = .Info) :
    ∀ c, compile banned f ≠ .ok c :=
  dup_info_description hij h₁ h₂ k₁ k₂ u₁ u₂

/-- the table of `requiredParam` (JSIGHT Version, Title, Version, SERVER Name, BaseUrl Path, TYPE Name,
Protocol ProtocolName, Method MethodName): a directive anywhere without its required parameter -/
theorem missing_required_rejected {d : BDir} {p : String} (hd : d ∈ flatF f)
    (hr : requiredParam d.kind = some p) (hm : d.param p = []) : ∀ c, compile banned f ≠ .ok c :=
  missing_required hd hr hm

example : [Kind.Jsight, .Title, .Version, .Server, .BaseURL, .Type, .Protocol, .Method].map requiredParam =
    [some "Version", some "Title", some "Version", some "Name", some "Path", some "Name", some "ProtocolName",
     some "MethodName"] := rfl

/-- a top-level TAG without a name -/
theorem missing_tagname_rejected {t : BTree} (ht : t ∈ f) (hk : t.dir.kind = .TAG)
    (hm : t.dir.param "TagName" = []) : ∀ c, compile banned f ≠ .ok c := by
  intro c h
  obtain ⟨c₀, h0, _⟩ := compile_ok h
  exact collectTags_missing f t ht hk hm _ _ h0

/-- a Tags directive anywhere naming a tag that no top-level TAG declares -/
theorem undeclared_tag_rejected {d : BDir} {n : Bytes} (hd : d ∈ flatF f) (hk : d.kind = .Tags)
    (hn : n ∈ d.unnamed) (hno : ∀ t ∈ f, t.dir.kind = .TAG → t.dir.param "TagName" ≠ n) :
    ∀ c, compile banned f ≠ .ok c := by
  refine undeclared_tag hd hk hn ?_
  intro t ht
  simp only [declTags, List.mem_map, List.mem_filter] at ht
  obtain ⟨d', ⟨⟨t', ht', rfl⟩, hk'⟩, rfl⟩ := ht
  exact hno t' ht' (by simpa using hk')

/-- the invariants behind the duplicate checks: type names, server names and interaction ids never repeat -/
theorem names_nodup (h : compile banned f = .ok c) :
    (c.types.map (·.name)).Nodup ∧ (c.servers.map (·.name)).Nodup ∧ (c.inters.map (·.iid)).Nodup :=
  nodup_compile h

/-! ## concrete checks: the hypotheses are satisfiable -/

instance {ε α : Type} [DecidableEq ε] [DecidableEq α] : DecidableEq (Except ε α) := fun a b =>
  match a, b with
  | .ok x, .ok y => if h : x = y then isTrue (h ▸ rfl) else isFalse (fun h' => by cases h'; exact h rfl)
  | .error x, .error y => if h : x = y then isTrue (h ▸ rfl) else isFalse (fun h' => by cases h'; exact h rfl)
  | .ok _, .error _ => isFalse (fun h => by cases h)
  | .error _, .ok _ => isFalse (fun h => by cases h)

/-- TYPE @cat // A cat {} -/
def exCat : BDir := { kind := .Type, named := [("Name", [64, 99, 97, 116])], annot := [65, 32, 99, 97, 116], body := some [123, 125] }

/-- JSIGHT, INFO with Title and Version, SERVER with BaseUrl, TAG, TYPE, a URL with two methods, a JSON-RPC URL -/
def exF : List BTree := [
  -- JSIGHT 0.3
  .node { kind := .Jsight, named := [("Version", [48, 46, 51])] } [],
  -- INFO / Title "My API" / Version 1.0
  .node { kind := .Info } [
.node { kind := .Title, named := [("Title", [77, 121, 32, 65, 80, 73])] } [],
.node { kind := .Version, named := [("Version", [49, 46, 48])] } []],
  -- SERVER @prod // Production / BaseUrl "https://x"
  .node { kind := .Server, named := [("Name", [64, 112, 114, 111, 100])], annot := [80, 114, 111, 100, 117, 99, 116, 105, 111, 110] } [
.node { kind := .BaseURL, named := [("Path", [104, 116, 116, 112, 115, 58, 47, 47, 120])] } []],
  -- TAG @pets // Pets
  .node { kind := .TAG, named := [("TagName", [64, 112, 101, 116, 115])], annot := [80, 101, 116, 115] } [],
  -- TYPE @cat // A cat  {}
  .node exCat [],
  -- URL /cats: GET // List cats (Tags @pets, 200 []), POST // Make cat (Request {}, 201 any)
  .node { kind := .URL, named := [("Path", [47, 99, 97, 116, 115])] } [
.node { kind := .Get, annot := [76, 105, 115, 116, 32, 99, 97, 116, 115] } [
.node { kind := .Tags, unnamed := [[64, 112, 101, 116, 115]] } [],
.node { kind := .HTTPResponseCode, body := some [91, 93], keyword := [50, 48, 48] } []],
.node { kind := .Post, annot := [77, 97, 107, 101, 32, 99, 97, 116] } [
.node { kind := .Request, body := some [123, 125] } [],
.node { kind := .HTTPResponseCode, named := [("SchemaNotation", [97, 110, 121])], keyword := [50, 48, 49] } []]],
  -- URL /rpc: Protocol json-rpc-2.0, Method foo // Foo (Params {})
  .node { kind := .URL, named := [("Path", [47, 114, 112, 99])] } [
.node { kind := .Protocol, named := [("ProtocolName", [106, 115, 111, 110, 45, 114, 112, 99, 45, 50, 46, 48])] } [],
.node { kind := .Method, named := [("MethodName", [102, 111, 111])], annot := [70, 111, 111] } [
.node { kind := .Params, body := some [123, 125] } []]]]

/-- the catalog of `exF` -/
def exC : Cat := match compile [] exF with | .ok c => c | .error _ => {}

theorem exF_ok : compile [] exF = .ok exC := by decide +kernel

example : exC.types.map (fun t => (t.name, t.annot)) = [([64, 99, 97, 116], [65, 32, 99, 97, 116])] := by
  rw [types_faithful exF_ok]; decide +kernel
example : exC.servers.map (fun t => (t.name, t.annot)) = [([64, 112, 114, 111, 100], [80, 114, 111, 100, 117, 99, 116, 105, 111, 110])] := by
  rw [servers_faithful exF_ok]; decide +kernel
example : (exC.tags.filter (·.declared)).map (fun t => (t.name, t.title)) = [([64, 112, 101, 116, 115], [80, 101, 116, 115])] := by
  rw [declared_tags_faithful exF_ok]; decide +kernel
-- "List cats", "Make cat", "Foo"
example : exC.inters.map (·.annot) = [[76, 105, 115, 116, 32, 99, 97, 116, 115], [77, 97, 107, 101, 32, 99, 97, 116], [70, 111, 111]] := by
  rw [interactions_faithful exF_ok]; decide +kernel
-- GET /cats, POST /cats, foo /rpc
example : exC.inters.map (fun x => (x.iid.proto, x.iid.method, x.iid.path)) =
    [(.http, [71, 69, 84], [47, 99, 97, 116, 115]), (.http, [80, 79, 83, 84], [47, 99, 97, 116, 115]), (.rpc, [102, 111, 111], [47, 114, 112, 99])] := by decide +kernel
-- the tags: @pets (declared), then the automatic @cats and @rpc
example : exC.tags.map (fun t => (t.name, t.declared)) = [([64, 112, 101, 116, 115], true), ([64, 99, 97, 116, 115], false), ([64, 114, 112, 99], false)] := by
  decide +kernel
example : exC.jsight = v03 := jsight_version exF_ok (by decide)

/-- TYPE @dog // A dog {} -/
def exNewType : BDir := { kind := .Type, named := [("Name", [64, 100, 111, 103])], annot := [65, 32, 100, 111, 103], body := some [123, 125] }

example : compile [] (exF ++ [.node exNewType []]) =
    .ok { exC with types := exC.types ++ [{ name := [64, 100, 111, 103], annot := [65, 32, 100, 111, 103], nota := nJsight }] } :=
  add_type_local exF_ok exNewType rfl (by decide) (by decide +kernel) (nt := nJsight) (by decide +kernel)
    (fun _ => rfl) (by decide) (by decide)

/-- SERVER @test // Test -/
def exNewServer : BDir := { kind := .Server, named := [("Name", [64, 116, 101, 115, 116])], annot := [84, 101, 115, 116] }
example : compile [] (exF ++ [.node exNewServer []]) =
    .ok { exC with servers := exC.servers ++ [{ name := [64, 116, 101, 115, 116], annot := [84, 101, 115, 116] }] } :=
  add_server_local exF_ok exNewServer rfl (by decide) (by decide +kernel) (by decide) (by decide)

/-- TAG @zoo // Zoo -/
def exNewTag : BDir := { kind := .TAG, named := [("TagName", [64, 122, 111, 111])], annot := [90, 111, 111] }
example : (compile [] (exF ++ [.node exNewTag []])).toOption.map (fun c => c.tags.map (fun t => (t.name, t.declared))) =
    some [([64, 112, 101, 116, 115], true), ([64, 122, 111, 111], true), ([64, 99, 97, 116, 115], false), ([64, 114, 112, 99], false)] := by
  rw [add_tag_local exF_ok exNewTag rfl (by decide) (by decide +kernel) (by decide) (by decide)]
  decide +kernel

/-- why `add_tag_local` needs `hfresh` for automatic tags too: appending `TAG @cats` to `exF`, whose catalog has
the automatic tag `@cats` (of `POST /cats`), adds no entry — the tag `@cats` becomes the declared one, takes the
declared position and keeps the interaction -/
def exClashTag : BDir := { kind := .TAG, named := [("TagName", [64, 99, 97, 116, 115])], annot := [67, 97, 116, 115] }
example : (compile [] (exF ++ [.node exClashTag []])).toOption.map
      (fun c => c.tags.map (fun t => (t.name, t.declared, t.http.length))) =
    some [([64, 112, 101, 116, 115], true, 1), ([64, 99, 97, 116, 115], true, 1), ([64, 114, 112, 99], false, 0)] := by decide +kernel

/-- a second `TYPE @cat` is rejected -/
def exDup : BDir := { kind := .Type, named := [("Name", [64, 99, 97, 116])], annot := [97, 103, 97, 105, 110], body := some [123, 125] }

example : ∀ c, compile [] (exF ++ [.node exDup []]) ≠ .ok c :=
  dup_type_rejected (i := 7) (j := 19) (d₁ := exCat) (d₂ := exDup) (by decide) (by decide +kernel)
    (by decide +kernel) rfl rfl (by decide +kernel)
example : compile [] (exF ++ [.node exDup []]) = .error ⟨0, .duplicateNames⟩ := by decide +kernel

end JSight.C04B
