import JSight.Basic
namespace JSight.C18
end JSight.C18
