import JSight.Model.Bans
/-!
C18 — `WithBannedDirectives`: the ban check is a pure filter in front of the context resolution.  Without a
banned kind in the input the option changes nothing; with one, the project is rejected at its first
occurrence and nothing after that keyword is looked at.
-/
namespace JSight.C18
open JSight

/-- lift a context-resolution result into the error type of the banned resolution -/
def lift {α : Type} : Except CtxErr α → Except BanErr α
  | .ok a => .ok a
  | .error e => .error (.ctx e)

/-- without banned kinds the banned loop is the plain loop -/
theorem consumeAllBanned_frame (banned : List Gen.Kind) (c : Ctx) (toks : List Tok)
    (h : ∀ d, Tok.dir d ∈ toks → banned.contains d.kind = false) :
    consumeAllBanned banned c toks = lift (consumeAll c toks) := by
  induction toks generalizing c with
  | nil => rfl
  | cons t r ih =>
    have hr : ∀ d, Tok.dir d ∈ r → banned.contains d.kind = false :=
      fun d hd => h d (List.mem_cons_of_mem _ hd)
    cases t with
    | close =>
      simp only [consumeAllBanned, consumeAll, consume]
      cases closeExplicit c.frames c.roots with
      | error e => rfl
      | ok c' => exact ih c' hr
    | dir d =>
      have hd : banned.contains d.kind = false := h d (List.mem_cons_self)
      simp only [consumeAllBanned, consumeAll, consume, hd]
      cases place c.frames c.roots d with
      | error e => rfl
      | ok c' => exact ih c' hr

/-- a prefix without banned kinds that resolves is consumed exactly as by the plain loop -/
theorem consumeAllBanned_append (banned : List Gen.Kind) (c c' : Ctx) (pre rest : List Tok)
    (hpre : ∀ x, Tok.dir x ∈ pre → banned.contains x.kind = false)
    (hok : consumeAll c pre = .ok c') :
    consumeAllBanned banned c (pre ++ rest) = consumeAllBanned banned c' rest := by
  induction pre generalizing c with
  | nil =>
    simp only [consumeAll] at hok
    injection hok with hok
    subst hok; rfl
  | cons t r ih =>
    have hr : ∀ d, Tok.dir d ∈ r → banned.contains d.kind = false :=
      fun d hd => hpre d (List.mem_cons_of_mem _ hd)
    cases t with
    | close =>
      simp only [consumeAll, consume] at hok
      simp only [List.cons_append, consumeAllBanned]
      cases hce : closeExplicit c.frames c.roots with
      | error e => rw [hce] at hok; cases hok
      | ok c₁ => rw [hce] at hok; exact ih c₁ hr hok
    | dir d =>
      have hd : banned.contains d.kind = false := hpre d (List.mem_cons_self)
      simp only [consumeAll, consume] at hok
      simp only [List.cons_append, consumeAllBanned, hd]
      cases hpl : place c.frames c.roots d with
      | error e => rw [hpl] at hok; cases hok
      | ok c₁ => rw [hpl] at hok; exact ih c₁ hr hok

/-- the loop never looks past a banned directive -/
theorem consumeAllBanned_ignores_rest (banned : List Gen.Kind) (c : Ctx) (pre post₁ post₂ : List Tok) (d : Dir)
    (hb : banned.contains d.kind = true) :
    consumeAllBanned banned c (pre ++ Tok.dir d :: post₁) = consumeAllBanned banned c (pre ++ Tok.dir d :: post₂) := by
  induction pre generalizing c with
  | nil => simp only [List.nil_append, consumeAllBanned, hb, if_true]
  | cons t r ih =>
    cases t with
    | close =>
      simp only [List.cons_append, consumeAllBanned]
      cases closeExplicit c.frames c.roots with
      | error e => rfl
      | ok c₁ => exact ih c₁
    | dir x =>
      simp only [List.cons_append, consumeAllBanned]
      by_cases hx : banned.contains x.kind = true
      · simp only [hx, if_true]
      · simp only [hx]
        cases place c.frames c.roots x with
        | error e => rfl
        | ok c₁ => exact ih c₁

/-- no banned kind occurs ⇒ the option changes nothing -/
theorem frame (banned : List Gen.Kind) (toks : List Tok)
    (h : ∀ d, Tok.dir d ∈ toks → banned.contains d.kind = false) :
    resolveBanned banned toks = (match resolve toks with | .ok f => .ok f | .error e => .error (.ctx e)) := by
  unfold resolveBanned resolve
  rw [consumeAllBanned_frame banned {} toks h]
  cases consumeAll {} toks with
  | error e => rfl
  | ok c =>
    simp only [lift]
    cases anyExplicit c.frames <;> rfl

/-- a banned kind occurs ⇒ rejected as not allowed at its FIRST occurrence, provided the tokens before it resolve
    (otherwise the earlier context error wins) -/
theorem banned_rejected (banned : List Gen.Kind) (pre post : List Tok) (d : Dir) (c : Ctx)
    (hb : banned.contains d.kind = true) (hpre : ∀ x, Tok.dir x ∈ pre → banned.contains x.kind = false)
    (hok : consumeAll {} pre = .ok c) :
    resolveBanned banned (pre ++ Tok.dir d :: post) = .error (.notAllowed d.id) := by
  unfold resolveBanned
  rw [consumeAllBanned_append banned {} c pre _ hpre hok]
  simp only [consumeAllBanned, hb, if_true]

/-- (complement of `banned_rejected`) when the tokens before the first banned directive do not resolve,
    the earlier context error is reported -/
theorem earlier_error_wins (banned : List Gen.Kind) (pre post : List Tok) (d : Dir) (e : CtxErr)
    (hpre : ∀ x, Tok.dir x ∈ pre → banned.contains x.kind = false)
    (herr : consumeAll {} pre = .error e) :
    resolveBanned banned (pre ++ Tok.dir d :: post) = .error (.ctx e) := by
  have key : ∀ (c : Ctx) (pre : List Tok), (∀ x, Tok.dir x ∈ pre → banned.contains x.kind = false) →
      consumeAll c pre = .error e →
      consumeAllBanned banned c (pre ++ Tok.dir d :: post) = .error (.ctx e) := by
    intro c pre
    induction pre generalizing c with
    | nil => intro _ h; simp only [consumeAll] at h; cases h
    | cons t r ih =>
      intro hpre herr
      have hr : ∀ x, Tok.dir x ∈ r → banned.contains x.kind = false :=
        fun x hx => hpre x (List.mem_cons_of_mem _ hx)
      cases t with
      | close =>
        simp only [consumeAll, consume] at herr
        simp only [List.cons_append, consumeAllBanned]
        cases hce : closeExplicit c.frames c.roots with
        | error e' => rw [hce] at herr; injection herr with herr; rw [herr]
        | ok c₁ => rw [hce] at herr; exact ih c₁ hr herr
      | dir x =>
        have hx : banned.contains x.kind = false := hpre x (List.mem_cons_self)
        simp only [consumeAll, consume] at herr
        simp only [List.cons_append, consumeAllBanned, hx]
        cases hpl : place c.frames c.roots x with
        | error e' => rw [hpl] at herr; injection herr with herr; simp [herr]
        | ok c₁ => rw [hpl] at herr; simpa using ih c₁ hr herr
  unfold resolveBanned
  rw [key {} pre hpre herr]

/-- the result never depends on anything that follows the first banned directive -/
theorem banned_ignores_rest (banned : List Gen.Kind) (pre post₁ post₂ : List Tok) (d : Dir)
    (hb : banned.contains d.kind = true) :
    resolveBanned banned (pre ++ Tok.dir d :: post₁) = resolveBanned banned (pre ++ Tok.dir d :: post₂) := by
  unfold resolveBanned
  rw [consumeAllBanned_ignores_rest banned {} pre post₁ post₂ d hb]

/-- the empty ban set is the plain resolution -/
theorem no_bans (toks : List Tok) :
    resolveBanned [] toks = (match resolve toks with | .ok f => .ok f | .error e => .error (.ctx e)) :=
  frame [] toks (fun _ _ => rfl)

/-! non-vacuity (`decide +kernel`: `place` / `closeAll` are defined by well-founded recursion, which the
elaborator's `decide` does not unfold; the kernel evaluates them, no axiom is added), on the real admissibility tables: `URL GET INCLUDE …` with INCLUDE banned is rejected at the
INCLUDE (id 2); with nothing banned the same prefix resolves -/
example : (match resolveBanned [Gen.Kind.Include]
      [.dir { kind := .URL, id := 0 }, .dir { kind := .Get, id := 1 }, .dir { kind := .Include, id := 2 },
       .close, .close] with
    | .error (.notAllowed 2) => true
    | _ => false) = true := by decide +kernel
example : (match resolveBanned [Gen.Kind.Include]
      [.dir { kind := .URL, id := 0 }, .dir { kind := .Get, id := 1 }] with
    | .ok [.node u [.node g []]] => u.id == 0 && g.id == 1
    | _ => false) = true := by decide +kernel

end JSight.C18
