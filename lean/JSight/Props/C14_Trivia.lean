import JSight.Model.Scanner
import JSight.Proofs.ScanLex
import JSight.Proofs.ScanTrivia
import JSight.Proofs.ScanTriviaRun
/-!
# C14, last clause — user content is never silently dropped

"Every byte that belongs to no lexeme is whitespace, a line end, comment text or an annotation delimiter."

Theorems about the model of `Scanner.Next()` (`byteStep`, `lexAll`, `scanFile` over the regenerated scanner
table `Gen.code`).  Method (`Proofs/ScanTrivia.lean`, `Proofs/ScanTriviaRun.lean`):

* a second abstract interpreter `tRun` of the table: per byte step it tracks whether the byte of the step
  ends up inside a lexeme (open Begin / completed item), and at every `return nil` the Bool check `doneOK`
  demands that a byte which does not is trivia: a blank / line end, `'#'` moving into the comment
  sub-machine, a byte read inside the comment sub-machine, `'/'` moving to the annotation-sign state, `'/'`
  or `'*'` read in the annotation-sign state, or the `'/'` of the closing `*/` of a multi-line annotation
  (`found(AnnotationEnd)` two bytes back, allowed only under `prevIsStar`);
* the comment sub-machine `commentStates` is COMPUTED from the table (closure of the targets of the
  `stepStack.Push(s.step)` leaves); `doneOK` also checks that it is entered from outside only on `'#'`,
  and the annotation-sign state only on `'/'`;
* the table theorems below evaluate the checks by `decide +kernel` on the CURRENT table, with the certificate
  of `ScanLex` (C14, which Begin event is open per state) resp. of `ScanSafe` (C01);
* `ScanTriviaRun` proves, generically in the table, that the checks imply the coverage invariant `TrInv`
  of every configuration of a run, and the shape of the event queue between calls of `Next`.

## Exceptions (everything the statements had to make room for)

* `eofExceptions = []` — NO exception.  The list (and the disjunct `EofInException` of the helper lemmas) was
  needed for a GENUINE DEFECT of the Go scanner that these checks found: `stateRegexBodyAfterSlash` ignored
  its byte, also the end of input.  Input `TYPE @a regex⏎/ab\` (no final newline): `Next` reported a clean
  end of the lexeme stream after `TYPE`, `@a`, `regex`; the Text lexeme opened by `/` was never closed and
  never reported (the core then said "empty body").  Fixed in /repo ("report the end of input after a
  backslash inside a regex body"); with the unfixed table `silent_steps_are_trivia` and
  `eof_closes_or_rejects` fail for exactly that state.
* no other state silently consumes a non-trivia byte: `silentOK` holds for all 160 states with exactly the
  classes of `Skipped`.
* the `'/'` after `GET /a ` is at first only a *candidate* annotation opener: when the next byte is neither
  `'/'` nor `'*'` the scanner rewinds and re-reads it as the start of a parameter.  `Skipped.annotOpen1`
  therefore demands the second byte, and the one-step theorem has the disjunct "the scanner now waits in
  the annotation-sign state".
* an undelivered EMPTY lexeme is possible and is not a loss of content: for `Description //x` the end of
  input finds `AnnotationEnd, TextBegin, TextEnd`; the annotation is delivered, the empty Text lexeme
  `(15,15)` stays in the queue because `Next` stops at `curIndex > dataSize`.  `clean_end_pending_empty`
  states exactly this: what is pending at a clean end covers no byte of the file.
* the run-level statements assume that the schema library delimits bodies inside the input
  (`OracleInside`): a body reported longer than the rest of the file would end the byte loop with the Schema
  lexeme open (see the `example` in `C14.lean`).
-/
namespace JSight.C14
open JSight Gen ScanLex ScanTrivia
open JSight.ScanSafe (Reach)

/-! ## table facts (re-checked against the regenerated table on every run) -/

/-- **(1)** every path through every state function (and through the state functions it continues in on the
same byte) either ends in a diagnostic or accounts for the byte it reads: the byte lies in a lexeme, or it is
a blank / line end / end-of-input marker, `'#'` entering the comment sub-machine, comment text, or an
annotation delimiter (`ScanTrivia.doneOK`).  Checked with the certificate "which Begin is open in which
state" of `ScanLex`. -/
theorem silent_steps_are_trivia : ∀ st ∈ St.all, silentOK (code st) st = true := by decide +kernel

/-- the states that can be on the step stack are no comment states, not the annotation-sign state, no
end-of-input exception, and no lexeme is open in them; the scanner does not start in a comment / sign state -/
theorem trivia_global : globalOK = true := by decide +kernel

/-- **(3)** in every state in which a lexeme is open (certificate `ScanSafe.cert.oe` of C01), the leaf that
the end-of-input byte selects first finds the End matching the open Begin, or is a diagnostic (possibly after
continuing in another state function without finding anything) — except in the states of
`eofExceptions`.  This is what defect F24 violated. -/
theorem eof_closes_or_rejects : ∀ st ∈ St.all, eofOK (code st) st = true := by decide +kernel

theorem mem_all' (st : St) : st ∈ St.all := ScanLex.St.mem_all st

theorem trivia_facts : Facts :=
  ⟨fun st => ScanLex.table_ok st (mem_all' st), fun st => silent_steps_are_trivia st (mem_all' st), trivia_global⟩

/-! ## (2) one byte step -/

/-- **(2)** For a configuration `sc` of a run (`Reach`) inside the file: if the byte step succeeds, moves
forward, and the byte at `sc.cur` is then covered by no found event — neither by a completed item (Begin/End
pair, context event) nor by a lexeme that is still open (`CovL`) — then that byte is `Skipped`: a blank, a
line end, a comment start, comment text, or an annotation delimiter; or it is a `'/'` and the scanner now
waits in the annotation-sign state (the next step decides: `'/'`, `'*'` make it a delimiter, anything else
rewinds to it). -/
theorem byteStep_skips_only_trivia {d : Src} {o : Oracle} {sc sc2 : Sc} (hR : Reach d o sc)
    (hlt : sc.cur < d.size) (hs : byteStep d o sc = .ok sc2) (hadv : sc.cur < sc2.cur)
    (hunc : ¬ CovL (Lof sc2) sc.cur) :
    Skipped d o sc.cur ∨ (isSign sc2.step = true ∧ sc2.cur = sc.cur + 1 ∧ d.get sc.cur = 47) :=
  step_skips trivia_facts hR hlt hs hadv hunc

/-- the coverage invariant holds in every configuration of a run, for the lexemes delivered so far: every byte
before `cur` lies in a delivered lexeme, is covered by a pending event, or is `Skipped` (or is the `'/'` the
sign state waits on) -/
theorem reach_coverage {d : Src} {o : Oracle} {sc : Sc} (hR : Reach d o sc) :
    ∃ acc, TrInv d o acc sc := by
  obtain ⟨h, acc, g⟩ := reach_G trivia_facts hR
  exact ⟨acc, g.tr⟩

/-! ## (3), (4) whole runs -/

/-- **(3), run level.**  When the scan ends cleanly, whatever is still pending (the event stack and the
queue of found events) covers no byte of the file: no unmatched Begin before the end of input, no undelivered
non-empty lexeme. -/
theorem clean_end_pending_empty (d : Src) (o : Oracle) (n : Nat) (hO : OracleInside d o)
    (he : (lexAll d o n Sc.init []).2.1 = none) :
    ∀ i, CovL (Lof (lexAll d o n Sc.init []).2.2) i → d.size ≤ i := by
  obtain ⟨g0, q0⟩ := G.init (d := d) (o := o) trivia_facts
  obtain ⟨h', acc', _, g, hfq⟩ := lexAll_tr trivia_facts n 0 [] Sc.init g0 q0 he
  intro i hc
  rcases final_cov g hfq hO i hc with h | h
  · exact h
  · exact absurd h (not_eofInException d o)

/-- in particular: a Begin event that is still unmatched at a clean end was found at the end of input -/
theorem clean_end_no_open_lexeme (d : Src) (o : Oracle) (n : Nat) (hO : OracleInside d o)
    (he : (lexAll d o n Sc.init []).2.1 = none) (b : Evp)
    (hb : lastOpen (Lof (lexAll d o n Sc.init []).2.2) = some b) : d.size ≤ b.2 :=
  clean_end_pending_empty d o n hO he b.2 (.inr ⟨b, hb, Nat.le_refl _⟩)

/-- **(4)** For a scan that ends cleanly, every byte position of the file lies in a returned lexeme
`[b, e1)` or is `Skipped`: a blank, a line end, a comment start, comment text, or an annotation delimiter. -/
theorem no_content_dropped (d : Src) (o : Oracle) (n : Nat) (hO : OracleInside d o)
    (he : (lexAll d o n Sc.init []).2.1 = none) :
    ∀ i, i < d.size → (∃ l ∈ (lexAll d o n Sc.init []).1, l.b ≤ i ∧ i < l.e1) ∨ Skipped d o i := by
  obtain ⟨g0, q0⟩ := G.init (d := d) (o := o) trivia_facts
  obtain ⟨h', acc', hacc, g, hfq⟩ := lexAll_tr trivia_facts n 0 [] Sc.init g0 q0 he
  intro i hi
  rcases final_bytes g hfq hO i hi with h | h | h
  · exact .inl (by rw [hacc]; exact inLex_reverse.mpr h)
  · exact .inr h
  · exact absurd h (not_eofInException d o)

/-- **(4) for `scanFile`**: the file is valid UTF-8 and the scan ends cleanly ⟹ every byte of the content
lies in a returned lexeme or is skipped for a listed reason -/
theorem scanFile_no_content_dropped (content : Bytes) (o : Oracle)
    (hO : OracleInside (Src.ofArray content.toArray) o) (he : (scanFile content o).2.1 = none) :
    ∀ i, i < content.length →
      (∃ l ∈ (scanFile content o).1, l.b ≤ i ∧ i < l.e1) ∨ Skipped (Src.ofArray content.toArray) o i := by
  unfold scanFile at he ⊢
  split at he
  · simp at he
  · intro i hi
    exact no_content_dropped _ o _ hO he i (by simpa [Src.ofArray] using hi)

/-! ## the checks are sensitive -/

-- a state function that swallows an `x` outside a lexeme is refused
example : silentOK (.ifB [120] (.leaf [] .done) (code .stateExpectKeyword)) .stateExpectKeyword = false := by
  decide +kernel
-- entering the comment sub-machine on a byte other than '#' is refused
example : silentOK (.ifB [120] (.leaf [.pushCur, .setStep .stateSingleComment] .done) (code .stateExpectKeyword))
    .stateExpectKeyword = false := by decide +kernel
-- closing a multi-line annotation two bytes back without `prevIsStar` is refused
example : silentOK (.ifB [47] (.leaf [.found .annotationEnd 2, .popToStep] .done) (.leaf [] .done))
    .stateMultilineAnnotation = false := by decide +kernel
-- defect F24 (end of input inside a parenthesised description swallowed): refused by (1) and by (3)
example : silentOK (.ifB [10, 13] (.leaf [.setStep .stateDescriptionTextBracketsInnerNewLine] .done) (.leaf [] .done))
    .stateDescriptionTextBracketsInner = false := by decide +kernel
example : eofOK (.ifB [10, 13] (.leaf [.setStep .stateDescriptionTextBracketsInnerNewLine] .done) (.leaf [] .done))
    .stateDescriptionTextBracketsInner = false := by decide +kernel

end JSight.C14
