import JSight.Model.Scanner
import JSight.Proofs.ScanTrivia
namespace JSight.C14
open JSight Gen ScanLex ScanTrivia

theorem silent_steps_are_trivia : ∀ st ∈ St.all, silentOK (code st) st = true := by decide +kernel

theorem trivia_global : globalOK = true := by decide +kernel

theorem eof_closes_or_rejects : ∀ st ∈ St.all, eofOK (code st) st = true := by decide +kernel

end JSight.C14
