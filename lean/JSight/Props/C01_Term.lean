import JSight.Model.Scanner
import JSight.Proofs.ScanTerm
import JSight.Props.C01_Scanner
/-!
C01 (termination part) — the scanner terminates within explicit bounds: for EVERY file content and EVERY
answer of the schema library, a run of `Scanner.Next()` (model: `interp` / `byteLoop` / `next` / `lexAll`
over the regenerated table `Gen.code`) never exhausts one of the three budgets of the model:

1. the same-byte dispatch chain (`return stateX(s, c)`, `return s.step(s, c)`) has fewer than
   `stepFuel = 16` members (in the current table: at most 5);
2. the byte loop of one call of `Next` makes fewer than `4 * (size + 2)` byte steps
   (proved: at most `4 * size + wMaxC + 1 = 4 * size + 6`, the two rewinds included);
3. a file has at most `size + 1` lexemes, so `size + 2` calls of `Next` reach the end of the file.

With `scanner_no_fault` (`Props/C01_Scanner.lean`) a scan therefore ends cleanly or in a diagnostic,
never in a fault.  No input that defeats a budget of the model's callers exists.

Method (`Proofs/ScanTerm.lean`).
* a certificate `TCert` per state: `regs` (step register while the code runs), `top` / `below` (which
  states can be on top of the step stack / below a stacked state — this decides what a
  `return s.step(s, c)` after `Pop()` can dispatch to), `rank` (strictly decreasing along same-byte
  dispatch), `w` (`4 * cur - w step` strictly increases with every byte step: the `rewind 2` of
  `stateAnnotationSign2` is paid for by `w stateAnnotationSign2 ≥ w stateParameterStart + 5`, the `rewind 1`
  of `stateDescriptionTextNewline` by `w … > w stateExpectKeyword`), `u` (`#lexemes + u step ≤ cur`: a byte
  that completes two lexemes — `)` after a description text — has been paid for by earlier bytes);
* the certificate of the CURRENT table is COMPUTED (`tcert`: closure for `top`/`below`, iteration to the
  least / greatest solution of the difference constraints for `rank`, `w`, `u`);
* `term_table_facts` evaluates the computation and the Bool check `chkCode` of every leaf of every state by
  `decide +kernel` against the regenerated table on every run;
* `interp_term`, `byteStep_term`, `byteLoop_term`, `next_term`, `lexAll_term` are generic in the table and
  the certificate.
-/
namespace JSight.C01
open JSight JSight.Gen JSight.ScanSafe JSight.ScanTerm

/-! ## table facts (re-checked against the regenerated table on every run) -/

/-- (1) every leaf of every state function passes the check against the computed certificate;
(2) ranks are below `stepFuel`, `w ≤ wMaxC`, `u stateRoot = 0`;
(3) the byte budget of the model's callers covers `4 * size + wMaxC + 2` -/
theorem term_table_facts :
    (∀ st ∈ St.all, chkCode tcert st = true) ∧ chkBounds tcert wMaxC = true ∧ wMaxC ≤ 6 := by decide +kernel

theorem tcert_valid : TValid tcert wMaxC :=
  ⟨fun st => term_table_facts.1 st (mem_all st), term_table_facts.2.1⟩

theorem byte_budget (d : Src) : K * d.size + wMaxC + 2 ≤ 4 * (d.size + 2) := by
  have := term_table_facts.2.2
  simp only [K]
  omega

/-! ## (1) the same-byte dispatch chain -/

/-- the shape of the step stack that the dispatch relies on: the top is one the certificate lists for the
running code, every stacked state sits on one the certificate allows; it holds in every configuration a run
passes through (`reach_stack`) -/
def StackShape (st : St) (sc : Sc) : Prop :=
  sc.step ∈ tcert.regs st ∧ TopOK tcert.top st sc.stack ∧ Conf tcert.below sc.stack

/-- **(1)** the same-byte dispatch chain is short: `interp` never runs out of its budget of 16 -/
theorem interp_no_fuel (d : Src) (o : Oracle) (c : UInt8) (st : St) (sc : Sc) (h : StackShape st sc) :
    interp d o c stepFuel st sc ≠ .error (.fault .fuel) := by
  have := interp_term tcert_valid d o c stepFuel st sc (bounds_rank tcert_valid st).1 ⟨h.1, h.2.1, h.2.2⟩
  intro he
  rw [he] at this
  exact this rfl

/-- sharper: a budget above the rank of the state suffices -/
theorem interp_no_fuel_rank (d : Src) (o : Oracle) (c : UInt8) (st : St) (sc : Sc) (h : StackShape st sc)
    (fuel : Nat) (hf : tcert.rank st < fuel) : interp d o c fuel st sc ≠ .error (.fault .fuel) := by
  have := interp_term tcert_valid d o c fuel st sc hf ⟨h.1, h.2.1, h.2.2⟩
  intro he
  rw [he] at this
  exact this rfl

theorem reach_stack {d : Src} {o : Oracle} {sc : Sc} (h : Reach d o sc) : StackShape sc.step sc :=
  ⟨self_regs tcert_valid _, (reach_tinv tcert_valid h).top, (reach_tinv tcert_valid h).conf⟩

/-- (1) for the configurations of a run -/
theorem interp_no_fuel_reach {d : Src} {o : Oracle} {sc : Sc} (h : Reach d o sc) (c : UInt8) :
    interp d o c stepFuel sc.step sc ≠ .error (.fault .fuel) :=
  interp_no_fuel d o c sc.step sc (reach_stack h)

/-- a byte step of a reachable configuration never exhausts a budget -/
theorem byteStep_no_fuel {d : Src} {o : Oracle} {sc : Sc} (h : Reach d o sc) (hle : sc.cur ≤ d.size) :
    byteStep d o sc ≠ .error (.fault .fuel) := by
  have := byteStep_term tcert_valid d o sc (reach_tinv tcert_valid h) hle
  intro he
  rw [he] at this
  exact this rfl

/-! ## (2) the byte loop -/

/-- every byte step makes progress: `4 * cur - w step` strictly increases (the two rewinds included) -/
theorem byteStep_progress {d : Src} {o : Oracle} {sc sc' : Sc} (h : Reach d o sc) (hle : sc.cur ≤ d.size)
    (hs : byteStep d o sc = .ok sc') :
    4 * sc.cur + tcert.w sc'.step + 1 ≤ 4 * sc'.cur + tcert.w sc.step := by
  have := byteStep_term tcert_valid d o sc (reach_tinv tcert_valid h) hle
  rw [hs] at this
  exact this.w

/-- **(2)** the byte loop makes progress: within `4 * (size + 2)` byte steps it returns (a lexeme, the end of
the input, or a stop) -/
theorem byteLoop_no_fuel {d : Src} {o : Oracle} {sc : Sc} (h : Reach d o sc) :
    byteLoop d o (4 * (d.size + 2)) sc ≠ .error (.fault .fuel) := by
  have hb := byte_budget d
  have := byteLoop_term tcert_valid d o 0 (4 * (d.size + 2)) sc (reach_tinv tcert_valid h)
    (reach_q tcert_valid h) (by omega) (by omega)
  intro he
  rw [he] at this
  exact this rfl

/-- the bound that is actually proved: `4 * size + wMaxC + 2` (`wMaxC = 5` in the current table) -/
theorem byteLoop_no_fuel' {d : Src} {o : Oracle} {sc : Sc} (h : Reach d o sc) (fuel : Nat)
    (hf : 4 * d.size + wMaxC + 2 ≤ fuel) : byteLoop d o fuel sc ≠ .error (.fault .fuel) := by
  have := byteLoop_term tcert_valid d o 0 fuel sc (reach_tinv tcert_valid h)
    (reach_q tcert_valid h) (by omega) (by simp only [K]; omega)
  intro he
  rw [he] at this
  exact this rfl

/-- `Next` on a reachable configuration never exhausts a budget -/
theorem next_no_fuel {d : Src} {o : Oracle} {sc : Sc} (h : Reach d o sc) :
    next d o (4 * (d.size + 2)) sc ≠ .error (.fault .fuel) := by
  have := next_term tcert_valid d o 0 (4 * (d.size + 2)) sc (reach_tinv tcert_valid h)
    (reach_q tcert_valid h) (byte_budget d)
  intro he
  rw [he] at this
  exact this rfl

/-! ## (3) the whole file -/

/-- a run of `size + 2` calls of `Next` reaches the end of the file (or a stop) -/
theorem lexAll_no_fuel (d : Src) (o : Oracle) (n : Nat) (hn : d.size + 2 ≤ n) :
    (lexAll d o n Sc.init []).2.1 ≠ some (.fault .fuel) :=
  lexAll_term tcert_valid d o (byte_budget d) n Sc.init [] (tinv_init _) (q_init tcert_valid d)
    (by simpa using hn)

/-- a file has at most `size + 1` lexemes -/
theorem lexeme_count (d : Src) (o : Oracle) (n : Nat) : (lexAll d o n Sc.init []).1.length ≤ d.size + 1 :=
  lexAll_count tcert_valid d o (byte_budget d) n Sc.init [] (tinv_init _) (q_init tcert_valid d)

/-- **(3)** a whole file is scanned within `size + 2` calls of `next`, each within `4 * (size + 2)` byte steps,
each byte within 16 dispatches -/
theorem scanFile_terminates (content : Bytes) (o : Oracle) : (scanFile content o).2.1 ≠ some (.fault .fuel) := by
  unfold scanFile
  split
  · intro h; cases h
  · exact lexAll_no_fuel _ o _ (Nat.le_refl _)

/-- **(4)** … hence, with `scanner_no_fault`: a scan ends cleanly or in a diagnostic, never in a fault -/
theorem scanFile_total (content : Bytes) (o : Oracle) :
    (scanFile content o).2.1 = none ∨ ∃ i, (scanFile content o).2.1 = some (.diag i) ∨
      ∃ e c, (scanFile content o).2.1 = some (.oracleMiss e c) := by
  have h1 := scanFile_terminates content o
  have h2 := scanFile_no_fault content o
  cases h : (scanFile content o).2.1 with
  | none => exact Or.inl rfl
  | some s =>
    rw [h] at h1 h2
    cases s with
    | diag i => exact Or.inr ⟨i, Or.inl rfl⟩
    | fault f =>
      have := h2 f rfl
      subst this
      exact absurd rfl h1
    | oracleMiss e c => exact Or.inr ⟨0, Or.inr ⟨e, c, rfl⟩⟩

/-- the same, without the nested quantifier -/
theorem scanFile_total' (content : Bytes) (o : Oracle) :
    (scanFile content o).2.1 = none ∨ (∃ i, (scanFile content o).2.1 = some (.diag i)) ∨
      ∃ e c, (scanFile content o).2.1 = some (.oracleMiss e c) := by
  rcases scanFile_total content o with h | ⟨i, h | h⟩
  · exact Or.inl h
  · exact Or.inr (Or.inl ⟨i, h⟩)
  · exact Or.inr (Or.inr h)

/-! ## the certificate is not trivial, the check is sensitive -/

def isFuel : Except Stop Sc → Bool
  | .error (.fault .fuel) => true
  | _ => false

-- the longest dispatch chain of the current table has 5 members
-- (`stateAnnotationTextStart → stateAnnotation → Pop → state…BodyOrKeyword → state…Body → Pop → stateJSchema`):
-- after `Request //` the end-of-file byte needs a budget of 5
example : tcert.rank .stateAnnotationTextStart = 4 ∧ tcert.rank .stateRoot = 1 ∧ tcert.rank .stateExpectKeyword = 0 := by
  decide +kernel
example :
    let sc : Sc := { Sc.init with step := .stateAnnotationTextStart, stack := [.stateRequestBodyOrKeyword], cur := 10 }
    isFuel (interp (Src.ofList [82, 101, 113, 117, 101, 115, 116, 32, 47, 47]) sampleOracle 0 4 sc.step sc) = true ∧
    isFuel (interp (Src.ofList [82, 101, 113, 117, 101, 115, 116, 32, 47, 47]) sampleOracle 0 5 sc.step sc) = false := by
  decide +kernel
-- the rewinds are paid for by the potential
example : tcert.w .stateAnnotationSign2 = 5 ∧ tcert.w .stateParameterStart = 0 ∧
    tcert.w .stateDescriptionTextNewline = 1 ∧ tcert.w .stateExpectKeyword = 0 ∧ wMaxC = 5 := by decide +kernel
-- what a `Pop()` can dispatch to is known: `stateRequestBody` only ever pops `stateRegex` / `stateJSchema`
example : tcert.top .stateRequestBody = bit .stateRegex ||| bit .stateJSchema := by decide +kernel
-- a byte that completes two lexemes has been paid for
example : tcert.u .stateDescriptionTextNewline = 1 ∧ tcert.u .stateRoot = 0 ∧ tcert.u .stateExpectKeyword = 0 := by
  decide +kernel
-- state functions that would not terminate are refused: a self-dispatch, a rewind without progress,
-- a lexeme for nothing
example :
    chkLeaf tcert .stateExpectKeyword .stateExpectKeyword ([], .redispatch) = false ∧
    chkLeaf tcert .stateExpectKeyword .stateExpectKeyword ([.rewind 1], .done) = false ∧
    chkLeaf tcert .stateContextClosed .stateContextClosed ([.found .contextClose 0, .rewind 1], .done) = false ∧
    chkLeaf tcert .stateExpectKeyword .stateExpectKeyword ([.found .contextOpen 0, .found .contextClose 0], .done) = false ∧
    chkLeaf tcert .stateExpectKeyword .stateExpectKeyword ([], .done) = true := by decide +kernel

end JSight.C01
