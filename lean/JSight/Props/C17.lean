import JSight.Model.Unescape
/-!
C17 — Parameters round-trip.  Property theorems only.
-/
namespace JSight.C17
open JSight

theorem unescBody_escBody (v : Bytes) : unescBody (escBody v) = v := by
  induction v with
  | nil => rfl
  | cons c rest ih =>
    unfold escBody
    by_cases h : (c == B.quote || c == B.bsl) = true
    · rw [if_pos h]
      simp only [unescBody, beq_self_eq_true, h, Bool.and_self, if_true, ih]
    · rw [if_neg h]
      have hcb : (c == B.bsl) = false := by
        cases hcb : c == B.bsl
        · rfl
        · rw [hcb] at h; simp at h
      cases hr : escBody rest with
      | nil =>
        have : rest = [] := by
          cases rest with
          | nil => rfl
          | cons a t => unfold escBody at hr; split at hr <;> simp at hr
        subst this
        simp [unescBody]
      | cons d t =>
        rw [unescBody, hcb, Bool.false_and]
        simp only [Bool.false_eq_true, if_false]
        rw [← hr, ih]

/-- **C17.roundtrip** — for *every* byte string `v`, the quoted spelling is read back exactly. -/
theorem roundtrip (v : Bytes) : unescape (quoteParam v) = v := by
  have hl : (quoteParam v).getLast? = some B.quote := by
    show ((B.quote :: escBody v) ++ [B.quote]).getLast? = _
    rw [List.getLast?_append]; simp
  have hq : inQuotes (quoteParam v) = true := by
    simp only [inQuotes, hl]
    simp [quoteParam]
  unfold unescape
  rw [if_pos hq]
  simp [quoteParam, unescBody_escBody]

/-- A value that is not in quotes means itself (bare spelling). -/
theorem bare (v : Bytes) (h : inQuotes v = false) : unescape v = v := by
  simp [unescape, h]

/-- **C17.bare_eq_quoted** — a value that needs no quotes means the same with or without them. -/
theorem bare_eq_quoted (v : Bytes) (h : inQuotes v = false) :
    unescape v = unescape (quoteParam v) := by
  rw [roundtrip, bare v h]

/-- The early return of the Go code (`IndexByte(b,'\\') == -1`) agrees with the loop. -/
theorem unescBody_noBsl (b : Bytes) (h : B.bsl ∉ b) : unescBody b = b := by
  induction b with
  | nil => rfl
  | cons c rest ih =>
    cases rest with
    | nil => rfl
    | cons d t =>
      have hc : (c == B.bsl) = false := by
        cases hcb : c == B.bsl
        · rfl
        · exfalso; apply h; simp [beq_iff_eq.mp hcb]
      have hr : B.bsl ∉ d :: t := fun hm => h (List.mem_cons_of_mem _ hm)
      simp [unescBody, hc, ih hr]

-- non-vacuity: concrete non-trivial instances
example : unescape (quoteParam [97, B.bsl, B.quote, B.bsl, B.bsl, 98]) = [97, B.bsl, B.quote, B.bsl, B.bsl, 98] := by
  decide
example : quoteParam [97, B.bsl, B.quote] = [34, 97, 92, 92, 92, 34, 34] := by decide
example : inQuotes [47, 97] = false ∧ unescape [47, 97] = [47, 97] := by decide

end JSight.C17
