import JSight.Model.IncludeBans
import JSight.Proofs.IncludeBans
import JSight.Props.C08_Include
/-!
C18 (multi-file part) — `core.WithBannedDirectives` during the scan of a project with INCLUDE
(`scanIncFileB` / `scanProjectB` of `JSight/Model/IncludeBans.lean`, against `scanIncFile` / `scanProject` of
`JSight/Model/Include.lean`).  Property theorems only (helpers in `JSight/Proofs/IncludeBans.lean`).

`liftB r` (Proofs) `= r.mapError ProjErr.toB`: a result of the scan without bans in the error type of the scan with bans.
`Clean banned toks` (Proofs): no `dir` token of a banned kind in `toks`, and, if INCLUDE is banned, no `incl` token.
`dirsOf forest` (Proofs): the directives of the pre-order token stream `flattenForest forest`.
`Live fs root stack cur` (`Proofs/Include.lean`, see `Props/C08_Include.lean`): the include stacks the scan can build from
the root file, i.e. `cur` is a file that is read (below `stack`).
-/
namespace JSight.C18I
open JSight JSight.Gen JSight.C08

/-! ## (2) a banned INCLUDE is refused at the INCLUDE -/

/-- (2) at a banned INCLUDE: the directive written before it is placed first (repair F42: `processInclude` starts
    with `processCurrentDirective`; its context error wins), otherwise the result is `notAllowed` AT the INCLUDE,
    whatever it names (a refused name, a missing file, a directory, a file that is already on the include stack);
    nothing behind it is looked at and no file is read (`rest`, `fs`, `f`, `valid` are arbitrary) -/
theorem banned_include_refused (banned : List Kind) (hb : banned.contains Kind.Include = true) (fs : FS)
    (fuel : Nat) (stack : List (Nat × Nat)) (cur pos f : Nat) (valid : Bool) (rest : List FTok) (st : PScan) :
    scanIncFileB banned fs (fuel + 1) stack cur pos (FTok.incl f valid :: rest) st =
      match flushPending st with
      | .error e => .error e.toB
      | .ok _ => .error (.notAllowed cur pos) :=
  incl_head_banned banned hb fs fuel stack cur pos f valid rest st

/-- (2, the usual case) the directive written before the INCLUDE can be placed: refused AT the INCLUDE -/
theorem banned_include_refused_at (banned : List Kind) (hb : banned.contains Kind.Include = true) (fs : FS)
    (fuel : Nat) (stack : List (Nat × Nat)) (cur pos f : Nat) (valid : Bool) (rest : List FTok) (st st' : PScan)
    (hfl : flushPending st = .ok st') :
    scanIncFileB banned fs (fuel + 1) stack cur pos (FTok.incl f valid :: rest) st = .error (.notAllowed cur pos) := by
  rw [banned_include_refused banned hb fs fuel stack cur pos f valid rest st, hfl]

/-- (2, never accepted) whatever the fuel and the state -/
theorem banned_include_not_ok (banned : List Kind) (hb : banned.contains Kind.Include = true) (fs : FS)
    (fuel : Nat) (stack : List (Nat × Nat)) (cur pos f : Nat) (valid : Bool) (rest : List FTok) (st r : PScan) :
    scanIncFileB banned fs fuel stack cur pos (FTok.incl f valid :: rest) st ≠ .ok r :=
  incl_head_banned_not_ok banned hb fs fuel stack cur pos f valid rest st r

/-! ## (3) a directive of a banned kind is refused at that directive -/

/-- (3) at a directive of a banned kind: the previous directive is placed first (its error wins), then JSIGHT inside an
    included file is refused, otherwise the result is `notAllowed` AT that directive; nothing behind it is looked at
    (`rest`, `fs` are arbitrary) -/
theorem banned_directive_refused (banned : List Kind) (fs : FS) (fuel : Nat) (stack : List (Nat × Nat))
    (cur pos : Nat) (d : Dir) (rest : List FTok) (st : PScan) (hb : banned.contains d.kind = true) :
    scanIncFileB banned fs (fuel + 1) stack cur pos (FTok.dir d :: rest) st =
      match flushPending st with
      | .error e => .error e.toB
      | .ok _ =>
        if d.kind == Kind.Jsight && !stack.isEmpty then .error (.inc (.jsightInIncluded cur pos))
        else .error (.notAllowed cur pos) :=
  dir_head_banned banned fs fuel stack cur pos d rest st hb

/-- (3, the usual case) the previous directive can be placed and the directive is not a JSIGHT inside an included file -/
theorem banned_directive_refused_at (banned : List Kind) (fs : FS) (fuel : Nat) (stack : List (Nat × Nat))
    (cur pos : Nat) (d : Dir) (rest : List FTok) (st st' : PScan) (hb : banned.contains d.kind = true)
    (hfl : flushPending st = .ok st') (hj : d.kind ≠ Kind.Jsight ∨ stack = []) :
    scanIncFileB banned fs (fuel + 1) stack cur pos (FTok.dir d :: rest) st = .error (.notAllowed cur pos) := by
  rw [banned_directive_refused banned fs fuel stack cur pos d rest st hb, hfl]
  have : (d.kind == Kind.Jsight && !stack.isEmpty) = false := by
    rcases hj with h | h
    · have : (d.kind == Kind.Jsight) = false := by simpa using h
      rw [this]; rfl
    · subst h; simp
  simp only [this, Bool.false_eq_true, ↓reduceIte]

/-- (3, never accepted) whatever the fuel and the state -/
theorem banned_directive_not_ok (banned : List Kind) (fs : FS) (fuel : Nat) (stack : List (Nat × Nat))
    (cur pos : Nat) (d : Dir) (rest : List FTok) (st r : PScan) (hb : banned.contains d.kind = true) :
    scanIncFileB banned fs fuel stack cur pos (FTok.dir d :: rest) st ≠ .ok r :=
  dir_head_banned_not_ok banned fs fuel stack cur pos d rest st r hb

/-! ## (5) the option changes nothing else -/

/-- (5, scan level) the only difference the bans make is a `notAllowed` error -/
theorem bans_only_refuse_scan (banned : List Kind) (fs : FS) (fuel : Nat) (stack : List (Nat × Nat))
    (cur pos : Nat) (toks : List FTok) (st : PScan) :
    scanIncFileB banned fs fuel stack cur pos toks st = liftB (scanIncFile fs fuel stack cur pos toks st) ∨
    ∃ c p, scanIncFileB banned fs fuel stack cur pos toks st = .error (.notAllowed c p) :=
  scanIncFileB_cases banned fs fuel stack cur pos toks st

/-- (5, general) the result of a project under bans is the result without bans, or a `notAllowed` error -/
theorem bans_only_refuse (banned : List Kind) (fs : FS) (root : Nat) :
    scanProjectB banned fs root = (scanProject fs root).mapError ProjErr.toB ∨
    ∃ c p, scanProjectB banned fs root = .error (.notAllowed c p) := by
  unfold scanProjectB scanProject
  cases fs.get? root with
  | none => left; rfl
  | some e =>
    cases e with
    | directory => left; rfl
    | file toks =>
      simp only []
      rcases scanIncFileB_cases banned fs ((fs.length + 2) * (fsSize fs + 2) + 2) [] root 0 toks {} with h | ⟨c, p, h⟩
      · left
        rw [h]
        cases scanIncFile fs ((fs.length + 2) * (fsSize fs + 2) + 2) [] root 0 toks {} <;> rfl
      · right; rw [h]; exact ⟨c, p, rfl⟩

/-- (5) if no regular file of the project contains a directive of a banned kind, and either INCLUDE is not banned or
    no file contains an INCLUDE, the result is exactly the result without the option.  (Only the entry that `FS.get?`
    finds for a file id counts.) -/
theorem unbanned_same (banned : List Kind) (fs : FS) (root : Nat)
    (h : ∀ n toks, fs.get? n = some (.file toks) → Clean banned toks) :
    scanProjectB banned fs root = (scanProject fs root).mapError ProjErr.toB := by
  unfold scanProjectB scanProject
  cases hr : fs.get? root with
  | none => rfl
  | some e =>
    cases e with
    | directory => rfl
    | file toks =>
      simp only []
      rw [scanIncFileB_clean banned fs h _ [] root 0 toks {} (h root toks hr)]
      cases scanIncFile fs ((fs.length + 2) * (fsSize fs + 2) + 2) [] root 0 toks {} <;> rfl

/-- (5, stated on the entries of the file system) -/
theorem unbanned_same' (banned : List Kind) (fs : FS) (root : Nat)
    (hd : ∀ n toks, (n, FEntry.file toks) ∈ fs → ∀ d, FTok.dir d ∈ toks → banned.contains d.kind = false)
    (hi : banned.contains Kind.Include = false ∨ ∀ n toks, (n, FEntry.file toks) ∈ fs → ∀ f v, FTok.incl f v ∉ toks) :
    scanProjectB banned fs root = (scanProject fs root).mapError ProjErr.toB := by
  apply unbanned_same
  intro n toks hg
  have hm := get?_mem hg
  exact ⟨hd n toks hm, hi.imp id (fun h => h n toks hm)⟩

/-- (5) with no bans the result is the one of `scanProject` -/
theorem no_bans (fs : FS) (root : Nat) : scanProjectB [] fs root = (scanProject fs root).mapError ProjErr.toB :=
  unbanned_same [] fs root (fun _ toks _ => Clean.empty toks)

/-- (5, accepted) what is accepted under bans is accepted without them, with the same forest and traces -/
theorem accepted_same (banned : List Kind) (fs : FS) (root : Nat) (res : List Tree × List (Nat × List (Nat × Nat)))
    (h : scanProjectB banned fs root = .ok res) : scanProject fs root = .ok res := by
  rcases bans_only_refuse banned fs root with h' | ⟨c, p, h'⟩
  · rw [h] at h'
    cases hp : scanProject fs root with
    | error e => rw [hp] at h'; cases h'
    | ok r => rw [hp] at h'; cases h'; rfl
  · rw [h] at h'; cases h'

/-- (5, bounded) the scan under bans never runs out of fuel either -/
theorem scanProjectB_no_fuel (banned : List Kind) (fs : FS) (root : Nat) :
    scanProjectB banned fs root ≠ .error (.inc .fuel) := by
  intro h
  rcases bans_only_refuse banned fs root with h' | ⟨c, p, h'⟩
  · rw [h] at h'
    cases hp : scanProject fs root with
    | ok r => rw [hp] at h'; cases h'
    | error e =>
      rw [hp] at h'
      cases e with
      | ctx e => cases h'
      | inc e =>
        have : e = .fuel := by
          have : ProjErrB.inc InclErr.fuel = ProjErrB.inc e := by injection h'
          injection this with this; exact this.symm
        subst this
        exact scanProject_no_fuel fs root hp
  · rw [h] at h'; cases h'

/-! ## (1) nothing is read behind a banned INCLUDE -/

/-- (1, scan level) with INCLUDE banned, the scan of a file does not depend on the file system, nor on the amount of
    fuel as long as there is more fuel than tokens -/
theorem banned_include_reads_nothing_scan (banned : List Kind) (hb : banned.contains Kind.Include = true)
    (fs fs' : FS) (fuel fuel' : Nat) (stack : List (Nat × Nat)) (cur pos : Nat) (toks : List FTok) (st : PScan)
    (hf : toks.length < fuel) (hf' : toks.length < fuel') :
    scanIncFileB banned fs fuel stack cur pos toks st = scanIncFileB banned fs' fuel' stack cur pos toks st := by
  rw [scanIncFileB_flat banned hb fs stack cur toks fuel pos st hf,
    scanIncFileB_flat banned hb fs' stack cur toks fuel' pos st hf']

/-- (1) NO FILE IS READ behind a banned INCLUDE: with INCLUDE banned the result of a project depends on its root file
    only — also when the directive written before the INCLUDE cannot be placed: its context error comes first
    (`banned_include_refused`), and still no file is read.  No hypothesis on the sizes: `scanProjectB` passes an amount of fuel that depends on the whole file system,
    but more than the root file has tokens in both cases, and then the amount does not matter (`scanIncFileB_flat`). -/
theorem banned_include_reads_nothing (banned : List Kind) (hb : banned.contains Kind.Include = true)
    (fs fs' : FS) (root : Nat) (h : fs.get? root = fs'.get? root) :
    scanProjectB banned fs root = scanProjectB banned fs' root := by
  rw [scanProjectB_flat banned hb fs root, scanProjectB_flat banned hb fs' root, h]

/-- (1, corollary) in particular the other files may be removed -/
theorem banned_include_root_only (banned : List Kind) (hb : banned.contains Kind.Include = true)
    (fs : FS) (root : Nat) (toks : List FTok) (h : fs.get? root = some (.file toks)) :
    scanProjectB banned fs root = scanProjectB banned [(root, .file toks)] root := by
  apply banned_include_reads_nothing banned hb
  rw [h]; simp [FS.get?]

/-! ## (4) accepted ⇒ no directive of a banned kind was read

`dirsOf forest` (Proofs): the directives of the pre-order token stream `flattenForest forest`. -/

/-- (4) if a project is accepted under bans, every directive of the resulting forest has an unbanned kind -/
theorem accepted_has_no_banned (banned : List Kind) (fs : FS) (root : Nat) (forest : List Tree)
    (traces : List (Nat × List (Nat × Nat))) (h : scanProjectB banned fs root = .ok (forest, traces)) :
    ∀ d ∈ dirsOf forest, banned.contains d.kind = false := by
  obtain ⟨toks, st, _, hscan, hres⟩ := scanProjectB_ok h
  cases hres
  obtain ⟨hs, _, hx⟩ := scanIncFileB_StAll banned fs (fun d => banned.contains d.kind = false) (fun _ h => h)
    _ _ _ _ _ _ _ hscan (StAll_init _)
  intro d hd
  rw [mem_dirsOf, C05P.closeAll_flat _ _ (hx rfl)] at hd
  exact hs.1 d hd

/-- (4, files) if a project is accepted under bans, EVERY FILE THAT IS READ — the root file and every file reached
    through a chain of INCLUDEs (`Live`, see `Props/C08_Include.lean`) — contains no directive of a banned kind, and
    no INCLUDE at all if INCLUDE is banned -/
theorem accepted_reads_no_banned (banned : List Kind) (fs : FS) (root : Nat)
    (res : List Tree × List (Nat × List (Nat × Nat))) (h : scanProjectB banned fs root = .ok res)
    (stack : List (Nat × Nat)) (cur : Nat) (all : List FTok) (hl : Live fs root stack cur)
    (hc : fs.get? cur = some (.file all)) :
    (∀ d, FTok.dir d ∈ all → banned.contains d.kind = false) ∧
    (banned.contains Kind.Include = true → ∀ f v, FTok.incl f v ∉ all) := by
  obtain ⟨toks, st, hr, hscan, _⟩ := scanProjectB_ok h
  obtain ⟨all', fuel, st1, r1, hc', h1⟩ := live_visited banned fs root toks _ {} st hr hscan stack cur hl
  rw [hc] at hc'
  cases hc'
  have hcl := ok_clean banned fs fuel stack cur 0 all st1 r1 h1
  refine ⟨hcl.1, ?_⟩
  intro hb
  rcases hcl.2 with h2 | h2
  · rw [hb] at h2; cases h2
  · exact h2

/-- (4, INCLUDE banned) an accepted project has no INCLUDE in its root file, and every directive was read in the root
    file (its recorded include trace is empty) -/
theorem accepted_include_banned (banned : List Kind) (hb : banned.contains Kind.Include = true) (fs : FS) (root : Nat)
    (forest : List Tree) (traces : List (Nat × List (Nat × Nat)))
    (h : scanProjectB banned fs root = .ok (forest, traces)) :
    (∀ toks, fs.get? root = some (.file toks) → ∀ f v, FTok.incl f v ∉ toks) ∧ ∀ e ∈ traces, e.2 = [] := by
  refine ⟨?_, ?_⟩
  · intro toks hr
    exact (accepted_reads_no_banned banned fs root _ h [] root toks Live.root hr).2 hb
  · obtain ⟨toks, st, _, hscan, hres⟩ := scanProjectB_ok h
    cases hres
    rw [scanIncFileB_flat banned hb fs [] root toks _ 0 {} (project_fuel_gt ‹_›)] at hscan
    intro e he
    rcases scanFlatB_traces banned [] root toks 0 {} st hscan e he with h1 | h1
    · cases h1
    · exact h1

/-- (4, rejected) EVERY PROJECT IN WHICH A DIRECTIVE OF A BANNED KIND OCCURS in a file that is read — the root file or
    a file reached through INCLUDEs — or, if INCLUDE is banned, an INCLUDE, is rejected: with a `notAllowed`
    diagnostic, or with the very diagnostic the project gets without the option (it is faulty anyway, earlier) -/
theorem banned_read_rejected (banned : List Kind) (fs : FS) (root : Nat)
    (stack : List (Nat × Nat)) (cur : Nat) (all : List FTok) (hl : Live fs root stack cur)
    (hc : fs.get? cur = some (.file all))
    (hb : (∃ d, FTok.dir d ∈ all ∧ banned.contains d.kind = true) ∨
          (banned.contains Kind.Include = true ∧ ∃ f v, FTok.incl f v ∈ all)) :
    (∃ c p, scanProjectB banned fs root = .error (.notAllowed c p)) ∨
    (∃ e, scanProject fs root = .error e ∧ scanProjectB banned fs root = .error e.toB) := by
  have hno : ∀ res, scanProjectB banned fs root ≠ .ok res := by
    intro res h
    have := accepted_reads_no_banned banned fs root res h stack cur all hl hc
    rcases hb with ⟨d, hm, hk⟩ | ⟨hi, f, v, hm⟩
    · rw [this.1 d hm] at hk; cases hk
    · exact this.2 hi f v hm
  rcases bans_only_refuse banned fs root with h' | h'
  · right
    cases hp : scanProject fs root with
    | ok r => rw [hp] at h'; exact absurd h' (hno r)
    | error e => rw [hp] at h'; exact ⟨e, rfl, h'⟩
  · exact Or.inl h'

/-! ## (6) the diagnostic points at a banned directive -/

/-- (6) a `notAllowed` diagnostic names a file that is read (`Live`) and the position of a token of that file which is a
    directive of a banned kind, or an INCLUDE while INCLUDE is banned -/
theorem notAllowed_points_at_banned (banned : List Kind) (fs : FS) (root c p : Nat)
    (h : scanProjectB banned fs root = .error (.notAllowed c p)) :
    ∃ stack all, Live fs root stack c ∧ fs.get? c = some (.file all) ∧
      ((∃ d, all[p]? = some (FTok.dir d) ∧ banned.contains d.kind = true) ∨
       (∃ f v, all[p]? = some (FTok.incl f v) ∧ banned.contains Kind.Include = true)) := by
  unfold scanProjectB at h
  cases hr : fs.get? root with
  | none => rw [hr] at h; cases h
  | some e =>
    cases e with
    | directory => rw [hr] at h; cases h
    | file toks =>
      rw [hr] at h
      simp only [] at h
      split at h
      · rename_i e he
        cases h
        exact notAllowed_sound banned fs root _ [] root 0 toks {} toks c p Live.root hr (by simp) he
      · cases h

/-- (5, sharp) A PROJECT CONTAINING NONE OF THE BANNED KINDS GIVES EXACTLY THE RESULT IT GIVES WITHOUT THE OPTION, where
    the project is the set of files that are read (the root file and what is reached through INCLUDEs, `Live`); files
    that are never read may contain anything.  (The converse of `accepted_reads_no_banned` / `banned_read_rejected`.) -/
theorem unbanned_read_same (banned : List Kind) (fs : FS) (root : Nat)
    (h : ∀ stack cur all, Live fs root stack cur → fs.get? cur = some (.file all) → Clean banned all) :
    scanProjectB banned fs root = (scanProject fs root).mapError ProjErr.toB := by
  rcases bans_only_refuse banned fs root with h' | ⟨c, p, h'⟩
  · exact h'
  · exfalso
    obtain ⟨stack, all, hl, hc, hb⟩ := notAllowed_points_at_banned banned fs root c p h'
    have hcl := h stack c all hl hc
    rcases hb with ⟨d, hp, hk⟩ | ⟨f, v, hp, hk⟩
    · rw [hcl.1 d (List.mem_of_getElem? hp)] at hk; cases hk
    · rcases hcl.2 with h2 | h2
      · rw [hk] at h2; cases h2
      · exact h2 f v (List.mem_of_getElem? hp)

/-! ## Non-vacuity checks -/

local instance : DecidableEq Tree := decTree
local instance {ε α : Type} [DecidableEq ε] [DecidableEq α] : DecidableEq (Except ε α) := decExcept

private def jsightD : Dir := { kind := .Jsight, id := 1 }
private def urlD : Dir := { kind := .URL, id := 2 }
private def getA : Dir := { kind := .Get, id := 3 }
private def getB : Dir := { kind := .Get, id := 4 }
private def tyD : Dir := { kind := .Type, id := 5 }
private def tyE : Dir := { kind := .Type, id := 6 }

/-- a 3-file project: file 0 includes file 1, which includes file 2, which holds a TYPE (position 1) and then an
    INCLUDE of a missing file -/
private def fs3 : FS :=
  [(0, .file [.dir jsightD, .dir urlD, .incl 1, .dir tyD]),
   (1, .file [.dir getA, .incl 2]),
   (2, .file [.dir getB, .dir tyE, .incl 9])]

/-- TYPE banned: refused at the TYPE inside the second included file (file 2, position 1), before the INCLUDE of the
    missing file behind it and before the TYPE of the root file -/
example : scanProjectB [.Type] fs3 0 = .error (.notAllowed 2 1) := by decide +kernel

/-- another kind banned: the result without the option (the missing file is found) -/
example : scanProjectB [.Enum] fs3 0 = .error (.inc (.missing 2 2)) := by decide +kernel
example : scanProject fs3 0 = .error (.inc (.missing 2 2)) := by decide +kernel

/-- INCLUDE banned, the target is missing: refused at the INCLUDE (position 1 of file 0), not as "missing" -/
example : scanProjectB [.Include] [(0, .file [.dir urlD, .incl 7])] 0 = .error (.notAllowed 0 1) := by decide +kernel
/-- the same project without bans -/
example : scanProjectB [] [(0, .file [.dir urlD, .incl 7])] 0 = .error (.inc (.missing 0 1)) := by decide +kernel
example : scanProject [(0, .file [.dir urlD, .incl 7])] 0 = .error (.inc (.missing 0 1)) := by decide +kernel

/-- INCLUDE banned: a refused name, a directory, a self-INCLUDE — all refused at the INCLUDE -/
example : scanProjectB [.Include] [(0, .file [.dir urlD, .incl 1 false])] 0 = .error (.notAllowed 0 1) := by
  decide +kernel
example : scanProjectB [.Include] [(0, .file [.dir urlD, .incl 1]), (1, .directory)] 0 = .error (.notAllowed 0 1) := by
  decide +kernel
example : scanProjectB [.Include] [(0, .file [.dir urlD, .incl 0])] 0 = .error (.notAllowed 0 1) := by decide +kernel

/-- INCLUDE banned: the pending directive (a misplaced Body) is placed BEFORE the INCLUDE is refused (repair F42): its
    context error wins; a directive that can be placed (the URL above) is placed and the INCLUDE is refused -/
example : scanProjectB [.Include] [(0, .file [.dir { kind := .Body, id := 9 }, .incl 7])] 0
    = .error (.ctx (.incorrectContext 9)) := by decide +kernel
/-- … and without the ban as well (the INCLUDE names a missing file) -/
example : scanProjectB [] [(0, .file [.dir { kind := .Body, id := 9 }, .incl 7])] 0
    = .error (.ctx (.incorrectContext 9)) := by decide +kernel

/-- the left alternative of `banned_directive_refused`: the previous directive is placed first -/
example : scanProjectB [.Type] [(0, .file [.dir { kind := .Body, id := 9 }, .dir tyD])] 0
    = .error (.ctx (.incorrectContext 9)) := by decide +kernel
/-- JSIGHT banned, inside an included file: the JSIGHT-in-included error wins -/
example : scanProjectB [.Jsight] [(0, .file [.incl 1]), (1, .file [.dir jsightD])] 0
    = .error (.inc (.jsightInIncluded 1 0)) := by decide +kernel
/-- JSIGHT banned, in the root file -/
example : scanProjectB [.Jsight] [(0, .file [.dir jsightD])] 0 = .error (.notAllowed 0 0) := by decide +kernel

/-- a project without banned kinds is accepted with the forest and the traces it has without the option -/
example :
    scanProjectB [.Enum, .Macro]
      [(0, .file [.dir jsightD, .dir urlD, .incl 1, .dir tyD]), (1, .file [.dir getA, .incl 2]), (2, .file [.dir getB])] 0
      = .ok ([.node jsightD [], .node urlD [.node getA [], .node getB []], .node tyD []],
             [(1, []), (2, []), (3, [(0, 2)]), (4, [(1, 1), (0, 2)]), (5, [])]) := by decide +kernel

/-- a file that is never read may contain a banned kind (`unbanned_read_same`) -/
example : scanProjectB [.Type] [(0, .file [.dir urlD, .dir getA]), (1, .file [.dir tyD])] 0
    = .ok ([.node urlD [.node getA []]], [(2, []), (3, [])]) := by decide +kernel

/-- under bans too, the unclosed-parenthesis check is made at the end of the root file only (repair of `processEOF`):
    `URL /a⏎(⏎  INCLUDE 1⏎)` is accepted; left open at the end of the root file it is refused -/
example : scanProjectB [.Enum] [(0, .file [.dir { kind := .URL, id := 7, explicit := true }, .incl 1, .close]),
      (1, .file [.dir getA])] 0
    = .ok ([.node { kind := .URL, id := 7, explicit := true } [.node getA []]], [(7, []), (3, [(0, 1)])]) := by
  decide +kernel
example : scanProjectB [.Enum] [(0, .file [.dir { kind := .URL, id := 7, explicit := true }, .incl 1]),
      (1, .file [.dir getA])] 0 = .error (.ctx .unclosedAtEOF) := by decide +kernel

/-- `dirsOf` -/
example : (dirsOf [.node urlD [.node getA []], .node tyD []]).map (·.id) = [2, 3, 5] := by decide +kernel

end JSight.C18I
