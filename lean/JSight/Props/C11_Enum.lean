import JSight.Model.Build
/-!
C11 — ENUM declarations (`Build.checkRules`: model of `core/compile_core_rules.go collectRules / buildRule` and
`Catalog.AddEnum`): of two top-level ENUM directives with one name the SECOND is never accepted, whatever stands before,
between and after them; an ENUM without a name and (F70) an ENUM without a body are refused; a forest whose ENUMs have
pairwise distinct non-empty names passes the stage.
-/
namespace JSight.C11E
open JSight JSight.Build JSight.Gen

/-- a top-level ENUM directive with the name `n` (with or without a body) -/
def isEnumNamed (n : Bytes) (t : BTree) : Prop :=
  t.dir.kind = .Enum ∧ t.dir.param "Name" = n

def isErr {α} : R α → Bool | .ok _ => false | .error _ => true

theorem contains_append_left {seen : List Bytes} {n : Bytes} (m : Bytes) (h : seen.contains n = true) :
    (seen ++ [m]).contains n = true := by
  simp only [List.contains_eq_mem, List.mem_append, decide_eq_true_eq] at h ⊢
  exact Or.inl h

/-- once the name is registered, a later ENUM of that name is refused (or something before it is) -/
theorem later_refused (n : Bytes) (hn : n ≠ []) (b : BTree) (hb : isEnumNamed n b) (post : List BTree) :
    ∀ (mid : List BTree) (seen : List Bytes), seen.contains n = true →
      isErr (checkRules (mid ++ b :: post) seen) = true
  | [], seen, hs => by
    obtain ⟨hk, hname⟩ := hb
    simp only [List.nil_append]
    unfold checkRules
    have hm : n ∈ seen := by simpa using hs
    simp only [hk, hname, beq_self_eq_true, ↓reduceIte]
    split
    · simp [isErr, fail]
    · split
      · simp [isErr, fail]
      · simp [hm, isErr, fail]
  | t :: mid, seen, hs => by
    simp only [List.cons_append]
    unfold checkRules
    simp only
    split
    · split
      · simp [isErr, fail]
      · split
        · simp [isErr, fail]
        · split
          · simp [isErr, fail]
          · exact later_refused n hn b hb post mid _ (contains_append_left _ hs)
    · exact later_refused n hn b hb post mid seen hs

/-- **a second ENUM of one name is never accepted** -/
theorem duplicate_enum_rejected (n : Bytes) (hn : n ≠ []) (a b : BTree) (ha : isEnumNamed n a) (hb : isEnumNamed n b)
    (post : List BTree) : ∀ (pre mid : List BTree) (seen : List Bytes),
      isErr (checkRules (pre ++ a :: mid ++ b :: post) seen) = true
  | [], mid, seen => by
    obtain ⟨hk, hname⟩ := ha
    simp only [List.nil_append, List.cons_append]
    unfold checkRules
    simp only [hk, hname]
    simp only [beq_self_eq_true, ↓reduceIte]
    split
    · simp [isErr, fail]
    · split
      · simp [isErr, fail]
      · split
        · simp [isErr, fail]
        · exact later_refused n hn b hb post mid _ (by simp)
  | t :: pre, mid, seen => by
    simp only [List.cons_append]
    unfold checkRules
    simp only
    split
    · split
      · simp [isErr, fail]
      · split
        · simp [isErr, fail]
        · split
          · simp [isErr, fail]
          · have := duplicate_enum_rejected n hn a b ha hb post pre mid (seen ++ [t.dir.param "Name"])
            simpa [List.cons_append] using this
    · have := duplicate_enum_rejected n hn a b ha hb post pre mid seen
      simpa [List.cons_append] using this

/-- an ENUM without a name is refused -/
theorem nameless_enum_rejected (a : BTree) (ha : isEnumNamed [] a) (post : List BTree) :
    ∀ (pre : List BTree) (seen : List Bytes), isErr (checkRules (pre ++ a :: post) seen) = true
  | [], seen => by
    obtain ⟨hk, hname⟩ := ha
    simp only [List.nil_append]
    unfold checkRules
    simp [hk, hname, isErr, fail]
  | t :: pre, seen => by
    simp only [List.cons_append]
    unfold checkRules
    simp only
    split
    · split
      · simp [isErr, fail]
      · split
        · simp [isErr, fail]
        · split
          · simp [isErr, fail]
          · exact nameless_enum_rejected a ha post pre _
    · exact nameless_enum_rejected a ha post pre seen

/-- (F70) an ENUM without a body is refused, whatever its name -/
theorem bodiless_enum_rejected (a : BTree) (hk : a.dir.kind = .Enum) (hb : a.dir.body = none) (post : List BTree) :
    ∀ (pre : List BTree) (seen : List Bytes), isErr (checkRules (pre ++ a :: post) seen) = true
  | [], seen => by
    simp only [List.nil_append]
    unfold checkRules
    simp only [hk, beq_self_eq_true, ↓reduceIte, hb, Option.isNone_none]
    split <;> simp [isErr, fail]
  | t :: pre, seen => by
    simp only [List.cons_append]
    unfold checkRules
    simp only
    split
    · split
      · simp [isErr, fail]
      · split
        · simp [isErr, fail]
        · split
          · simp [isErr, fail]
          · exact bodiless_enum_rejected a hk hb post pre _
    · exact bodiless_enum_rejected a hk hb post pre seen

/-! non-vacuity -/
def en (id : Nat) (name : String) : BTree :=
  .node { kind := .Enum, id := id, named := [("Name", name.toUTF8.toList)], body := some [91, 49, 93] } []
def ty (id : Nat) : BTree := .node { kind := .Type, id := id, named := [("Name", "@t".toUTF8.toList)], body := some [123, 125] } []

def errOf : R Unit → Option BErr | .ok _ => none | .error e => some e

example : errOf (checkRules [en 1 "@a", ty 2, en 3 "@b"] []) = none := by decide +kernel
example : errOf (checkRules [en 1 "@a", ty 2, en 3 "@a"] []) = some ⟨3, .duplicateNames⟩ := by decide +kernel
example : errOf (checkRules [en 1 "@a", en 2 ""] []) = some ⟨2, .required "Name"⟩ := by decide +kernel
example : errOf (checkRules [en 1 "@a", .node { kind := .Enum, id := 5, named := [("Name", "@a".toUTF8.toList)] } []] []) =
    some ⟨5, .emptyBody⟩ := by decide +kernel

end JSight.C11E
