import JSight.Model.Scanner
import JSight.Proofs.ScanSafe
import JSight.Proofs.ScanSafeRun
/-!
C01 (scanner part) — the scanner never faults: for EVERY file content and EVERY answer of the schema
library, a run of `Scanner.Next()` (model: `next` / `lexAll` over the regenerated table `Gen.code`) never
pops the empty step stack, never pops the empty stack of open lexeme events, never shifts an empty queue
of found events, and never computes a negative position (`curIndex - back`, `curIndex -= n`).  As a bonus
an End event always meets its own Begin event (the "incorrect lexeme event" error of
`processLexemeEvent` is unreachable).

Method.
* `Proofs/ScanSafe.lean` defines a certificate (`Cert`: per state `nt` = may pop before pushing, `oe` =
  outstanding Begin event, `rq` = lower bound of `curIndex` relied on, `regs` = possible values of the step
  register while the code of the state runs; `srq` = what every stacked state may rely on after a pop), a
  Bool check of one leaf of the table against a certificate by abstract execution (`checkLeaf`,
  `checkCode`), and COMPUTES the certificate `cert` of the current table by closures / fixpoints over
  `St.all` and `code` (`pairsL`, `ntM`, `rqX`, `oeM`).
* the table facts below (`table_facts`) evaluate these computations and the check by
  `decide +kernel` against the regenerated table on every run.  They fail when the Go code is changed so
  that a fault becomes possible, and survive edits that keep it impossible.
* `Proofs/ScanSafeRun.lean` proves, for ANY certificate that passes the check, the run-level invariant
  (`Inv`), its preservation by `byteStep`, `processEvent`, `drainFinds`, `byteLoop`, `next`, and that under
  it none of them returns a fault other than `fuel`.
-/
namespace JSight.C01
open JSight JSight.Gen JSight.ScanSafe

theorem mem_all (st : St) : st ∈ St.all := by
  cases st <;> simp [St.all]

/-! ## table facts (re-checked against the regenerated table on every run) -/

/-- (1) the certificate computed from the table asks nothing of the initial configuration: `stateRoot` does
not pop before pushing, has no outstanding event, and relies on no lower bound of `curIndex`;
(2) every leaf of every state function passes the abstract execution against the computed certificate -/
theorem table_facts :
    checkInit cert = true ∧ ∀ st ∈ St.all, checkCode cert st (code st) = true := by decide +kernel

theorem table_init : checkInit cert = true := table_facts.1

theorem table_safe : ∀ st ∈ St.all, checkCode cert st (code st) = true := table_facts.2

theorem cert_valid : Valid cert := ⟨table_init, fun st => table_safe st (mem_all st)⟩

/-! ## the invariant holds in every configuration a run passes through -/

/-- `Reach d o sc`: `sc` is passed through by runs of `Next` from the initial configuration (byte steps
inside the file, shifts of a queued event, parameter bookkeeping); `reach_next` / `reach_lexAll`: the
configurations `next` and `lexAll` return are of this kind. -/
theorem reach_invariant {d : Src} {o : Oracle} {sc : Sc} (h : Reach d o sc) : Inv cert d sc :=
  reach_inv cert_valid h

/-- inside the file the full invariant holds (after the end-of-file byte only the events matter) -/
theorem reach_live {d : Src} {o : Oracle} {sc : Sc} (h : Reach d o sc) (hle : sc.cur ≤ d.size) : Live cert sc := by
  rcases reach_invariant h with h | h
  · exact h
  · exact absurd h.1 (Nat.not_lt.mpr hle)

/-! ## Stage A — the step stack -/

/-- the shape of the step stack: a state that may pop before pushing has a stack `t :: rest`, and so on for
`t` over `rest` -/
theorem step_stack_wf {d : Src} {o : Oracle} {sc : Sc} (h : Reach d o sc) (hle : sc.cur ≤ d.size) :
    Good cert.nt sc.step sc.stack := (reach_live h hle).good

/-- a byte step of a reachable configuration is not a fault, except for an exhausted step budget -/
theorem byteStep_no_fault {d : Src} {o : Oracle} {sc : Sc} (h : Reach d o sc) (hle : sc.cur ≤ d.size) (f : Fault)
    (he : byteStep d o sc = .error (.fault f)) : f = .fuel := by
  have := byteStep_safe cert_valid d o sc (reach_live h hle)
  rw [he] at this
  exact this f rfl

/-- `s.stepStack.Pop()` never meets an empty stack -/
theorem step_stack_safe {d : Src} {o : Oracle} {sc : Sc} (h : Reach d o sc) (hle : sc.cur ≤ d.size) :
    byteStep d o sc ≠ .error (.fault .popEmpty) :=
  fun he => by cases byteStep_no_fault h hle _ he

/-! ## Stage C — positions -/

/-- `curIndex - back` and `curIndex -= n` never go below zero -/
theorem position_safe {d : Src} {o : Oracle} {sc : Sc} (h : Reach d o sc) (hle : sc.cur ≤ d.size) :
    byteStep d o sc ≠ .error (.fault .underflow) :=
  fun he => by cases byteStep_no_fault h hle _ he

/-! ## Stage B — lexeme events -/

/-- shifting a queued event never fails: the stack of open events is not empty when an End arrives, and the
End matches the Begin on top (no `popEmpty`, and no "incorrect lexeme event" diagnostic either) -/
theorem event_safe {d : Src} {o : Oracle} {sc : Sc} {ev : Ev × Nat} {rest : List (Ev × Nat)}
    (h : Reach d o sc) (hf : sc.finds = ev :: rest) :
    ∃ lex sc', processEvent { sc with finds := rest } ev = .ok (lex, sc') := by
  obtain ⟨lex, sc', hp, _, _⟩ := shift_safe (reach_invariant h) hf
  exact ⟨lex, sc', hp⟩

/-- the `for range s.finds` loop of `Next` never fails (in particular `shiftFound` never meets an empty queue) -/
theorem drain_safe {d : Src} {o : Oracle} {sc : Sc} (h : Reach d o sc) :
    ∃ lex sc', drainFinds sc.finds.length sc = .ok (lex, sc') := by
  obtain ⟨lex, sc', hd, _⟩ := drainFinds_safe sc.finds.length sc (Nat.le_refl _) (reach_invariant h)
  exact ⟨lex, sc', hd⟩

/-- at most one Begin event is outstanding, and it is the one the certificate lists for the state -/
theorem open_events {d : Src} {o : Oracle} {sc : Sc} (h : Reach d o sc) (hle : sc.cur ≤ d.size) (hq : sc.finds = []) :
    sc.evStack.map (·.1) = (cert.oe sc.step).toList := by
  have := (reach_live h hle).ev
  simpa [EvS, hq, evSim] using this

/-! ## Stage D — `Next` and the whole file -/

/-- `Scanner.Next()` on a reachable configuration: no fault except an exhausted step budget -/
theorem next_no_fault {d : Src} {o : Oracle} {sc : Sc} (h : Reach d o sc) (fuel : Nat) (f : Fault)
    (he : next d o fuel sc = .error (.fault f)) : f = .fuel := by
  have := next_safe cert_valid d o fuel sc (reach_invariant h)
  rw [he] at this
  exact this f rfl

/-- **C01, scanner part.**  The only fault a scanner run can end in is an exhausted step budget
(termination is a separate theorem). -/
theorem scanner_no_fault (d : Src) (o : Oracle) (n : Nat) (f : Fault)
    (h : (lexAll d o n Sc.init []).2.1 = some (.fault f)) : f = .fuel :=
  lexAll_safe cert_valid d o n Sc.init [] (inv_init cert_valid d) f h

/-- the same for `scanFile` (the encoding check of the first call of `Next`, then the run) -/
theorem scanFile_no_fault (content : Bytes) (o : Oracle) (f : Fault)
    (h : (scanFile content o).2.1 = some (.fault f)) : f = .fuel := by
  unfold scanFile at h
  split at h
  · simp at h
  · exact scanner_no_fault _ o _ f h

/-- the configuration a run ends in is reachable (so all of the above applies to it) -/
theorem lexAll_reach (d : Src) (o : Oracle) (n : Nat) : Reach d o (lexAll d o n Sc.init []).2.2 :=
  reach_lexAll n Sc.init [] Reach.init

/-! ## non-vacuity: a concrete run with comments, annotations, schemas (library-delimited), a context -/

/-- `JSIGHT 0.3⏎# c⏎GET /cats // all⏎  200⏎{"a": 1} # x⏎TYPE @cat /* m */⏎{}⏎MACRO @m⏎(⏎  Body any⏎)⏎` -/
def sample : Src := Src.ofList
  [74, 83, 73, 71, 72, 84, 32, 48, 46, 51, 10, 35, 32, 99, 10, 71, 69, 84, 32, 47, 99, 97, 116, 115, 32, 47, 47, 32, 97,
   108, 108, 10, 32, 32, 50, 48, 48, 10, 123, 34, 97, 34, 58, 32, 49, 125, 32, 35, 32, 120, 10, 84, 89, 80, 69, 32, 64,
   99, 97, 116, 32, 47, 42, 32, 109, 32, 42, 47, 10, 123, 125, 10, 77, 65, 67, 82, 79, 32, 64, 109, 10, 40, 10, 32, 32,
   66, 111, 100, 121, 32, 97, 110, 121, 10, 41, 10]

/-- the schema library's answers for the two bodies of `sample` -/
def sampleOracle : Oracle := ⟨fun i => if i == 38 then .len 8 else .len 2, fun _ => .miss⟩

-- the run ends cleanly, with 17 lexemes, an empty step stack and no open event
example : (lexAll sample sampleOracle 100 Sc.init []).2.1 = none := by decide +kernel
example : (lexAll sample sampleOracle 100 Sc.init []).1.length = 17 := by decide +kernel
-- the hypothesis of `scanner_no_fault` is satisfiable, and `fuel` cannot be excluded: a budget of 3 lexemes
example : (lexAll sample sampleOracle 3 Sc.init []).2.1 = some (.fault .fuel) := by decide +kernel
-- a diagnostic (not a fault) on a malformed file: `GE?`
example : (lexAll (Src.ofList [71, 69, 63]) sampleOracle 100 Sc.init []).2.1 = some (.diag 2) := by decide +kernel
-- the certificate is not trivial: `stateSingleComment` pops before pushing, `stateRoot` does not; a schema is
-- outstanding in `stateSchemaClosed`; `stateMultilineAnnotation` looks two bytes back
example : cert.nt .stateSingleComment = true ∧ cert.nt .stateRoot = false := by decide +kernel
example : cert.oe .stateSchemaClosed = some .schemaBegin ∧ cert.oe .stateExpectKeyword = none := by decide +kernel
example : cert.rq .stateMultilineAnnotation = 2 ∧ cert.srq = 1 := by decide +kernel
-- the check is sensitive: state functions that could fault are refused —
-- `stateRoot` popping at once; an End event where no Begin is outstanding; a position before the file
example :
    checkCode cert .stateRoot (.leaf [.popToStep] .done) = false ∧
    checkCode cert .stateExpectKeyword (.leaf [.found .keywordEnd 0] .done) = false ∧
    checkCode cert .stateRoot (.leaf [.found .contextOpen 1] .done) = false ∧
    checkCode cert .stateRoot (.leaf [.rewind 2] .done) = false ∧
    checkCode cert .stateRoot (code .stateRoot) = true := by decide +kernel

end JSight.C01
