import JSight.Basic
namespace JSight.C20
end JSight.C20
