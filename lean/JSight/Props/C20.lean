import JSight.Proofs.Registry
/-!
C20 — locality at the name level: inserting a declaration with a fresh key, or deleting a declaration,
changes exactly its own entry; other collections are untouched.
-/
namespace JSight.C20
open JSight.Reg

/-- adding a declaration with a fresh key anywhere keeps the document accepted and adds exactly its entry -/
theorem add_fresh (pre post : List Decl) (d : Decl) (es : Entries)
    (h : addAll [] (pre ++ post) = .ok es)
    (hfresh : (d.coll, d.key) ∉ (pre ++ post).map (fun x => (x.coll, x.key))) :
    ∃ es', addAll [] (pre ++ d :: post) = .ok es' ∧ es'.Perm ((d.coll, d.key) :: es) ∧
      ∀ c, c ≠ d.coll → collection es' c = collection es c := by
  obtain ⟨hnd, he⟩ := (addAll_nil_ok_iff _ _).mp h
  have hp : ((pre ++ d :: post).map (fun x => (x.coll, x.key))).Perm
      ((d.coll, d.key) :: (pre ++ post).map (fun x => (x.coll, x.key))) := by
    exact (List.perm_middle (a := d) (l₁ := pre) (l₂ := post)).map (fun x => (x.coll, x.key))
  have hnd' : ((pre ++ d :: post).map (fun x => (x.coll, x.key))).Nodup :=
    hp.nodup_iff.mpr (List.nodup_cons.mpr ⟨hfresh, hnd⟩)
  refine ⟨_, (addAll_nil_ok_iff _ _).mpr ⟨hnd', rfl⟩, ?_, ?_⟩
  · rw [he]; exact hp
  · intro c hc
    rw [he, List.map_append, List.map_append, List.map_cons, collection_append, collection_append,
      collection_cons_ne _ _ _ hc]

/-- deleting a declaration removes exactly its entry -/
theorem remove_decl (pre post : List Decl) (d : Decl) (es' : Entries)
    (h : addAll [] (pre ++ d :: post) = .ok es') :
    ∃ es, addAll [] (pre ++ post) = .ok es ∧ es'.Perm ((d.coll, d.key) :: es) := by
  obtain ⟨hnd, he⟩ := (addAll_nil_ok_iff _ _).mp h
  have hp : ((pre ++ d :: post).map (fun x => (x.coll, x.key))).Perm
      ((d.coll, d.key) :: (pre ++ post).map (fun x => (x.coll, x.key))) := by
    exact (List.perm_middle (a := d) (l₁ := pre) (l₂ := post)).map (fun x => (x.coll, x.key))
  have hnd' := (List.nodup_cons.mp (hp.nodup_iff.mp hnd)).2
  refine ⟨_, (addAll_nil_ok_iff _ _).mpr ⟨hnd', rfl⟩, ?_⟩
  rw [he]; exact hp

/-- (corollary) deleting a declaration leaves every other collection unchanged -/
theorem remove_decl_other (pre post : List Decl) (d : Decl) (es' : Entries)
    (h : addAll [] (pre ++ d :: post) = .ok es') :
    ∃ es, addAll [] (pre ++ post) = .ok es ∧ ∀ c, c ≠ d.coll → collection es' c = collection es c := by
  obtain ⟨es, hes, _⟩ := remove_decl pre post d es' h
  have hfresh : (d.coll, d.key) ∉ (pre ++ post).map (fun x => (x.coll, x.key)) := by
    obtain ⟨hnd, _⟩ := (addAll_nil_ok_iff _ _).mp h
    have hp := (List.perm_middle (a := d) (l₁ := pre) (l₂ := post)).map (fun x => (x.coll, x.key))
    exact (List.nodup_cons.mp (hp.nodup_iff.mp hnd)).1
  obtain ⟨es'', h'', _, hc⟩ := add_fresh pre post d es hes hfresh
  rw [h] at h''
  injection h'' with h''
  subst h''
  exact ⟨es, hes, hc⟩

/-! non-vacuity -/
local instance {ε α : Type} [DecidableEq ε] [DecidableEq α] : DecidableEq (Except ε α) := decExcept
example : addAll [] ([⟨.types, 1, 10⟩] ++ ⟨.urls, 7, 20⟩ :: [⟨.types, 2, 30⟩])
    = .ok [(.types, 1), (.urls, 7), (.types, 2)] := by decide
example : collection [(.types, 1), (.urls, 7), (.types, 2)] .types = collection [(.types, 1), (.types, 2)] .types := by
  decide

end JSight.C20
