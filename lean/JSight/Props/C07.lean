import JSight.Model.Paste
import JSight.Proofs.C07
/-!
C07 — MACRO / PASTE (`core/compile_core_macro.go`, `core/compile_core.go`, `core/compile_core_paste.go`).

Specification (`inlineTree`, `inlineForest`, `pastesOf`, `PasteEdge`, `PasteReach`) and property theorems:

* (1) `expand_eq_inline`      pasting = writing the macro body in place (`expand = resolve ∘ inline`)
* (2) `duplicate_rejected`    a second MACRO of the same name is rejected
* (3) `self_cycle_rejected`, `cycle_rejected`, `expand_cycle_rejected`   every PASTE cycle is rejected
* (4) `undefined_rejected`    a PASTE of an undefined macro is never silently dropped
* (4') `check_pastes_defined`, `undefined_paste_in_macro_rejected`, `expand_undefined_paste_in_macro_rejected`,
       `source_undefined_paste_in_macro_rejected`, `expand_all_pastes_defined`,
       `first_undefined_paste_reported`   a PASTE of an undefined macro in the body of a MACRO is rejected by
       the recursion check ("macro not found"), whether or not that MACRO is ever pasted (the "macro not found" repair of `findPaste`)
* (5) `expand_no_fuel`        the fuel computed by `expand` always suffices (bounded time)
* (6) `unused_macro_inert`    deleting a macro that nothing pastes changes nothing

All theorems are parametric in the admissibility tables (`Gen.rootAllowed`, `Gen.childAllowed`,
`Gen.httpMethods` are unfolded only by the closing `example`s).  Helper lemmas: `JSight/Proofs/C07.lean`
(it works with its own copies `pastes` / `Reach` of `pastesOf` / `PasteReach`; `pastesOf_eq` and `reach_iff`
below identify them).
-/
namespace JSight.C07
open JSight

/-! ## Specification -/

/- the token stream of a forest in which every PASTE is replaced by the (recursively inlined) children of the
   macro it names; `none` if a macro is missing or the nesting exceeds the fuel -/
mutual
  def inlineTree (ms : Macros) : Nat → Tree → Option (List Tok)
    | 0, _ => none
    | fuel + 1, .node d kids =>
      if d.kind == Gen.Kind.Paste then
        match ms.get? d.name with
        | some m => inlineForest ms fuel m.kids
        | none => none
      else
        match inlineForest ms fuel kids with
        | some ks => some (Tok.dir d :: (ks ++ (if d.explicit then [Tok.close] else [])))
        | none => none
  def inlineForest (ms : Macros) : Nat → List Tree → Option (List Tok)
    | 0, _ => none
    | _ + 1, [] => some []
    | fuel + 1, t :: r =>
      match inlineTree ms fuel t, inlineForest ms fuel r with
      | some a, some b => some (a ++ b)
      | _, _ => none
end

/-- names of the PASTE nodes of a tree, in order.  (A PASTE node has no children of its own — no table
    allows any — and neither the expansion nor the recursion check looks at them.) -/
def pastesOf : Tree → List Nat
  | .node d kids => if d.kind == Gen.Kind.Paste then [d.name] else pastesOfList kids
where pastesOfList : List Tree → List Nat
  | [] => []
  | t :: r => pastesOf t ++ pastesOfList r

/-- macro `a` is defined and its body contains `PASTE @b` -/
def PasteEdge (ms : Macros) (a b : Nat) : Prop := ∃ m, ms.get? a = some m ∧ b ∈ pastesOf m

/-- transitive closure of `PasteEdge` (core Lean has no `Relation.TransGen`) -/
inductive PasteReach (ms : Macros) : Nat → Nat → Prop where
  | single {a b : Nat} : PasteEdge ms a b → PasteReach ms a b
  | tail {a b c : Nat} : PasteReach ms a b → PasteEdge ms b c → PasteReach ms a c

mutual
  theorem pastesOf_eq : ∀ t : Tree, pastesOf t = pastes t
    | .node d kids => by rw [pastesOf, pastes, pastesOfList_eq kids]
  theorem pastesOfList_eq : ∀ l : List Tree, pastesOf.pastesOfList l = pastes.pastesL l
    | [] => rfl
    | t :: r => by rw [pastesOf.pastesOfList, pastes.pastesL, pastesOf_eq t, pastesOfList_eq r]
end

theorem reach_iff {ms : Macros} {a b : Nat} : PasteReach ms a b ↔ Reach ms a b := by
  constructor
  · intro h
    induction h with
    | single e => rcases e with ⟨m, hm, hb⟩; exact .single ⟨m, hm, pastesOf_eq m ▸ hb⟩
    | tail _ e ih => rcases e with ⟨m, hm, hb⟩; exact .tail ih ⟨m, hm, pastesOf_eq m ▸ hb⟩
  · intro h
    induction h with
    | single e => rcases e with ⟨m, hm, hb⟩; exact .single ⟨m, hm, (pastesOf_eq m).symm ▸ hb⟩
    | tail _ e ih => rcases e with ⟨m, hm, hb⟩; exact .tail ih ⟨m, hm, (pastesOf_eq m).symm ▸ hb⟩

/-! ## (1) pasting = writing the body in place -/

/-- the expansion of a tree / a list of trees is a `Step` of the scan-time resolution over the inlined
    token stream -/
theorem expand_step (ms : Macros) : ∀ fuel : Nat,
    (∀ outer st t st', expandTree ms fuel outer st t = .ok st' →
      ∃ toks, inlineTree ms fuel t = some toks ∧ Step st.ctx st'.ctx toks) ∧
    (∀ outer st l st', expandList ms fuel outer st l = .ok st' →
      ∃ toks, inlineForest ms fuel l = some toks ∧ Step st.ctx st'.ctx toks) := by
  intro fuel
  induction fuel with
  | zero =>
    constructor
    · intro outer st t st' h; simp [expandTree] at h
    · intro outer st l st' h; simp [expandList] at h
  | succ fuel ih =>
    rcases ih with ⟨ihT, ihL⟩
    constructor
    · intro outer st t st' h
      rcases t with ⟨d, kids⟩
      rw [expandTree] at h
      rw [inlineTree]
      split at h
      · -- PASTE
        rename_i hk
        simp only [hk, if_true]
        split at h
        · cases h
        · split at h
          · cases h
          · split at h
            · cases h
            · rename_i m hm
              simp only [hm]
              split at h
              · cases h
              · cases h
              · rename_i st'' hl
                cases h
                exact ihL _ _ _ _ hl
      · -- any other directive
        rename_i hk
        simp only [hk]
        split at h
        · cases h
        · rename_i c1 hp
          split at h
          · cases h
          · rename_i st2 hl
            rcases ihL _ _ _ _ hl with ⟨ks, hks, hstep⟩
            simp only [hks]
            refine ⟨_, rfl, ?_⟩
            split at h
            · rename_i hd
              cases h
              exact Step.dirParen hp hd hstep
            · rename_i hd
              cases h
              exact Step.dirPlain hp (by simpa using hd) hstep
    · intro outer st l st' h
      cases l with
      | nil =>
        rw [expandList] at h
        cases h
        exact ⟨[], by rw [inlineForest], Step.nil _⟩
      | cons t r =>
        rw [expandList] at h
        split at h
        · cases h
        · rename_i st1 ht
          rcases ihT _ _ _ _ ht with ⟨a, ha, hsa⟩
          rcases ihL _ _ _ _ h with ⟨b, hb, hsb⟩
          exact ⟨a ++ b, by rw [inlineForest, ha, hb], hsa.append hsb⟩

/-- (1) PASTING = WRITING THE BODY IN PLACE: if the expansion succeeds, its result is what the scan-time
    resolution gives on the token stream with every PASTE replaced by the macro body and the MACRO
    definitions deleted -/
theorem expand_eq_inline (roots f : List Tree) (h : expand roots = .ok f) :
    ∃ ms rest fuel toks, collectMacro roots [] [] = .ok (ms, rest) ∧
      inlineForest ms fuel rest = some toks ∧ resolve toks = .ok f := by
  rcases expand_ok h with ⟨ms, rest, st, hc, _, hl, rfl⟩
  rcases (expand_step ms _).2 _ _ _ _ hl with ⟨toks, htoks, hstep⟩
  refine ⟨ms, rest, _, toks, hc, htoks, ?_⟩
  have hne : anyExplicit st.ctx.frames = false :=
    anyExplicit_eq_false.mpr (hstep.noexp NoExp.nil)
  simp only [resolve, hstep.run, hne]
  rfl

/-! ## (2) duplicates, (4) undefined macros -/

/-- (2) a second top-level MACRO with the same name is rejected -/
theorem duplicate_rejected (roots : List Tree) (t₁ t₂ : Tree) (pre mid post : List Tree)
    (hr : roots = pre ++ t₁ :: mid ++ t₂ :: post)
    (h₁ : t₁.dir.kind = Gen.Kind.Macro) (h₂ : t₂.dir.kind = Gen.Kind.Macro)
    (hn : t₁.dir.name = t₂.dir.name) :
    ∃ e, expand roots = .error e := by
  subst hr
  rcases collect_dup2 pre t₁ mid t₂ post [] [] h₁ h₂ hn with ⟨e, he⟩
  refine ⟨e, ?_⟩
  unfold expand
  rw [List.append_assoc, List.cons_append, he]

/-- (4) a PASTE of an undefined macro that is reached by the expansion is rejected (never silently
    dropped): if the expansion succeeds, every PASTE node of the non-macro trees names a defined macro -/
theorem undefined_rejected (roots f : List Tree) (h : expand roots = .ok f) :
    ∃ ms rest, collectMacro roots [] [] = .ok (ms, rest) ∧
      ∀ t ∈ rest, ∀ n ∈ pastesOf t, (ms.get? n).isSome := by
  rcases expand_ok h with ⟨ms, rest, st, hc, _, hl, _⟩
  refine ⟨ms, rest, hc, ?_⟩
  intro t ht n hn
  rw [pastesOf_eq] at hn
  exact (expand_defined ms _).2 _ _ _ _ hl n (mem_pastesL ht hn)

/-! ## (4') undefined macros inside macro bodies

Before its "macro not found" repair `findPaste` skipped a PASTE whose name is not a defined macro, so
`MACRO @a ( PASTE @nope )` passed as long as `@a` was never pasted.  Now the recursion check, which walks
the body of every MACRO, reports it ("macro not found"). -/

/-- (4') if the recursion check passes then every PASTE in the body of every macro of the table — pasted
    somewhere or not — has a name, and that name is a defined macro.  (`p ∈ ms` is membership in the list
    of (name, MACRO tree) pairs in definition order; no side condition on `ms`.) -/
theorem check_pastes_defined (ms : Macros) (h : checkRecursion ms = .ok ()) :
    ∀ p ∈ ms, ∀ n ∈ pastesOf p.2, n ≠ 0 ∧ (ms.get? n).isSome := by
  intro p hp n hn
  rw [pastesOf_eq] at hn
  exact check_defined h p hp n hn

/-- (4') a PASTE of an undefined macro inside the body of a macro is rejected by the recursion check,
    whether or not that macro is ever pasted.  The error need not be the `notFound` of this very PASTE (an
    earlier fault — a cycle, a nameless PASTE, another undefined name — is reported first), but it is
    never `.ok` and never "out of fuel". -/
theorem undefined_paste_in_macro_rejected (ms : Macros) (a : Nat) (m : Tree) (n : Nat)
    (hm : (a, m) ∈ ms) (hn : n ∈ pastesOf m) (hu : ms.get? n = none) :
    ∃ e, checkRecursion ms = .error e ∧ e ≠ .fuel := by
  cases hc : checkRecursion ms with
  | error e => exact ⟨e, rfl, fun he => checkRecursion_no_fuel ms (he ▸ hc)⟩
  | ok u =>
    have := (check_pastes_defined ms hc (a, m) hm n hn).2
    rw [hu] at this
    cases this

/-- (4') hence also by `expand`, for every source whose collected macro table is `ms` -/
theorem expand_undefined_paste_in_macro_rejected (roots : List Tree) (ms : Macros) (rest : List Tree)
    (a : Nat) (m : Tree) (n : Nat) (hc : collectMacro roots [] [] = .ok (ms, rest))
    (hm : (a, m) ∈ ms) (hn : n ∈ pastesOf m) (hu : ms.get? n = none) :
    ∃ e, expand roots = .error e ∧ e ≠ .fuel := by
  rcases undefined_paste_in_macro_rejected ms a m n hm hn hu with ⟨e, he, hne⟩
  exact ⟨e, by unfold expand; simp only [hc, he], hne⟩

/-- (4') the same in terms of the source alone: a top-level MACRO `m` whose body contains `PASTE @n`,
    where no top-level MACRO bears the name `n`, makes `expand` fail — whether or not `m` is pasted -/
theorem source_undefined_paste_in_macro_rejected (roots : List Tree) (m : Tree) (n : Nat)
    (hm : m ∈ roots) (hk : m.dir.kind = Gen.Kind.Macro) (hn : n ∈ pastesOf m)
    (hu : ∀ t ∈ roots, t.dir.kind = Gen.Kind.Macro → t.dir.name ≠ n) :
    ∃ e, expand roots = .error e ∧ e ≠ .fuel := by
  cases hc : collectMacro roots [] [] with
  | error e =>
    exact ⟨e, by unfold expand; simp only [hc], fun he => collect_no_fuel _ _ _ (he ▸ hc)⟩
  | ok p =>
    rcases p with ⟨ms, rest⟩
    exact expand_undefined_paste_in_macro_rejected roots ms rest m.dir.name m n hc
      ((collect_complete _ _ _ _ _ hc).2.2.1 m hm hk) hn (collect_get?_none hc hu)

/-- (4)+(4') if `expand` succeeds then EVERY PASTE node of the source — in the directives and in the
    bodies of all MACROs, pasted or not — names a defined macro -/
theorem expand_all_pastes_defined (roots f : List Tree) (h : expand roots = .ok f) :
    ∃ ms rest, collectMacro roots [] [] = .ok (ms, rest) ∧
      ∀ t ∈ roots, ∀ n ∈ pastesOf t, (ms.get? n).isSome := by
  rcases expand_ok h with ⟨ms, rest, st, hc, hr, hl, _⟩
  refine ⟨ms, rest, hc, ?_⟩
  intro t ht n hn
  rcases collect_complete _ _ _ _ _ hc with ⟨_, _, hmac, hrest⟩
  by_cases hk : t.dir.kind = Gen.Kind.Macro
  · exact (check_pastes_defined ms hr (t.dir.name, t) (hmac t ht hk) n hn).2
  · rw [pastesOf_eq] at hn
    exact (expand_defined ms _).2 _ _ _ _ hl n (mem_pastesL (hrest t ht hk) hn)

/-- the first PASTE node of a tree in document order (like `pastesOf`, not looking below a PASTE) -/
def firstPaste : Tree → Option Dir
  | .node d kids => if d.kind == Gen.Kind.Paste then some d else firstPasteList kids
where firstPasteList : List Tree → Option Dir
  | [] => none
  | t :: r =>
    match firstPaste t with
    | some p => some p
    | none => firstPasteList r

/-- on a tree without PASTE the DFS changes nothing -/
theorem findPaste_nopaste (ms : Macros) (tgt : Nat) : ∀ fuel : Nat,
    (∀ t v, firstPaste t = none → 2 * treeSize t ≤ fuel → findPaste ms tgt fuel t v = .ok v) ∧
    (∀ l v, firstPaste.firstPasteList l = none → 2 * treeSize.sizeList l + 1 ≤ fuel →
      findPasteList ms tgt fuel l v = .ok v) := by
  intro fuel
  induction fuel with
  | zero =>
    constructor
    · intro t v _ h; have := treeSize_pos t; omega
    · intro l v _ h; omega
  | succ fuel ih =>
    rcases ih with ⟨ihT, ihL⟩
    constructor
    · intro t v hp hf
      rcases t with ⟨d, kids⟩
      rw [treeSize_node] at hf
      rw [firstPaste] at hp
      rw [findPaste]
      by_cases hk : (d.kind == Gen.Kind.Paste) = true
      · simp [hk] at hp
      · simp only [hk, Bool.false_eq_true, if_false] at hp ⊢
        exact ihL _ _ hp (by omega)
    · intro l v hp hf
      cases l with
      | nil => rw [findPasteList]
      | cons t r =>
        rw [treeSize.sizeList] at hf
        rw [firstPaste.firstPasteList] at hp
        have := treeSize_pos t
        cases ht : firstPaste t with
        | some p => simp [ht] at hp
        | none =>
          simp only [ht] at hp
          rw [findPasteList, ihT t v ht (by omega)]
          exact ihL r v hp (by omega)

/-- the DFS stops at the first PASTE of the tree when that names an undefined macro -/
theorem findPaste_first (ms : Macros) (tgt : Nat) : ∀ fuel : Nat,
    (∀ t v p, firstPaste t = some p → p.name ≠ 0 → p.name ≠ tgt → p.name ∉ v → ms.get? p.name = none →
      2 * treeSize t ≤ fuel → findPaste ms tgt fuel t v = .error (.notFound p.id)) ∧
    (∀ l v p, firstPaste.firstPasteList l = some p → p.name ≠ 0 → p.name ≠ tgt → p.name ∉ v →
      ms.get? p.name = none → 2 * treeSize.sizeList l + 1 ≤ fuel →
      findPasteList ms tgt fuel l v = .error (.notFound p.id)) := by
  intro fuel
  induction fuel with
  | zero =>
    constructor
    · intro t v p _ _ _ _ _ h; have := treeSize_pos t; omega
    · intro l v p _ _ _ _ _ h; omega
  | succ fuel ih =>
    rcases ih with ⟨ihT, ihL⟩
    constructor
    · intro t v p hp h0 ht hv hu hf
      rcases t with ⟨d, kids⟩
      rw [treeSize_node] at hf
      rw [firstPaste] at hp
      rw [findPaste]
      by_cases hk : (d.kind == Gen.Kind.Paste) = true
      · simp only [hk, if_true, Option.some.injEq] at hp ⊢
        subst hp
        have e0 : (d.name == 0) = false := by simpa using h0
        have et : (d.name == tgt) = false := by simpa using ht
        have ev : v.contains d.name = false := by simpa using hv
        simp only [e0, et, ev, hu, Bool.false_eq_true, if_false]
      · simp only [hk, Bool.false_eq_true, if_false] at hp ⊢
        exact ihL _ _ _ hp h0 ht hv hu (by omega)
    · intro l v p hp h0 ht hv hu hf
      cases l with
      | nil => simp [firstPaste.firstPasteList] at hp
      | cons t r =>
        rw [treeSize.sizeList] at hf
        rw [firstPaste.firstPasteList] at hp
        have := treeSize_pos t
        rw [findPasteList]
        cases hft : firstPaste t with
        | some q =>
          simp only [hft, Option.some.injEq] at hp
          subst hp
          rw [ihT t v q hft h0 ht hv hu (by omega)]
        | none =>
          simp only [hft] at hp
          rw [(findPaste_nopaste ms tgt fuel).1 t v hft (by omega)]
          exact ihL r v p hp h0 ht hv hu (by omega)

/-- (4') the precise error in the simplest case: when the first PASTE (in document order) of the first
    macro of the table has a name that is not defined, the check reports exactly "macro not found" at
    that PASTE -/
theorem first_undefined_paste_reported (a : Nat) (m : Tree) (r : Macros) (p : Dir)
    (hp : firstPaste m = some p) (h0 : p.name ≠ 0) (hu : Macros.get? ((a, m) :: r) p.name = none) :
    checkRecursion ((a, m) :: r) = .error (.notFound p.id) := by
  have ha : p.name ≠ a := by
    intro e
    rw [get?_cons] at hu
    simp [e] at hu
  unfold checkRecursion
  rw [checkRecursion.go,
    (findPaste_first _ a _).1 m [a] p hp h0 ha (by simpa using ha) hu
      (by rw [macrosSize_cons]; simp only; omega)]

/-- … and so does `expand` for every source whose collected macro table begins with that macro -/
theorem expand_first_undefined_paste_reported (roots : List Tree) (a : Nat) (m : Tree) (r : Macros)
    (rest : List Tree) (p : Dir) (hc : collectMacro roots [] [] = .ok ((a, m) :: r, rest))
    (hp : firstPaste m = some p) (h0 : p.name ≠ 0) (hu : Macros.get? ((a, m) :: r) p.name = none) :
    expand roots = .error (.notFound p.id) := by
  unfold expand
  simp only [hc, first_undefined_paste_reported a m r p hp h0 hu]

/-! ## (3) recursion -/

/-- (3') any cycle m₁ → m₂ → … → m₁ of macros pasting one another is rejected by the recursion check.
    No side condition is needed (names may be 0, `ms` may even contain duplicate names): the check fails
    with *some* error — `recursion`, or `nameMissing` if the DFS meets a nameless PASTE first. -/
theorem cycle_rejected (ms : Macros) (a : Nat) (h : PasteReach ms a a) :
    ∃ e, checkRecursion ms = .error e := by
  cases hc : checkRecursion ms with
  | error e => exact ⟨e, rfl⟩
  | ok u => exact absurd (reach_iff.mp h) (check_acyclic hc a)

/-- (3) a macro that pastes itself, directly, is rejected (no side condition on the name is needed) -/
theorem self_cycle_rejected (ms : Macros) (a : Nat) (h : PasteEdge ms a a) :
    ∃ e, checkRecursion ms = .error e :=
  cycle_rejected ms a (.single h)

/-- (3'') hence also by `expand`, when the macros are those of a source -/
theorem expand_cycle_rejected (roots : List Tree) (ms : Macros) (rest : List Tree) (a : Nat)
    (hc : collectMacro roots [] [] = .ok (ms, rest)) (h : PasteReach ms a a) :
    ∃ e, expand roots = .error e := by
  rcases cycle_rejected ms a h with ⟨e, he⟩
  exact ⟨e, by unfold expand; simp only [hc, he]⟩

/-! ## (5) bounded time -/

/-- (5) the expansion never runs out of fuel: the fuel `expand` computes from the sizes is always enough,
    so `expand` is a total function whose running time is bounded by that fuel -/
theorem expand_no_fuel (roots : List Tree) : expand roots ≠ .error .fuel := by
  cases hc : collectMacro roots [] [] with
  | error e =>
    unfold expand
    simp only [hc]
    intro h
    cases h
    exact collect_no_fuel _ _ _ hc
  | ok p =>
    rcases p with ⟨ms, rest⟩
    cases hr : checkRecursion ms with
    | error e =>
      unfold expand
      simp only [hc, hr]
      intro h
      cases h
      exact checkRecursion_no_fuel _ hr
    | ok u =>
      rw [expand_of_parts hc hr]
      have h1 := expandList_no_fuel (collect_kinds hc) hr rest {}
      split
      · rename_i e he
        intro h
        cases h
        exact h1 he
      · simp

/-! ## (6) unused macros -/

/-- (6) a macro that is never pasted — neither by the directives nor by another macro — contributes
    nothing: deleting its definition leaves the result unchanged -/
theorem unused_macro_inert (roots f : List Tree) (m : Tree) (pre post : List Tree)
    (hr : roots = pre ++ m :: post) (hm : m.dir.kind = Gen.Kind.Macro)
    (hunused : ∀ t ∈ pre ++ post, m.dir.name ∉ pastesOf t) (h : expand roots = .ok f) :
    expand (pre ++ post) = .ok f := by
  subst hr
  rcases expand_ok h with ⟨ms, rest, st, hc, hrec, hl, rfl⟩
  rcases collect_remove hm hc with ⟨A, C, rfl, hc'⟩
  have hun : ∀ t ∈ pre ++ post, m.dir.name ∉ pastes t := fun t ht => pastesOf_eq t ▸ hunused t ht
  have hclean : ∀ p ∈ A ++ C, (m.dir.name, m).1 ∉ pastes p.2 := by
    intro p hp
    rcases collect_entries _ _ _ _ _ hc' p hp with h1 | ⟨h1, _, _⟩
    · cases h1
    · exact hun _ h1
  have hrest : (m.dir.name, m).1 ∉ pastes.pastesL rest := by
    apply not_mem_pastesL
    intro t ht
    rcases collect_rest _ _ _ _ _ hc' t ht with h1 | h1
    · cases h1
    · exact hun _ h1
  rcases expandList_drop A (m.dir.name, m) C rest (collect_kinds hc) hclean hrest hrec st hl with ⟨hrec', hl'⟩
  rw [expand_of_parts hc' hrec', hl']

/-! ## Examples on the real admissibility tables -/

section Examples
open Gen

local instance : DecidableEq Tree := decTree
local instance {ε α : Type} [DecidableEq ε] [DecidableEq α] : DecidableEq (Except ε α) := decExcept

/-- `MACRO @1 ( GET 200 )` -/
private def mac1 : Tree := .node { kind := .Macro, explicit := true, name := 1, id := 0 }
  [.node { kind := .Get, id := 1 } [.node { kind := .HTTPResponseCode, id := 2 } []]]
/-- `MACRO @2 ( PASTE @1  POST )` -/
private def mac2 : Tree := .node { kind := .Macro, explicit := true, name := 2, id := 6 }
  [.node { kind := .Paste, name := 1, id := 7 } [], .node { kind := .Post, id := 8 } []]
private def get' : Dir := { kind := .Get, id := 1 }
private def code : Dir := { kind := .HTTPResponseCode, id := 2 }
private def post : Dir := { kind := .Post, id := 8 }
private def url : Dir := { kind := .URL, id := 3 }
private def urlX : Dir := { kind := .URL, explicit := true, id := 3 }
private def ty : Dir := { kind := .Type, id := 5 }
private def paste (n : Nat) : Tree := .node { kind := .Paste, name := n, id := 4 } []
/-- `MACRO @1 ( PASTE @2 )`, `MACRO @2 ( PASTE @1 )` -/
private def cyc1 : Tree := .node { kind := .Macro, explicit := true, name := 1, id := 0 }
  [.node { kind := .Paste, name := 2, id := 1 } []]
private def cyc2 : Tree := .node { kind := .Macro, explicit := true, name := 2, id := 2 }
  [.node { kind := .Paste, name := 1, id := 3 } []]
/-- `MACRO @1 ( PASTE @9 )` where no macro `@9` exists -/
private def undef1 : Tree := .node { kind := .Macro, explicit := true, name := 1, id := 0 }
  [.node { kind := .Paste, name := 9, id := 1 } []]
/-- `MACRO @3 ( POST  PASTE @9 )` where no macro `@9` exists -/
private def undef3 : Tree := .node { kind := .Macro, explicit := true, name := 3, id := 6 }
  [.node { kind := .Post, id := 7 } [], .node { kind := .Paste, name := 9, id := 8 } []]
private def getX : Dir := { kind := .Get, explicit := true, id := 10 }

-- MACRO @1 ( GET 200 )  URL  PASTE @1      expands to URL{GET{200}} …
example : expand [mac1, .node url [paste 1]] = .ok [.node url [.node get' [.node code []]]] := by
  decide +kernel
-- … which is the scan-time resolution of the inlined token stream
example : inlineForest [(1, mac1)] 20 [.node url [paste 1]] = some [.dir url, .dir get', .dir code] := by
  decide +kernel
example : resolve [.dir url, .dir get', .dir code] = .ok [.node url [.node get' [.node code []]]] := by
  decide +kernel

-- MACRO @1 ( GET 200 )  URL ( PASTE @1 )  TYPE     the ")" of the URL is honoured after the paste
example : expand [mac1, .node urlX [paste 1], .node ty []] =
    .ok [.node urlX [.node get' [.node code []]], .node ty []] := by decide +kernel
example : inlineForest [(1, mac1)] 20 [.node urlX [paste 1], .node ty []] =
    some [.dir urlX, .dir get', .dir code, .close, .dir ty] := by decide +kernel
example : resolve [.dir urlX, .dir get', .dir code, .close, .dir ty] =
    .ok [.node urlX [.node get' [.node code []]], .node ty []] := by decide +kernel

-- a macro pasting another macro
example : expand [mac1, mac2, .node url [paste 2]] =
    .ok [.node url [.node get' [.node code []], .node post []]] := by decide +kernel
example : inlineForest [(1, mac1), (2, mac2)] 20 [.node url [paste 2]] =
    some [.dir url, .dir get', .dir code, .dir post] := by decide +kernel

-- the unused macro @2 is inert
example : expand [mac1, mac2, .node url [paste 1]] = expand [mac1, .node url [paste 1]] := by
  decide +kernel

-- undefined, duplicate, cyclic
example : expand [.node url [paste 1]] = .error (.inPaste 4) := by decide +kernel
-- MACRO @1 ( PASTE @9 )  GET ( 200 )     the macro is never pasted, its undefined PASTE is reported all the same
example : expand [undef1, .node getX [.node code []]] = .error (.notFound 1) := by decide +kernel
example : checkRecursion [(1, undef1)] = .error (.notFound 1) := by decide +kernel
-- without the faulty macro the source is fine
example : expand [.node getX [.node code []]] = .ok [.node getX [.node code []]] := by decide +kernel
-- MACRO @1 ( GET 200 )  MACRO @3 ( POST  PASTE @9 )     an undefined PASTE in a later macro, after a sibling
example : expand [mac1, undef3, .node url [paste 1]] = .error (.notFound 8) := by decide +kernel
example : firstPaste undef3 = some { kind := .Paste, name := 9, id := 8 } := by decide +kernel
-- an earlier fault is reported first: the cycle @1 -> @2 -> @1 before the undefined @9 of MACRO @3
example : expand [cyc1, cyc2, undef3, .node ty []] = .error (.recursion 3) := by decide +kernel
-- a PASTE outside any macro is still seen by the expansion only
example : expand [mac1, .node url [paste 9]] = .error (.inPaste 4) := by decide +kernel
example : expand [mac1, mac1, .node url [paste 1]] = .error (.duplicate 0) := by decide +kernel
example : checkRecursion [(1, cyc1), (2, cyc2)] = .error (.recursion 3) := by decide +kernel
example : expand [cyc1, cyc2, .node ty []] = .error (.recursion 3) := by decide +kernel
example : checkRecursion [(1, mac1), (2, mac2)] = .ok () := by decide +kernel

end Examples

end JSight.C07
