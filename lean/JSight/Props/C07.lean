import JSight.Model.Paste
namespace JSight.C07
end JSight.C07
