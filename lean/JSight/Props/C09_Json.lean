import JSight.Model.Json
import JSight.Proofs.Json
import JSight.Props.C09_Build
/-!
C09 (serialisation) — the JSON object TREE rendered from the catalog of an accepted project (`Model/Json.lean`:
`render`, the model of `Catalog.MarshalJSON` and of every `MarshalJSON` / struct tag it reaches) has

* NO REPEATED KEY IN ANY OBJECT (`render_noDupKeys`): the top-level object, the four ordered maps (`tags`,
  `servers`, `userTypes`, `interactions` — from the uniqueness of the names / id texts proved by
  `C09_Build.compile_consistent`) and every record (fixed, pairwise distinct field names);
* every entry of `interactions` stored under its own `id` (`render_interaction_key`);
* tags and interactions referring to each other mutually, in the rendered tree (`render_tags_mutual`), a listed id
  standing in the group of the interaction's own protocol (`render_group_protocol`).

Subtrees produced outside the model (`opaque`: every `schema`, `pathVariables`, `userEnums`) are not looked into;
their PRESENCE is a parameter (`Extra`) and the theorems hold for every value of it.

The model is tied to the real code by the op `buildjson` of `jsight-build` and `realJsonShape` of the harness
(`harness/buildcorr.go`): for every accepted document, key order, key set and all model-level strings of the real
`Catalog.ToJson()` agree with `render`.
-/
namespace JSight.C09J
open JSight JSight.Build JSight.Json

/-- **no repeated key in any object** of the rendered catalog of an accepted project -/
theorem render_noDupKeys (banned : List Gen.Kind) (f : List BTree) (c : Cat) (e : Extra)
    (h : compile banned f = .ok c) : (render e c).noDupKeys = true :=
  have hc := C09B.compile_consistent banned f c h
  render_ok e c hc.tags_nodup hc.servers_nodup hc.types_nodup hc.keys_nodup

/-- the keys of the top-level object are, in this order, among the eight of `Catalog.MarshalJSON` -/
theorem render_top_keys (e : Extra) (c : Cat) :
    (render e c).keysOf.Sublist [K.tags, K.info, K.servers, K.userTypes, K.userEnums, K.interactions, K.jsight,
      K.jdocExchangeVersion] :=
  record_keys_sublist _

/-- **the key IS the id**: every entry `(k, v)` of the rendered `interactions` object has `v.id = k` -/
theorem render_interaction_key (e : Extra) (c : Cat) (k : Bytes) (v : Json)
    (h : (k, v) ∈ ((render e c).get K.interactions).entries) : v.get K.id = .str k := by
  rw [render_interactions] at h
  obtain ⟨x, _, ex⟩ := List.mem_map.1 h
  cases ex
  exact rInter_id e x

/-- … and no id is rendered twice -/
theorem render_interaction_keys_nodup (banned : List Gen.Kind) (f : List BTree) (c : Cat) (e : Extra)
    (h : compile banned f = .ok c) : ((render e c).get K.interactions).keysOf.Nodup := by
  rw [render_interactions]
  simpa [keysOf, List.map_map, Function.comp_def] using (C09B.compile_consistent banned f c h).keys_nodup

/-- **tags ↔ interactions, in the rendered tree**: the rendered tag `n` lists (in one of its interaction groups) the
key `k` of a rendered interaction exactly when the `tags` array of that interaction contains `n` -/
theorem render_tags_mutual (banned : List Gen.Kind) (f : List BTree) (c : Cat) (e : Extra)
    (h : compile banned f = .ok c)
    (n : Bytes) (tj : Json) (ht : (n, tj) ∈ ((render e c).get K.tags).entries)
    (k : Bytes) (xj : Json) (hx : (k, xj) ∈ ((render e c).get K.interactions).entries) :
    Json.str k ∈ listedIds tj ↔ Json.str n ∈ (xj.get K.tags).items := by
  have hc := C09B.compile_consistent banned f c h
  rw [render_tags] at ht
  rw [render_interactions] at hx
  obtain ⟨t, htm, et⟩ := List.mem_map.1 ht
  obtain ⟨x, hxm, ex⟩ := List.mem_map.1 hx
  cases et; cases ex
  rw [listedIds_rTag, rInter_tags, strs, items, str_mem_map, str_mem_map, List.mem_append]
  constructor
  · intro hl
    have : ∃ p, x.iid.text ∈ C09B.groupOf t p := by
      rcases hl with hl | hl
      · exact ⟨.http, hl⟩
      · exact ⟨.rpc, hl⟩
    obtain ⟨p, hp⟩ := this
    obtain ⟨y, hy, _, ey, hn⟩ := hc.tag_back t htm p _ hp
    have : y = x := eq_of_key_eq c.inters (·.iid.text) hc.keys_nodup y x hy hxm ey
    rw [← this]; exact hn
  · intro hn
    obtain ⟨t', ht', en, hg⟩ := hc.tag_exists x hxm _ hn
    have : t' = t := eq_of_key_eq c.tags (·.name) hc.tags_nodup t' t ht' htm en
    rw [this] at hg
    cases hp : x.iid.proto with
    | http => rw [hp] at hg; exact Or.inl hg
    | rpc => rw [hp] at hg; exact Or.inr hg

/-- every rendered tag an interaction names is a key of the rendered `tags` object -/
theorem render_tag_exists (banned : List Gen.Kind) (f : List BTree) (c : Cat) (e : Extra)
    (h : compile banned f = .ok c)
    (k : Bytes) (xj : Json) (hx : (k, xj) ∈ ((render e c).get K.interactions).entries)
    (n : Bytes) (hn : Json.str n ∈ (xj.get K.tags).items) : n ∈ ((render e c).get K.tags).keysOf := by
  have hc := C09B.compile_consistent banned f c h
  rw [render_interactions] at hx
  obtain ⟨x, hxm, ex⟩ := List.mem_map.1 hx
  cases ex
  rw [rInter_tags, strs, items, str_mem_map] at hn
  obtain ⟨t, ht, en, _⟩ := hc.tag_exists x hxm _ hn
  rw [render_tags, keysOf, List.map_map]
  exact List.mem_map.2 ⟨t, ht, en⟩

/-- a group of a rendered tag: its protocol and the ids it lists -/
theorem rTag_groups (t : TagM) (g : Json) (hg : g ∈ ((rTag t).get K.interactionGroups).items) :
    ∃ p : Proto, g.get K.protocol = .str (match p with | .http => K.http | .rpc => jsonRpc20) ∧
      (g.get K.interactions).items = (C09B.groupOf t p).map .str := by
  have e : (rTag t).get K.interactionGroups = .arr (rGroup K.http t.http ++ rGroup jsonRpc20 t.rpc) :=
    record_get _ rfl _ _ (by simp)
  rw [e, items, List.mem_append] at hg
  have one : ∀ (pr : Bytes) (ids : List Bytes), g ∈ rGroup pr ids →
      g.get K.protocol = .str pr ∧ (g.get K.interactions).items = ids.map .str := by
    intro pr ids hm
    unfold rGroup at hm
    split at hm
    · cases hm
    · rw [List.mem_singleton] at hm
      subst hm
      exact ⟨record_get _ rfl _ _ (by simp), by rw [record_get _ rfl K.interactions (strs ids) (by simp)]; rfl⟩
  rcases hg with hg | hg
  · exact ⟨.http, one _ _ hg⟩
  · exact ⟨.rpc, one _ _ hg⟩

/-- an id listed by a group of a rendered tag is the key of a rendered interaction whose `protocol` is the group's -/
theorem render_group_protocol (banned : List Gen.Kind) (f : List BTree) (c : Cat) (e : Extra)
    (h : compile banned f = .ok c)
    (n : Bytes) (tj : Json) (ht : (n, tj) ∈ ((render e c).get K.tags).entries)
    (g : Json) (hg : g ∈ (tj.get K.interactionGroups).items)
    (k : Bytes) (hk : Json.str k ∈ (g.get K.interactions).items) :
    ∃ xj, (k, xj) ∈ ((render e c).get K.interactions).entries ∧ xj.get K.protocol = g.get K.protocol := by
  have hc := C09B.compile_consistent banned f c h
  rw [render_tags] at ht
  obtain ⟨t, htm, et⟩ := List.mem_map.1 ht
  cases et
  obtain ⟨p, ep, ei⟩ := rTag_groups t g hg
  rw [ei, str_mem_map] at hk
  obtain ⟨x, hx, exp, ext, _⟩ := hc.tag_back t htm p k hk
  refine ⟨rInter e x, ?_, ?_⟩
  · rw [render_interactions]
    exact List.mem_map.2 ⟨x, hx, by rw [ext]⟩
  · rw [rInter_protocol, ep]; subst exp; rfl

/-! ### non-vacuity: the accepted document of `C09_Build` (three interactions, an explicit and two automatic tags) -/

open C09B in
example : (render {} exCat).noDupKeys = true := render_noDupKeys [] exForest exCat {} exForest_compiles

-- the top-level keys: no `info`, `servers`, `userTypes`, `userEnums` in this document
example : (render {} C09B.exCat).keysOf = [K.tags, K.interactions, K.jsight, K.jdocExchangeVersion] := by decide +kernel
-- … and with `userEnums` present
example : (render { enums := true } C09B.exCat).keysOf
    = [K.tags, K.userEnums, K.interactions, K.jsight, K.jdocExchangeVersion] := by decide +kernel
-- the keys of `interactions`: "http GET /x", "http GET /y", "json-rpc-2.0 f /r"
example : ((render {} C09B.exCat).get K.interactions).keysOf =
    [[104, 116, 116, 112, 32, 71, 69, 84, 32, 47, 120], [104, 116, 116, 112, 32, 71, 69, 84, 32, 47, 121],
     [106, 115, 111, 110, 45, 114, 112, 99, 45, 50, 46, 48, 32, 102, 32, 47, 114]] := by decide +kernel
-- the field names of the three rendered interactions (HTTP with a response, HTTP without, JSON-RPC with params)
example : ((render {} C09B.exCat).get K.interactions).entries.map (·.2.keysOf) =
    [[K.id, K.protocol, K.httpMethod, K.path, K.tags, K.responses],
     [K.id, K.protocol, K.httpMethod, K.path, K.tags],
     [K.id, K.protocol, K.path, K.method, K.tags, K.params]] := by decide +kernel
-- with path variables on /x
example : (((render { pathVars := fun p => p == [47, 120] } C09B.exCat).get K.interactions).entries.map (·.2.keysOf)).head? =
    some [K.id, K.protocol, K.httpMethod, K.path, K.pathVariables, K.tags, K.responses] := by decide +kernel
-- the keys of `tags` and the number of ids every tag lists
example : ((render {} C09B.exCat).get K.tags).keysOf = [[64, 97], [64, 121], [64, 114]] := by decide +kernel
example : ((render {} C09B.exCat).get K.tags).entries.map (fun p => (listedIds p.2).length) = [1, 1, 1] := by
  decide +kernel
-- the whole tree in the canonical text the correspondence compares (`?` = opaque)
example : (render {} C09B.exCat).text =
    "{74616773:{4061:{6e616d65:s4061,7469746c65:s4061,696e746572616374696f6e47726f757073:[{70726f746f636f" ++
    "6c:s68747470,696e746572616374696f6e73:[s6874747020474554202f78]}]},4079:{6e616d65:s4079,7469746c65:s" ++
    "2f79,696e746572616374696f6e47726f757073:[{70726f746f636f6c:s68747470,696e746572616374696f6e73:[s6874" ++
    "747020474554202f79]}]},4072:{6e616d65:s4072,7469746c65:s2f72,696e746572616374696f6e47726f757073:[{70" ++
    "726f746f636f6c:s6a736f6e2d7270632d322e30,696e746572616374696f6e73:[s6a736f6e2d7270632d322e302066202f" ++
    "72]}]}},696e746572616374696f6e73:{6874747020474554202f78:{6964:s6874747020474554202f78,70726f746f636" ++
    "f6c:s68747470,687474704d6574686f64:s474554,70617468:s2f78,74616773:[s4061],726573706f6e736573:[{636f" ++
    "6465:s323030,626f6479:{666f726d6174:s62696e617279,736368656d61:?}}]},6874747020474554202f79:{6964:s6" ++
    "874747020474554202f79,70726f746f636f6c:s68747470,687474704d6574686f64:s474554,70617468:s2f79,7461677" ++
    "3:[s4079]},6a736f6e2d7270632d322e302066202f72:{6964:s6a736f6e2d7270632d322e302066202f72,70726f746f63" ++
    "6f6c:s6a736f6e2d7270632d322e30,70617468:s2f72,6d6574686f64:s66,74616773:[s4072],706172616d73:{736368" ++
    "656d61:?}}},6a7369676874:s302e33,6a646f6345786368616e676556657273696f6e:s322e302e30}" := by
  decide +kernel

/-! the predicate is not trivial: a repeated key is seen at any depth, also below an array -/
example : (Json.obj [([97], .null), ([98], .null), ([97], .null)]).noDupKeys = false := by decide +kernel
example : (Json.obj [([97], .arr [.obj [([98], .str []), ([98], .null)]])]).noDupKeys = false := by decide +kernel
example : (Json.obj [([97], .obj [([97], .null)]), ([98], .opaque 0)]).noDupKeys = true := by decide +kernel
-- … and `render` of an INCONSISTENT catalog (two interactions with one id text — what the collision check of
-- `addJsonRpcMethod` refuses) does repeat a key: the hypothesis of `render_noDupKeys` is needed
example : (render {} { inters := [{ iid := ⟨.rpc, [97, 32, 98], [47, 99]⟩, annot := [] },
                                  { iid := ⟨.rpc, [97], [98, 32, 47, 99]⟩, annot := [] }] }).noDupKeys = false := by
  decide +kernel

end JSight.C09J
