import JSight.Model.Context
namespace JSight.C04
end JSight.C04
