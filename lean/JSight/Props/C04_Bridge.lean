import JSight.Props.C06_Obeys
import JSight.Proofs.BuildContent
/-!
The seam between the context models (token-level `Dir` / `Tree`: C06, C07) and the catalog model
(parameter-carrying `BDir` / `BTree`: C04): whatever parameters, annotation and body the harness attaches to the
directives of a forest, a forest that obeys the admissibility tables in the sense of `C06_Obeys` obeys them in the
sense the content theorems of `C04_Content` assume (`obeysF`).  Hence the hypothesis `obeysF f` of those theorems holds
for every forest the context resolution and the PASTE expansion produce.
-/
namespace JSight.C04Br
open JSight JSight.Gen JSight.Build

mutual
  /-- the catalog-level tree of a context-level tree under a decoration of its directives that keeps their kinds -/
  def decoTree (deco : Dir → BDir) : Tree → BTree
    | .node d kids => .node (deco d) (decoForest deco kids)
  def decoForest (deco : Dir → BDir) : List Tree → List BTree
    | [] => []
    | t :: r => decoTree deco t :: decoForest deco r
end

theorem decoTree_dir (deco : Dir → BDir) (t : Tree) : (decoTree deco t).dir = deco t.dir := by
  cases t; rfl

theorem admitsK_eq (p c : Kind) : JSight.C04C.admitsK p c = JSight.admits p c := rfl

theorem admitsDir_admits {p d : Dir} (h : admitsDir p d = true) : JSight.admits p.kind d.kind = true := by
  unfold admitsDir at h
  exact (Bool.and_eq_true _ _ ▸ h : _ ∧ _).1

mutual
  theorem decoTree_obeys (deco : Dir → BDir) (hk : ∀ d, (deco d).kind = d.kind) :
      ∀ t : Tree, C06O.obeysTree t = true → JSight.C04C.obeysT (decoTree deco t) = true
    | .node d kids, h => by
      simp only [C06O.obeysTree, Bool.and_eq_true] at h
      simp only [decoTree, JSight.C04C.obeysT, Bool.and_eq_true]
      refine ⟨?_, decoForest_obeys deco hk kids h.2⟩
      exact decoForest_edges deco hk d kids h.1
  theorem decoForest_obeys (deco : Dir → BDir) (hk : ∀ d, (deco d).kind = d.kind) :
      ∀ f : List Tree, C06O.obeysForest f = true → JSight.C04C.obeysF (decoForest deco f) = true
    | [], _ => rfl
    | t :: r, h => by
      simp only [C06O.obeysForest, Bool.and_eq_true] at h
      simp only [decoForest, JSight.C04C.obeysF, Bool.and_eq_true]
      exact ⟨decoTree_obeys deco hk t h.1, decoForest_obeys deco hk r h.2⟩
  theorem decoForest_edges (deco : Dir → BDir) (hk : ∀ d, (deco d).kind = d.kind) (d : Dir) :
      ∀ kids : List Tree, kids.all (fun k => admitsDir d k.dir) = true →
        ((decoForest deco kids).map BTree.dir).all (fun k => JSight.C04C.admitsK (deco d).kind k.kind) = true
    | [], _ => rfl
    | t :: r, h => by
      simp only [List.all_cons, Bool.and_eq_true] at h
      simp only [decoForest, List.map_cons, List.all_cons, Bool.and_eq_true, decoTree_dir]
      refine ⟨?_, decoForest_edges deco hk d r h.2⟩
      rw [admitsK_eq, hk, hk]
      exact admitsDir_admits h.1
end

/-- **the seam closed**: the forest of a resolved token stream, decorated with any parameters, satisfies the
hypothesis of the content theorems -/
theorem resolved_forest_obeys (toks : List Tok) (F : List Tree) (h : resolve toks = .ok F)
    (deco : Dir → BDir) (hk : ∀ d, (deco d).kind = d.kind) :
    JSight.C04C.obeysF (decoForest deco F) = true :=
  decoForest_obeys deco hk F (C06O.resolve_obeys toks F h).2

/-- the same after PASTE expansion — the forest the catalog construction actually receives -/
theorem expanded_forest_obeys (roots F : List Tree) (h : expand roots = .ok F)
    (deco : Dir → BDir) (hk : ∀ d, (deco d).kind = d.kind) :
    JSight.C04C.obeysF (decoForest deco F) = true :=
  decoForest_obeys deco hk F (C06O.expand_obeys roots F h).2

end JSight.C04Br
