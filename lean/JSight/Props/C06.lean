import JSight.Model.Context
namespace JSight.C06
end JSight.C06
