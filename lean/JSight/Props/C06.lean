import JSight.Model.Context
import JSight.Proofs.C06
/-!
C06: directive context resolution (`processContext`, `closeLastExplicitContext`, `processEOF`).
A declarative placement rule `specWhere` over the stack of open directives, and the theorems that the
walk-up loop `place` implements it, that ")" and end of input behave as documented, and that the
resulting forest flattens back to the input token stream.

All theorems are parametric in the admissibility tables: only `rootAdmits`, `admits`, `isHTTPMethod`
are used, never unfolded (the tables are unfolded only by the closing `example`s).  Core Lean only.
-/
namespace JSight.C06
open JSight Gen

/-- the "path-bearing HTTP method directly under a URL" case, which makes the directive a top-level one
    (documented language rule) -/
def hoists (parent d : Dir) : Bool := isHTTPMethod d.kind && d.hasPath && parent.kind == Kind.URL

/-- Declarative placement over the stack of open directives (innermost first):
    among the open directives from the innermost outwards, up to and including the first parenthesised one,
    the first that admits the kind is the parent; if none admits it and no parenthesised one was met, the
    directive goes to top level when its kind may stand there; otherwise there is no place. -/
inductive Where where
  | under (depth : Nat)     -- becomes a child of the open directive at this depth (0 = innermost)
  | top                     -- becomes a top-level directive
  | nowhere
  deriving DecidableEq, Repr

def specWhere : List Dir → Dir → Where
  | [], d => if rootAdmits d.kind then .top else .nowhere
  | p :: rest, d =>
    if admits p.kind d.kind then .under 0
    else if p.explicit then .nowhere
    else match specWhere rest d with
      | .under n => .under (n + 1)
      | w => w

/-! ### the declarative rule, characterised -/

/-- `specWhere` names depth `n` exactly when the open directive there admits the kind and every open
    directive inside it neither admits the kind nor is parenthesised -/
theorem specWhere_under_iff (ds : List Dir) (d : Dir) (n : Nat) :
    specWhere ds d = .under n ↔
      ∃ p, ds[n]? = some p ∧ admits p.kind d.kind = true ∧
        ∀ q ∈ ds.take n, admits q.kind d.kind = false ∧ q.explicit = false := by
  induction ds generalizing n with
  | nil => simp only [specWhere]; split <;> simp
  | cons p rest ih =>
    simp only [specWhere]
    cases ha : admits p.kind d.kind with
    | true =>
      cases n with
      | zero => simp [ha]
      | succ n => simp [ha]
    | false =>
      cases hx : p.explicit with
      | true =>
        cases n with
        | zero => simp [ha]
        | succ n => simp [hx]
      | false =>
        simp only [Bool.false_eq_true, ↓reduceIte]
        cases n with
        | zero =>
          cases specWhere rest d <;> simp [ha]
        | succ n =>
          have := ih n
          cases hs : specWhere rest d with
          | under m =>
            rw [hs] at this
            simp only [Where.under.injEq, Nat.add_right_cancel_iff]
            rw [Where.under.injEq] at this
            rw [this]; simp [ha, hx]
          | top => rw [hs] at this; simp at this ⊢; simpa [ha, hx] using this
          | nowhere => rw [hs] at this; simp at this ⊢; simpa [ha, hx] using this

/-- `specWhere` names the top level exactly when the kind may stand there and no open directive admits
    the kind or is parenthesised -/
theorem specWhere_top_iff (ds : List Dir) (d : Dir) :
    specWhere ds d = .top ↔
      rootAdmits d.kind = true ∧ ∀ q ∈ ds, admits q.kind d.kind = false ∧ q.explicit = false := by
  induction ds with
  | nil => simp only [specWhere]; split <;> simp [*]
  | cons p rest ih =>
    simp only [specWhere]
    cases ha : admits p.kind d.kind with
    | true => simp [ha]
    | false =>
      cases hx : p.explicit with
      | true => simp [hx]
      | false =>
        simp only [Bool.false_eq_true, ↓reduceIte]
        cases hs : specWhere rest d with
        | under m => rw [hs] at ih; simp at ih ⊢; simpa [ha, hx] using ih
        | top => rw [hs] at ih; simp at ih ⊢; simpa [ha, hx] using ih
        | nowhere => rw [hs] at ih; simp at ih ⊢; simpa [ha, hx] using ih

/-! ### placement -/

/-- `place_cons` restated with `hoists` -/
theorem place_cons' (f : Frame) (below : List Frame) (roots : List Tree) (d : Dir) :
    place (f :: below) roots d =
      if admits f.d.kind d.kind then
        if hoists f.d d then
          if anyExplicit (f :: below) then .error (.pathMethodInExplicit d.id)
          else .ok { frames := [{ d := d }], roots := closeAll (f :: below) roots }
        else .ok { frames := { d := d } :: f :: below, roots := roots }
      else if f.d.explicit then .error (.incorrectContext d.id)
      else place (pop f below roots).1 (pop f below roots).2 d :=
  place_cons f below roots d

/-- (1) the loop finds the place the declarative rule names -/
theorem place_ok_iff (frames : List Frame) (roots : List Tree) (d : Dir) :
    (∃ c, place frames roots d = .ok c) ↔
      (match specWhere (frames.map (·.d)) d with
       | .nowhere => False
       | .top => True
       | .under n => ∀ p, (frames.map (·.d))[n]? = some p → hoists p d = true → anyExplicit frames = false) := by
  induction frames, roots using frames_ind with
  | nil roots =>
    rw [place_nil]
    simp only [List.map_nil, specWhere]
    split <;> simp
  | cons f below roots ih =>
    rw [place_cons']
    simp only [List.map_cons, specWhere]
    cases ha : admits f.d.kind d.kind with
    | true =>
      cases hh : hoists f.d d with
      | true => cases hx : anyExplicit (f :: below) <;> simp [hh]
      | false => simp [hh]
    | false =>
      cases hx : f.d.explicit with
      | true => simp
      | false =>
        simp only [Bool.false_eq_true, ↓reduceIte]
        rw [ih, pop_map_d, pop_anyExplicit, anyExplicit_cons]
        cases specWhere (List.map (fun x => x.d) below) d with
        | under n => simp [hx]
        | top => simp
        | nowhere => simp

/-- (2) on success the new directive is the innermost open one, and the open directives below it are exactly
    the old ones from the parent outwards (none for top level / a hoisted method) -/
theorem place_frames (frames : List Frame) (roots : List Tree) (d : Dir) (c : Ctx)
    (h : place frames roots d = .ok c) :
    c.frames.map (·.d) =
      match specWhere (frames.map (·.d)) d with
      | .under n =>
        (match (frames.map (·.d))[n]? with
         | some p => if hoists p d then [d] else d :: (frames.map (·.d)).drop n
         | none => [d])
      | _ => [d] := by
  induction frames, roots using frames_ind with
  | nil roots =>
    rw [place_nil] at h
    simp only [List.map_nil, specWhere]
    split at h
    · cases h; simp [*]
    · cases h
  | cons f below roots ih =>
    rw [place_cons'] at h
    simp only [List.map_cons, specWhere]
    cases ha : admits f.d.kind d.kind with
    | true =>
      simp only [ha, ↓reduceIte] at h ⊢
      cases hh : hoists f.d d with
      | true =>
        simp only [hh, ↓reduceIte] at h
        split at h
        · cases h
        · cases h; simp [hh]
      | false =>
        simp only [hh, Bool.false_eq_true, ↓reduceIte] at h
        cases h; simp [hh]
    | false =>
      simp only [ha, Bool.false_eq_true, ↓reduceIte] at h ⊢
      cases hx : f.d.explicit with
      | true => simp [hx] at h
      | false =>
        simp only [hx, Bool.false_eq_true, ↓reduceIte] at h ⊢
        rw [ih h, pop_map_d]
        cases specWhere (List.map (fun x => x.d) below) d with
        | under n => simp
        | top => simp
        | nowhere => simp

/-- (3) the walk never leaves an open parenthesised context: every open parenthesised directive stays open -/
theorem place_keeps_explicit (frames : List Frame) (roots : List Tree) (d : Dir) (c : Ctx)
    (h : place frames roots d = .ok c) (f : Dir) (hf : f ∈ frames.map (·.d)) (hx : f.explicit = true) :
    f ∈ c.frames.map (·.d) := by
  induction frames, roots using frames_ind with
  | nil roots => simp at hf
  | cons f0 below roots ih =>
    rw [place_cons] at h
    split at h
    · split at h
      · split at h
        · cases h
        · rename_i hne
          exfalso
          apply hne
          rw [anyExplicit_eq, List.any_eq_true]
          exact ⟨f, hf, hx⟩
      · cases h
        simp only [List.map_cons] at hf ⊢
        exact List.mem_cons_of_mem _ hf
    · split at h
      · cases h
      · rename_i hne
        apply ih h
        rw [pop_map_d]
        simp only [List.map_cons, List.mem_cons] at hf
        rcases hf with rfl | hf
        · exact absurd hx hne
        · exact hf

/-- (4) rejection: exactly when the declarative rule finds no place (or the hoist meets an open parenthesis) -/
theorem place_error_iff (frames : List Frame) (roots : List Tree) (d : Dir) :
    (∃ e, place frames roots d = .error e) ↔ ¬ (∃ c, place frames roots d = .ok c) := by
  cases place frames roots d <;> simp

/-- (4') the rejection stated directly against the declarative rule -/
theorem place_error_iff_spec (frames : List Frame) (roots : List Tree) (d : Dir) :
    (∃ e, place frames roots d = .error e) ↔
      (match specWhere (frames.map (·.d)) d with
       | .nowhere => True
       | .top => False
       | .under n => ∃ p, (frames.map (·.d))[n]? = some p ∧ hoists p d = true ∧ anyExplicit frames = true) := by
  rw [place_error_iff, place_ok_iff]
  cases specWhere (frames.map (·.d)) d with
  | under n =>
    simp only []
    cases hq : (frames.map (·.d))[n]? with
    | none => simp
    | some p =>
      cases hh : hoists p d with
      | false =>
        constructor
        · intro hn; exact absurd (fun q hq' hh' => by cases hq'; rw [hh] at hh'; cases hh') hn
        · rintro ⟨q, hq', hh', _⟩; cases hq'; rw [hh] at hh'; cases hh'
      | true =>
        cases hx : anyExplicit frames with
        | false =>
          constructor
          · intro hn; exact absurd (fun _ _ _ => rfl) hn
          · rintro ⟨_, _, _, h⟩; cases h
        | true =>
          constructor
          · intro _; exact ⟨p, rfl, hh, rfl⟩
          · intro _ hn; exact absurd (hn p rfl hh) (by simp)
  | top => simp
  | nowhere => simp

/-! ### ")" and end of input -/

/-- (5) ")" closes the innermost parenthesised open directive; it is rejected iff there is none -/
theorem closeExplicit_ok_iff (frames : List Frame) (roots : List Tree) :
    (∃ c, closeExplicit frames roots = .ok c) ↔ anyExplicit frames = true := by
  induction frames, roots using frames_ind with
  | nil roots => simp [closeExplicit_nil]
  | cons f below roots ih =>
    rw [closeExplicit_cons]
    cases hx : f.d.explicit with
    | true => simp [hx]
    | false =>
      simp only [Bool.false_eq_true, ↓reduceIte]
      rw [ih, pop_anyExplicit]
      simp [hx]

theorem closeExplicit_frames (frames : List Frame) (roots : List Tree) (c : Ctx)
    (h : closeExplicit frames roots = .ok c) :
    c.frames.map (·.d) = ((frames.map (·.d)).dropWhile (fun p => !p.explicit)).drop 1 := by
  induction frames, roots using frames_ind with
  | nil roots => rw [closeExplicit_nil] at h; cases h
  | cons f below roots ih =>
    rw [closeExplicit_cons] at h
    cases hx : f.d.explicit with
    | true =>
      simp only [hx, ↓reduceIte] at h
      cases h
      simp [hx]
    | false =>
      simp only [hx, Bool.false_eq_true, ↓reduceIte] at h
      rw [ih h, pop_map_d]
      simp [hx]

/-- (6) end of input is rejected iff a parenthesised directive is still open -/
theorem resolve_eof (toks : List Tok) (c : Ctx) (h : consumeAll {} toks = .ok c) :
    (∃ f, resolve toks = .ok f) ↔ anyExplicit c.frames = false := by
  unfold resolve
  rw [h]
  cases hx : anyExplicit c.frames <;> simp [hx]

/-- (7) nothing is lost or reordered: the pre-order token stream of the resulting forest is the input stream -/
theorem resolve_flatten (toks : List Tok) (f : List Tree) (h : resolve toks = .ok f) : flattenForest f = toks := by
  unfold resolve at h
  split at h
  · cases h
  · rename_i c hc
    split at h
    · cases h
    · rename_i hx
      cases h
      rw [closeAll_flat _ _ (by simpa using hx), consumeAll_flat _ _ _ hc]
      simp [flat, openFlatten]

/-! ### non-vacuity on the real tables -/
section Examples
private def url : Dir := { kind := .URL, id := 1 }
private def get : Dir := { kind := .Get, id := 2 }
private def req : Dir := { kind := .Request, id := 3 }
private def body : Dir := { kind := .Body, id := 4 }
private def getP : Dir := { kind := .Get, hasPath := true, id := 5 }
private def urlX : Dir := { kind := .URL, explicit := true, id := 6 }
private def ty : Dir := { kind := .Type, id := 7 }

example : specWhere [req, get, url] body = .under 0 := by decide
example : specWhere [body, req, get, url] get = .under 3 := by decide
example : specWhere [body, req, get, url] getP = .under 3 := by decide
example : hoists url getP = true ∧ hoists url get = false := by decide
example : specWhere [body, req, get, url] ty = .top := by decide
example : specWhere [body, req, get, urlX] ty = .nowhere := by decide
example : specWhere [] body = .nowhere := by decide

/-- URL, GET, Request, Body, then a path-bearing GET: the second GET is hoisted to top level -/
example : resolve [.dir url, .dir get, .dir req, .dir body, .dir getP] =
    .ok [.node url [.node get [.node req [.node body []]]], .node getP []] := by decide +kernel
/-- the same with a path-less GET: it becomes a sibling of the first GET under the URL -/
example : resolve [.dir url, .dir get, .dir req, .dir body, .dir get] =
    .ok [.node url [.node get [.node req [.node body []]], .node get []]] := by decide +kernel
/-- parenthesised URL: a TYPE inside it has no place; closing it first gives two top-level directives -/
example : resolve [.dir urlX, .dir get, .dir ty] = .error (.incorrectContext 7) := by decide +kernel
example : resolve [.dir urlX, .dir get, .close, .dir ty] =
    .ok [.node urlX [.node get []], .node ty []] := by decide +kernel
/-- a path-bearing method inside a parenthesised URL is rejected -/
example : resolve [.dir urlX, .dir getP] = .error (.pathMethodInExplicit 5) := by decide +kernel
/-- ")" without "(" -/
example : resolve [.close] = .error .noExplicitToClose := by decide +kernel
example : resolve [.dir url, .dir get, .close] = .error .noExplicitToClose := by decide +kernel
/-- "(" never closed -/
example : resolve [.dir urlX, .dir get] = .error .unclosedAtEOF := by decide +kernel
/-- a Body with no open directive -/
example : resolve [.dir body] = .error (.incorrectContext 4) := by decide +kernel
end Examples

end JSight.C06
