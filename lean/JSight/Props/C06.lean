import JSight.Model.Context
import JSight.Proofs.C06
/-!
C06: directive context resolution (`processContext`, `closeLastExplicitContext`, `processEOF`).
A declarative placement rule `specWhere` over the stack of open directives, and the theorems that the
walk-up loop `place` implements it, that ")" and end of input behave as documented, and that the
resulting forest flattens back to the input token stream.

All theorems are parametric in the admissibility tables: only `rootAdmits`, `admits`, `isHTTPMethod`
are used, never unfolded (the tables are unfolded only by the closing `example`s).  Core Lean only.
-/
namespace JSight.C06
open JSight Gen

/-- Declarative placement over the stack of open directives (innermost first):
    among the open directives from the innermost outwards, up to and including the first parenthesised one,
    the first that admits the directive is the parent (`admitsDir`: its kind admits the kind, and it is not a
    URL facing an HTTP method with its own path); if none admits it and no parenthesised one was met, the
    directive goes to top level when its kind may stand there; otherwise there is no place. -/
inductive Where where
  | under (depth : Nat)     -- becomes a child of the open directive at this depth (0 = innermost)
  | top                     -- becomes a top-level directive
  | nowhere
  deriving DecidableEq, Repr

def specWhere : List Dir → Dir → Where
  | [], d => if rootAdmits d.kind then .top else .nowhere
  | p :: rest, d =>
    if admitsDir p d then .under 0
    else if p.explicit then .nowhere
    else match specWhere rest d with
      | .under n => .under (n + 1)
      | w => w

/-- the class of the rejection: the open parenthesised directive that stopped the walk (the innermost one)
    would have admitted the kind, and only the path rule refused it — or plain incorrect context -/
def specErr (ds : List Dir) (d : Dir) : CtxErr :=
  match ds.find? (·.explicit) with
  | some p => if admits p.kind d.kind then .pathMethodInExplicit d.id else .incorrectContext d.id
  | none => .incorrectContext d.id

/-! ### the declarative rule, characterised -/

/-- `specWhere` names depth `n` exactly when the open directive there admits the directive and every open
    directive inside it neither admits it nor is parenthesised -/
theorem specWhere_under_iff (ds : List Dir) (d : Dir) (n : Nat) :
    specWhere ds d = .under n ↔
      ∃ p, ds[n]? = some p ∧ admitsDir p d = true ∧
        ∀ q ∈ ds.take n, admitsDir q d = false ∧ q.explicit = false := by
  induction ds generalizing n with
  | nil => simp only [specWhere]; split <;> simp
  | cons p rest ih =>
    simp only [specWhere]
    cases ha : admitsDir p d with
    | true =>
      cases n with
      | zero => simp [ha]
      | succ n => simp [ha]
    | false =>
      cases hx : p.explicit with
      | true =>
        cases n with
        | zero => simp [ha]
        | succ n => simp [hx]
      | false =>
        simp only [Bool.false_eq_true, ↓reduceIte]
        cases n with
        | zero =>
          cases specWhere rest d <;> simp [ha]
        | succ n =>
          have := ih n
          cases hs : specWhere rest d with
          | under m =>
            rw [hs] at this
            simp only [Where.under.injEq, Nat.add_right_cancel_iff]
            rw [Where.under.injEq] at this
            rw [this]; simp [ha, hx]
          | top => rw [hs] at this; simp at this ⊢; simpa [ha, hx] using this
          | nowhere => rw [hs] at this; simp at this ⊢; simpa [ha, hx] using this

/-- `specWhere` names the top level exactly when the kind may stand there and no open directive admits
    the directive or is parenthesised -/
theorem specWhere_top_iff (ds : List Dir) (d : Dir) :
    specWhere ds d = .top ↔
      rootAdmits d.kind = true ∧ ∀ q ∈ ds, admitsDir q d = false ∧ q.explicit = false := by
  induction ds with
  | nil => simp only [specWhere]; split <;> simp [*]
  | cons p rest ih =>
    simp only [specWhere]
    cases ha : admitsDir p d with
    | true => simp [ha]
    | false =>
      cases hx : p.explicit with
      | true => simp [hx]
      | false =>
        simp only [Bool.false_eq_true, ↓reduceIte]
        cases hs : specWhere rest d with
        | under m => rw [hs] at ih; simp at ih ⊢; simpa [ha, hx] using ih
        | top => rw [hs] at ih; simp at ih ⊢; simpa [ha, hx] using ih
        | nowhere => rw [hs] at ih; simp at ih ⊢; simpa [ha, hx] using ih

/-- what `admitsDir` says, in the words of the tables: the kind is admitted, and the pair is not
    "HTTP method with its own path, under a URL" -/
theorem admitsDir_iff (p d : Dir) :
    admitsDir p d = true ↔
      admits p.kind d.kind = true ∧ ¬ (isHTTPMethod d.kind = true ∧ d.hasPath = true ∧ p.kind = Kind.URL) := by
  simp only [admitsDir, pathMethodUnderURL]
  cases admits p.kind d.kind <;> cases isHTTPMethod d.kind <;> cases d.hasPath <;>
    by_cases hk : p.kind = Kind.URL <;> simp [hk]

/-! ### placement -/

/-- `place_cons` with the path rule spelled out -/
theorem place_cons' (f : Frame) (below : List Frame) (roots : List Tree) (d : Dir) :
    place (f :: below) roots d =
      if admits f.d.kind d.kind && !(isHTTPMethod d.kind && d.hasPath && f.d.kind == Kind.URL) then
        .ok { frames := { d := d } :: f :: below, roots := roots }
      else if f.d.explicit then
        (if admits f.d.kind d.kind then .error (.pathMethodInExplicit d.id) else .error (.incorrectContext d.id))
      else place (pop f below roots).1 (pop f below roots).2 d :=
  place_cons f below roots d

/-- (1) the loop succeeds exactly when the declarative rule names a place -/
theorem place_ok_iff (frames : List Frame) (roots : List Tree) (d : Dir) :
    (∃ c, place frames roots d = .ok c) ↔ specWhere (frames.map (·.d)) d ≠ .nowhere := by
  induction frames, roots using frames_ind with
  | nil roots =>
    rw [place_nil]
    simp only [List.map_nil, specWhere]
    split <;> simp
  | cons f below roots ih =>
    rw [place_cons]
    simp only [List.map_cons, specWhere]
    cases ha : admitsDir f.d d with
    | true => simp
    | false =>
      cases hx : f.d.explicit with
      | true => simp only [Bool.false_eq_true, ↓reduceIte]; split <;> simp
      | false =>
        simp only [Bool.false_eq_true, ↓reduceIte]
        rw [ih, pop_map_d]
        cases specWhere (List.map (fun x => x.d) below) d with
        | under n => simp
        | top => simp
        | nowhere => simp

/-- (2) on success the new directive is the innermost open one, and the open directives below it are exactly
    the old ones from the parent outwards (none for top level) -/
theorem place_frames (frames : List Frame) (roots : List Tree) (d : Dir) (c : Ctx)
    (h : place frames roots d = .ok c) :
    c.frames.map (·.d) =
      match specWhere (frames.map (·.d)) d with
      | .under n => d :: (frames.map (·.d)).drop n
      | _ => [d] := by
  induction frames, roots using frames_ind with
  | nil roots =>
    rw [place_nil] at h
    simp only [List.map_nil, specWhere]
    split at h
    · cases h; simp [*]
    · cases h
  | cons f below roots ih =>
    rw [place_cons] at h
    simp only [List.map_cons, specWhere]
    cases ha : admitsDir f.d d with
    | true =>
      simp only [ha, ↓reduceIte] at h ⊢
      cases h; simp
    | false =>
      simp only [ha, Bool.false_eq_true, ↓reduceIte] at h ⊢
      cases hx : f.d.explicit with
      | true =>
        simp only [hx, ↓reduceIte] at h
        split at h <;> cases h
      | false =>
        simp only [hx, Bool.false_eq_true, ↓reduceIte] at h ⊢
        rw [ih h, pop_map_d]
        cases specWhere (List.map (fun x => x.d) below) d with
        | under n => simp
        | top => simp
        | nowhere => simp

/-- (3) the walk never leaves an open parenthesised context: every open parenthesised directive stays open -/
theorem place_keeps_explicit (frames : List Frame) (roots : List Tree) (d : Dir) (c : Ctx)
    (h : place frames roots d = .ok c) (f : Dir) (hf : f ∈ frames.map (·.d)) (hx : f.explicit = true) :
    f ∈ c.frames.map (·.d) := by
  induction frames, roots using frames_ind with
  | nil roots => simp at hf
  | cons f0 below roots ih =>
    rw [place_cons] at h
    split at h
    · cases h
      simp only [List.map_cons] at hf ⊢
      exact List.mem_cons_of_mem _ hf
    · split at h
      · split at h <;> cases h
      · rename_i hne
        apply ih h
        rw [pop_map_d]
        simp only [List.map_cons, List.mem_cons] at hf
        rcases hf with rfl | hf
        · exact absurd hx hne
        · exact hf

/-- (4) rejection: exactly when the declarative rule finds no place -/
theorem place_error_iff (frames : List Frame) (roots : List Tree) (d : Dir) :
    (∃ e, place frames roots d = .error e) ↔ specWhere (frames.map (·.d)) d = .nowhere := by
  have h := place_ok_iff frames roots d
  cases hp : place frames roots d with
  | ok c =>
    rw [hp] at h
    have := h.mp ⟨c, rfl⟩
    simp [this]
  | error e =>
    rw [hp] at h
    simp only [reduceCtorEq, exists_false, ne_eq, false_iff, Decidable.not_not] at h
    simp [h]

/-- (4') the rejection with its class: `place` fails with `e` exactly when the declarative rule finds no place
    and `e` is the class `specErr` — `pathMethodInExplicit` when the innermost open parenthesised directive
    admits the kind (so only the path rule refused the directive), `incorrectContext` otherwise -/
theorem place_error_iff_spec (frames : List Frame) (roots : List Tree) (d : Dir) (e : CtxErr) :
    place frames roots d = .error e ↔
      specWhere (frames.map (·.d)) d = .nowhere ∧ e = specErr (frames.map (·.d)) d := by
  induction frames, roots using frames_ind with
  | nil roots =>
    rw [place_nil]
    simp only [List.map_nil, specWhere, specErr, List.find?_nil]
    split <;> simp [eq_comm]
  | cons f below roots ih =>
    rw [place_cons]
    simp only [List.map_cons, specWhere, specErr]
    cases ha : admitsDir f.d d with
    | true => simp
    | false =>
      cases hx : f.d.explicit with
      | true =>
        simp only [Bool.false_eq_true, ↓reduceIte, List.find?_cons, hx, true_and]
        split <;> simp [eq_comm]
      | false =>
        simp only [Bool.false_eq_true, ↓reduceIte, List.find?_cons, hx]
        rw [ih, pop_map_d, specErr]
        cases specWhere (List.map (fun x => x.d) below) d with
        | under n => simp
        | top => simp
        | nowhere => simp

/-- the open parenthesised directive blamed by `specErr` is the one that stopped the walk: when the rule finds
    no place and a parenthesised directive is open, every open directive up to and including the innermost
    parenthesised one refuses the directive -/
theorem specWhere_nowhere_blocked (ds : List Dir) (d : Dir) (p : Dir)
    (h : specWhere ds d = .nowhere) (hp : ds.find? (·.explicit) = some p) :
    admitsDir p d = false ∧ ∀ q ∈ ds.takeWhile (fun q => !q.explicit), admitsDir q d = false := by
  induction ds with
  | nil => simp at hp
  | cons q rest ih =>
    simp only [specWhere] at h
    cases ha : admitsDir q d with
    | true => simp [ha] at h
    | false =>
      cases hx : q.explicit with
      | true =>
        simp only [List.find?_cons, hx, Option.some.injEq] at hp
        subst hp
        simp [ha, hx]
      | false =>
        simp only [ha, hx, Bool.false_eq_true, ↓reduceIte] at h
        simp only [List.find?_cons, hx] at hp
        have hs : specWhere rest d = .nowhere := by
          cases hw : specWhere rest d with
          | under n => rw [hw] at h; cases h
          | top => rw [hw] at h; cases h
          | nowhere => rfl
        have := ih hs hp
        refine ⟨this.1, ?_⟩
        intro r hr
        simp only [List.takeWhile_cons, hx, Bool.not_false, ↓reduceIte, List.mem_cons] at hr
        rcases hr with rfl | hr
        · exact ha
        · exact this.2 r hr

/-! ### ")" and end of input -/

/-- (5) ")" closes the innermost parenthesised open directive; it is rejected iff there is none -/
theorem closeExplicit_ok_iff (frames : List Frame) (roots : List Tree) :
    (∃ c, closeExplicit frames roots = .ok c) ↔ anyExplicit frames = true := by
  induction frames, roots using frames_ind with
  | nil roots => simp [closeExplicit_nil]
  | cons f below roots ih =>
    rw [closeExplicit_cons]
    cases hx : f.d.explicit with
    | true => simp [hx]
    | false =>
      simp only [Bool.false_eq_true, ↓reduceIte]
      rw [ih, pop_anyExplicit]
      simp [hx]

theorem closeExplicit_frames (frames : List Frame) (roots : List Tree) (c : Ctx)
    (h : closeExplicit frames roots = .ok c) :
    c.frames.map (·.d) = ((frames.map (·.d)).dropWhile (fun p => !p.explicit)).drop 1 := by
  induction frames, roots using frames_ind with
  | nil roots => rw [closeExplicit_nil] at h; cases h
  | cons f below roots ih =>
    rw [closeExplicit_cons] at h
    cases hx : f.d.explicit with
    | true =>
      simp only [hx, ↓reduceIte] at h
      cases h
      simp [hx]
    | false =>
      simp only [hx, Bool.false_eq_true, ↓reduceIte] at h
      rw [ih h, pop_map_d]
      simp [hx]

/-- (6) end of input is rejected iff a parenthesised directive is still open -/
theorem resolve_eof (toks : List Tok) (c : Ctx) (h : consumeAll {} toks = .ok c) :
    (∃ f, resolve toks = .ok f) ↔ anyExplicit c.frames = false := by
  unfold resolve
  rw [h]
  cases hx : anyExplicit c.frames <;> simp [hx]

/-- (7) nothing is lost or reordered: the pre-order token stream of the resulting forest is the input stream -/
theorem resolve_flatten (toks : List Tok) (f : List Tree) (h : resolve toks = .ok f) : flattenForest f = toks := by
  unfold resolve at h
  split at h
  · cases h
  · rename_i c hc
    split at h
    · cases h
    · rename_i hx
      cases h
      rw [closeAll_flat _ _ (by simpa using hx), consumeAll_flat _ _ _ hc]
      simp [flat, openFlatten]

/-! ### non-vacuity on the real tables -/
section Examples
private def url : Dir := { kind := .URL, id := 1 }
private def get : Dir := { kind := .Get, id := 2 }
private def req : Dir := { kind := .Request, id := 3 }
private def body : Dir := { kind := .Body, id := 4 }
private def getP : Dir := { kind := .Get, hasPath := true, id := 5 }
private def urlX : Dir := { kind := .URL, explicit := true, id := 6 }
private def ty : Dir := { kind := .Type, id := 7 }
private def mac : Dir := { kind := .Macro, name := 1, id := 8 }
private def macX : Dir := { kind := .Macro, explicit := true, name := 1, id := 9 }

example : specWhere [req, get, url] body = .under 0 := by decide
example : specWhere [body, req, get, url] get = .under 3 := by decide
example : admitsDir url getP = false ∧ admitsDir url get = true ∧ admitsDir mac getP = true := by decide
/-- the URL does not admit a path-bearing method: the walk goes on to the top level -/
example : specWhere [body, req, get, url] getP = .top := by decide
/-- ... or to an enclosing MACRO -/
example : specWhere [body, req, get, url, mac] getP = .under 4 := by decide
example : specWhere [body, req, get, url] ty = .top := by decide
example : specWhere [body, req, get, urlX] ty = .nowhere := by decide
example : specWhere [body, req, get, urlX] getP = .nowhere := by decide
example : specErr [body, req, get, urlX] ty = .incorrectContext 7 := by decide
example : specErr [body, req, get, urlX] getP = .pathMethodInExplicit 5 := by decide
example : specWhere [] body = .nowhere := by decide

/-- URL, GET, Request, Body, then a path-bearing GET: no open directive admits the second GET, the walk reaches
    the root and it becomes a second top-level directive -/
example : resolve [.dir url, .dir get, .dir req, .dir body, .dir getP] =
    .ok [.node url [.node get [.node req [.node body []]]], .node getP []] := by decide +kernel
/-- URL then a path-bearing GET: two roots -/
example : resolve [.dir url, .dir getP] = .ok [.node url [], .node getP []] := by decide +kernel
/-- the same with a path-less GET: it becomes a sibling of the first GET under the URL -/
example : resolve [.dir url, .dir get, .dir req, .dir body, .dir get] =
    .ok [.node url [.node get [.node req [.node body []]], .node get []]] := by decide +kernel
/-- inside a MACRO the path-bearing method leaves the URL but stays in the macro -/
example : resolve [.dir macX, .dir url, .dir get, .dir getP, .close] =
    .ok [.node macX [.node url [.node get []], .node getP []]] := by decide +kernel
example : resolve [.dir mac, .dir url, .dir getP] =
    .ok [.node mac [.node url [], .node getP []]] := by decide +kernel
/-- parenthesised URL: a TYPE inside it has no place; closing it first gives two top-level directives -/
example : resolve [.dir urlX, .dir get, .dir ty] = .error (.incorrectContext 7) := by decide +kernel
example : resolve [.dir urlX, .dir get, .close, .dir ty] =
    .ok [.node urlX [.node get []], .node ty []] := by decide +kernel
/-- a path-bearing method inside a parenthesised URL is rejected -/
example : resolve [.dir urlX, .dir getP] = .error (.pathMethodInExplicit 5) := by decide +kernel
example : resolve [.dir urlX, .dir get, .dir req, .dir getP] = .error (.pathMethodInExplicit 5) := by decide +kernel
/-- ")" without "(" -/
example : resolve [.close] = .error .noExplicitToClose := by decide +kernel
example : resolve [.dir url, .dir get, .close] = .error .noExplicitToClose := by decide +kernel
/-- "(" never closed -/
example : resolve [.dir urlX, .dir get] = .error .unclosedAtEOF := by decide +kernel
/-- a Body with no open directive -/
example : resolve [.dir body] = .error (.incorrectContext 4) := by decide +kernel
end Examples

end JSight.C06
