import JSight.Basic
namespace JSight.C03
end JSight.C03
