import JSight.Gen.Facts
/-!
C03 — determinism: the Go code has no clock / random / goroutine, and the only sources of iteration-order
nondeterminism are the reviewed `range`-over-map loops, each of which is order-independent.
-/
namespace JSight.C03

/-- the reviewed list of places where the Go code ranges over a map (file, function, operand). A new or moved
    map loop has no order-independence argument and breaks this theorem. -/
def reviewedSites : List (String × String × String) :=
  [("catalog/schema_jsight.go", "prepareJSightSchema", "enumRules"),
   ("core/build_catalog.go", "buildUserTypes", "core.rules"),
   ("core/compile_catalog.go", "getPropertiesNames", "pp")]

theorem sites_covered : Gen.mapRanges.map (fun m => (m.1, m.2.1, m.2.2.1)) = reviewedSites := by decide

theorem no_clock_no_random_no_goroutine : Gen.nondetImports = [] ∧ Gen.goStatements = [] := ⟨rfl, rfl⟩

/-! ### site 3: collect, sort, join -/

/-- sorted lists (for `≤` on strings) that are permutations of each other are equal -/
theorem sorted_perm_eq (l₁ l₂ : List String)
    (h₁ : l₁.Pairwise (fun a b => decide (a ≤ b) = true)) (h₂ : l₂.Pairwise (fun a b => decide (a ≤ b) = true))
    (h : l₁.Perm l₂) : l₁ = l₂ :=
  List.Perm.eq_of_pairwise (le := fun a b => decide (a ≤ b) = true)
    (fun _ _ _ _ hab hba => String.le_antisymm (of_decide_eq_true hab) (of_decide_eq_true hba)) h₁ h₂ h

theorem sorted_mergeSort_le (l : List String) :
    (l.mergeSort (fun a b => decide (a ≤ b))).Pairwise (fun a b => decide (a ≤ b) = true) :=
  List.pairwise_mergeSort (le := fun a b => decide (a ≤ b))
    (fun _ _ _ hab hbc => decide_eq_true (String.le_trans (of_decide_eq_true hab) (of_decide_eq_true hbc)))
    (fun a b => by
      rcases String.le_total a b with h | h
      · simp [h]
      · simp [h])
    l

/-- site 3 (`getPropertiesNames`: the names are collected from the map, SORTED, then joined): the message does not
    depend on the iteration order -/
theorem sorted_names_perm (l₁ l₂ : List String) (h : l₁.Perm l₂) :
    (l₁.mergeSort (fun a b => decide (a ≤ b))) = (l₂.mergeSort (fun a b => decide (a ≤ b))) :=
  sorted_perm_eq _ _ (sorted_mergeSort_le l₁) (sorted_mergeSort_le l₂)
    (((List.mergeSort_perm l₁ _).trans h).trans (List.mergeSort_perm l₂ _).symm)

/-! ### sites 1 and 2: register every (name, rule) pair on a schema object

The schema object is modelled as a finite map `String → Option Nat` (rule identities are numbers);
`Set(name, rule)` overwrites. -/

/-- one `schema.Set(name, rule)` (overwriting), on the lookup-function model of the map -/
def register (m : String → Option Nat) (kv : String × Nat) : String → Option Nat :=
  fun k => if k = kv.1 then some kv.2 else m k

/-- the loop body run over the pairs in iteration order `l`, starting from the empty schema -/
def registerAll (l : List (String × Nat)) : String → Option Nat :=
  l.foldl register (fun _ => none)

theorem register_comm (m : String → Option Nat) (x y : String × Nat) (h : x.1 ≠ y.1) :
    register (register m x) y = register (register m y) x := by
  funext k
  simp only [register]
  by_cases hy : k = y.1
  · by_cases hx : k = x.1
    · exact absurd (hx.symm.trans hy) h
    · simp [hy, Ne.symm h]
  · simp [hy]

theorem foldl_register_perm (l₁ l₂ : List (String × Nat)) (h : l₁.Perm l₂) :
    (l₁.map (·.1)).Nodup → ∀ m, l₁.foldl register m = l₂.foldl register m := by
  induction h with
  | nil => intro _ _; rfl
  | cons x _ ih =>
    intro hk m
    rw [List.map_cons, List.nodup_cons] at hk
    exact ih hk.2 (register m x)
  | swap x y l =>
    intro hk m
    simp only [List.map_cons, List.nodup_cons, List.mem_cons, not_or] at hk
    simp only [List.foldl_cons]
    rw [register_comm m y x hk.1.1]
  | trans h₁₂ _ ih₁ ih₂ =>
    intro hk m
    rw [ih₁ hk m]
    exact ih₂ ((h₁₂.map (·.1)).nodup_iff.mp hk) m

/-- sites 1 and 2: the resulting map does not depend on the iteration order when the keys are distinct
    (they are: the pairs come out of a Go map) -/
theorem register_perm (l₁ l₂ : List (String × Nat)) (h : l₁.Perm l₂) (hk : (l₁.map (·.1)).Nodup) (k : String) :
    registerAll l₁ k = registerAll l₂ k := by
  unfold registerAll
  rw [foldl_register_perm l₁ l₂ h hk]

/-- what the registered map contains: exactly the pairs (with distinct keys) -/
theorem registerAll_lookup (l : List (String × Nat)) (hk : (l.map (·.1)).Nodup) (k : String) (v : Nat) :
    registerAll l k = some v ↔ (k, v) ∈ l := by
  have gen : ∀ (l : List (String × Nat)) (m : String → Option Nat), (l.map (·.1)).Nodup →
      (l.foldl register m k = some v ↔ ((k, v) ∈ l ∨ (k ∉ l.map (·.1) ∧ m k = some v))) := by
    intro l
    induction l with
    | nil => intro m _; simp
    | cons x r ih =>
      intro m hnd
      rw [List.map_cons, List.nodup_cons] at hnd
      rw [List.foldl_cons, ih (register m x) hnd.2]
      simp only [register, List.mem_cons, List.map_cons, not_or]
      constructor
      · rintro (h | ⟨h1, h2⟩)
        · exact Or.inl (Or.inr h)
        · by_cases hx : k = x.1
          · simp only [hx, if_true] at h2
            injection h2 with h2
            left; left
            rw [hx, ← h2]
          · simp only [hx, if_false] at h2
            exact Or.inr ⟨⟨hx, h1⟩, h2⟩
      · rintro ((h | h) | ⟨⟨h1, h2⟩, h3⟩)
        · right
          rw [← h]
          refine ⟨?_, by simp⟩
          have : x.1 = k := by rw [← h]
          rw [← this]; exact hnd.1
        · exact Or.inl h
        · exact Or.inr ⟨h2, by simp [h1, h3]⟩
  unfold registerAll
  rw [gen l _ hk]
  simp

/-! non-vacuity -/
example : ["pp", "b", "a"].Perm ["a", "pp", "b"] ∧
    ["a", "b", "pp"].Pairwise (fun a b => decide (a ≤ b) = true) := by decide
/-- (`mergeSort` is defined by well-founded recursion and does not evaluate under `decide`; the value is
    obtained from the two decided facts above through `sorted_perm_eq`) -/
example : ["pp", "b", "a"].mergeSort (fun a b => decide (a ≤ b)) = ["a", "b", "pp"] :=
  sorted_perm_eq _ _ (sorted_mergeSort_le _) (by decide) ((List.mergeSort_perm _ _).trans (by decide))
example : registerAll [("a", 1), ("b", 2)] "b" = registerAll [("b", 2), ("a", 1)] "b" ∧
    registerAll [("a", 1), ("b", 2)] "b" = some 2 := by decide

end JSight.C03
