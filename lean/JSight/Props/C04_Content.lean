import JSight.Model.Build
import JSight.Proofs.BuildFaith
import JSight.Proofs.BuildInv
import JSight.Proofs.BuildContent
import JSight.Props.C04_Build
/-!
C04 on the catalog-construction model (`Model/Build.lean`): the CONTENT of each interaction.

`Props/C04_Build.lean` shows which interactions exist, in which order, with which id and annotation.  Here: the
interaction of a method directive holds exactly what the directive's own children declare — description, query,
request (body, headers), responses (code, annotation, body, headers; in source order), params, result — and
nothing that is declared elsewhere.

Vocabulary (all in `Proofs/BuildContent.lean`, `Proofs/BuildFaith.lean`):
* `flatAF [] f`: the directives of the forest in source order, each (`Ent`) with its children and ancestors;
  `subsF [] f`: the same list as pairs (ancestors, subtree) — needed where grandchildren are read;
  `entOf (a, t)` is the entry of the pair.
* `idOf m`: the interaction id of a method directive.
* `obeysF f`: every child is admitted by its parent according to the nesting table
  `directiveAllowedToDirectiveContext` (`Gen.childAllowed`; `admitsK` is `Context.admits`).  The forest handed to
  `buildCatalog` has this form (it is the output of the context resolution); the MODEL accepts arbitrary forests
  and without the hypothesis the statements are false in the model — see `exAlien` below.
* `respBodyOf resp kids`: the body of a response: the directive's own `Type` / body / any-empty notation first,
  else the `Body` child; `reqBodyOf` likewise; `bodyM d = { format := formatOf nt, nota := nt }` with `nt` the
  notation of `d` (`notaOf d`).
-/
namespace JSight.C04C
open JSight JSight.Build JSight.Gen JSight.C04B

variable {banned : List Kind} {f : List BTree} {c : Cat}

/-! ## the interaction of a method directive -/

/-- every method directive has its interaction (no nesting hypothesis needed) -/
theorem method_has_interaction (h : compile banned f = .ok c) {m : Ent} (hmem : m ∈ flatAF [] f)
    (hk : (isHTTP m.d.kind || m.d.kind == .Method) = true) :
    ∃ x ∈ c.inters, idOf m = .ok x.iid ∧ x.annot = m.d.annot := by
  have hi := interaction_of_method h
  have : (idOf m, m.d.annot) ∈
      ((flatAF [] f).filter (fun e => isHTTP e.d.kind || e.d.kind == .Method)).map (fun e => (idOf e, e.d.annot)) :=
    List.mem_map_of_mem (f := fun e : Ent => (idOf e, e.d.annot)) (List.mem_filter.mpr ⟨hmem, hk⟩)
  rw [← hi] at this
  obtain ⟨x, hx, heq⟩ := List.mem_map.mp this
  simp only [Prod.mk.injEq] at heq
  exact ⟨x, hx, heq.1.symm, heq.2⟩

/-- … and no other interaction has that id -/
theorem method_interaction_unique (h : compile banned f = .ok c) {x y : InterM} (hx : x ∈ c.inters)
    (hy : y ∈ c.inters) (hxy : x.iid = y.iid) : x = y :=
  eq_of_nodup_iid _ (nodup_compile h).2.2 x hx y hy hxy

/-- THE CONTENT: the interaction of the method directive `t` (with ancestors `a`) is `interOf …`: id, the
annotation of `t`, tags, and the `content` of the children of `t` — nothing from anywhere else -/
theorem interaction_content (h : compile banned f = .ok c) (ho : obeysF f = true) {a : List Up} {t : BTree}
    (hp : (a, t) ∈ subsF [] f) (hm : isMeth t.dir.kind = true) {x : InterM} (hx : x ∈ c.inters)
    (hxi : idOf (entOf (a, t)) = .ok x.iid) :
    x = interOf x.iid t.dir x.tags t.kids :=
  (inter_content h ho hp hm hx hxi).1

/-! ## (1) responses -/

/-- every declared response, nothing else, in source order: code and annotation -/
theorem responses_faithful (h : compile banned f = .ok c) (ho : obeysF f = true) {m : Ent}
    (hmem : m ∈ flatAF [] f) (hk : (isHTTP m.d.kind || m.d.kind == .Method) = true) {x : InterM}
    (hx : x ∈ c.inters) (hxi : idOf m = .ok x.iid) :
    x.responses.map (fun r => (r.code, r.annot)) =
      (m.kids.filter (·.kind == .HTTPResponseCode)).map (fun d => (d.keyword, d.annot)) := by
  obtain ⟨a, t, hp, rfl⟩ := mem_subs_of_ent hmem
  have hc := (inter_content h ho hp hk hx hxi).1
  rw [hc]
  simp only [interOf, addC, List.nil_append, content_responses, entOf, List.map_map, List.filter_map]
  rfl

/-- the same with everything the catalog keeps of a response (`respOf`: id, code, annotation, body, headers) -/
theorem responses_exact (h : compile banned f = .ok c) (ho : obeysF f = true) {a : List Up} {t : BTree}
    (hp : (a, t) ∈ subsF [] f) (hm : isMeth t.dir.kind = true) {x : InterM} (hx : x ∈ c.inters)
    (hxi : idOf (entOf (a, t)) = .ok x.iid) :
    x.responses = (t.kids.filter (·.dir.kind == .HTTPResponseCode)).map respOf := by
  have hc := (inter_content h ho hp hm hx hxi).1
  rw [hc]
  simp [interOf, addC, content_responses]

/-! ## (2) the body and the headers of the k-th response -/

/-- the n-th response of the interaction is the n-th response directive among the children; its body is
`respBodyOf` (the directive's own `Type` / body / any-empty notation first, else the `Body` child), its headers are
present iff the directive has a `Headers` child -/
theorem response_body_faithful (h : compile banned f = .ok c) (ho : obeysF f = true) {a : List Up} {t : BTree}
    (hp : (a, t) ∈ subsF [] f) (hm : isMeth t.dir.kind = true) {x : InterM} (hx : x ∈ c.inters)
    (hxi : idOf (entOf (a, t)) = .ok x.iid) :
    x.responses.length = (t.kids.filter (·.dir.kind == .HTTPResponseCode)).length ∧
    ∀ (n : Nat) (r : RespM) (k : BTree), x.responses[n]? = some r → (t.kids.filter (·.dir.kind == .HTTPResponseCode))[n]? = some k →
      r.code = k.dir.keyword ∧ r.annot = k.dir.annot ∧
      r.body = respBodyOf k.dir (k.kids.map BTree.dir) ∧
      (r.headers = true ↔ ∃ g ∈ k.kids, g.dir.kind = .Headers) := by
  have he := responses_exact h ho hp hm hx hxi
  refine ⟨by rw [he, List.length_map], ?_⟩
  intro n r k hr hk'
  rw [he, List.getElem?_map, hk'] at hr
  simp only [Option.map_some, Option.some.injEq] at hr
  subst hr
  refine ⟨rfl, rfl, rfl, ?_⟩
  simp [respOf, hasKind]

/-- … and that body is defined: `{ format := formatOf nt, nota := nt }` with `nt` the notation of the directive `s`
that supplied it — the response directive itself, or else its first `Body` child -/
theorem response_body_defined (h : compile banned f = .ok c) (ho : obeysF f = true) {a : List Up} {t : BTree}
    (hp : (a, t) ∈ subsF [] f) (hm : isMeth t.dir.kind = true) {x : InterM} (hx : x ∈ c.inters)
    (hxi : idOf (entOf (a, t)) = .ok x.iid) {n : Nat} {r : RespM} {k : BTree}
    (hr : x.responses[n]? = some r) (hk : (t.kids.filter (·.dir.kind == .HTTPResponseCode))[n]? = some k) :
    ∃ s : BDir, ((respSupplies k.dir = true ∧ s = k.dir) ∨
        (respSupplies k.dir = false ∧ (k.kids.map BTree.dir).find? (·.kind == .Body) = some s)) ∧
      r.body = some { format := formatOf (notaOf s), nota := notaOf s } := by
  have hb := ((response_body_faithful h ho hp hm hx hxi).2 n r k hr hk).2.2.1
  have hsome := (BuildInv.compile_bodies h x hx).1 r (List.mem_of_getElem? hr)
  rw [hb] at hsome ⊢
  unfold respBodyOf at hsome ⊢
  cases hs : respSupplies k.dir with
  | true => exact ⟨k.dir, .inl ⟨by simp, rfl⟩, by simp [bodyM]⟩
  | false =>
    simp only [hs, Bool.false_eq_true, if_false, childBody] at hsome
    cases hf : (k.kids.map BTree.dir).find? (·.kind == .Body) with
    | none => simp [hf] at hsome
    | some s => exact ⟨s, .inr ⟨rfl, rfl⟩, by simp [bodyM, childBody, hf]⟩

/-! ## (3) description -/

/-- the description is the normal form (`description`) of the body of the Description child: `none` iff there is
no such child; `some t` iff there is one with body `b` and `description b = .ok t` -/
theorem description_faithful (h : compile banned f = .ok c) (ho : obeysF f = true) {m : Ent}
    (hmem : m ∈ flatAF [] f) (hk : (isHTTP m.d.kind || m.d.kind == .Method) = true) {x : InterM}
    (hx : x ∈ c.inters) (hxi : idOf m = .ok x.iid) :
    (x.descr = none ↔ ∀ d ∈ m.kids, d.kind ≠ .Description) ∧
    (∀ t, x.descr = some t ↔
      ∃ d ∈ m.kids, d.kind = .Description ∧ ∃ b, d.body = some b ∧ description b = .ok t) := by
  obtain ⟨a, t, hp, rfl⟩ := mem_subs_of_ent hmem
  obtain ⟨hc, hd, _⟩ := inter_content h ho hp hk hx hxi
  have hxd : x.descr = (content t.kids).descr := by rw [hc]; simp [interOf, addC]
  have text : ∀ (d : BDir) (t' : Bytes), descrText d = some t' ↔ ∃ b, d.body = some b ∧ description b = .ok t' := by
    intro d t'
    unfold descrText
    cases d.body with
    | none => simp
    | some b =>
      cases hdb : description b with
      | error e => simp [hdb]
      | ok t'' => simp [hdb]
  have key : ∀ d ∈ (entOf (a, t)).kids, d.kind = .Description → x.descr = descrText d ∧ (descrText d).isSome = true := by
    intro d hd' hkd
    simp only [entOf, List.mem_map] at hd'
    obtain ⟨k, hk', rfl⟩ := hd'
    rw [hxd]
    exact hd k hk' hkd
  constructor
  · constructor
    · intro hn d hd' hkd
      obtain ⟨h1, h2⟩ := key d hd' hkd
      rw [hn] at h1; rw [← h1] at h2; cases h2
    · intro hno
      rw [hxd]
      exact content_descr_none _ (fun k hk' => hno k.dir (List.mem_map_of_mem hk'))
  · intro t'
    constructor
    · intro hs
      apply Classical.byContradiction
      intro hne
      have hno : ∀ k ∈ t.kids, k.dir.kind ≠ .Description := by
        intro k hk' hkd
        obtain ⟨h1, _⟩ := key k.dir (List.mem_map_of_mem hk') hkd
        rw [hs] at h1
        exact hne ⟨k.dir, List.mem_map_of_mem hk', hkd, (text _ _).mp h1.symm⟩
      rw [hxd, content_descr_none _ hno] at hs
      cases hs
    · rintro ⟨d, hd', hkd, hb⟩
      rw [(key d hd' hkd).1]
      exact (text d t').mpr hb

/-! ## (4) query, request, params, result -/

/-- the query: absent iff there is no Query child; else format (default `htmlFormEncoded`) and example of the child -/
theorem query_faithful (h : compile banned f = .ok c) (ho : obeysF f = true) {m : Ent}
    (hmem : m ∈ flatAF [] f) (hk : (isHTTP m.d.kind || m.d.kind == .Method) = true) {x : InterM}
    (hx : x ∈ c.inters) (hxi : idOf m = .ok x.iid) :
    (x.query = none ↔ ∀ d ∈ m.kids, d.kind ≠ .Query) ∧
    (∀ d ∈ m.kids, d.kind = .Query →
      x.query = some { format := if (d.param "Format").isEmpty then htmlFormEncoded else d.param "Format",
                       ex := d.param "QueryExample" }) := by
  obtain ⟨a, t, hp, rfl⟩ := mem_subs_of_ent hmem
  obtain ⟨hc, _, hq⟩ := inter_content h ho hp hk hx hxi
  have hxq : x.query = (content t.kids).query := by rw [hc]; simp [interOf, addC]
  have key : ∀ d ∈ (entOf (a, t)).kids, d.kind = .Query → x.query = some (queryM d) := by
    intro d hd' hkd
    simp only [entOf, List.mem_map] at hd'
    obtain ⟨k, hk', rfl⟩ := hd'
    rw [hxq]
    exact hq k hk' hkd
  refine ⟨⟨?_, ?_⟩, fun d hd' hkd => key d hd' hkd⟩
  · intro hn d hd' hkd
    have := key d hd' hkd
    rw [hn] at this; cases this
  · intro hno
    rw [hxq]
    exact content_query_none _ (fun k hk' => hno k.dir (List.mem_map_of_mem hk'))

/-- the request.  In an accepted forest a method directive has AT MOST ONE Request child (a second one is refused
with `notUnique`, see `second_request_rejected`); the request is absent iff there is none; with the Request child
`r` it is: the id of `r`, the body of `r` (`reqBodyOf`: own `Type` / body / any-empty notation, else the `Body`
child), headers iff `r` has a `Headers` child. -/
theorem request_faithful (h : compile banned f = .ok c) (ho : obeysF f = true) {a : List Up} {t : BTree}
    (hp : (a, t) ∈ subsF [] f) (hm : isMeth t.dir.kind = true) {x : InterM} (hx : x ∈ c.inters)
    (hxi : idOf (entOf (a, t)) = .ok x.iid) :
    (t.kids.filter (·.dir.kind == .Request)).length ≤ 1 ∧
    (x.request = none ↔ ∀ k ∈ t.kids, k.dir.kind ≠ .Request) ∧
    (∀ r ∈ t.kids, r.dir.kind = .Request →
      x.request = some { id := r.dir.id, body := reqBodyOf r.dir (r.kids.map BTree.dir),
                         headers := decide (∃ g ∈ r.kids, g.dir.kind = .Headers) }) := by
  have hc := (inter_content h ho hp hm hx hxi).1
  have hone := meth_one_request h ho hp hm
  have hr : x.request = reqOf t.kids := by
    rw [hc]; simp [interOf, addC, content_request, mergeReq]
  refine ⟨hone, ?_, ?_⟩
  · rw [hr]
    unfold reqOf
    constructor
    · intro hn k hk' hkd
      cases hf : t.kids.find? (·.dir.kind == .Request) with
      | none => exact absurd (by simp [hkd]) (List.find?_eq_none.mp hf k hk')
      | some q => rw [hf] at hn; cases hn
    · intro hno
      have : t.kids.find? (·.dir.kind == .Request) = none := by
        rw [List.find?_eq_none]
        intro k hk'
        simpa using hno k hk'
      rw [this]; rfl
  · intro r hr' hkr
    -- the first Request child is `r`: there is no other one
    have hfr : t.kids.find? (·.dir.kind == .Request) = some r := by
      cases hf : t.kids.find? (·.dir.kind == .Request) with
      | none => exact absurd (by simp [hkr]) (List.find?_eq_none.mp hf r hr')
      | some q =>
        have hq : q ∈ t.kids.filter (·.dir.kind == .Request) :=
          List.mem_filter.mpr ⟨List.mem_of_find?_eq_some hf,
            List.find?_some (p := fun x : BTree => x.dir.kind == Kind.Request) hf⟩
        have hrm : r ∈ t.kids.filter (·.dir.kind == .Request) := List.mem_filter.mpr ⟨hr', by simp [hkr]⟩
        cases hl : t.kids.filter (·.dir.kind == .Request) with
        | nil => rw [hl] at hq; cases hq
        | cons z zs =>
          rw [hl] at hq hrm hone
          cases zs with
          | nil =>
            simp only [List.mem_singleton] at hq hrm
            rw [hq, hrm]
          | cons z' zs' => simp at hone
    rw [hr, reqOf, hfr]
    have hh : hasKind .Headers (r.kids.map BTree.dir) = decide (∃ g ∈ r.kids, g.dir.kind = .Headers) := by
      rw [Bool.eq_iff_iff]
      simp [hasKind]
    simp only [Option.map_some, reqPart, hh]

/-- the usual reading: with the Request child `k` the request is present, with the id and the body of `k`
(`reqBodyOf`) and headers iff `k` has a `Headers` child -/
theorem request_single (h : compile banned f = .ok c) (ho : obeysF f = true) {a : List Up} {t : BTree}
    (hp : (a, t) ∈ subsF [] f) (hm : isMeth t.dir.kind = true) {x : InterM} (hx : x ∈ c.inters)
    (hxi : idOf (entOf (a, t)) = .ok x.iid) {k : BTree} (hk : t.kids.filter (·.dir.kind == .Request) = [k]) :
    ∃ q, x.request = some q ∧ q.id = k.dir.id ∧ q.body = reqBodyOf k.dir (k.kids.map BTree.dir) ∧
      (q.headers = true ↔ ∃ g ∈ k.kids, g.dir.kind = .Headers) := by
  have hmem : k ∈ t.kids.filter (·.dir.kind == .Request) := by rw [hk]; exact List.mem_singleton.mpr rfl
  obtain ⟨hkm, hkk⟩ := List.mem_filter.mp hmem
  have hr := (request_faithful h ho hp hm hx hxi).2.2 k hkm (by simpa using hkk)
  exact ⟨_, hr, rfl, rfl, by simp⟩

/-- a second Request directive of one method is rejected: an HTTP method directive (anywhere in the forest; no
nesting hypothesis) with Request children at two positions.  The model refuses the second one with `notUnique`
(`Catalog.AddRequest`); see `exTwoRequests`. -/
theorem second_request_rejected {a : List Up} {d : BDir} {kids : List BTree} {i j : Nat} {k₁ k₂ : BTree}
    (hp : (a, .node d kids) ∈ subsF [] f) (hH : isHTTP d.kind = true) (hij : i ≠ j)
    (h₁ : kids[i]? = some k₁) (h₂ : kids[j]? = some k₂) (r₁ : k₁.dir.kind = .Request)
    (r₂ : k₂.dir.kind = .Request) : ∀ c, compile banned f ≠ .ok c := by
  intro c h
  have hle := http_one_request h hp hH
  have hge : 2 ≤ (kids.filter (·.dir.kind == .Request)).length := by
    rcases Nat.lt_or_gt_of_ne hij with hlt | hgt
    · exact two_filter _ kids i j k₁ k₂ hlt h₁ h₂ (by simp [r₁]) (by simp [r₂])
    · exact two_filter _ kids j i k₂ k₁ hgt h₂ h₁ (by simp [r₂]) (by simp [r₁])
  omega

/-- `params` / `result` are set iff the method directive has a Params / Result child -/
theorem rpc_params_result_faithful (h : compile banned f = .ok c) (ho : obeysF f = true) {m : Ent}
    (hmem : m ∈ flatAF [] f) (hk : (isHTTP m.d.kind || m.d.kind == .Method) = true) {x : InterM}
    (hx : x ∈ c.inters) (hxi : idOf m = .ok x.iid) :
    (x.params = true ↔ ∃ d ∈ m.kids, d.kind = .Params) ∧ (x.result = true ↔ ∃ d ∈ m.kids, d.kind = .Result) := by
  obtain ⟨a, t, hp, rfl⟩ := mem_subs_of_ent hmem
  have hc := (inter_content h ho hp hk hx hxi).1
  have h1 : x.params = hasKind .Params (t.kids.map BTree.dir) := by
    rw [hc]; simp [interOf, addC, content_params]
  have h2 : x.result = hasKind .Result (t.kids.map BTree.dir) := by
    rw [hc]; simp [interOf, addC, content_result]
  rw [h1, h2]
  unfold hasKind
  simp only [List.any_eq_true, beq_iff_eq]
  exact ⟨Iff.rfl, Iff.rfl⟩

/-! ## (5) the INFO block -/

/-- `c.info` holds the id of the INFO directive, the Title and the Version of its Title / Version children ("" when
there is none) and the normal form of the body of its Description child (`infoOf`).

Hypotheses: the nesting table; no MACRO directive left (MACRO definitions are removed before `buildCatalog`; a MACRO
admits Title / Version children); admissible root directives (`IsAllowedForRootContext`).  In the model, without
them, a Title directive anywhere in the document fills the block. -/
theorem info_faithful (h : compile banned f = .ok c) (ho : obeysF f = true)
    (hnm : ∀ d ∈ flatF f, d.kind ≠ .Macro) (hroot : ∀ t ∈ f, rootAllowed.contains t.dir.kind = true)
    {d : BDir} {kids : List BTree} (ht : BTree.node d kids ∈ f) (hk : d.kind = .Info) :
    ∃ i, c.info = some i ∧ i.id = d.id ∧
      i.title = firstParam .Title "Title" (kids.map BTree.dir) ∧
      i.version = firstParam .Version "Version" (kids.map BTree.dir) ∧
      i.descr = ((kids.map BTree.dir).find? (·.kind == .Description)).bind descrText :=
  ⟨_, info_content h ho hnm hroot ht hk, rfl, rfl, rfl, rfl⟩

/-- no INFO directive, no INFO block (no hypothesis on the forest) -/
theorem info_absent (h : compile banned f = .ok c) (hno : ∀ d ∈ flatF f, d.kind ≠ .Info) : c.info = none :=
  info_none h hno

/-! ## concrete checks: the hypotheses are satisfiable -/

/-- `GET // List cats` with Description, Query, Request (Headers, Body), three responses (`200 any`;
`404 // nf` with Headers and a regex Body; `500 @err`) -/
def exGet : BTree :=
  .node { kind := .Get, annot := [76, 105, 115, 116, 32, 99, 97, 116, 115], id := 10 } [
    .node { kind := .Description, body := some [104, 101, 108, 108, 111], id := 11 } [],
    .node { kind := .Query, named := [("QueryExample", [97, 61, 49])], body := some [123, 125], id := 12 } [],
    .node { kind := .Request, id := 13 } [
      .node { kind := .Headers, body := some [123, 125], id := 14 } [],
      .node { kind := .Body, body := some [123, 125], id := 15 } []],
    .node { kind := .HTTPResponseCode, keyword := [50, 48, 48], named := [("SchemaNotation", [97, 110, 121])], id := 16 } [],
    .node { kind := .HTTPResponseCode, keyword := [52, 48, 52], annot := [110, 102], id := 17 } [
      .node { kind := .Headers, body := some [123, 125], id := 18 } [],
      .node { kind := .Body, named := [("SchemaNotation", [114, 101, 103, 101, 120])], body := some [47, 97, 47], id := 19 } []],
    .node { kind := .HTTPResponseCode, keyword := [53, 48, 48], named := [("Type", [64, 101, 114, 114])], id := 20 } []]

/-- `Method foo // Foo` with Params and Result -/
def exMeth : BTree :=
  .node { kind := .Method, named := [("MethodName", [102, 111, 111])], annot := [70, 111, 111], id := 30 } [
    .node { kind := .Params, body := some [123, 125], id := 31 } [],
    .node { kind := .Result, body := some [123, 125], id := 32 } []]

def exUrl : BDir := { kind := .URL, named := [("Path", [47, 99, 97, 116, 115])], id := 2 }
def exRpcUrl : BDir := { kind := .URL, named := [("Path", [47, 114, 112, 99])], id := 3 }
def exProto : BTree := .node { kind := .Protocol, named := [("ProtocolName", [106, 115, 111, 110, 45, 114, 112, 99, 45, 50, 46, 48])], id := 4 } []

/-- JSIGHT 0.3, INFO (Title, Version, Description), URL /cats with `exGet`, URL /rpc with Protocol and `exMeth` -/
def exG : List BTree := [
  .node { kind := .Jsight, named := [("Version", [48, 46, 51])] } [],
  .node { kind := .Info, id := 1 } [
    .node { kind := .Title, named := [("Title", [77, 121, 32, 65, 80, 73])], id := 5 } [],
    .node { kind := .Version, named := [("Version", [49, 46, 48])], id := 6 } [],
    .node { kind := .Description, body := some [97, 98, 111, 117, 116], id := 7 } []],
  .node exUrl [exGet],
  .node exRpcUrl [exProto, exMeth]]

def exGC : Cat := match compile [] exG with | .ok c => c | .error _ => {}

theorem exG_ok : compile [] exG = .ok exGC := by decide +kernel
theorem exG_obeys : obeysF exG = true := by decide +kernel

def exGetAnc : List Up := [⟨exUrl, [exGet.dir]⟩]
def exMethAnc : List Up := [⟨exRpcUrl, [exProto.dir, exMeth.dir]⟩]
theorem exGet_mem : (exGetAnc, exGet) ∈ subsF [] exG := List.mem_of_getElem? (i := 6) (by rfl)
theorem exMeth_mem : (exMethAnc, exMeth) ∈ subsF [] exG := List.mem_of_getElem? (i := 19) (by rfl)
theorem exGetE_mem : entOf (exGetAnc, exGet) ∈ flatAF [] exG := List.mem_of_getElem? (i := 6) (by rfl)
theorem exMethE_mem : entOf (exMethAnc, exMeth) ∈ flatAF [] exG := List.mem_of_getElem? (i := 19) (by rfl)

/-- the two interactions -/
def exDflt : InterM := { iid := ⟨.http, [], []⟩, annot := [] }
def exX : InterM := (exGC.inters[0]?).getD exDflt
def exY : InterM := (exGC.inters[1]?).getD exDflt
theorem exX_mem : exX ∈ exGC.inters := List.mem_of_getElem? (i := 0) (by decide +kernel)
theorem exY_mem : exY ∈ exGC.inters := List.mem_of_getElem? (i := 1) (by decide +kernel)
theorem exX_id : idOf (entOf (exGetAnc, exGet)) = .ok exX.iid := by decide +kernel
theorem exY_id : idOf (entOf (exMethAnc, exMeth)) = .ok exY.iid := by decide +kernel

-- GET /cats ; foo /rpc
example : (exX.iid, exY.iid) = (⟨.http, [71, 69, 84], [47, 99, 97, 116, 115]⟩, ⟨.rpc, [102, 111, 111], [47, 114, 112, 99]⟩) := by decide +kernel

-- (1) 200, 404 // nf, 500
example : exX.responses.map (fun r => (r.code, r.annot)) = [([50, 48, 48], []), ([52, 48, 52], [110, 102]), ([53, 48, 48], [])] := by
  rw [responses_faithful exG_ok exG_obeys exGetE_mem rfl exX_mem exX_id]; decide +kernel
-- (2) bodies: binary/any (own notation), plainString/regex (Body child), json/jsight (own Type); headers only on 404
example : exX.responses.map (fun r => (r.body, r.headers)) =
    [(some ⟨fBinary, nAny⟩, false), (some ⟨fPlain, nRegex⟩, true), (some ⟨fJson, nJsight⟩, false)] := by
  rw [responses_exact exG_ok exG_obeys exGet_mem rfl exX_mem exX_id]; decide +kernel
example : ∃ s : BDir, s.id = 19 ∧ exX.responses[1]?.map (·.body) = some (some { format := formatOf (notaOf s), nota := notaOf s }) :=
  ⟨{ kind := .Body, named := [("SchemaNotation", [114, 101, 103, 101, 120])], body := some [47, 97, 47], id := 19 }, rfl, by decide +kernel⟩
-- (3) "hello"
example : exX.descr = some [104, 101, 108, 108, 111] :=
  ((description_faithful exG_ok exG_obeys exGetE_mem rfl exX_mem exX_id).2 _).mpr
    ⟨{ kind := .Description, body := some [104, 101, 108, 108, 111], id := 11 }, by decide +kernel, rfl, _, rfl, by decide +kernel⟩
example : exY.descr = none :=
  (description_faithful exG_ok exG_obeys exMethE_mem rfl exY_mem exY_id).1.mpr (by decide +kernel)
-- (4) query, request, params, result
example : exX.query = some { format := htmlFormEncoded, ex := [97, 61, 49] } :=
  (query_faithful exG_ok exG_obeys exGetE_mem rfl exX_mem exX_id).2
    { kind := .Query, named := [("QueryExample", [97, 61, 49])], body := some [123, 125], id := 12 } (by decide +kernel) rfl
example : exX.request = some { id := 13, body := some ⟨fJson, nJsight⟩, headers := true } := by
  rw [(request_faithful exG_ok exG_obeys exGet_mem rfl exX_mem exX_id).2.2 _ (List.mem_of_getElem? (i := 2) rfl) rfl]
  decide +kernel
example : exY.request = none :=
  (request_faithful exG_ok exG_obeys exMeth_mem rfl exY_mem exY_id).2.1.mpr (by decide +kernel)
example : exY.params = true ∧ exY.result = true :=
  ⟨(rpc_params_result_faithful exG_ok exG_obeys exMethE_mem rfl exY_mem exY_id).1.mpr (by decide +kernel),
   (rpc_params_result_faithful exG_ok exG_obeys exMethE_mem rfl exY_mem exY_id).2.mpr (by decide +kernel)⟩
example : exX.params = false := by
  have := (rpc_params_result_faithful exG_ok exG_obeys exGetE_mem rfl exX_mem exX_id).1
  cases hp : exX.params with
  | false => rfl
  | true => exact absurd (this.mp hp) (by decide +kernel)
-- the whole interaction
example : exX = interOf exX.iid exGet.dir exX.tags exGet.kids :=
  interaction_content exG_ok exG_obeys exGet_mem rfl exX_mem exX_id

-- (5) INFO: "My API", "1.0", "about"
example : exGC.info = some { id := 1, title := [77, 121, 32, 65, 80, 73], version := [49, 46, 48], descr := some [97, 98, 111, 117, 116] } := by
  rw [info_content exG_ok exG_obeys (by decide +kernel) (by decide +kernel) (d := { kind := .Info, id := 1 })
    (List.mem_of_getElem? (i := 1) (by rfl)) rfl]
  decide +kernel

/-- ADJUSTMENT 1 (model only): without `obeysF` the statements fail in the model.  `GET /y` (one response, 200), then
`GET /x` with a nested `URL /y` that has a response 500: the nested response resolves to the id `GET /y` and lands
in the interaction of the first directive.  The nesting table forbids a URL below GET, the context resolution
never produces this forest. -/
def exAlien : List BTree := [
  .node { kind := .Jsight, named := [("Version", [48, 46, 51])] } [],
  .node { kind := .Get, named := [("Path", [47, 121])], id := 1 } [
    .node { kind := .HTTPResponseCode, keyword := [50, 48, 48], named := [("SchemaNotation", [97, 110, 121])], id := 2 } []],
  .node { kind := .Get, named := [("Path", [47, 120])], id := 3 } [
    .node { kind := .HTTPResponseCode, keyword := [50, 48, 48], named := [("SchemaNotation", [97, 110, 121])], id := 4 } [],
    .node { kind := .URL, named := [("Path", [47, 121])], id := 5 } [
      .node { kind := .HTTPResponseCode, keyword := [53, 48, 48], named := [("SchemaNotation", [97, 110, 121])], id := 6 } []]]]
example : obeysF exAlien = false := by decide +kernel
example : (compile [] exAlien).toOption.map (fun c => c.inters.map (fun x => (x.iid.path, x.responses.map (·.code)))) =
    some [([47, 121], [[50, 48, 48], [53, 48, 48]]), ([47, 120], [[50, 48, 48]])] := by decide +kernel

/-- a second Request directive under one method is rejected (`Catalog.AddRequest`: "not a unique directive"), at
the second directive (id 14).  (Before the repair of the code the two were silently merged — a defect these
theorems brought to light.) -/
def exTwoRequests : List BTree := [
  .node { kind := .Jsight, named := [("Version", [48, 46, 51])] } [],
  .node { kind := .Post, named := [("Path", [47, 99, 97, 116, 115])], id := 10 } [
    .node { kind := .Request, id := 13 } [.node { kind := .Headers, body := some [123, 125], id := 15 } []],
    .node { kind := .Request, id := 14 } [.node { kind := .Body, body := some [123, 125], id := 16 } []],
    .node { kind := .HTTPResponseCode, keyword := [50, 48, 48], named := [("SchemaNotation", [97, 110, 121])], id := 17 } []]]
example : obeysF exTwoRequests = true := by decide +kernel

/-- the diagnostic of a rejected run -/
def errOf {α} (r : R α) : Option BErr :=
  match r with
  | .ok _ => none
  | .error e => some e

example : errOf (compile [] exTwoRequests) = some ⟨14, .notUnique⟩ := by decide +kernel
example : ∀ c, compile [] exTwoRequests ≠ .ok c :=
  second_request_rejected (a := []) (i := 0) (j := 1) (List.mem_of_getElem? (i := 1) (by rfl)) rfl (by decide)
    rfl rfl rfl rfl


end JSight.C04C
