import JSight.Model.Build
import JSight.Proofs.BuildFaith
import JSight.Proofs.BuildInv
import JSight.Proofs.BuildContent
import JSight.Props.C04_Build
/-!
C04 on the catalog-construction model (`Model/Build.lean`): the CONTENT of each interaction.

`Props/C04_Build.lean` shows which interactions exist, in which order, with which id and annotation.  Here: the
interaction of a method directive holds exactly what the directive's own children declare — description, query,
request (body, headers), responses (code, annotation, body, headers; in source order), params, result — and
nothing that is declared elsewhere.

Vocabulary (all in `Proofs/BuildContent.lean`, `Proofs/BuildFaith.lean`):
* `flatAF [] f`: the directives of the forest in source order, each (`Ent`) with its children and ancestors;
  `subsF [] f`: the same list as pairs (ancestors, subtree) — needed where grandchildren are read;
  `entOf (a, t)` is the entry of the pair.
* `idOf m`: the interaction id of a method directive.
* `obeysF f`: every child is admitted by its parent according to the nesting table
  `directiveAllowedToDirectiveContext` (`Gen.childAllowed`; `admitsK` is `Context.admits`).  The forest handed to
  `buildCatalog` has this form (it is the output of the context resolution); the MODEL accepts arbitrary forests
  and without the hypothesis the statements are false in the model — see `exAlien` below.
* `respBodyOf resp kids`: the body of a response: the directive's own `Type` / body / any-empty notation first,
  else the `Body` child; `reqBodyOf` likewise; `bodyM d = { format := formatOf nt, nota := nt }` with `nt` the
  notation of `d` (`notaOf d`).
-/
namespace JSight.C04C
open JSight JSight.Build JSight.Gen JSight.C04B

variable {banned : List Kind} {f : List BTree} {c : Cat}

/-! ## the interaction of a method directive -/

/-- every method directive has its interaction (no nesting hypothesis needed) -/
theorem method_has_interaction (h : compile banned f = .ok c) {m : Ent} (hmem : m ∈ flatAF [] f)
    (hk : (isHTTP m.d.kind || m.d.kind == .Method) = true) :
    ∃ x ∈ c.inters, idOf m = .ok x.iid ∧ x.annot = m.d.annot := by
  have hi := interaction_of_method h
  have : (idOf m, m.d.annot) ∈
      ((flatAF [] f).filter (fun e => isHTTP e.d.kind || e.d.kind == .Method)).map (fun e => (idOf e, e.d.annot)) :=
    List.mem_map_of_mem (f := fun e : Ent => (idOf e, e.d.annot)) (List.mem_filter.mpr ⟨hmem, hk⟩)
  rw [← hi] at this
  obtain ⟨x, hx, heq⟩ := List.mem_map.mp this
  simp only [Prod.mk.injEq] at heq
  exact ⟨x, hx, heq.1.symm, heq.2⟩

/-- … and no other interaction has that id -/
theorem method_interaction_unique (h : compile banned f = .ok c) {x y : InterM} (hx : x ∈ c.inters)
    (hy : y ∈ c.inters) (hxy : x.iid = y.iid) : x = y :=
  eq_of_nodup_iid _ (nodup_compile h).2.2 x hx y hy hxy

/-- THE CONTENT: the interaction of the method directive `t` (with ancestors `a`) is `interOf …`: id, the
annotation of `t`, tags, and the `content` of the children of `t` — nothing from anywhere else -/
theorem interaction_content (h : compile banned f = .ok c) (ho : obeysF f = true) {a : List Up} {t : BTree}
    (hp : (a, t) ∈ subsF [] f) (hm : isMeth t.dir.kind = true) {x : InterM} (hx : x ∈ c.inters)
    (hxi : idOf (entOf (a, t)) = .ok x.iid) :
    x = interOf x.iid t.dir x.tags t.kids :=
  (inter_content h ho hp hm hx hxi).1

/-! ## (1) responses -/

/-- every declared response, nothing else, in source order: code and annotation -/
theorem responses_faithful (h : compile banned f = .ok c) (ho : obeysF f = true) {m : Ent}
    (hmem : m ∈ flatAF [] f) (hk : (isHTTP m.d.kind || m.d.kind == .Method) = true) {x : InterM}
    (hx : x ∈ c.inters) (hxi : idOf m = .ok x.iid) :
    x.responses.map (fun r => (r.code, r.annot)) =
      (m.kids.filter (·.kind == .HTTPResponseCode)).map (fun d => (d.keyword, d.annot)) := by
  obtain ⟨a, t, hp, rfl⟩ := mem_subs_of_ent hmem
  have hc := (inter_content h ho hp hk hx hxi).1
  rw [hc]
  simp only [interOf, addC, List.nil_append, content_responses, entOf, List.map_map, List.filter_map]
  rfl

/-- the same with everything the catalog keeps of a response (`respOf`: id, code, annotation, body, headers) -/
theorem responses_exact (h : compile banned f = .ok c) (ho : obeysF f = true) {a : List Up} {t : BTree}
    (hp : (a, t) ∈ subsF [] f) (hm : isMeth t.dir.kind = true) {x : InterM} (hx : x ∈ c.inters)
    (hxi : idOf (entOf (a, t)) = .ok x.iid) :
    x.responses = (t.kids.filter (·.dir.kind == .HTTPResponseCode)).map respOf := by
  have hc := (inter_content h ho hp hm hx hxi).1
  rw [hc]
  simp [interOf, addC, content_responses]

/-! ## (2) the body and the headers of the k-th response -/

/-- the n-th response of the interaction is the n-th response directive among the children; its body is
`respBodyOf` (the directive's own `Type` / body / any-empty notation first, else the `Body` child), its headers are
present iff the directive has a `Headers` child -/
theorem response_body_faithful (h : compile banned f = .ok c) (ho : obeysF f = true) {a : List Up} {t : BTree}
    (hp : (a, t) ∈ subsF [] f) (hm : isMeth t.dir.kind = true) {x : InterM} (hx : x ∈ c.inters)
    (hxi : idOf (entOf (a, t)) = .ok x.iid) :
    x.responses.length = (t.kids.filter (·.dir.kind == .HTTPResponseCode)).length ∧
    ∀ (n : Nat) (r : RespM) (k : BTree), x.responses[n]? = some r → (t.kids.filter (·.dir.kind == .HTTPResponseCode))[n]? = some k →
      r.code = k.dir.keyword ∧ r.annot = k.dir.annot ∧
      r.body = respBodyOf k.dir (k.kids.map BTree.dir) ∧
      (r.headers = true ↔ ∃ g ∈ k.kids, g.dir.kind = .Headers) := by
  have he := responses_exact h ho hp hm hx hxi
  refine ⟨by rw [he, List.length_map], ?_⟩
  intro n r k hr hk'
  rw [he, List.getElem?_map, hk'] at hr
  simp only [Option.map_some, Option.some.injEq] at hr
  subst hr
  refine ⟨rfl, rfl, rfl, ?_⟩
  simp [respOf, hasKind]

/-- … and that body is defined: `{ format := formatOf nt, nota := nt }` with `nt` the notation of the directive `s`
that supplied it — the response directive itself, or else its first `Body` child -/
theorem response_body_defined (h : compile banned f = .ok c) (ho : obeysF f = true) {a : List Up} {t : BTree}
    (hp : (a, t) ∈ subsF [] f) (hm : isMeth t.dir.kind = true) {x : InterM} (hx : x ∈ c.inters)
    (hxi : idOf (entOf (a, t)) = .ok x.iid) {n : Nat} {r : RespM} {k : BTree}
    (hr : x.responses[n]? = some r) (hk : (t.kids.filter (·.dir.kind == .HTTPResponseCode))[n]? = some k) :
    ∃ s : BDir, ((respSupplies k.dir = true ∧ s = k.dir) ∨
        (respSupplies k.dir = false ∧ (k.kids.map BTree.dir).find? (·.kind == .Body) = some s)) ∧
      r.body = some { format := formatOf (notaOf s), nota := notaOf s } := by
  have hb := ((response_body_faithful h ho hp hm hx hxi).2 n r k hr hk).2.2.1
  have hsome := (BuildInv.compile_bodies h x hx).1 r (List.mem_of_getElem? hr)
  rw [hb] at hsome ⊢
  unfold respBodyOf at hsome ⊢
  cases hs : respSupplies k.dir with
  | true => exact ⟨k.dir, .inl ⟨by simp, rfl⟩, by simp [bodyM]⟩
  | false =>
    simp only [hs, Bool.false_eq_true, if_false, childBody] at hsome
    cases hf : (k.kids.map BTree.dir).find? (·.kind == .Body) with
    | none => simp [hf] at hsome
    | some s => exact ⟨s, .inr ⟨rfl, rfl⟩, by simp [bodyM, childBody, hf]⟩

/-! ## (3) description -/

/-- the description is the normal form (`description`) of the body of the Description child: `none` iff there is
no such child; `some t` iff there is one with body `b` and `description b = .ok t` -/
theorem description_faithful (h : compile banned f = .ok c) (ho : obeysF f = true) {m : Ent}
    (hmem : m ∈ flatAF [] f) (hk : (isHTTP m.d.kind || m.d.kind == .Method) = true) {x : InterM}
    (hx : x ∈ c.inters) (hxi : idOf m = .ok x.iid) :
    (x.descr = none ↔ ∀ d ∈ m.kids, d.kind ≠ .Description) ∧
    (∀ t, x.descr = some t ↔
      ∃ d ∈ m.kids, d.kind = .Description ∧ ∃ b, d.body = some b ∧ description b = .ok t) := by
  obtain ⟨a, t, hp, rfl⟩ := mem_subs_of_ent hmem
  obtain ⟨hc, hd, _⟩ := inter_content h ho hp hk hx hxi
  have hxd : x.descr = (content t.kids).descr := by rw [hc]; simp [interOf, addC]
  have text : ∀ (d : BDir) (t' : Bytes), descrText d = some t' ↔ ∃ b, d.body = some b ∧ description b = .ok t' := by
    intro d t'
    unfold descrText
    cases d.body with
    | none => simp
    | some b =>
      cases hdb : description b with
      | error e => simp [hdb]
      | ok t'' => simp [hdb]
  have key : ∀ d ∈ (entOf (a, t)).kids, d.kind = .Description → x.descr = descrText d ∧ (descrText d).isSome = true := by
    intro d hd' hkd
    simp only [entOf, List.mem_map] at hd'
    obtain ⟨k, hk', rfl⟩ := hd'
    rw [hxd]
    exact hd k hk' hkd
  constructor
  · constructor
    · intro hn d hd' hkd
      obtain ⟨h1, h2⟩ := key d hd' hkd
      rw [hn] at h1; rw [← h1] at h2; cases h2
    · intro hno
      rw [hxd]
      exact content_descr_none _ (fun k hk' => hno k.dir (List.mem_map_of_mem hk'))
  · intro t'
    constructor
    · intro hs
      apply Classical.byContradiction
      intro hne
      have hno : ∀ k ∈ t.kids, k.dir.kind ≠ .Description := by
        intro k hk' hkd
        obtain ⟨h1, _⟩ := key k.dir (List.mem_map_of_mem hk') hkd
        rw [hs] at h1
        exact hne ⟨k.dir, List.mem_map_of_mem hk', hkd, (text _ _).mp h1.symm⟩
      rw [hxd, content_descr_none _ hno] at hs
      cases hs
    · rintro ⟨d, hd', hkd, hb⟩
      rw [(key d hd' hkd).1]
      exact (text d t').mpr hb

/-! ## (4) query, request, params, result -/

/-- the query: absent iff there is no Query child; else format (default `htmlFormEncoded`) and example of the child -/
theorem query_faithful (h : compile banned f = .ok c) (ho : obeysF f = true) {m : Ent}
    (hmem : m ∈ flatAF [] f) (hk : (isHTTP m.d.kind || m.d.kind == .Method) = true) {x : InterM}
    (hx : x ∈ c.inters) (hxi : idOf m = .ok x.iid) :
    (x.query = none ↔ ∀ d ∈ m.kids, d.kind ≠ .Query) ∧
    (∀ d ∈ m.kids, d.kind = .Query →
      x.query = some { format := if (d.param "Format").isEmpty then htmlFormEncoded else d.param "Format",
                       ex := d.param "QueryExample" }) := by
  obtain ⟨a, t, hp, rfl⟩ := mem_subs_of_ent hmem
  obtain ⟨hc, _, hq⟩ := inter_content h ho hp hk hx hxi
  have hxq : x.query = (content t.kids).query := by rw [hc]; simp [interOf, addC]
  have key : ∀ d ∈ (entOf (a, t)).kids, d.kind = .Query → x.query = some (queryM d) := by
    intro d hd' hkd
    simp only [entOf, List.mem_map] at hd'
    obtain ⟨k, hk', rfl⟩ := hd'
    rw [hxq]
    exact hq k hk' hkd
  refine ⟨⟨?_, ?_⟩, fun d hd' hkd => key d hd' hkd⟩
  · intro hn d hd' hkd
    have := key d hd' hkd
    rw [hn] at this; cases this
  · intro hno
    rw [hxq]
    exact content_query_none _ (fun k hk' => hno k.dir (List.mem_map_of_mem hk'))

/-- the request: the Request children of the method directive merged (`reqOf`: id of the first one; the body the
first one that has one supplies — its own or that of its `Body` child; headers iff one has a `Headers` child);
absent iff there is no Request child.

Adjustment: the code does NOT reject a second Request directive under one method (`Catalog.AddRequest` keeps the
first request silently) — see `exTwoRequests`. -/
theorem request_faithful (h : compile banned f = .ok c) (ho : obeysF f = true) {a : List Up} {t : BTree}
    (hp : (a, t) ∈ subsF [] f) (hm : isMeth t.dir.kind = true) {x : InterM} (hx : x ∈ c.inters)
    (hxi : idOf (entOf (a, t)) = .ok x.iid) :
    x.request = reqOf t.kids ∧ (x.request = none ↔ ∀ k ∈ t.kids, k.dir.kind ≠ .Request) := by
  have hc := (inter_content h ho hp hm hx hxi).1
  have hr : x.request = reqOf t.kids := by
    rw [hc]; simp [interOf, addC, content_request, mergeReq]
  refine ⟨hr, ?_⟩
  rw [hr]
  unfold reqOf
  constructor
  · intro hn k hk' hkd
    have hmem : k ∈ t.kids.filter (·.dir.kind == .Request) := List.mem_filter.mpr ⟨hk', by simp [hkd]⟩
    cases hl : t.kids.filter (·.dir.kind == .Request) with
    | nil => rw [hl] at hmem; cases hmem
    | cons q qs =>
      rw [hl] at hn
      simp only [List.map_cons, List.foldr_cons] at hn
      generalize List.foldr _ none (List.map reqPart qs) = acc at hn
      cases acc <;> cases hn
  · intro hno
    have : t.kids.filter (·.dir.kind == .Request) = [] := by
      rw [List.filter_eq_nil_iff]
      intro k hk'
      simpa using hno k hk'
    rw [this]; rfl

/-- the usual case, one Request child `k`: present, with the body of `k` (`reqBodyOf`: own `Type` / body /
any-empty notation, else the `Body` child) and headers iff `k` has a `Headers` child -/
theorem request_single (h : compile banned f = .ok c) (ho : obeysF f = true) {a : List Up} {t : BTree}
    (hp : (a, t) ∈ subsF [] f) (hm : isMeth t.dir.kind = true) {x : InterM} (hx : x ∈ c.inters)
    (hxi : idOf (entOf (a, t)) = .ok x.iid) {k : BTree} (hk : t.kids.filter (·.dir.kind == .Request) = [k]) :
    ∃ q, x.request = some q ∧ q.id = k.dir.id ∧ q.body = reqBodyOf k.dir (k.kids.map BTree.dir) ∧
      (q.headers = true ↔ ∃ g ∈ k.kids, g.dir.kind = .Headers) := by
  have hr := (request_faithful h ho hp hm hx hxi).1
  refine ⟨reqPart k, by rw [hr, reqOf, hk]; rfl, rfl, rfl, ?_⟩
  simp [reqPart, hasKind]

/-- `params` / `result` are set iff the method directive has a Params / Result child -/
theorem rpc_params_result_faithful (h : compile banned f = .ok c) (ho : obeysF f = true) {m : Ent}
    (hmem : m ∈ flatAF [] f) (hk : (isHTTP m.d.kind || m.d.kind == .Method) = true) {x : InterM}
    (hx : x ∈ c.inters) (hxi : idOf m = .ok x.iid) :
    (x.params = true ↔ ∃ d ∈ m.kids, d.kind = .Params) ∧ (x.result = true ↔ ∃ d ∈ m.kids, d.kind = .Result) := by
  obtain ⟨a, t, hp, rfl⟩ := mem_subs_of_ent hmem
  have hc := (inter_content h ho hp hk hx hxi).1
  have h1 : x.params = hasKind .Params (t.kids.map BTree.dir) := by
    rw [hc]; simp [interOf, addC, content_params]
  have h2 : x.result = hasKind .Result (t.kids.map BTree.dir) := by
    rw [hc]; simp [interOf, addC, content_result]
  rw [h1, h2]
  unfold hasKind
  simp only [List.any_eq_true, beq_iff_eq]
  exact ⟨Iff.rfl, Iff.rfl⟩

end JSight.C04C
