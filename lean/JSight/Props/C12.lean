import JSight.Basic
namespace JSight.C12
end JSight.C12
