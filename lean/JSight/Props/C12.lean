import JSight.Model.AllOf
import JSight.Proofs.C12
/-!
C12 — allOf inheritance (`core/compile_catalog.go`, model `JSight/Model/AllOf.lean`).

Property theorems only; the auxiliary definitions `keys`, `mark`, `depthOk`, `lineage`, `full` and all helper lemmas
are in `JSight/Proofs/C12.lean`.

* `keys l`            — the property keys of `l`, in order
* `depthOk st f n`    — every allOf chain from `n` ends within `f` steps
* `lineage st f n`    — the types contributing properties to `n` (lineages of the bases in written order, then `n`)
* `full st sc`        — `{ sc with kids := expand st st.length sc }`
-/
namespace JSight.C12
open JSight.AllOf

/-- Well-formed store: type names are unique; every base named anywhere exists and is an object (and only objects
    name bases); property keys are unique across the whole store (so nothing is overridden or duplicated); no
    property is marked inherited initially; the allOf graph is acyclic (`depthOk` with fuel `st.length`) and no type is
    reachable from a type along two different paths (no diamonds, no base named twice: the lineage has no
    duplicates).  Every field is a bounded, decidable condition. -/
structure WF (st : Store) : Prop where
  names_unique : (st.map (·.1)).Nodup
  bases_ok : ∀ p ∈ st, ∀ b ∈ p.2.bases, (st.get? b).map (·.isObject) = some true
  obj : ∀ p ∈ st, p.2.isObject = false → p.2.bases = []
  keys_unique : (st.flatMap fun p => keys p.2.kids).Nodup
  unmarked : ∀ p ∈ st, ∀ q ∈ p.2.kids, q.from_ = none
  acyclic : ∀ p ∈ st, depthOk st st.length p.1 = true
  no_diamond : ∀ p ∈ st, (lineage st st.length p.1).Nodup

/-- Well-formed schema outside the store (request / response / headers / query body) relative to a store: its bases
    exist and are objects, its own keys are new and unique, its bases have pairwise disjoint lineages. -/
structure WFExt (st : Store) (sc : Schema) : Prop where
  obj : sc.isObject = false → sc.bases = []
  bases_ok : ∀ b ∈ sc.bases, (st.get? b).map (·.isObject) = some true
  keys_new : (keys sc.kids ++ st.flatMap fun p => keys p.2.kids).Nodup
  no_diamond : (sc.bases.flatMap (lineage st st.length)).Nodup

/-- `st'` with `memo` is a partially processed version of `st`: every type is either untouched or fully expanded
    (`bases`, `isObject` never change), and the types in `memo` are expanded.  `st` itself with `[]`, and every
    store reached from it by `processStore` / `process`, are such (`Partial.init`, `processStore_partial`,
    `process_spec`). -/
def Partial (st st' : Store) (memo : List Nat) : Prop :=
  (∀ n, st'.get? n = st.get? n ∨ st'.get? n = (st.get? n).map (full st)) ∧
  ∀ n ∈ memo, st'.get? n = (st.get? n).map (full st)

theorem Partial.init (st : Store) : Partial st st [] := ⟨fun _ => Or.inl rfl, by simp⟩

/-! ### From the plain conditions to what the proofs use -/

theorem bases_ok_iff {st : Store} {b : Nat} :
    (st.get? b).map (·.isObject) = some true ↔ ∃ ut, st.get? b = some ut ∧ ut.isObject = true := by
  cases st.get? b <;> simp

theorem WF.toWFS {st : Store} (h : WF st) : WFS st where
  obj := fun n sc hg => h.obj (n, sc) (get?_mem hg)
  bases := fun n sc hg b hb => bases_ok_iff.mp (h.bases_ok (n, sc) (get?_mem hg) b hb)
  nbases := by
    intro n sc hg
    obtain ⟨l, hl⟩ : ∃ l, st.length = l + 1 := ⟨st.length - 1, by have := length_pos_of_get? hg; omega⟩
    have hnd := h.no_diamond (n, sc) (get?_mem hg)
    rw [hl, lineage_succ hg, List.nodup_append] at hnd
    have hb := nodup_of_flatMap_lineage st l sc.bases hnd.1
    have := nodup_length_le sc.bases (st.map (·.1)) hb (fun b hb' => by
      rcases bases_ok_iff.mp (h.bases_ok (n, sc) (get?_mem hg) b hb') with ⟨ut, hu, _⟩
      exact get?_name hu)
    simpa using this
  acyclic := fun n sc hg => h.acyclic (n, sc) (get?_mem hg)
  once := by
    intro n sc hg
    rw [keys_expand st _ n sc hg]
    exact nodup_flatMap_ownKeys st h.keys_unique _ (h.no_diamond (n, sc) (get?_mem hg))

theorem WFExt.nodup {st : Store} {sc : Schema} (h : WFExt st sc) :
    (keys (expand st (st.length + 1) sc)).Nodup := by
  have hk := h.keys_new
  rw [List.nodup_append] at hk
  rw [expand_succ_inh, keys_append, keys_inh, List.nodup_append]
  refine ⟨nodup_flatMap_ownKeys st hk.2.1 _ h.no_diamond, hk.1, ?_⟩
  intro k hk1 k' hk2 hkk
  subst hkk
  rcases List.mem_flatMap.mp hk1 with ⟨a, _, hka⟩
  exact hk.2.2 k hk2 k (mem_ownKeys_store hka) rfl

theorem WFExt.nbases {st : Store} {sc : Schema} (h : WFExt st sc) : sc.bases.length ≤ st.length := by
  have hb := nodup_of_flatMap_lineage st _ sc.bases h.no_diamond
  have := nodup_length_le sc.bases (st.map (·.1)) hb (fun b hb' => by
    rcases bases_ok_iff.mp (h.bases_ok b hb') with ⟨ut, hu, _⟩
    exact get?_name hu)
  simpa using this

theorem fuel_ok {L fuel : Nat} (hf : L * (L + 2) + 2 ≤ fuel) : cost L L ≤ fuel := by
  rw [cost_eq]; omega

/-! ### (1) order and marks -/

/-- the whole result, for any list of names that covers the store (repetitions and unknown names allowed): every
    type is replaced by its expansion, nothing else changes -/
theorem processStore_full (st : Store) (h : WF st) (order : List Nat) (hcover : ∀ n ∈ st.map (·.1), n ∈ order)
    (fuel : Nat) (hf : st.length * (st.length + 2) + 2 ≤ fuel) :
    ∃ st' memo, processStore fuel order st [] = .ok (st', memo) ∧ st'.map (·.1) = st.map (·.1) ∧
      ∀ n, st'.get? n = (st.get? n).map (full st) := by
  rcases processStore_run h.toWFS fuel (fuel_ok hf) order st [] (fun _ => Or.inl rfl) (by simp)
    with ⟨st', memo, hrun, hpost, _, hall⟩
  refine ⟨st', memo, hrun, hpost.names, ?_⟩
  intro n
  cases hg : st.get? n with
  | none => rw [(good_none hpost.good).mpr hg]; rfl
  | some sc =>
    have := hall n (hcover n (get?_name hg))
    unfold Done at this
    rw [this, hg]

/-- (1) ORDER + MARKS: processing a well-formed store, in ANY order of the type names, gives every type the
    declarative expansion: inherited properties first (bases in written order, transitively), each marked with the
    direct base, own properties last -/
theorem processStore_spec (st : Store) (h : WF st) (order : List Nat) (hperm : order.Perm (st.map (·.1)))
    (fuel : Nat) (hf : st.length * (st.length + 2) + 2 ≤ fuel) :
    ∃ st' memo, processStore fuel order st [] = .ok (st', memo) ∧
      ∀ n sc, st.get? n = some sc →
        ∃ sc', st'.get? n = some sc' ∧ sc'.kids = expand st st.length sc ∧ sc'.bases = sc.bases ∧
          sc'.isObject = sc.isObject := by
  rcases processStore_full st h order (fun n hn => hperm.mem_iff.mpr hn) fuel hf with ⟨st', memo, hrun, _, hall⟩
  refine ⟨st', memo, hrun, ?_⟩
  intro n sc hg
  exact ⟨full st sc, by rw [hall n, hg]; rfl, rfl, rfl, rfl⟩

/-- the expansion read one level at a time: the inherited part is built from the *expansions* of the bases, in
    written order, each property marked with the direct base; the own properties come last -/
theorem expand_unfold_store (st : Store) (h : WF st) (n : Nat) (sc : Schema) (hg : st.get? n = some sc) :
    expand st st.length sc =
      (sc.bases.flatMap fun b => ((st.get? b).map fun ut => (expand st st.length ut).map (mark b)).getD []) ++
        sc.kids := by
  rw [expand_unfold h.toWFS hg]
  congr 1
  unfold inh
  apply flatMap_congr'
  intro b _
  unfold expOf
  cases st.get? b <;> rfl

/-- marks: an inherited property carries the name of a direct base; the unmarked ones are exactly the own ones -/
theorem marks_spec (st : Store) (h : WF st) (n : Nat) (sc : Schema) (hg : st.get? n = some sc) (p : Prpty)
    (hp : p ∈ expand st st.length sc) :
    (p.from_ = none ∧ p ∈ sc.kids) ∨ (∃ b ∈ sc.bases, p.from_ = some b ∧ p ∉ sc.kids) := by
  rw [expand_unfold h.toWFS hg, List.mem_append] at hp
  rcases hp with hp | hp
  · rcases mem_inh_marked st hp with ⟨b, hb, hpb⟩
    refine Or.inr ⟨b, hb, hpb, ?_⟩
    intro hk
    have := h.unmarked (n, sc) (get?_mem hg) p hk
    rw [this] at hpb; cases hpb
  · exact Or.inl ⟨h.unmarked (n, sc) (get?_mem hg) p hp, hp⟩

/-! ### (2) order independence -/

/-- (2) ORDER INDEPENDENCE: two processing orders give the same store (hence the same properties for every type) -/
theorem order_independent (st : Store) (h : WF st) (o1 o2 : List Nat)
    (h1 : o1.Perm (st.map (·.1))) (h2 : o2.Perm (st.map (·.1)))
    (f1 f2 : Nat) (hf1 : st.length * (st.length + 2) + 2 ≤ f1) (hf2 : st.length * (st.length + 2) + 2 ≤ f2) :
    ∃ st' m1 m2, processStore f1 o1 st [] = .ok (st', m1) ∧ processStore f2 o2 st [] = .ok (st', m2) := by
  rcases processStore_full st h o1 (fun n hn => h1.mem_iff.mpr hn) f1 hf1 with ⟨st1, m1, hr1, hn1, ha1⟩
  rcases processStore_full st h o2 (fun n hn => h2.mem_iff.mpr hn) f2 hf2 with ⟨st2, m2, hr2, hn2, ha2⟩
  have : st1 = st2 :=
    store_ext st1 st2 (hn1 ▸ h.names_unique) (hn1.trans hn2.symm) (fun n => by rw [ha1, ha2])
  subst this
  exact ⟨st1, m1, m2, hr1, hr2⟩

/-! ### (3) once -/

/-- (3) ONCE: in the result no property key appears twice in a type -/
theorem once (st : Store) (h : WF st) (order : List Nat) (hperm : order.Perm (st.map (·.1)))
    (fuel : Nat) (hf : st.length * (st.length + 2) + 2 ≤ fuel) (st' : Store) (memo : List Nat)
    (hrun : processStore fuel order st [] = .ok (st', memo)) (n : Nat) (sc' : Schema)
    (hg : st'.get? n = some sc') : ((sc'.kids).map (·.key)).Nodup := by
  rcases processStore_full st h order (fun n hn => hperm.mem_iff.mpr hn) fuel hf with ⟨st1, memo1, hrun1, _, hall⟩
  rw [hrun] at hrun1
  injection hrun1 with hrun1
  injection hrun1 with hst _
  subst hst
  rw [hall n] at hg
  cases hg0 : st.get? n with
  | none => simp [hg0] at hg
  | some sc =>
    simp [hg0] at hg
    subst hg
    exact h.toWFS.once n sc hg0

/-! ### (4) bases unchanged -/

/-- (4) BASES UNCHANGED: a base type's own result does not depend on who inherits from it — it is its own
    expansion — and the heir's inherited part is built from the bases' *final* property lists -/
theorem bases_unchanged (st : Store) (h : WF st) (order : List Nat) (hperm : order.Perm (st.map (·.1)))
    (fuel : Nat) (hf : st.length * (st.length + 2) + 2 ≤ fuel) (st' : Store) (memo : List Nat)
    (hrun : processStore fuel order st [] = .ok (st', memo))
    (n : Nat) (sc : Schema) (hg : st.get? n = some sc) :
    (∀ b ∈ sc.bases, ∃ ut ut', st.get? b = some ut ∧ st'.get? b = some ut' ∧
        ut'.kids = expand st st.length ut ∧ ut'.bases = ut.bases) ∧
    ∃ sc', st'.get? n = some sc' ∧
      sc'.kids = (sc.bases.flatMap fun b => ((st'.get? b).map fun ut' => ut'.kids.map (mark b)).getD []) ++ sc.kids := by
  rcases processStore_full st h order (fun n hn => hperm.mem_iff.mpr hn) fuel hf with ⟨st1, memo1, hrun1, _, hall⟩
  rw [hrun] at hrun1
  injection hrun1 with hrun1
  injection hrun1 with hst _
  subst hst
  constructor
  · intro b hb
    rcases h.toWFS.bases n sc hg b hb with ⟨ut, hu, _⟩
    exact ⟨ut, full st ut, hu, by rw [hall b, hu]; rfl, rfl, rfl⟩
  · refine ⟨full st sc, by rw [hall n, hg]; rfl, ?_⟩
    show expand st st.length sc = _
    rw [expand_unfold_store st h n sc hg]
    congr 1
    apply flatMap_congr'
    intro b _
    rw [hall b]
    cases st.get? b <;> rfl

/-! ### (5) schemas outside the store -/

/-- the store after `processStore` is a partially processed version of the original (with its memo) -/
theorem processStore_partial (st : Store) (h : WF st) (order : List Nat)
    (fuel : Nat) (hf : st.length * (st.length + 2) + 2 ≤ fuel) :
    ∃ st' memo, processStore fuel order st [] = .ok (st', memo) ∧ Partial st st' memo := by
  rcases processStore_run h.toWFS fuel (fuel_ok hf) order st [] (fun _ => Or.inl rfl) (by simp)
    with ⟨st', memo, hrun, hpost, hm, _⟩
  exact ⟨st', memo, hrun, hpost.good, hm⟩

/-- (5) a schema outside the store that names bases gets its declarative expansion, whether it is processed before
    the store (`st' = st`, `memo = []`), after it, or in between; the store stays a partially processed version of
    the original, so (1) still holds when the store is processed afterwards.  (Fuel for `expand`: `st.length + 1`,
    one more than for the types of the store, since the schema sits on top of the deepest chain.) -/
theorem process_spec (st : Store) (h : WF st) (sc : Schema) (hsc : WFExt st sc) (st' : Store) (memo : List Nat)
    (hst' : Partial st st' memo) (fuel : Nat) (hf : st.length * (st.length + 2) + 2 ≤ fuel) :
    ∃ st'' memo', process fuel st' memo sc = .ok (st'', memo', { sc with kids := expand st (st.length + 1) sc }) ∧
      Partial st st'' memo' := by
  by_cases hobj : sc.isObject = true
  · rcases process_ext h.toWFS fuel st' memo sc hst'.1 hst'.2 hobj
      (fun b hb => bases_ok_iff.mp (hsc.bases_ok b hb)) hsc.nbases hsc.nodup (fuel_ok hf)
      with ⟨st'', memo', hproc, hpost⟩
    exact ⟨st'', memo', hproc, hpost.good, done_of_post hst'.2 hpost⟩
  · have hobj' : sc.isObject = false := by simpa using hobj
    obtain ⟨f, rfl⟩ : ∃ f, fuel = f + 1 := ⟨fuel - 1, by omega⟩
    refine ⟨st', memo, ?_, hst'⟩
    have hp : process (f + 1) st' memo sc = .ok (st', memo, sc) := by
      rw [process]; simp [hobj']
    rw [hp, expand_no_bases st _ sc (hsc.obj hobj')]

/-- the same in the form "whatever `process` returns has the expansion as its properties" -/
theorem process_spec' (st : Store) (h : WF st) (sc : Schema) (hsc : WFExt st sc) (st' : Store) (memo : List Nat)
    (hst' : Partial st st' memo) (fuel : Nat) (hf : st.length * (st.length + 2) + 2 ≤ fuel)
    (st'' : Store) (memo' : List Nat) (sc' : Schema)
    (hrun : process fuel st' memo sc = .ok (st'', memo', sc')) :
    sc'.kids = expand st (st.length + 1) sc ∧ sc'.bases = sc.bases := by
  rcases process_spec st h sc hsc st' memo hst' fuel hf with ⟨st2, memo2, hproc, _⟩
  rw [hrun] at hproc
  injection hproc with hproc
  injection hproc with _ hproc
  injection hproc with _ hsc'
  subst hsc'
  exact ⟨rfl, rfl⟩

/-! ### (6) rejections

The schema `sc` (of the store or outside) names the bases `pre ++ b :: post`; the bases written after `b` are
inherited first and are fine (`hpost`, `hnd`); then `b` is rejected. -/

/-- an undefined base is rejected -/
theorem undefined_base_rejected (st : Store) (h : WF st) (st' : Store) (memo : List Nat) (hst' : Partial st st' memo)
    (sc : Schema) (pre : List Nat) (b : Nat) (post : List Nat)
    (hobj : sc.isObject = true) (hb : sc.bases = pre ++ b :: post)
    (hpost : ∀ b' ∈ post, (st.get? b').map (·.isObject) = some true)
    (hnd : (keys (expand st (st.length + 1) { sc with bases := post })).Nodup)
    (fuel : Nat) (hf : st.length * (st.length + 2) + post.length + 5 ≤ fuel)
    (hundef : st.get? b = none) :
    process fuel st' memo sc = .error (.notFound b) := by
  rw [expand_succ_inh] at hnd
  rcases process_upto h.toWFS fuel st' memo sc pre b post hst'.1 hst'.2 hobj hb
    (fun b' hb' => bases_ok_iff.mp (hpost b' hb')) hnd (by rw [cost_eq]; omega)
    with ⟨st1, memo1, f', hp1, hf', hrun⟩
  rw [hrun]
  exact inheritAll_notFound st1 memo1 _ b _ f' (by omega) ((good_none hp1.good).mpr hundef)

/-- a base that is not an object is rejected -/
theorem non_object_base_rejected (st : Store) (h : WF st) (st' : Store) (memo : List Nat)
    (hst' : Partial st st' memo)
    (sc : Schema) (pre : List Nat) (b : Nat) (post : List Nat)
    (hobj : sc.isObject = true) (hb : sc.bases = pre ++ b :: post)
    (hpost : ∀ b' ∈ post, (st.get? b').map (·.isObject) = some true)
    (hnd : (keys (expand st (st.length + 1) { sc with bases := post })).Nodup)
    (fuel : Nat) (hf : st.length * (st.length + 2) + post.length + 5 ≤ fuel)
    (ut : Schema) (hg : st.get? b = some ut) (hno : ut.isObject = false) :
    process fuel st' memo sc = .error (.notObject b) := by
  rw [expand_succ_inh] at hnd
  rcases process_upto h.toWFS fuel st' memo sc pre b post hst'.1 hst'.2 hobj hb
    (fun b' hb' => bases_ok_iff.mp (hpost b' hb')) hnd (by rw [cost_eq]; omega)
    with ⟨st1, memo1, f', hp1, hf', hrun⟩
  rw [hrun]
  rcases good_get hp1.good hg with ⟨ut1, hu1, hcase⟩
  exact inheritAll_notObject st1 memo1 _ b _ f' ut1 (by omega) hu1
    (by rcases hcase with rfl | rfl <;> simp [full, hno])

/-- overriding an inherited property is rejected: if `b` has (own or inherited) a property with the key of an own,
    unmarked property of `sc`, the result is an override error for `b` and some such key -/
theorem override_rejected (st : Store) (h : WF st) (st' : Store) (memo : List Nat) (hst' : Partial st st' memo)
    (sc : Schema) (pre : List Nat) (b : Nat) (post : List Nat)
    (hobj : sc.isObject = true) (hb : sc.bases = pre ++ b :: post)
    (hpost : ∀ b' ∈ post, (st.get? b').map (·.isObject) = some true)
    (hnd : (keys (expand st (st.length + 1) { sc with bases := post })).Nodup)
    (fuel : Nat) (hf : st.length * (st.length + 2) + post.length + 5 ≤ fuel)
    (ut : Schema) (hg : st.get? b = some ut) (hobjb : ut.isObject = true)
    (v p : Prpty) (hv : v ∈ expand st st.length ut)
    (hfind : sc.kids.find? (·.key == v.key) = some p) (hp : p.from_ = none) :
    ∃ k, process fuel st' memo sc = .error (.override k b) ∧
      k ∈ keys (expand st st.length ut) ∧ k ∈ keys sc.kids := by
  rw [expand_succ_inh] at hnd
  rcases process_upto h.toWFS fuel st' memo sc pre b post hst'.1 hst'.2 hobj hb
    (fun b' hb' => bases_ok_iff.mp (hpost b' hb')) hnd (by rw [cost_eq]; omega)
    with ⟨st1, memo1, f', hp1, hf', hrun⟩
  have hnd' := hnd
  rw [keys_append, List.nodup_append] at hnd'
  have hvk : v.key ∈ keys sc.kids :=
    mem_keys.mpr ⟨p, List.mem_of_find?_eq_some hfind, by simpa using List.find?_some hfind⟩
  have hfind' : (inh st post ++ sc.kids).find? (·.key == v.key) = some p := by
    rw [List.find?_append, find?_key_none (fun hk => hnd'.2.2 _ hk _ hvk rfl)]
    simpa using hfind
  rcases inheritAll_override h.toWFS st1 memo1 { sc with kids := inh st post ++ sc.kids } b pre.reverse f' ut v p
    hp1.good (done_of_post hst'.2 hp1) hf' hg hobjb hv hfind' hp with ⟨k, hk, hkb, q, hq, hqn⟩
  refine ⟨k, by rw [hrun, hk], hkb, ?_⟩
  have hq' : (inh st post ++ sc.kids).find? (·.key == k) = some q := hq
  have hqm := List.mem_of_find?_eq_some hq'
  have hqk : q.key = k := by simpa using List.find?_some hq'
  rcases List.mem_append.mp hqm with hqi | hqo
  · rcases mem_inh_marked st hqi with ⟨b', _, hb'⟩
    rw [hqn] at hb'; cases hb'
  · exact mem_keys.mpr ⟨q, hqo, hqk⟩

/-- … and it names exactly the key `v.key` when that is the only clash with `b` -/
theorem override_rejected_exact (st : Store) (h : WF st) (st' : Store) (memo : List Nat)
    (hst' : Partial st st' memo)
    (sc : Schema) (pre : List Nat) (b : Nat) (post : List Nat)
    (hobj : sc.isObject = true) (hb : sc.bases = pre ++ b :: post)
    (hpost : ∀ b' ∈ post, (st.get? b').map (·.isObject) = some true)
    (hnd : (keys (expand st (st.length + 1) { sc with bases := post })).Nodup)
    (fuel : Nat) (hf : st.length * (st.length + 2) + post.length + 5 ≤ fuel)
    (ut : Schema) (hg : st.get? b = some ut) (hobjb : ut.isObject = true)
    (v p : Prpty) (hv : v ∈ expand st st.length ut)
    (hfind : sc.kids.find? (·.key == v.key) = some p) (hp : p.from_ = none)
    (honly : ∀ k ∈ keys (expand st st.length ut), k ∈ keys sc.kids → k = v.key) :
    process fuel st' memo sc = .error (.override v.key b) := by
  rcases override_rejected st h st' memo hst' sc pre b post hobj hb hpost hnd fuel hf ut hg hobjb v p hv hfind hp
    with ⟨k, hk, hk1, hk2⟩
  rw [hk, honly k hk1 hk2]

/-! ### Examples -/

instance {ε α : Type} [DecidableEq ε] [DecidableEq α] : DecidableEq (Except ε α) := fun a b =>
  match a, b with
  | .ok x, .ok y => if h : x = y then isTrue (congrArg _ h) else isFalse (fun h' => h (by injection h'))
  | .error x, .error y => if h : x = y then isTrue (congrArg _ h) else isFalse (fun h' => h (by injection h'))
  | .ok _, .error _ => isFalse (fun h => by cases h)
  | .error _, .ok _ => isFalse (fun h => by cases h)

/-- @1 allOf [@2, @4], @2 allOf @3, @3, @4 -/
def ex4 : Store :=
  [(1, { bases := [2, 4], kids := [{ key := 10 }, { key := 11 }] }),
   (2, { bases := [3], kids := [{ key := 20 }] }),
   (3, { kids := [{ key := 30 }, { key := 31 }] }),
   (4, { kids := [{ key := 40 }] })]

example : WF ex4 := ⟨by decide, by decide, by decide, by decide, by decide, by decide, by decide⟩

/-- the two-base type: bases in written order (each with its own inherited properties first), own properties last -/
example : (processStore 30 [1, 2, 3, 4] ex4 []).map (fun r => (r.1.get? 1).map (·.kids)) =
    .ok (some [⟨30, some 2⟩, ⟨31, some 2⟩, ⟨20, some 2⟩, ⟨40, some 4⟩, ⟨10, none⟩, ⟨11, none⟩]) := by decide

example : (processStore 30 [4, 3, 2, 1] ex4 []).map (·.1) = (processStore 30 [1, 2, 3, 4] ex4 []).map (·.1) := by
  decide

/-- the chain @1 allOf @2 allOf @3 -/
def ex3 : Store :=
  [(1, { bases := [2], kids := [{ key := 10 }] }),
   (2, { bases := [3], kids := [{ key := 20 }] }),
   (3, { kids := [{ key := 30 }] })]

example : WF ex3 := ⟨by decide, by decide, by decide, by decide, by decide, by decide, by decide⟩

example : (processStore 20 [1, 2, 3] ex3 []).map (·.1) = (processStore 20 [3, 2, 1] ex3 []).map (·.1) := by decide

example : (processStore 20 [3, 2, 1] ex3 []).map (·.1) =
    .ok [(1, { bases := [2], kids := [⟨30, some 2⟩, ⟨20, some 2⟩, ⟨10, none⟩] }),
         (2, { bases := [3], kids := [⟨30, some 3⟩, ⟨20, none⟩] }),
         (3, { kids := [⟨30, none⟩] })] := by decide

/-- a body outside the store, processed before or after the store -/
example : (process 20 ex3 [] { bases := [1], kids := [{ key := 99 }] }).map (·.2.2.kids) =
    .ok [⟨30, some 1⟩, ⟨20, some 1⟩, ⟨10, some 1⟩, ⟨99, none⟩] := by decide

example : ((processStore 20 [1, 2, 3] ex3 []).bind fun r =>
      process 20 r.1 r.2 { bases := [1], kids := [{ key := 99 }] }).map (·.2.2.kids) =
    .ok [⟨30, some 1⟩, ⟨20, some 1⟩, ⟨10, some 1⟩, ⟨99, none⟩] := by decide

/-- rejections: overriding an inherited (here: transitively inherited) property, a non-object base, an undefined base -/
example : process 20 ex3 [] { bases := [1], kids := [{ key := 30 }] } = .error (.override 30 1) := by decide

example : processStore 20 [1, 2]
    [(1, { bases := [2], kids := [{ key := 10 }] }), (2, { isObject := false })] [] = .error (.notObject 2) := by
  decide

example : processStore 20 [1] [(1, { bases := [7], kids := [{ key := 10 }] })] [] = .error (.notFound 7) := by decide

/-- why diamonds are excluded: the shared ancestor's property is kept once, attributed to the base written last -/
example : (processStore 30 [1, 2, 3, 4]
      [(1, { bases := [2, 3], kids := [{ key := 10 }] }), (2, { bases := [4], kids := [{ key := 20 }] }),
       (3, { bases := [4], kids := [{ key := 30 }] }), (4, { kids := [{ key := 40 }] })] []).map
      (fun r => (r.1.get? 1).map (·.kids)) =
    .ok (some [⟨20, some 2⟩, ⟨40, some 3⟩, ⟨30, some 3⟩, ⟨10, none⟩]) := by decide

end JSight.C12
