import JSight.Model.Context
import JSight.Model.Paste
import JSight.Proofs.Obeys
/-!
C06, the GLOBAL consequence of the placement rule: "each directive becomes a child of the nearest still-open
enclosing directive whose kind admits it, or a top-level directive if none does and its kind may stand at top
level" — hence, in the finished forest, EVERY child is admitted by its parent and EVERY root may stand at the top
level.  (`Props/C06.lean` characterises each single `place` step; here the resulting forest.)

Definitions (in `JSight/Proofs/Obeys.lean`, with the helper lemmas):
  `obeysTree`/`obeysForest`  every child is admitted by its parent (`admitsDir`: the kind is admitted, and a URL
                             does not admit an HTTP method that carries its own path), recursively;
  `rootsOK`                  every root's kind may stand at the top level;
  `noKindTree`/`noKindForest k`  no directive of kind `k` anywhere;
  `InForest t f`             `t` occurs in `f`, as a root or as a descendant of one.

Theorems:
* (1) `resolve_obeys`          the forest of a resolved token stream obeys the tables
* (2) `expand_obeys`           so does the forest after the PASTE expansion — for ANY input forest
* (3) `expand_no_paste`        no PASTE directive anywhere in the expanded forest — for any input forest
      `expand_no_macro`        no MACRO anywhere in it, if the input has no MACRO below its top level
      `resolve_no_nested`      which holds for a resolved input when no kind admits MACRO as a child
      `expand_no_macro_paste`  together: scan-time resolution followed by expansion leaves no MACRO and no PASTE
* readings: `obeys_edge`, `rootsOK_iff`, `noKind_iff` say the Bool predicates in words.

All theorems are parametric in the admissibility tables (`rootAdmits`, `admits`, `isHTTPMethod` are never
unfolded; the one table fact that (3) needs, "no kind admits MACRO as a child", is a hypothesis and is checked on
the real tables by `macro_never_child` in the closing section).  Core Lean only.
-/
namespace JSight.C06O
open JSight Gen

/-! ### (1) scan-time resolution -/

/-- the invariant behind (1), for a stream that has not ended yet: after any accepted prefix, every finished
    tree obeys, every open directive admits its finished children and is admitted by the open directive below
    it, and the outermost open directive may stand at the top level -/
theorem consumeAll_obeys (toks : List Tok) (c : Ctx) (h : consumeAll {} toks = .ok c) :
    Inv c.frames c.roots :=
  consumeAll_inv toks {} c Inv.empty h

/-- (1) the forest of a resolved token stream obeys the tables: every root may stand at the top level and every
    child is admitted by its parent (with the rule that a URL does not admit a method carrying its own path) -/
theorem resolve_obeys (toks : List Tok) (F : List Tree) (h : resolve toks = .ok F) :
    rootsOK F = true ∧ obeysForest F = true := by
  unfold resolve at h
  split at h
  · cases h
  · rename_i c hc
    split at h
    · cases h
    · cases h
      exact closeAll_inv _ _ (consumeAll_obeys toks c hc)

/-! ### (2) PASTE expansion -/

/-- the invariant behind (2): every step of the expansion (`expandTree`, `expandList`: placing a directive,
    pasting a macro body, returning to the parent of a parenthesised directive) keeps the invariant of (1) -/
theorem expandList_obeys (ms : Macros) (fuel : Nat) (outer : Option Nat) (st st' : PState) (l : List Tree)
    (hi : Inv st.ctx.frames st.ctx.roots) (h : expandList ms fuel outer st l = .ok st') :
    Inv st'.ctx.frames st'.ctx.roots :=
  (expand_inv ms fuel).2 outer st l st' hi h

/-- (2) the forest after PASTE expansion obeys the tables too (macros removed, pasted children placed by the
    same `place`).  No hypothesis on the input forest is needed: the expansion re-places every directive, so
    even an input that does not obey the tables comes out obeying them (or is rejected). -/
theorem expand_obeys (roots F : List Tree) (h : expand roots = .ok F) :
    rootsOK F = true ∧ obeysForest F = true := by
  rcases C07.expand_ok h with ⟨ms, rest, st, _, _, hl, rfl⟩
  exact closeAll_inv _ _ (expandList_obeys ms _ none {} st rest Inv.empty hl)

/-- (2') the same, read off `C07.expand_eq_inline`: the expanded forest is the scan-time resolution of the
    inlined token stream, so (1) applies -/
theorem expand_obeys' (roots F : List Tree) (h : expand roots = .ok F) :
    rootsOK F = true ∧ obeysForest F = true := by
  rcases C07.expand_eq_inline roots F h with ⟨_, _, _, toks, _, _, hres⟩
  exact resolve_obeys toks F hres

/-! ### (3) no MACRO, no PASTE after the expansion -/

/-- (3a) no PASTE directive survives the expansion, anywhere in the forest (for any input forest) -/
theorem expand_no_paste (roots F : List Tree) (h : expand roots = .ok F) :
    noKindForest Kind.Paste F = true :=
  (expand_kinds roots F h).1

/-- (3b) no MACRO directive survives the expansion, anywhere in the forest, provided the input has no MACRO
    below its top level.  (The proviso is needed: the expansion removes the top-level MACROs only, and it hoists
    a MACRO nested under a directive that does not admit it to the top level, see the `example` at the end.) -/
theorem expand_no_macro (roots F : List Tree) (h : expand roots = .ok F)
    (hn : ∀ t ∈ roots, noKindForest Kind.Macro t.kids = true) :
    noKindForest Kind.Macro F = true :=
  (expand_kinds roots F h).2 hn

/-- a kind that no kind admits as a child occurs in a resolved forest at the top level only -/
theorem resolve_no_nested (toks : List Tok) (roots : List Tree) (k : Kind) (hk : ∀ p, admits p k = false)
    (h : resolve toks = .ok roots) : ∀ t ∈ roots, noKindForest k t.kids = true := by
  intro t ht
  exact obeysTree_noKind k hk t ((obeysForest_iff roots).mp (resolve_obeys toks roots h).2 t ht)

/-- (3) scan-time resolution followed by the expansion: when no kind admits MACRO as a child (true of the real
    tables: `macro_never_child`), no root of the result is a MACRO, indeed no MACRO and no PASTE directive occurs
    anywhere in it -/
theorem expand_no_macro_paste (toks : List Tok) (roots F : List Tree)
    (hM : ∀ p, admits p Kind.Macro = false)
    (hr : resolve toks = .ok roots) (h : expand roots = .ok F) :
    (∀ t ∈ F, t.dir.kind ≠ Kind.Macro ∧ t.dir.kind ≠ Kind.Paste) ∧
      noKindForest Kind.Macro F = true ∧ noKindForest Kind.Paste F = true := by
  have hm := expand_no_macro roots F h (resolve_no_nested toks roots Kind.Macro hM hr)
  have hp := expand_no_paste roots F h
  refine ⟨fun t ht => ⟨?_, ?_⟩, hm, hp⟩
  · exact (noKindTree_kids ((noKindForest_iff _ _).mp hm t ht)).1
  · exact (noKindTree_kids ((noKindForest_iff _ _).mp hp t ht)).1

/-! ### the Bool predicates, in words -/

/-- `obeysForest`: every parent/child edge anywhere in the forest is admitted -/
theorem obeys_edge (f : List Tree) (ho : obeysForest f = true) (t c : Tree)
    (ht : InForest t f) (hc : c ∈ t.kids) : admitsDir t.dir c.dir = true :=
  (obeysTree_kids (ht.obeys ho)).1 c hc

/-- ... and conversely -/
theorem obeys_of_edges (f : List Tree)
    (h : ∀ t c, InForest t f → c ∈ t.kids → admitsDir t.dir c.dir = true) : obeysForest f = true := by
  have key : ∀ n (t : Tree), treeSize t ≤ n → InForest t f → obeysTree t = true := by
    intro n
    induction n with
    | zero => intro t hs; have := C07.treeSize_pos t; omega
    | succ n ih =>
      intro t hs ht
      rcases t with ⟨d, kids⟩
      rw [obeysTree_node, Bool.and_eq_true, List.all_eq_true, obeysForest_iff]
      refine ⟨fun c hc => h _ c ht hc, fun c hc => ih c ?_ (.child ht hc)⟩
      rw [C07.treeSize_node] at hs
      have : treeSize c ≤ treeSize.sizeList kids := by
        clear hs ht ih
        induction kids with
        | nil => cases hc
        | cons a r ih =>
          rw [treeSize.sizeList]
          rcases List.mem_cons.mp hc with rfl | hc
          · omega
          · have := ih hc; omega
      omega
  rw [obeysForest_iff]
  exact fun t ht => key _ t (Nat.le_refl _) (.root ht)

theorem rootsOK_iff (f : List Tree) : rootsOK f = true ↔ ∀ t ∈ f, rootAdmits t.dir.kind = true := by
  simp [rootsOK]

/-- `noKindForest k`: no tree occurring anywhere in the forest has kind `k` -/
theorem noKind_iff (k : Kind) (f : List Tree) :
    noKindForest k f = true ↔ ∀ t, InForest t f → t.dir.kind ≠ k := by
  constructor
  · intro hn t ht
    exact (noKindTree_kids (ht.noKind hn)).1
  · intro h
    have key : ∀ n (t : Tree), treeSize t ≤ n → InForest t f → noKindTree k t = true := by
      intro n
      induction n with
      | zero => intro t hs; have := C07.treeSize_pos t; omega
      | succ n ih =>
        intro t hs ht
        have hk := h t ht
        rcases t with ⟨d, kids⟩
        rw [noKindTree_node, Bool.and_eq_true, noKindForest_iff]
        refine ⟨by simpa [Tree.dir] using hk, fun c hc => ih c ?_ (.child ht hc)⟩
        rw [C07.treeSize_node] at hs
        have : treeSize c ≤ treeSize.sizeList kids := by
          clear hs ht ih hk
          induction kids with
          | nil => cases hc
          | cons a r ih =>
            rw [treeSize.sizeList]
            rcases List.mem_cons.mp hc with rfl | hc
            · omega
            · have := ih hc; omega
        omega
    rw [noKindForest_iff]
    exact fun t ht => key _ t (Nat.le_refl _) (.root ht)

/-! ### the real tables -/
section Examples

/-- on the real tables no kind admits MACRO as a child: the hypothesis of `expand_no_macro_paste` -/
theorem macro_never_child : ∀ p, admits p Kind.Macro = false := by
  intro p; cases p <;> decide

/-- (3) on the real tables -/
theorem expand_no_macro_paste_real (toks : List Tok) (roots F : List Tree)
    (hr : resolve toks = .ok roots) (h : expand roots = .ok F) :
    (∀ t ∈ F, t.dir.kind ≠ Kind.Macro ∧ t.dir.kind ≠ Kind.Paste) ∧
      noKindForest Kind.Macro F = true ∧ noKindForest Kind.Paste F = true :=
  expand_no_macro_paste toks roots F macro_never_child hr h

private def url : Dir := { kind := .URL, id := 1 }
private def get : Dir := { kind := .Get, id := 2 }
private def getP : Dir := { kind := .Get, hasPath := true, id := 5 }
private def req : Dir := { kind := .Request, id := 3 }
private def body : Dir := { kind := .Body, id := 4 }
private def ty : Dir := { kind := .Type, id := 7 }
private def mac : Dir := { kind := .Macro, name := 1, id := 8 }
private def macX : Dir := { kind := .Macro, explicit := true, name := 1, id := 9 }
private def paste1 : Dir := { kind := .Paste, name := 1, id := 10 }

-- the predicates are not vacuous: a Body under a URL, a path-bearing GET under a URL, a Body at the top level
example : obeysForest [.node url [.node get [.node req [.node body []]]]] = true := by decide +kernel
example : obeysForest [.node url [.node body []]] = false := by decide +kernel
example : obeysForest [.node url [.node getP []]] = false := by decide +kernel
example : obeysForest [.node mac [.node url [], .node getP []]] = true := by decide +kernel
example : obeysForest [.node url [.node get [.node ty []]]] = false := by decide +kernel
example : rootsOK [.node url [], .node getP [], .node ty []] = true := by decide +kernel
example : rootsOK [.node url [], .node body []] = false := by decide +kernel
example : noKindForest .Paste [.node url [.node get [.node paste1 []]]] = false := by decide +kernel
example : noKindForest .Macro [.node url [.node get [.node paste1 []]]] = true := by decide +kernel

-- (1) URL, GET, Request, Body, then a path-bearing GET: the URL does not admit it, it becomes a second root
example : resolve [.dir url, .dir get, .dir req, .dir body, .dir getP] =
    .ok [.node url [.node get [.node req [.node body []]]], .node getP []] := by decide +kernel
example : rootsOK [.node url [.node get [.node req [.node body []]]], .node getP []] = true ∧
    obeysForest [.node url [.node get [.node req [.node body []]]], .node getP []] = true := by decide +kernel

-- (2), (3) MACRO @1 ( GET Request )  URL  PASTE @1  TYPE: the macro is gone, the PASTE is replaced by its body
example : resolve [.dir macX, .dir get, .dir req, .close, .dir url, .dir paste1, .dir ty] =
    .ok [.node macX [.node get [.node req []]], .node url [.node paste1 []], .node ty []] := by decide +kernel
example : expand [.node macX [.node get [.node req []]], .node url [.node paste1 []], .node ty []] =
    .ok [.node url [.node get [.node req []]], .node ty []] := by decide +kernel

-- (2) needs no hypothesis: an input forest that does not obey the tables is re-placed by the expansion
example : obeysForest [.node url [.node ty [.node get []]]] = false := by decide +kernel
example : expand [.node url [.node ty [.node get []]]] = .ok [.node url [], .node ty [], .node get []] := by
  decide +kernel

-- (3b) needs its proviso: for an input forest that is NOT the result of `resolve`, a MACRO nested under a URL is
-- hoisted to the top level by the expansion and survives it
example : expand [.node url [.node mac []]] = .ok [.node url [], .node mac []] := by decide +kernel
-- ... `resolve` never produces that input: URL then MACRO gives two roots, and the expansion rejects the empty macro
example : resolve [.dir url, .dir mac] = .ok [.node url [], .node mac []] := by decide +kernel
example : expand [.node url [], .node mac []] = .error (.emptyMacro 8) := by decide +kernel

end Examples

end JSight.C06O
