import JSight.Model.Build
import JSight.Props.C10_Build
import JSight.Proofs.BuildPermInters
import JSight.Proofs.BuildPermInters2
import JSight.Proofs.BuildPermInters3
/-!
C10 (catalog construction), second part — exchanging two neighbouring INTERACTION blocks of the top level.
`Props/C10_Build.lean` moves a DECLARATION past any block; here both blocks create interactions, so after the
exchange the interactions, the automatically created tags and the id lists inside the tags come out in another
order: the conclusion is `SameUpToOrder'`.

What is proved (PARTIAL, see the end of this comment): for two neighbouring top-level HTTP-METHOD blocks
(`GET /path …` with the directives `Gen.childAllowed` allows below a method — Description, Query, Request,
response codes, Headers, Body, Path, Paste at any depth — and no Tags directive)

* `swap_inter_verdict_partial`: the verdict of `compile` is the same in both orders;
* `swap_inter_partial`: an accepted document stays accepted, with catalogs equal up to order (`SameUpToOrder'`);
* `…_noPath`: the same without the hypothesis on the Path stage when the two blocks hold no Path directive.

The proof (helpers: `Proofs/BuildPermInters.lean`, `Proofs/BuildPermInters2.lean`) uses a simulation relation
`BuildPermI.Sim` (interactions up to order under unique ids; tags looked up by name, id lists up to order;
`similar` as a finite map — `checkSimilar_perm`: neither the verdict of `checkSimilarPaths` nor the resulting map
depends on the order in which paths are entered; `uniqURL`, `protoURLs` as sets) that EVERY directive of the
model preserves (`BuildPermI.lift_sim`, over arbitrary forests: the blocks after the exchanged pair are not
restricted), and that the three checks after the fold respect (`BuildPermI.chk_sim`, from
`validateRequestBody_ok_iff` / `validateResponseBody_ok_iff`).

Two facts of the MODEL found on the way — each makes the unrestricted statement ("any two `plainTree` blocks whose
root is URL or a method") FALSE, so the theorems below carry the corresponding hypotheses:

* (until F76) `collectPaths` remembered only the LAST Path directive's parent, so with one identity on different
  nodes the Path stage accepted `p₅ p₆ p₅` and rejected `p₅ p₅ p₆` (the former `path_stage_order_matters`); hence the
  hypothesis `hpaths` (or: no Path directive in the two blocks).  Since F76 the stage remembers every context that has
  a Path directive, its verdict does not depend on the order (`C10P.paths_swap`, for arbitrary forests), `hpaths`
  always holds (`C10P.swap_inter_verdict'`, `C10P.swap_inter'` are the theorems below without it) and the shape of the
  old counterexample is rejected in both orders (`equal_ids_rejected_in_both_orders`).
* `alien_url_order_matters`: the model does not restrict nesting; `GET /x { URL /y { Query } }` updates the
  interaction `GET /y` of ANOTHER block, accepted after `GET /y` and rejected before it.  `Gen.childAllowed`
  excludes such trees; `isMethodBlock` states the allowed shape.

SECOND ROUND (`…'` theorems, helper `Proofs/BuildPermInters3.lean`): the same two theorems for `isInterBlock'` —
a method block whose descendants may also be Tags directives (`isMethodBlock'`), or a URL block whose children
are such method blocks, Tags, Path, Paste (`isUrlBlock'`): `swap_inter_verdict_partial'`, `swap_inter_partial'`
and the `…_noPath'` forms.  Architecture: every block is a CREATOR (a run of atoms: `simS` = checkSimilarPaths,
`uniqS` = the unique-URL set, `tagChk` = a Tags directive, `interS` = a new interaction with its tag stage)
followed by operations on the interactions it created (`BuildPermI.IsBlk`, closed under sequencing:
`IsBlk.seq`); the atoms commute pairwise up to `Sim` (`atom_comm`), hence so do creators (`comm_atoms`, a bubble
sort using that `Sim` is transitive and kept by every atom), hence so do blocks (`blk_comm`).

THIRD ROUND: a URL block may also hold JSON-RPC children — Protocol (atom `protoS`: the set `protoURLs`) and
Method with Description / Params / Result / Tags below it (`isRpcMethodBlock`; the atom `interS` refuses an id
that is TAKEN, `BuildPermI.taken`: it is there or, for a JSON-RPC id, an interaction with the same text is;
`forest_local_rpc`: everything below a Method works on the interaction of that Method).  A URL with both HTTP
and JSON-RPC children is refused by `addURL` (`mixedChild`): a constant failure, which commutes with everything.
The four `…'` theorems cover these blocks: with this the statement holds for every shape `Gen.childAllowed`
allows for URL and method trees.

STILL MISSING relative to the full statement as first given: nothing that is true — the shapes `Gen.childAllowed`
does not allow are counterexamples (`alien_url_order_matters`); `hpaths` is kept in the statements of this file and
discharged in `Props/C10_Paths.lean` (`C10P.paths_swap`, F76).  For concrete forests the decidable checker
`bothSame'` (sound: `bothSame'_sound`) covers all shapes.
-/
namespace JSight.C10I
open JSight JSight.Build JSight.Gen

/-- the blocks of the full statement: the root is a URL or an HTTP-method directive, no declaration inside -/
def isInterBlock (t : BTree) : Bool :=
  (t.dir.kind == .URL || httpMethods.contains t.dir.kind) && C10B.plainTree t

/-- the directives allowed below an HTTP method directive (`Gen.childAllowed`), Tags apart -/
def localKind (d : BDir) : Bool :=
  d.kind == .Description || d.kind == .Query || d.kind == .Request || d.kind == .HTTPResponseCode ||
    d.kind == .Headers || d.kind == .Body || d.kind == .Path || d.kind == .Paste

mutual
  def localTree : BTree → Bool
    | .node d kids => localKind d && localForest kids
  def localForest : List BTree → Bool
    | [] => true
    | t :: r => localTree t && localForest r
end

/-- the blocks of the partial statement: an HTTP-method tree with allowed descendants only -/
def isMethodBlock (t : BTree) : Bool := httpMethods.contains t.dir.kind && localForest t.kids

mutual
  /-- no Path directive at any depth -/
  def noPathTree : BTree → Bool
    | .node d kids => d.kind != .Path && noPathForest kids
  def noPathForest : List BTree → Bool
    | [] => true
    | t :: r => noPathTree t && noPathForest r
end

/-- the same tag: name, title, declaration flag and description are equal, the id lists are permutations -/
abbrev SameTag (t t' : TagM) : Prop := BuildPermI.TagEqv t t'

/-- two catalogs are equal up to the order of the collections; corresponding tags (`SameTag`) hold the same ids
up to order.  (`uniqURL`, `similar`, `protoURLs` are bookkeeping of the run, not part of the catalog.) -/
structure SameUpToOrder' (c c' : Cat) : Prop where
  jsight : c'.jsight = c.jsight
  info : c'.info = c.info
  servers : c'.servers.Perm c.servers
  types : c'.types.Perm c.types
  inters : c'.inters.Perm c.inters
  tags : ∃ l : List TagM, l.Perm c.tags ∧ BuildPermI.Forall2 SameTag l c'.tags

/-! the definitions above are the ones of the helper files -/

theorem localKind_eq (d : BDir) : localKind d = BuildPermI.localKind d := rfl

mutual
  theorem localTree_eq : ∀ t : BTree, localTree t = BuildPerm.allT BuildPermI.localKind t
    | .node d kids => by rw [localTree, BuildPerm.allT, localForest_eq kids]; rfl
  theorem localForest_eq : ∀ ts : List BTree, localForest ts = BuildPerm.allF BuildPermI.localKind ts
    | [] => by rw [localForest, BuildPerm.allF]
    | t :: r => by rw [localForest, BuildPerm.allF, localTree_eq t, localForest_eq r]
end

theorem isMethodBlock_eq (t : BTree) : isMethodBlock t = BuildPermI.isMethodBlock t := by
  unfold isMethodBlock BuildPermI.isMethodBlock
  rw [localForest_eq]; rfl

mutual
  theorem noPathTree_eq : ∀ t : BTree, noPathTree t = BuildPerm.allT (fun d => d.kind != .Path) t
    | .node d kids => by rw [noPathTree, BuildPerm.allT, noPathForest_eq kids]
  theorem noPathForest_eq : ∀ ts : List BTree, noPathForest ts = BuildPerm.allF (fun d => d.kind != .Path) ts
    | [] => by rw [noPathForest, BuildPerm.allF]
    | t :: r => by rw [noPathForest, BuildPerm.allF, noPathTree_eq t, noPathForest_eq r]
end

mutual
  theorem plain_of_localTree : ∀ t : BTree, localTree t = true → C10B.plainTree t = true
    | .node d kids, h => by
      rw [localTree, Bool.and_eq_true] at h
      rw [C10B.plainTree, Bool.and_eq_true]
      refine ⟨?_, plain_of_localForest kids h.2⟩
      rcases BuildPermI.localKind_cases h.1 with e | e | e | e | e | e | e | e <;>
        simp [C10B.plainKind, e]
  theorem plain_of_localForest : ∀ ts : List BTree, localForest ts = true → C10B.plainForest ts = true
    | [], _ => by rw [C10B.plainForest]
    | t :: r, h => by
      rw [localForest, Bool.and_eq_true] at h
      rw [C10B.plainForest, Bool.and_eq_true]
      exact ⟨plain_of_localTree t h.1, plain_of_localForest r h.2⟩
end

/-- the blocks of the partial statement are blocks of the full one -/
theorem isInterBlock_of_method {t : BTree} (h : isMethodBlock t = true) : isInterBlock t = true := by
  cases t with
  | node d kids =>
    simp only [isMethodBlock, BTree.dir, BTree.kids, Bool.and_eq_true] at h
    simp only [isInterBlock, BTree.dir, Bool.and_eq_true, Bool.or_eq_true]
    refine ⟨Or.inr h.1, ?_⟩
    rw [C10B.plainTree, Bool.and_eq_true]
    refine ⟨?_, plain_of_localForest kids h.2⟩
    rcases BuildPermI.isHTTP_cases h.1 with e | e | e | e | e <;> simp [C10B.plainKind, e]

theorem same_of_sim {c c' : Cat} (h : BuildPermI.Sim c c') : SameUpToOrder' c c' :=
  ⟨h.jsight, h.info, by rw [h.servers], by rw [h.types], h.inters, BuildPermI.tagsPerm_of_rel _ _ h.tags⟩

/-! ### the theorems -/

/-- (1, partial) the verdict: two neighbouring method blocks in either order (JSIGHT stays first).
MISSING for the full `swap_inter_verdict`: URL-rooted blocks and a Tags child of the method.  Restated for F76: the
Path stage starts from `[]` (it was `none`); `hpaths` now always holds (`C10P.paths_swap`) -/
theorem swap_inter_verdict_partial (banned : List Kind) (pre post : List BTree) (a b : BTree)
    (ha : isMethodBlock a = true) (hb : isMethodBlock b = true) (hpre : pre ≠ [])
    (hpaths : (pathsForest [] (pre ++ a :: b :: post) []).isOk = (pathsForest [] (pre ++ b :: a :: post) []).isOk) :
    (compile banned (pre ++ a :: b :: post)).isOk = (compile banned (pre ++ b :: a :: post)).isOk := by
  rw [isMethodBlock_eq] at ha hb
  have := BuildPermI.swap_methods_rrel banned pre post a b ha hb hpre hpaths
  cases h1 : compile banned (pre ++ a :: b :: post) <;> cases h2 : compile banned (pre ++ b :: a :: post) <;>
    rw [h1, h2] at this
  · rfl
  · cases this
  · cases this
  · rfl

/-- (2, partial) the catalog: an accepted document stays accepted in the other order and the catalogs are equal
up to order.  (Both directions: exchange the roles of `a` and `b`.)  Restated for F76: `[]` for `none` in `hpaths` -/
theorem swap_inter_partial (banned : List Kind) (pre post : List BTree) (a b : BTree)
    (ha : isMethodBlock a = true) (hb : isMethodBlock b = true) (hpre : pre ≠ [])
    (hpaths : (pathsForest [] (pre ++ a :: b :: post) []).isOk = (pathsForest [] (pre ++ b :: a :: post) []).isOk)
    (c : Cat) (hc : compile banned (pre ++ a :: b :: post) = .ok c) :
    ∃ c', compile banned (pre ++ b :: a :: post) = .ok c' ∧ SameUpToOrder' c c' := by
  rw [isMethodBlock_eq] at ha hb
  obtain ⟨c', h, hs⟩ := (BuildPermI.swap_methods_rrel banned pre post a b ha hb hpre hpaths).both.1 c hc
  exact ⟨c', h, same_of_sim hs⟩

/-- blocks without Path directives: the Path stage does not see the exchange (restated for F76: `[]` for `none`) -/
theorem paths_noPath (pre post : List BTree) (a b : BTree) (ha : noPathTree a = true) (hb : noPathTree b = true) :
    pathsForest [] (pre ++ a :: b :: post) [] = pathsForest [] (pre ++ b :: a :: post) [] := by
  rw [noPathTree_eq] at ha hb
  exact BuildPermI.pathsForest_swap_noPath pre post a b ha hb []

theorem swap_inter_verdict_partial_noPath (banned : List Kind) (pre post : List BTree) (a b : BTree)
    (ha : isMethodBlock a = true) (hb : isMethodBlock b = true) (hpre : pre ≠ [])
    (hpa : noPathTree a = true) (hpb : noPathTree b = true) :
    (compile banned (pre ++ a :: b :: post)).isOk = (compile banned (pre ++ b :: a :: post)).isOk :=
  swap_inter_verdict_partial banned pre post a b ha hb hpre (by rw [paths_noPath pre post a b hpa hpb])

theorem swap_inter_partial_noPath (banned : List Kind) (pre post : List BTree) (a b : BTree)
    (ha : isMethodBlock a = true) (hb : isMethodBlock b = true) (hpre : pre ≠ [])
    (hpa : noPathTree a = true) (hpb : noPathTree b = true)
    (c : Cat) (hc : compile banned (pre ++ a :: b :: post) = .ok c) :
    ∃ c', compile banned (pre ++ b :: a :: post) = .ok c' ∧ SameUpToOrder' c c' :=
  swap_inter_partial banned pre post a b ha hb hpre (by rw [paths_noPath pre post a b hpa hpb]) c hc

/-! ### second round: Tags below a method, URL blocks -/

/-- the directives allowed below an HTTP method directive, Tags included -/
def localKindT (d : BDir) : Bool := localKind d || d.kind == .Tags

mutual
  def localTreeT : BTree → Bool
    | .node d kids => localKindT d && localForestT kids
  def localForestT : List BTree → Bool
    | [] => true
    | t :: r => localTreeT t && localForestT r
end

/-- an HTTP-method tree with allowed descendants (Tags included) -/
def isMethodBlock' (t : BTree) : Bool := httpMethods.contains t.dir.kind && localForestT t.kids

/-- the children of a URL that create no interaction: Tags, Path, Paste, Protocol -/
def quietKind (d : BDir) : Bool := d.kind == .Tags || d.kind == .Path || d.kind == .Paste || d.kind == .Protocol

/-- the directives allowed below a JSON-RPC Method directive (`Gen.childAllowed`) -/
def rpcKind (d : BDir) : Bool :=
  d.kind == .Description || d.kind == .Params || d.kind == .Result || d.kind == .Tags

mutual
  def rpcTree : BTree → Bool
    | .node d kids => rpcKind d && rpcForest kids
  def rpcForest : List BTree → Bool
    | [] => true
    | t :: r => rpcTree t && rpcForest r
end

/-- a JSON-RPC Method tree with allowed descendants -/
def isRpcMethodBlock (t : BTree) : Bool := t.dir.kind == .Method && rpcForest t.kids

mutual
  def quietTree : BTree → Bool
    | .node d kids => quietKind d && quietForest kids
  def quietForest : List BTree → Bool
    | [] => true
    | t :: r => quietTree t && quietForest r
end

/-- a child of a URL directive -/
def isUrlKid (t : BTree) : Bool := isMethodBlock' t || isRpcMethodBlock t || quietTree t

/-- a URL tree whose children are HTTP-method blocks, JSON-RPC Method blocks, Tags, Path, Paste, Protocol -/
def isUrlBlock' (t : BTree) : Bool := t.dir.kind == .URL && t.kids.all isUrlKid

/-- the blocks of the second partial statement -/
def isInterBlock' (t : BTree) : Bool := isMethodBlock' t || isUrlBlock' t

mutual
  theorem localTreeT_eq : ∀ t : BTree, localTreeT t = BuildPerm.allT BuildPermI.localKindT t
    | .node d kids => by rw [localTreeT, BuildPerm.allT, localForestT_eq kids]; rfl
  theorem localForestT_eq : ∀ ts : List BTree, localForestT ts = BuildPerm.allF BuildPermI.localKindT ts
    | [] => by rw [localForestT, BuildPerm.allF]
    | t :: r => by rw [localForestT, BuildPerm.allF, localTreeT_eq t, localForestT_eq r]
end

mutual
  theorem quietTree_eq : ∀ t : BTree, quietTree t = BuildPerm.allT BuildPermI.quietKind t
    | .node d kids => by rw [quietTree, BuildPerm.allT, quietForest_eq kids]; rfl
  theorem quietForest_eq : ∀ ts : List BTree, quietForest ts = BuildPerm.allF BuildPermI.quietKind ts
    | [] => by rw [quietForest, BuildPerm.allF]
    | t :: r => by rw [quietForest, BuildPerm.allF, quietTree_eq t, quietForest_eq r]
end

theorem isMethodBlock'_eq (t : BTree) :
    isMethodBlock' t = (isHTTP t.dir.kind && BuildPerm.allF BuildPermI.localKindT t.kids) := by
  unfold isMethodBlock'; rw [localForestT_eq]; rfl

mutual
  theorem rpcTree_eq : ∀ t : BTree, rpcTree t = BuildPerm.allT BuildPermI.rpcKind t
    | .node d kids => by rw [rpcTree, BuildPerm.allT, rpcForest_eq kids]; rfl
  theorem rpcForest_eq : ∀ ts : List BTree, rpcForest ts = BuildPerm.allF BuildPermI.rpcKind ts
    | [] => by rw [rpcForest, BuildPerm.allF]
    | t :: r => by rw [rpcForest, BuildPerm.allF, rpcTree_eq t, rpcForest_eq r]
end

theorem isUrlKid_eq (t : BTree) : isUrlKid t = BuildPermI.isKid t := by
  unfold isUrlKid BuildPermI.isKid isRpcMethodBlock
  rw [isMethodBlock'_eq, quietTree_eq, rpcForest_eq]

theorem isInterBlock'_eq (t : BTree) : isInterBlock' t = BuildPermI.isInterBlockH t := by
  unfold isInterBlock' BuildPermI.isInterBlockH isUrlBlock'
  rw [isMethodBlock'_eq]
  have : isUrlKid = BuildPermI.isKid := funext isUrlKid_eq
  rw [this]

/-- the blocks of the first round are blocks of the second one -/
theorem isInterBlock'_of_method {t : BTree} (h : isMethodBlock t = true) : isInterBlock' t = true := by
  rw [isInterBlock'_eq]
  rw [isMethodBlock_eq] at h
  unfold BuildPermI.isMethodBlock at h
  unfold BuildPermI.isInterBlockH
  rw [Bool.and_eq_true] at h
  rw [Bool.or_eq_true]; left
  rw [Bool.and_eq_true]
  exact ⟨h.1, BuildPerm.allF_mono (fun d hd => by simp [BuildPermI.localKindT, hd]) _ h.2⟩

mutual
  theorem plain_of_localTreeT : ∀ t : BTree, localTreeT t = true → C10B.plainTree t = true
    | .node d kids, h => by
      rw [localTreeT, Bool.and_eq_true] at h
      rw [C10B.plainTree, Bool.and_eq_true]
      refine ⟨?_, plain_of_localForestT kids h.2⟩
      rcases BuildPermI.localKindT_cases h.1 with e | e
      · rcases BuildPermI.localKind_cases e with e | e | e | e | e | e | e | e <;> simp [C10B.plainKind, e]
      · simp [C10B.plainKind, e]
  theorem plain_of_localForestT : ∀ ts : List BTree, localForestT ts = true → C10B.plainForest ts = true
    | [], _ => by rw [C10B.plainForest]
    | t :: r, h => by
      rw [localForestT, Bool.and_eq_true] at h
      rw [C10B.plainForest, Bool.and_eq_true]
      exact ⟨plain_of_localTreeT t h.1, plain_of_localForestT r h.2⟩
end

mutual
  theorem plain_of_quietTree : ∀ t : BTree, quietTree t = true → C10B.plainTree t = true
    | .node d kids, h => by
      rw [quietTree, Bool.and_eq_true] at h
      rw [C10B.plainTree, Bool.and_eq_true]
      refine ⟨?_, plain_of_quietForest kids h.2⟩
      have hq := h.1
      simp only [quietKind, Bool.or_eq_true, beq_iff_eq] at hq
      rcases hq with ((e | e) | e) | e <;> simp [C10B.plainKind, e]
  theorem plain_of_quietForest : ∀ ts : List BTree, quietForest ts = true → C10B.plainForest ts = true
    | [], _ => by rw [C10B.plainForest]
    | t :: r, h => by
      rw [quietForest, Bool.and_eq_true] at h
      rw [C10B.plainForest, Bool.and_eq_true]
      exact ⟨plain_of_quietTree t h.1, plain_of_quietForest r h.2⟩
end

theorem plain_of_method' {t : BTree} (h : isMethodBlock' t = true) : C10B.plainTree t = true := by
  cases t with
  | node d kids =>
    simp only [isMethodBlock', BTree.dir, BTree.kids, Bool.and_eq_true] at h
    rw [C10B.plainTree, Bool.and_eq_true]
    refine ⟨?_, plain_of_localForestT kids h.2⟩
    rcases BuildPermI.isHTTP_cases h.1 with e | e | e | e | e <;> simp [C10B.plainKind, e]

mutual
  theorem plain_of_rpcTree : ∀ t : BTree, rpcTree t = true → C10B.plainTree t = true
    | .node d kids, h => by
      rw [rpcTree, Bool.and_eq_true] at h
      rw [C10B.plainTree, Bool.and_eq_true]
      refine ⟨?_, plain_of_rpcForest kids h.2⟩
      rcases BuildPermI.rpcKind_cases h.1 with e | e | e | e <;> simp [C10B.plainKind, e]
  theorem plain_of_rpcForest : ∀ ts : List BTree, rpcForest ts = true → C10B.plainForest ts = true
    | [], _ => by rw [C10B.plainForest]
    | t :: r, h => by
      rw [rpcForest, Bool.and_eq_true] at h
      rw [C10B.plainForest, Bool.and_eq_true]
      exact ⟨plain_of_rpcTree t h.1, plain_of_rpcForest r h.2⟩
end

theorem plain_of_rpcMethod {t : BTree} (h : isRpcMethodBlock t = true) : C10B.plainTree t = true := by
  cases t with
  | node d kids =>
    simp only [isRpcMethodBlock, BTree.dir, BTree.kids, Bool.and_eq_true, beq_iff_eq] at h
    rw [C10B.plainTree, Bool.and_eq_true]
    exact ⟨by simp [C10B.plainKind, h.1], plain_of_rpcForest kids h.2⟩

theorem plain_of_urlKids : ∀ ts : List BTree, ts.all isUrlKid = true → C10B.plainForest ts = true
  | [], _ => by rw [C10B.plainForest]
  | t :: r, h => by
    simp only [List.all_cons, Bool.and_eq_true] at h
    rw [C10B.plainForest, Bool.and_eq_true]
    refine ⟨?_, plain_of_urlKids r h.2⟩
    have hk := h.1
    unfold isUrlKid at hk
    rw [Bool.or_eq_true, Bool.or_eq_true] at hk
    rcases hk with (hk | hk) | hk
    · exact plain_of_method' hk
    · exact plain_of_rpcMethod hk
    · exact plain_of_quietTree t hk

/-- the blocks of the second partial statement are blocks of the full one -/
theorem isInterBlock_of' {t : BTree} (h : isInterBlock' t = true) : isInterBlock t = true := by
  unfold isInterBlock' at h
  rw [Bool.or_eq_true] at h
  rcases h with h | h
  · have hp := plain_of_method' h
    unfold isMethodBlock' at h
    rw [Bool.and_eq_true] at h
    unfold isInterBlock
    rw [Bool.and_eq_true, Bool.or_eq_true]
    exact ⟨Or.inr h.1, hp⟩
  · cases t with
    | node d kids =>
      simp only [isUrlBlock', BTree.dir, BTree.kids, Bool.and_eq_true] at h
      simp only [isInterBlock, BTree.dir, Bool.and_eq_true, Bool.or_eq_true]
      refine ⟨Or.inl h.1, ?_⟩
      rw [C10B.plainTree, Bool.and_eq_true]
      have e : d.kind = .URL := by simpa using h.1
      exact ⟨by simp [C10B.plainKind, e], plain_of_urlKids kids h.2⟩

/-- (1', partial) the verdict: two neighbouring interaction blocks — method blocks (Tags allowed) or URL blocks with
method and JSON-RPC children — in either order: every shape `Gen.childAllowed` allows.  Restated for F76: the Path
stage starts from `[]` (it was `none`).  `hpaths` could not be dropped while the stage remembered the last Path
directive only; now it holds for every forest (`C10P.paths_swap`; `C10P.swap_inter_verdict'` is this theorem without
it), and no forest with equal identities separates the two orders (`equal_ids_rejected_in_both_orders`) -/
theorem swap_inter_verdict_partial' (banned : List Kind) (pre post : List BTree) (a b : BTree)
    (ha : isInterBlock' a = true) (hb : isInterBlock' b = true) (hpre : pre ≠ [])
    (hpaths : (pathsForest [] (pre ++ a :: b :: post) []).isOk = (pathsForest [] (pre ++ b :: a :: post) []).isOk) :
    (compile banned (pre ++ a :: b :: post)).isOk = (compile banned (pre ++ b :: a :: post)).isOk := by
  rw [isInterBlock'_eq] at ha hb
  have := BuildPermI.swap_blocks_rrel banned pre post a b ha hb hpre hpaths
  cases h1 : compile banned (pre ++ a :: b :: post) <;> cases h2 : compile banned (pre ++ b :: a :: post) <;>
    rw [h1, h2] at this
  · rfl
  · cases this
  · cases this
  · rfl

/-- (2', partial) the catalog (restated for F76: `[]` for `none` in `hpaths`; without `hpaths`: `C10P.swap_inter'`) -/
theorem swap_inter_partial' (banned : List Kind) (pre post : List BTree) (a b : BTree)
    (ha : isInterBlock' a = true) (hb : isInterBlock' b = true) (hpre : pre ≠ [])
    (hpaths : (pathsForest [] (pre ++ a :: b :: post) []).isOk = (pathsForest [] (pre ++ b :: a :: post) []).isOk)
    (c : Cat) (hc : compile banned (pre ++ a :: b :: post) = .ok c) :
    ∃ c', compile banned (pre ++ b :: a :: post) = .ok c' ∧ SameUpToOrder' c c' := by
  rw [isInterBlock'_eq] at ha hb
  obtain ⟨c', h, hs⟩ := (BuildPermI.swap_blocks_rrel banned pre post a b ha hb hpre hpaths).both.1 c hc
  exact ⟨c', h, same_of_sim hs⟩

theorem swap_inter_verdict_partial_noPath' (banned : List Kind) (pre post : List BTree) (a b : BTree)
    (ha : isInterBlock' a = true) (hb : isInterBlock' b = true) (hpre : pre ≠ [])
    (hpa : noPathTree a = true) (hpb : noPathTree b = true) :
    (compile banned (pre ++ a :: b :: post)).isOk = (compile banned (pre ++ b :: a :: post)).isOk :=
  swap_inter_verdict_partial' banned pre post a b ha hb hpre (by rw [paths_noPath pre post a b hpa hpb])

theorem swap_inter_partial_noPath' (banned : List Kind) (pre post : List BTree) (a b : BTree)
    (ha : isInterBlock' a = true) (hb : isInterBlock' b = true) (hpre : pre ≠ [])
    (hpa : noPathTree a = true) (hpb : noPathTree b = true)
    (c : Cat) (hc : compile banned (pre ++ a :: b :: post) = .ok c) :
    ∃ c', compile banned (pre ++ b :: a :: post) = .ok c' ∧ SameUpToOrder' c c' :=
  swap_inter_partial' banned pre post a b ha hb hpre (by rw [paths_noPath pre post a b hpa hpb]) c hc

/-! ### stand-alone facts used above -/

/-- the request check accepts iff every opened request has a body: order does not matter -/
theorem validateRequestBody_ok_iff (l : List InterM) :
    validateRequestBody l = .ok () ↔ ∀ x ∈ l, ∀ q, x.request = some q → q.body.isSome = true :=
  BuildPermI.validateRequestBody_ok_iff l

theorem validateResponseBody_ok_iff (l : List InterM) :
    validateResponseBody l = .ok () ↔ ∀ x ∈ l, ∀ r ∈ x.responses, r.body.isSome = true :=
  BuildPermI.validateResponseBody_ok_iff l

/-- `similar` is a finite map: `checkSimilarPaths` gives the same verdict and the same map (`MapEq`: equal
lookups) on two association lists that are the same map … -/
theorem checkSimilar_map (pp : List (Bytes × Bytes)) {m m' : List (Bytes × Bytes)} (h : BuildPermI.MapEq m m') :
    BuildPermI.ORel BuildPermI.MapEq (checkSimilar m pp) (checkSimilar m' pp) :=
  BuildPermI.checkSimilar_mapEq pp h

/-- … and for the parameters of two paths entered in either order -/
theorem checkSimilar_either_order {m : List (Bytes × Bytes)} {p q : List (Bytes × Bytes)}
    {s1 s12 : List (Bytes × Bytes)} (h1 : checkSimilar m p = some s1) (h2 : checkSimilar s1 q = some s12) :
    ∃ s2 s21, checkSimilar m q = some s2 ∧ checkSimilar s2 p = some s21 ∧ BuildPermI.MapEq s12 s21 :=
  BuildPermI.checkSimilar_comm h1 h2

/-- every directive keeps the simulation relation (lookup-equivalence of the two catalogs), over any forest -/
theorem fold_keeps_sim (banned : List Kind) (anc : List Up) (ts : List BTree) {c c' : Cat}
    (h : BuildPermI.Sim c c') :
    BuildPerm.RRel BuildPermI.Sim (addForest banned anc ts c) (addForest banned anc ts c') :=
  BuildPermI.lift_sim banned anc ts c c' h

/-! ### a checker for concrete forests (any shape of blocks) -/

def sameTagB (t t' : TagM) : Bool :=
  t'.name == t.name && t'.title == t.title && t'.declared == t.declared && t'.descr == t.descr &&
    t'.http.isPerm t.http && t'.rpc.isPerm t.rpc

theorem sameTagB_sound {t t' : TagM} (h : sameTagB t t' = true) : SameTag t t' := by
  simp only [sameTagB, Bool.and_eq_true, beq_iff_eq, List.isPerm_iff] at h
  obtain ⟨⟨⟨⟨⟨h1, h2⟩, h3⟩, h4⟩, h5⟩, h6⟩ := h
  exact ⟨h1, h2, h3, h4, h5, h6⟩

def optB (o o' : Option TagM) : Bool :=
  match o, o' with
  | some t, some t' => sameTagB t t'
  | none, none => true
  | _, _ => false

/-- unique names on both sides and, under every name, the same tag -/
def tagsB (G G' : List TagM) : Bool :=
  decide (G.map (·.name)).Nodup && decide (G'.map (·.name)).Nodup &&
    (G.map (·.name) ++ G'.map (·.name)).all fun n =>
      optB (G.find? (fun x => x.name == n)) (G'.find? (fun x => x.name == n))

theorem tagsB_sound {G G' : List TagM} (h : tagsB G G' = true) : BuildPermI.TagsRel G G' := by
  simp only [tagsB, Bool.and_eq_true, decide_eq_true_eq, List.all_eq_true] at h
  obtain ⟨⟨h1, h2⟩, h3⟩ := h
  refine ⟨h1, h2, fun n => ?_⟩
  by_cases hn : n ∈ G.map (·.name) ++ G'.map (·.name)
  · have := h3 n hn
    unfold optB at this
    split at this
    · rename_i e1 e2; rw [e1, e2]; exact sameTagB_sound this
    · rename_i e1 e2; rw [e1, e2]; trivial
    · cases this
  · rw [List.mem_append, not_or] at hn
    rw [BuildPermI.find_none_of_not_mem hn.1, BuildPermI.find_none_of_not_mem hn.2]
    trivial

/-- a decidable form of `SameUpToOrder'` -/
def sameB' (c c' : Cat) : Bool :=
  c'.jsight == c.jsight && c'.info == c.info && c'.servers.isPerm c.servers && c'.types.isPerm c.types &&
    c'.inters.isPerm c.inters && tagsB c.tags c'.tags

theorem sameB'_sound {c c' : Cat} (h : sameB' c c' = true) : SameUpToOrder' c c' := by
  simp only [sameB', Bool.and_eq_true, beq_iff_eq, List.isPerm_iff] at h
  obtain ⟨⟨⟨⟨⟨h1, h2⟩, h3⟩, h4⟩, h5⟩, h6⟩ := h
  exact ⟨h1, h2, h3, h4, h5, BuildPermI.tagsPerm_of_rel _ _ (tagsB_sound h6)⟩

/-- both orders are accepted, with catalogs equal up to order -/
def bothSame' (banned : List Kind) (f f' : List BTree) : Bool :=
  match compile banned f, compile banned f' with
  | .ok c, .ok c' => sameB' c c'
  | _, _ => false

theorem bothSame'_sound {banned : List Kind} {f f' : List BTree} (h : bothSame' banned f f' = true) :
    ∃ c c', compile banned f = .ok c ∧ compile banned f' = .ok c' ∧ SameUpToOrder' c c' := by
  unfold bothSame' at h
  split at h
  · rename_i c c' h1 h2; exact ⟨c, c', h1, h2, sameB'_sound h⟩
  · cases h

/-! ### concrete forests -/

private def s (x : String) : Bytes := x.toUTF8.toList

private def J : BTree := .node { kind := .Jsight, id := 1, src := 1, named := [("Version", s "0.3")] } []

private def resp (id : Nat) : BTree :=
  .node { kind := .HTTPResponseCode, id := id, src := id, keyword := s "200", body := some (s "1") } []

/-- GET /cats/{id} with a response -/
private def Gc : BTree := .node { kind := .Get, id := 10, src := 10, named := [("Path", s "/cats/{id}")] } [resp 11]
/-- POST /cats with a request and a response -/
private def Pc : BTree :=
  .node { kind := .Post, id := 20, src := 20, named := [("Path", s "/cats")], annot := s "new cat" }
    [.node { kind := .Request, id := 21, src := 21, body := some (s "{}") } [], resp 22]
/-- GET /dogs -/
private def Gd : BTree := .node { kind := .Get, id := 30, src := 30, named := [("Path", s "/dogs")] } [resp 31]
/-- GET /cats/{name}: "similar" to GET /cats/{id} -/
private def Gc2 : BTree := .node { kind := .Get, id := 40, src := 40, named := [("Path", s "/cats/{name}")] } [resp 41]
/-- a second GET /dogs -/
private def Gd2 : BTree := .node { kind := .Get, id := 50, src := 50, named := [("Path", s "/dogs")] } [resp 51]
/-- URL /birds with two methods and a Tags-free JSON-RPC-free body: a block outside the partial theorem -/
private def Ub : BTree :=
  .node { kind := .URL, id := 60, src := 60, named := [("Path", s "/birds")] }
    [.node { kind := .Get, id := 61, src := 61 } [resp 62], .node { kind := .Delete, id := 63, src := 63 } [resp 64]]

example : isMethodBlock Gc = true ∧ isMethodBlock Pc = true ∧ isMethodBlock Gd = true ∧ noPathTree Gc = true ∧
    noPathTree Pc = true ∧ isInterBlock Ub = true ∧ isMethodBlock Ub = false := by decide +kernel

/-- an accepted exchange: the interactions and the id list of the tag `@cats` come out in another order -/
example : bothSame' [] [J, Gc, Pc, Gd] [J, Pc, Gc, Gd] = true ∧
    ((compile [] [J, Gc, Pc, Gd]).toOption == (compile [] [J, Pc, Gc, Gd]).toOption) = false := by
  decide +kernel

/-- the same by the theorem -/
example : ∃ c c', compile [] [J, Gc, Pc, Gd] = .ok c ∧ compile [] [J, Pc, Gc, Gd] = .ok c' ∧ SameUpToOrder' c c' := by
  have h : (compile [] [J, Gc, Pc, Gd]).isOk = true := by decide +kernel
  cases hc : compile [] [J, Gc, Pc, Gd] with
  | error e => rw [hc] at h; cases h
  | ok c =>
    obtain ⟨c', h', hs⟩ := swap_inter_partial_noPath [] [J] [Gd] Gc Pc (by decide +kernel) (by decide +kernel)
      (by simp) (by decide +kernel) (by decide +kernel) c hc
    exact ⟨c, c', rfl, h', hs⟩

/-- blocks the partial theorem does not cover, by the checker: a URL block exchanged with a method block -/
example : bothSame' [] [J, Ub, Gc, Pc] [J, Gc, Ub, Pc] = true := by decide +kernel

/-- rejected in both orders: similar paths `/cats/{id}` and `/cats/{name}` (at the second of them) -/
example : C10B.bothRejected [] [J, Gc, Gc2, Gd] [J, Gc2, Gc, Gd] = true ∧
    C10B.errIs (compile [] [J, Gc, Gc2, Gd]) ⟨40, .similarPaths⟩ = true ∧
    C10B.errIs (compile [] [J, Gc2, Gc, Gd]) ⟨10, .similarPaths⟩ = true := by decide +kernel

/-- rejected in both orders: the same method on the same path -/
example : C10B.bothRejected [] [J, Gd, Gd2, Gc] [J, Gd2, Gd, Gc] = true ∧
    C10B.errIs (compile [] [J, Gd, Gd2, Gc]) ⟨50, .methodDefined⟩ = true ∧
    C10B.errIs (compile [] [J, Gd2, Gd, Gc]) ⟨30, .methodDefined⟩ = true := by decide +kernel

/-! #### second round -/

private def Tg : BTree := .node { kind := .TAG, id := 90, src := 90, named := [("TagName", s "@pets")] } []
private def tags (id : Nat) : BTree := .node { kind := .Tags, id := id, src := id, unnamed := [s "@pets"] } []
/-- GET /cats/{id} with Tags @pets -/
private def GcT : BTree :=
  .node { kind := .Get, id := 91, src := 91, named := [("Path", s "/cats/{id}")] } [tags 92, resp 93]
/-- URL /fish with URL-level Tags @pets, a GET and a POST with a request -/
private def Uf : BTree :=
  .node { kind := .URL, id := 100, src := 100, named := [("Path", s "/fish")] }
    [tags 101, .node { kind := .Get, id := 102, src := 102 } [resp 103],
     .node { kind := .Post, id := 104, src := 104 }
       [.node { kind := .Request, id := 105, src := 105, body := some (s "{}") } [], resp 106]]
/-- a second URL /birds -/
private def Ub2 : BTree :=
  .node { kind := .URL, id := 110, src := 110, named := [("Path", s "/birds")] }
    [.node { kind := .Put, id := 111, src := 111 } [resp 112]]
/-- GET /cats/{id} with Tags naming the automatic tag of POST /cats, which is not declared -/
private def GcBad : BTree :=
  .node { kind := .Get, id := 120, src := 120, named := [("Path", s "/cats/{id}")] }
    [.node { kind := .Tags, id := 121, src := 121, unnamed := [s "@cats"] } [], resp 122]

example : isInterBlock' GcT = true ∧ isInterBlock' Uf = true ∧ isInterBlock' Ub = true ∧ isInterBlock' Ub2 = true ∧
    isMethodBlock GcT = false ∧ isInterBlock' Pc = true ∧ noPathTree Uf = true ∧ noPathTree Ub = true ∧
    noPathTree GcT = true ∧ noPathTree Pc = true := by decide +kernel

/-- a method with Tags exchanged with a method with the automatic tag; two URL blocks; a URL block and a method -/
example : bothSame' [] [J, Tg, GcT, Pc, Uf] [J, Tg, Pc, GcT, Uf] = true ∧
    bothSame' [] [J, Tg, Uf, Ub, Gc] [J, Tg, Ub, Uf, Gc] = true ∧
    bothSame' [] [J, Tg, Uf, Pc] [J, Tg, Pc, Uf] = true := by decide +kernel

/-- the same by the theorem: two URL blocks -/
example : ∃ c c', compile [] [J, Tg, Uf, Ub, Gc] = .ok c ∧ compile [] [J, Tg, Ub, Uf, Gc] = .ok c' ∧
    SameUpToOrder' c c' := by
  have h : (compile [] [J, Tg, Uf, Ub, Gc]).isOk = true := by decide +kernel
  cases hc : compile [] [J, Tg, Uf, Ub, Gc] with
  | error e => rw [hc] at h; cases h
  | ok c =>
    obtain ⟨c', h', hs⟩ := swap_inter_partial_noPath' [] [J, Tg] [Gc] Uf Ub (by decide +kernel) (by decide +kernel)
      (by simp) (by decide +kernel) (by decide +kernel) c hc
    exact ⟨c, c', rfl, h', hs⟩

/-- rejected in both orders: the same URL twice; a Tags directive naming an undeclared (automatic) tag -/
example : C10B.bothRejected [] [J, Ub, Ub2] [J, Ub2, Ub] = true ∧
    C10B.errIs (compile [] [J, Ub, Ub2]) ⟨110, .nonUniqueURL⟩ = true ∧
    C10B.errIs (compile [] [J, Ub2, Ub]) ⟨60, .nonUniqueURL⟩ = true ∧
    C10B.bothRejected [] [J, Pc, GcBad] [J, GcBad, Pc] = true ∧
    C10B.errIs (compile [] [J, Pc, GcBad]) ⟨121, .tagNotFound⟩ = true ∧
    C10B.errIs (compile [] [J, GcBad, Pc]) ⟨121, .tagNotFound⟩ = true := by decide +kernel

/-! #### third round: JSON-RPC -/

private def proto (id : Nat) : BTree :=
  .node { kind := .Protocol, id := id, src := id, named := [("ProtocolName", s "json-rpc-2.0")] } []
private def rpcM (id : Nat) (name : String) : BTree :=
  .node { kind := .Method, id := id, src := id, named := [("MethodName", s name)], annot := s "a method" }
    [.node { kind := .Description, id := id + 1, src := id + 1, body := some (s "text") } [],
     .node { kind := .Params, id := id + 2, src := id + 2, body := some (s "{}") } [],
     .node { kind := .Result, id := id + 3, src := id + 3, body := some (s "1") } []]
/-- URL /api with Protocol and two methods; URL /rpc with Protocol, URL-level Tags and one method -/
private def Ra : BTree :=
  .node { kind := .URL, id := 200, src := 200, named := [("Path", s "/api")] } [proto 201, rpcM 210 "foo", rpcM 220 "bar"]
private def Rb : BTree :=
  .node { kind := .URL, id := 230, src := 230, named := [("Path", s "/rpc")] } [proto 231, tags 232, rpcM 240 "foo"]
/-- a URL with a method but no Protocol; a URL with an HTTP method and a JSON-RPC method -/
private def Rnp : BTree :=
  .node { kind := .URL, id := 250, src := 250, named := [("Path", s "/np")] } [rpcM 260 "foo"]
private def Rmix : BTree :=
  .node { kind := .URL, id := 270, src := 270, named := [("Path", s "/mix")] }
    [proto 271, .node { kind := .Get, id := 272, src := 272 } [resp 273], rpcM 280 "foo"]

example : isInterBlock' Ra = true ∧ isInterBlock' Rb = true ∧ isInterBlock' Rnp = true ∧ isInterBlock' Rmix = true ∧
    noPathTree Ra = true ∧ noPathTree Rb = true := by decide +kernel

/-- two JSON-RPC URL blocks; a JSON-RPC block and an HTTP URL block; a JSON-RPC block and a method block -/
example : bothSame' [] [J, Tg, Ra, Rb, Gc] [J, Tg, Rb, Ra, Gc] = true ∧
    bothSame' [] [J, Tg, Ra, Uf] [J, Tg, Uf, Ra] = true ∧
    bothSame' [] [J, Tg, Rb, GcT] [J, Tg, GcT, Rb] = true := by decide +kernel

/-- the same by the theorem -/
example : ∃ c c', compile [] [J, Tg, Ra, Rb, Gc] = .ok c ∧ compile [] [J, Tg, Rb, Ra, Gc] = .ok c' ∧
    SameUpToOrder' c c' := by
  have h : (compile [] [J, Tg, Ra, Rb, Gc]).isOk = true := by decide +kernel
  cases hc : compile [] [J, Tg, Ra, Rb, Gc] with
  | error e => rw [hc] at h; cases h
  | ok c =>
    obtain ⟨c', h', hs⟩ := swap_inter_partial_noPath' [] [J, Tg] [Gc] Ra Rb (by decide +kernel) (by decide +kernel)
      (by simp) (by decide +kernel) (by decide +kernel) c hc
    exact ⟨c, c', rfl, h', hs⟩

/-- rejected in both orders: a Method without Protocol; HTTP and JSON-RPC children in one URL -/
example : C10B.bothRejected [] [J, Ra, Rnp] [J, Rnp, Ra] = true ∧
    C10B.errIs (compile [] [J, Ra, Rnp]) ⟨260, .protocolMissing⟩ = true ∧
    C10B.errIs (compile [] [J, Rnp, Ra]) ⟨260, .protocolMissing⟩ = true ∧
    C10B.bothRejected [] [J, Ra, Rmix] [J, Rmix, Ra] = true ∧
    C10B.errIs (compile [] [J, Rmix, Ra]) ⟨272, .mixedUrlChildren⟩ = true := by decide +kernel

/-! #### why the hypotheses are there -/

private def pathDir (id : Nat) : BTree := .node { kind := .Path, id := id, src := id, body := some (s "{}") } []
/-- three methods with a Path directive each; the first and the third have the same IDENTITY (70) — which no forest
numbered by the decoration has (there every directive has its own number); since F44 the Path stage goes by identity,
not by coordinates, so the same method of a macro pasted twice (same `src`, different `id`) is no longer such a case -/
private def M5 : BTree := .node { kind := .Get, id := 70, src := 5, named := [("Path", s "/p/{a}")] } [pathDir 71]
private def M6 : BTree := .node { kind := .Get, id := 72, src := 6, named := [("Path", s "/q/{a}")] } [pathDir 73]
private def M5' : BTree := .node { kind := .Get, id := 70, src := 5, named := [("Path", s "/r/{a}")] } [pathDir 75]
/-- the same method of a macro pasted twice: same coordinates, its own identity -/
private def M5p : BTree := .node { kind := .Get, id := 76, src := 5, named := [("Path", s "/r/{a}")] } [pathDir 77]

/-- F76: the Path stage remembers EVERY context that already has a Path directive (it used to remember the last one
only: `5 6 5` was accepted, `5 5 6` rejected with `notUnique` at 75 — the former `path_stage_order_matters`).  Now a
forest with two directives of one identity that both have a Path child is rejected in both orders, at the same
directive; no forest separates the two orders of the Path stage any more (`C10P.paths_swap`), and `hpaths` above
always holds (`C10P.swap_inter_verdict'`, `C10P.swap_inter'`) -/
theorem equal_ids_rejected_in_both_orders :
    isMethodBlock M6 = true ∧ isMethodBlock M5' = true ∧
    C10B.errIs (compile [] [J, M5, M6, M5']) ⟨75, .notUnique⟩ = true ∧
    C10B.errIs (compile [] [J, M5, M5', M6]) ⟨75, .notUnique⟩ = true ∧
    (pathsForest [] [J, M5, M6, M5'] []).isOk = false ∧ (pathsForest [] [J, M5, M5', M6] []).isOk = false := by
  decide +kernel

/-- F44 in the model: two copies of one macro method (same coordinates) one after the other are accepted -/
theorem pasted_twice_accepted :
    (compile [] [J, M5, M5p, M6]).isOk = true ∧ (compile [] [J, M5, M6, M5p]).isOk = true := by decide +kernel

/-- a URL directive below a method, and a Query below that URL: it addresses the interaction GET /y -/
private def Alien : BTree :=
  .node { kind := .Get, id := 80, src := 80, named := [("Path", s "/x")] }
    [.node { kind := .URL, id := 81, src := 81, named := [("Path", s "/y")] }
      [.node { kind := .Query, id := 82, src := 82, body := some (s "{}") } []]]
private def Gy : BTree := .node { kind := .Get, id := 83, src := 83, named := [("Path", s "/y")] } []

/-- the model does not restrict nesting: a `plainTree` block may update an interaction of ANOTHER block, and
then the order decides the verdict.  `Gen.childAllowed` excludes such a tree (URL is not allowed below GET):
`isInterBlock` alone is too weak a hypothesis, `isMethodBlock` states the allowed shape -/
theorem alien_url_order_matters :
    isInterBlock Alien = true ∧ isInterBlock Gy = true ∧ isMethodBlock Alien = false ∧
    (compile [] [J, Gy, Alien]).isOk = true ∧
    C10B.errIs (compile [] [J, Alien, Gy]) ⟨82, .resourceNotFound⟩ = true := by decide +kernel

end JSight.C10I
