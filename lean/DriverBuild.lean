import JSight.Basic
import JSight.Model.Build
import JSight.Model.PathBind
import JSight.Model.SchemaContent
import JSight.Model.Project
import JSight.Model.Json
/-!
Line-protocol driver of the catalog-construction model (`Model/Build.lean`).

  build <banned kind indices, comma separated, or -> <tok>…
     tok = "+<kind>;<src>;<keyword hex>;<named>;<unnamed>;<annotation hex>;<body>"   opens a directive
           named = name=hex,name=hex…   unnamed = hex,hex…   body = "n" (none) | "b<hex>"
         | "-"                                                                       closes it
  → ok <skeleton>  |  err <directive id> <message class>

  buildjson <banned> <tok>… {P<id>;<prefix hex>:<name hex>,…;<prop hex>,…}      (the Path directives, as for `bind`)
  → ok <canonical text of the rendered JSON tree (`Model/Json.lean`: `Json.text (render (extraOf …) catalog)`)>
    | err <directive id> <message class>

  project <banned kind indices or -> <hex content> <oracle entries…>      (the composed model, `Model/Project.lean`)
     oracle entry:  s:<cur>:<len> | s:<cur>:e<pos> | e:<cur>:<len> | e:<cur>:e<pos>
  → ok <skeleton> | err <stage> <class> <index> [<body end>] | fault <kind> | miss <s|e> <cur> | skip include

  projectfs <banned or -> <n> {<path hex> <content hex | DIR>}×n <oracle entries <file>:<s|e>:<cur>:<len | e<pos>>…>
     the composed model of a project of several files (entry 0 is the root; paths are cleaned and relative to its directory)
  → ok <skeleton> | err <file index> <stage> <class> <index> [<body end>] | fault <kind> | miss <file> <s|e> <cur>
-/
open JSight JSight.Gen JSight.Build

def hx (s : String) : Option Bytes := if s == "-" || s.isEmpty then some [] else fromHex s

def parseNamed (s : String) : Option (List (String × Bytes)) :=
  if s.isEmpty then some []
  else (s.splitOn ",").mapM fun kv =>
    match kv.splitOn "=" with
    | [k, v] => (hx v).map fun b => (k, b)
    | _ => none

def parseUnnamed (s : String) : Option (List Bytes) :=
  if s.isEmpty then some [] else (s.splitOn ",").mapM hx

def parseDir (id : Nat) (s : String) : Option BDir :=
  match s.splitOn ";" with
  | [k, src, kw, named, unnamed, annot, body] => do
    let ki ← k.toNat?
    let kind ← Kind.all[ki]?
    let src ← src.toNat?
    let kw ← hx kw
    let named ← parseNamed named
    let unnamed ← parseUnnamed unnamed
    let annot ← hx annot
    let body ← if body == "n" then some none else (hx (body.drop 1).toString).map some
    pure { kind := kind, id := id, src := src, keyword := kw, named := named, unnamed := unnamed, annot := annot, body := body }
  | _ => none

/-- parses a forest; returns the trees, the rest of the tokens and the next id -/
partial def parseForest (id : Nat) : List String → Option (List BTree × List String × Nat)
  | [] => some ([], [], id)
  | "-" :: r => some ([], "-" :: r, id)
  | s :: r =>
    if s.startsWith "+" then do
      let d ← parseDir id (s.drop 1).toString
      let (kids, r1, id1) ← parseForest (id + 1) r
      match r1 with
      | "-" :: r2 =>
        let (sibs, r3, id2) ← parseForest id1 r2
        pure (BTree.node d kids :: sibs, r3, id2)
      | _ => none
    else none

def showMsg : Msg → String
  | .jsightFirst => "jsightFirst" | .notAllowed => "notAllowed" | .required p => "required:" ++ p
  | .unsupportedVersion => "unsupportedVersion" | .annotationForbidden => "annotationForbidden"
  | .jsightTwice => "jsightTwice" | .parametersForbidden => "parametersForbidden" | .infoTwice => "infoTwice"
  | .notUnique => "notUnique" | .emptyDescription => "emptyDescription" | .descrParens => "descrParens"
  | .wrongDescriptionContext => "wrongDescriptionContext" | .duplicateNames => "duplicateNames"
  | .serverNotFound => "serverNotFound" | .baseUrlDefined => "baseUrlDefined" | .emptyBody => "emptyBody"
  | .unknownNotation => "unknownNotation" | .pathNotFound => "pathNotFound" | .incorrectPath => "incorrectPath"
  | .emptyPathParameter => "emptyPathParameter" | .duplicatePathParameter => "duplicatePathParameter"
  | .similarPaths => "similarPaths" | .nonUniqueURL => "nonUniqueURL" | .mixedUrlChildren => "mixedUrlChildren"
  | .methodDefined => "methodDefined" | .tagNotFound => "tagNotFound" | .httpMethodNotFound => "httpMethodNotFound"
  | .resourceNotFound => "resourceNotFound" | .typeAndNotation => "typeAndNotation" | .requestEmpty => "requestEmpty"
  | .responsesEmpty => "responsesEmpty" | .incorrectRequest => "incorrectRequest" | .bodyIsEmpty => "bodyIsEmpty"
  | .userTypeWithBody => "userTypeWithBody" | .parentParameters => "parentParameters" | .protocolValue => "protocolValue"
  | .protocolNotUnique => "protocolNotUnique" | .protocolMissing => "protocolMissing"
  | .rpcMethodNotFound => "rpcMethodNotFound" | .rpcResourceNotFound => "rpcResourceNotFound"
  | .headersContext => "headersContext" | .noPathBody => "noPathBody" | .parentNotFound => "parentNotFound"
  | .emptyInfo => "emptyInfo" | .undefinedRequestBody => "undefinedRequestBody"
  | .undefinedResponseBody => "undefinedResponseBody" | .internal => "internal"

def h (b : Bytes) : String := toHexArg b
def ho : Option Bytes → String | none => "~" | some b => h b
def sep (s : String) (l : List String) : String := String.intercalate s l

def showBody : Option BodyM → String
  | none => "~"
  | some b => h b.format ++ "/" ++ h b.nota

def showResp (r : RespM) : String :=
  sep "," [h r.code, h r.annot, showBody r.body, if r.headers then "H" else "~"]

def showInter (x : InterM) : String :=
  sep "," [h x.iid.text, (match x.iid.proto with | .http => "http" | .rpc => "rpc"), h x.iid.method, h x.iid.path,
    h x.annot, ho x.descr, "[" ++ sep "+" (x.tags.map h) ++ "]",
    (match x.query with | none => "~" | some q => "Q" ++ h q.format ++ "/" ++ h q.ex),
    (match x.request with | none => "~" | some r => "R" ++ showBody r.body ++ "/" ++ (if r.headers then "H" else "~")),
    "[" ++ sep "+" (x.responses.map showResp) ++ "]",
    (if x.params then "P" else "~"), (if x.result then "S" else "~")]

def showTag (t : TagM) : String :=
  sep "," [h t.name, h t.title, ho t.descr, "[" ++ sep "+" (t.http.map h) ++ "]", "[" ++ sep "+" (t.rpc.map h) ++ "]"]

def showCat (c : Cat) : String :=
  sep " " [
    "jsight=" ++ h c.jsight,
    "info=" ++ (match c.info with | none => "~" | some i => sep "," [h i.title, h i.version, ho i.descr]),
    "servers=" ++ sep ";" (c.servers.map fun s => sep "," [h s.name, h s.annot, h s.baseUrl]),
    "types=" ++ sep ";" (c.types.map fun t => sep "," [h t.name, h t.annot, h t.nota]),
    "tags=" ++ sep ";" (c.tags.map showTag),
    "inters=" ++ sep ";" (c.inters.map showInter)]

def parsePair (x : String) : Option (Bytes × Bytes) :=
  match x.splitOn ":" with
  | [a, b] => do
    let a ← hx a
    let b ← hx b
    pure (a, b)
  | _ => none

def parsePairs (s : String) : Option (List (Bytes × Bytes)) :=
  if s.isEmpty then some [] else (s.splitOn ",").mapM parsePair

/-- "P<id>;<prefix hex>:<name hex>,…;<prop hex>,…" -/
def parsePV (s : String) : Option PathBind.RawPV :=
  match s.splitOn ";" with
  | [id, params, props] => do
    let id ← id.toNat?
    let params ← parsePairs params
    let props ← parseUnnamed props
    pure { id := id, params := params, props := props }
  | _ => none

def handleBind (toks : List String) : String :=
  let pvs := (toks.filter (·.startsWith "P")).mapM fun t => parsePV (t.drop 1).toString
  let paths := (toks.filter (·.startsWith "Q")).mapM fun t => hx (t.drop 1).toString
  match pvs, paths with
  | some pvs, some paths =>
    match PathBind.bindAll pvs [] with
    | .error (.alreadyDefined id n) => "err already " ++ toString id ++ " " ++ h n
    | .error (.unused id ns) => "err unused " ++ toString id ++ " " ++ sep "," (ns.map h)
    | .ok m => "ok " ++ sep ";" (paths.map fun p =>
        h p ++ "=" ++ sep "+" ((PathBind.variablesOf m p).map fun (n, id) => h n ++ "@" ++ toString id))
  | _, _ => "bad-op"

/-! prefix encoding of the schema library's AST:
   A <tokenType> <schemaType> <key> <value> <comment> <isKeyShortcut 0|1> <#rules> <#children>  {K <key> R…}  {A…}
   R <tokenType> <value> <comment> <generated 0|1> <#props> <#items>  {K <key> R…}  {R…} -/
mutual
  partial def parseRuleAst : List String → Option (SC.RuleAst × List String)
    | "R" :: tt :: v :: c :: g :: np :: ni :: rest => do
      let tt ← hx tt; let v ← hx v; let c ← hx c
      let np ← np.toNat?; let ni ← ni.toNat?
      let (props, r1) ← parseKeyed np rest
      let (items, r2) ← parseRules ni r1
      pure (.node tt v c props items (g == "1"), r2)
    | _ => none
  partial def parseKeyed : Nat → List String → Option (List (Bytes × SC.RuleAst) × List String)
    | 0, r => some ([], r)
    | n + 1, "K" :: k :: r => do
      let k ← hx k
      let (x, r1) ← parseRuleAst r
      let (xs, r2) ← parseKeyed n r1
      pure ((k, x) :: xs, r2)
    | _, _ => none
  partial def parseRules : Nat → List String → Option (List SC.RuleAst × List String)
    | 0, r => some ([], r)
    | n + 1, r => do
      let (x, r1) ← parseRuleAst r
      let (xs, r2) ← parseRules n r1
      pure (x :: xs, r2)
end

mutual
  partial def parseAst : List String → Option (SC.Ast × List String)
    | "A" :: tt :: st :: k :: v :: c :: ks :: nr :: nc :: rest => do
      let tt ← hx tt; let st ← hx st; let k ← hx k; let v ← hx v; let c ← hx c
      let nr ← nr.toNat?; let nc ← nc.toNat?
      let (rules, r1) ← parseKeyed nr rest
      let (kids, r2) ← parseAsts nc r1
      pure (.node tt st k v c rules kids (ks == "1"), r2)
    | _ => none
  partial def parseAsts : Nat → List String → Option (List SC.Ast × List String)
    | 0, r => some ([], r)
    | n + 1, r => do
      let (x, r1) ← parseAst r
      let (xs, r2) ← parseAsts n r1
      pure (x :: xs, r2)
end

mutual
  partial def showRuleC : SC.RuleC → String
    | .node k t sc n cs => sep " " (["r", h k, h t, h sc, h n, toString cs.length] ++ cs.map showRuleC)
end

mutual
  partial def showContent : SC.Content → String
    | .node k t ty sc n rs cs kr o =>
      sep " " (["C", (match k with | none => "~" | some k => h k), h t, h ty, h sc, h n, (if kr then "1" else "0"),
        (if o then "1" else "0"), toString rs.length, toString cs.length] ++ rs.map showRuleC ++ cs.map showContent)
end

def handleContent (toks : List String) : String :=
  match parseAst toks with
  | some (a, []) =>
    match SC.contentOf a [] with
    | .ok (c, used) => "ok " ++ showContent c ++ " | " ++ sep " " (used.map h)
    | .error (.emptyValue r) => "fault emptyValue " ++ h r
    | .error .optionalNotBool => "fault optional"
  | _ => "bad-arg"


/-! ### the composed model -/

def parseOracle (entries : List String) : Oracle :=
  let tab : List (Bool × Nat × LenAns) := entries.filterMap fun e =>
    match e.splitOn ":" with
    | [k, cur, ans] =>
      match cur.toNat? with
      | none => none
      | some c =>
        let a : Option LenAns :=
          if ans.startsWith "e" then (ans.drop 1).toString.toNat?.map LenAns.err else ans.toNat?.map LenAns.len
        a.map fun a => (k == "e", c, a)
    | _ => none
  let look (isEnum : Bool) (cur : Nat) : LenAns :=
    match tab.find? (fun (k, c, _) => k == isEnum && c == cur) with
    | some (_, _, a) => a
    | none => .miss
  { schemaLen := look false, enumLen := look true }

def faultName : Fault → String
  | .popEmpty => "popEmpty" | .indexOOR => "indexOOR" | .sliceOOR => "sliceOOR" | .nilDeref => "nilDeref"
  | .fuel => "fuel" | .libFault => "libFault" | .underflow => "underflow"

def showIncFault : Project.IncFault → String
  | .required => "required" | .badName => "badName" | .missing => "missing" | .isDirectory => "isDirectory"
  | .recursion => "recursion" | .jsightInIncluded => "jsightInIncluded"

def showProjectErr : Project.PErr → String
  | .scan i => "err scan scan " ++ toString i
  | .fault f => "fault " ++ faultName f
  | .oracleMiss e c => "miss " ++ (if e then "e" else "s") ++ " " ++ toString c
  | .includeSeen _ => "skip include"
  | .incl k i => "err include " ++ showIncFault k ++ " " ++ toString i
  | .unknownDirective i => "err assemble unknownDirective " ++ toString i
  | .notAllowed i => "err assemble notAllowed " ++ toString i
  | .jsightNotFirst i => "err assemble jsightNotFirst " ++ toString i
  | .noDirective i => "err assemble noDirective " ++ toString i
  | .param (.alreadyDefined _) i => "err assemble paramDefined " ++ toString i
  | .param .incorrect i => "err assemble paramIncorrect " ++ toString i
  | .ctx (.incorrectContext _) i => "err ctx context " ++ toString i
  | .ctx (.pathMethodInExplicit _) i => "err ctx context " ++ toString i
  | .ctx .noExplicitToClose i => "err ctx noclose " ++ toString i
  | .ctx .unclosedAtEOF i => "err ctx unclosed " ++ toString i
  | .paste (.annotation id) => "err paste annotation " ++ toString id
  | .paste (.nameMissing id) => "err paste nameMissing " ++ toString id
  | .paste (.emptyMacro id) => "err paste emptyMacro " ++ toString id
  | .paste (.duplicate id) => "err paste duplicate " ++ toString id
  | .paste (.recursion id) => "err paste recursion " ++ toString id
  | .paste (.notFound id) => "err paste inPaste " ++ toString id
  | .paste (.inPaste id) => "err paste inPaste " ++ toString id
  | .paste (.ctx (.incorrectContext id)) => "err paste context " ++ toString id
  | .paste (.ctx (.pathMethodInExplicit id)) => "err paste context " ++ toString id
  | .paste (.ctx _) => "err paste context 0"
  | .paste .fuel => "fault fuel"
  | .build e i be => "err build " ++ showMsg e.msg ++ " " ++ toString i ++ " " ++ toString be

def handleProject (banned : String) (content : String) (orc : List String) : String :=
  let bans : List Kind := if banned == "-" then [] else (banned.splitOn ",").filterMap fun s => s.toNat?.bind fun i => Kind.all[i]?
  match fromHex content with
  | none => "bad-hex"
  | some b =>
    match Project.process b (parseOracle orc) bans with
    | .ok c => "ok " ++ showCat c
    | .error e => showProjectErr e

/-! ### projects of several files -/

/-- oracle entries "<file>:<s|e>:<cur>:<len | e<pos>>" -/
def parseOracleF (entries : List String) : Nat → Oracle :=
  let tab : List (Nat × Bool × Nat × LenAns) := entries.filterMap fun e =>
    match e.splitOn ":" with
    | [f, k, cur, ans] =>
      match f.toNat?, cur.toNat? with
      | some f, some c =>
        let a : Option LenAns :=
          if ans.startsWith "e" then (ans.drop 1).toString.toNat?.map LenAns.err else ans.toNat?.map LenAns.len
        a.map fun a => (f, k == "e", c, a)
      | _, _ => none
    | _ => none
  fun f =>
    let look (isEnum : Bool) (cur : Nat) : LenAns :=
      match tab.find? (fun (g, k, c, _) => g == f && k == isEnum && c == cur) with
      | some (_, _, _, a) => a
      | none => .miss
    { schemaLen := look false, enumLen := look true }

def pasteErrId : PasteErr → Nat
  | .annotation id | .nameMissing id | .emptyMacro id | .duplicate id | .recursion id | .notFound id | .inPaste id => id
  | .ctx (.incorrectContext id) | .ctx (.pathMethodInExplicit id) => id
  | _ => 0

def pasteErrClass : PasteErr → String
  | .annotation _ => "annotation" | .nameMissing _ => "nameMissing" | .emptyMacro _ => "emptyMacro"
  | .duplicate _ => "duplicate" | .recursion _ => "recursion" | .notFound _ => "inPaste" | .inPaste _ => "inPaste"
  | .ctx _ => "context" | .fuel => "fuel"

def showFErr (n : Nat) (e : Project.FErr) : String :=
  match e.err with
  | .fault f => "fault " ++ faultName f
  | .oracleMiss en c => "miss " ++ toString e.file ++ " " ++ (if en then "e" else "s") ++ " " ++ toString c
  | .incl k i => "err " ++ toString e.file ++ " include " ++ showIncFault k ++ " " ++ toString i
  | .paste .fuel => "fault fuel"
  | .paste pe => "err " ++ toString e.file ++ " paste " ++ pasteErrClass pe ++ " " ++ toString (Project.idPos n (pasteErrId pe))
  | .build be i bodyEnd => "err " ++ toString e.file ++ " build " ++ showMsg be.msg ++ " " ++ toString (Project.idPos n i) ++ " " ++ toString bodyEnd
  | x => -- the single-file vocabulary, prefixed with the file
    match (showProjectErr x).splitOn " " with
    | "err" :: rest => "err " ++ toString e.file ++ " " ++ String.intercalate " " rest
    | _ => showProjectErr x

partial def parseFiles : Nat → List String → Option (Project.PFS × List String)
  | 0, r => some ([], r)
  | k + 1, name :: content :: r => do
    let nm ← hx name
    let c ← if content == "DIR" then some none else (hx content).map some
    let (fs, r') ← parseFiles k r
    pure ((nm, c) :: fs, r')
  | _, _ => none

def handleProjectFS (banned : String) (nfiles : String) (rest : List String) : String :=
  let bans : List Kind := if banned == "-" then [] else (banned.splitOn ",").filterMap fun s => s.toNat?.bind fun i => Kind.all[i]?
  match nfiles.toNat? with
  | none => "bad-arg"
  | some k =>
    match parseFiles k rest with
    | none => "bad-arg"
    | some (fs, orc) =>
      match Project.processFS fs (parseOracleF orc) bans with
      | .ok c => "ok " ++ showCat c
      | .error e => showFErr fs.length e

def handle (line : String) : String :=
  match (line.splitOn " ").filter (· ≠ "") with
  | "projectfs" :: banned :: nfiles :: rest => handleProjectFS banned nfiles rest
  | "project" :: banned :: content :: orc => handleProject banned content orc
  | "content" :: toks => handleContent toks
  | "bind" :: toks => handleBind toks
  | "buildjson" :: banned :: toks =>
    let bans : List Kind := if banned == "-" then [] else (banned.splitOn ",").filterMap fun s => s.toNat?.bind fun i => Kind.all[i]?
    let pvs := (toks.filter (·.startsWith "P")).mapM fun t => parsePV (t.drop 1).toString
    match parseForest 0 (toks.filter (!·.startsWith "P")), pvs with
    | some (forest, [], _), some pvs =>
      match compile bans forest with
      | .ok c => "ok " ++ (Json.render (Json.extraOf forest pvs) c).text
      | .error e => "err " ++ toString e.id ++ " " ++ showMsg e.msg
    | _, _ => "bad-op"
  | "build" :: banned :: toks =>
    let bans : List Kind := if banned == "-" then [] else (banned.splitOn ",").filterMap fun s => s.toNat?.bind fun i => Kind.all[i]?
    match parseForest 0 toks with
    | some (forest, [], _) =>
      match checkRules forest [] with
      | .error e => "err " ++ toString e.id ++ " " ++ showMsg e.msg
      | .ok _ =>
      match compile bans forest with
      | .ok c => "ok " ++ showCat c
      | .error e => "err " ++ toString e.id ++ " " ++ showMsg e.msg
    | _ => "bad-op"
  | _ => "bad-op"

partial def loop (hIn : IO.FS.Stream) (hOut : IO.FS.Stream) : IO Unit := do
  let line ← hIn.getLine
  if line.isEmpty then return ()
  let l := line.trimAscii.toString
  if l == "flush" then
    hOut.flush
  else
    hOut.putStrLn (handle l)
    hOut.flush
  loop hIn hOut

def main : IO Unit := do loop (← IO.getStdin) (← IO.getStdout)
