import JSight.Basic
