import JSight.Basic
import JSight.Model.Context
import JSight.Model.Paste
import JSight.Model.Bans
import JSight.Model.Include
import JSight.Model.IncludeBans
import JSight.Props.C05_Parens
/-!
Line-protocol driver of the context-resolution and paste-expansion models.

  resolve <tok>…     tok = <kind index>:<flags p x a>:<name nat>   |  ")"
  expand  <tok>…
  → ok <forest>  |  err <class> <id>
-/
open JSight JSight.Gen

def parseTok (idx : Nat) (s : String) : Option Tok :=
  if s == ")" then some .close
  else match s.splitOn ":" with
    | [k, fl, nm] =>
      match k.toNat?, (if nm.isEmpty then some 0 else nm.toNat?) with
      | some ki, some n =>
        match Kind.all[ki]? with
        | some kind => some (.dir { kind := kind, hasPath := fl.contains 'p', explicit := fl.contains 'x',
                                    annot := fl.contains 'a', name := n, id := idx })
        | none => none
      | _, _ => none
    | _ => none

def parseToks (ss : List String) : Option (List Tok) :=
  let rec go (i : Nat) : List String → Option (List Tok)
    | [] => some []
    | s :: r => do
      let t ← parseTok i s
      let rest ← go (i + 1) r
      pure (t :: rest)
  go 0 ss

mutual
  partial def showTree : Tree → String
    | .node d kids => "(" ++ toString d.id ++ showForest kids ++ ")"
  partial def showForest : List Tree → String
    | [] => ""
    | t :: r => " " ++ showTree t ++ showForest r
end

def showCtxErr : CtxErr → String
  | .incorrectContext id => "err context " ++ toString id
  | .pathMethodInExplicit id => "err context " ++ toString id
  | .noExplicitToClose => "err noclose"
  | .unclosedAtEOF => "err unclosed"

def showPasteErr : PasteErr → String
  | .annotation id => "err macro " ++ toString id
  | .nameMissing id => "err macro " ++ toString id
  | .emptyMacro id => "err macro " ++ toString id
  | .duplicate id => "err macro " ++ toString id
  | .recursion id => "err recursion " ++ toString id
  | .notFound id => "err paste " ++ toString id
  | .ctx e => showCtxErr e
  | .inPaste id => "err paste " ++ toString id
  | .fuel => "fault fuel"

/-- files: <id>=DIR | <id>=<ftok>,<ftok>,…   ftok = ctx token | I<file> | I<file>!   (empty file: <id>=) -/
def parseFS (files : List String) : Option FS :=
  -- files: <id>=DIR | <id>=<ftok>,<ftok>,…   ftok = ctx token | I<file> | I<file>!   (empty file: <id>=)
  let parseF (fid : Nat) (ts : List String) : Option (List FTok) :=
    let rec go (i : Nat) : List String → Option (List FTok)
      | [] => some []
      | t :: r =>
        if t.startsWith "I" then
          let body := (t.drop 1).toString
          let bad := body.endsWith "!"
          let num := if bad then (body.dropEnd 1).toString else body
          match num.toNat?, go (i + 1) r with
          | some f, some rest => some (FTok.incl f (!bad) :: rest)
          | _, _ => none
        else match parseTok (fid * 1000 + i) t, go (i + 1) r with
          | some (.dir d), some rest => some (FTok.dir d :: rest)
          | some .close, some rest => some (FTok.close :: rest)
          | _, _ => none
    go 0 ts
  files.filter (· != "") |>.foldr (fun f acc =>
    match acc, f.splitOn "=" with
    | some fs, [n, body] =>
      match n.toNat? with
      | none => none
      | some fid =>
        if body == "DIR" then some ((fid, FEntry.directory) :: fs)
        else match parseF fid ((body.splitOn ",").filter (· != "")) with
          | some ts => some ((fid, FEntry.file ts) :: fs)
          | none => none
    | _, _ => none) (some [])

def handle (line : String) : String :=
  match line.splitOn " " with
  | "resolve" :: toks =>
    match parseToks (toks.filter (· != "")) with
    | none => "bad-arg"
    | some ts => match resolve ts with
      | .ok f => "ok" ++ showForest f
      | .error e => showCtxErr e
  | "parens" :: id :: toks =>
    -- the token stream in which the directive `id` is followed by "(" and its subtree by ")":
    -- the ids of the directives in order, ")" for a closing parenthesis
    match parseToks (toks.filter (· != "")), id.toNat? with
    | some ts, some id => match resolve ts with
      | .error _ => "skip"
      | .ok f =>
        "ok " ++ String.intercalate " " ((flattenForest (C05P.markForest id f)).map fun t =>
          match t with
          | .dir d => toString d.id
          | .close => ")")
    | _, _ => "bad-arg"
  | "expand" :: toks =>
    match parseToks (toks.filter (· != "")) with
    | none => "bad-arg"
    | some ts => match resolve ts with
      | .error e => "scan-" ++ showCtxErr e
      | .ok f => match expand f with
        | .ok f' => "ok" ++ showForest f'
        | .error e => showPasteErr e
  | "resolveb" :: bans :: toks =>
    let banned : List Kind := ((bans.splitOn ",").filterMap (·.toNat?)).filterMap (Kind.all[·]?)
    match parseToks (toks.filter (· != "")) with
    | none => "bad-arg"
    | some ts => match resolveBanned banned ts with
      | .ok f => "ok" ++ showForest f
      | .error (.notAllowed id) => "err banned " ++ toString id
      | .error (.ctx e) => showCtxErr e
  | "project" :: root :: files =>
    let fsOpt := parseFS files
    match root.toNat?, fsOpt with
    | some r, some fs =>
      match scanProject fs r with
      | .error (.inc (.badName f p)) => "err inc badname " ++ toString (f * 1000 + p)
      | .error (.inc (.missing f p)) => "err inc missing " ++ toString (f * 1000 + p)
      | .error (.inc (.isDirectory f p)) => "err inc dir " ++ toString (f * 1000 + p)
      | .error (.inc (.recursion f p)) => "err inc recursion " ++ toString (f * 1000 + p)
      | .error (.inc (.jsightInIncluded f p)) => "err inc jsight " ++ toString (f * 1000 + p)
      | .error (.inc .fuel) => "fault fuel"
      | .error (.ctx e) => showCtxErr e
      | .ok (f, _) => "ok" ++ showForest f
    | _, _ => "bad-arg"
  | "projectb" :: bans :: root :: files =>
    let banned : List Kind := ((bans.splitOn ",").filterMap (·.toNat?)).filterMap (Kind.all[·]?)
    match root.toNat?, parseFS files with
    | some r, some fs =>
      match scanProjectB banned fs r with
      | .error (.notAllowed f p) => "err banned " ++ toString (f * 1000 + p)
      | .error (.inc (.badName f p)) => "err inc badname " ++ toString (f * 1000 + p)
      | .error (.inc (.missing f p)) => "err inc missing " ++ toString (f * 1000 + p)
      | .error (.inc (.isDirectory f p)) => "err inc dir " ++ toString (f * 1000 + p)
      | .error (.inc (.recursion f p)) => "err inc recursion " ++ toString (f * 1000 + p)
      | .error (.inc (.jsightInIncluded f p)) => "err inc jsight " ++ toString (f * 1000 + p)
      | .error (.inc .fuel) => "fault fuel"
      | .error (.ctx e) => showCtxErr e
      | .ok (f, _) => "ok" ++ showForest f
    | _, _ => "bad-arg"
  | ["kinds"] => String.intercalate " " (Kind.all.map Kind.name)
  | _ => "bad-op"

partial def loop (inp out : IO.FS.Stream) : IO Unit := do
  let line ← inp.getLine
  if line.isEmpty then
    out.flush
    return ()
  let l := (line.dropEndWhile (fun c => c == '\n' || c == '\r')).toString
  if l == "flush" then
    out.flush
  else
    out.putStrLn (handle l)
  loop inp out

def main : IO Unit := do
  loop (← IO.getStdin) (← IO.getStdout)
