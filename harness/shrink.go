package main

import (
	"bytes"
	"sort"
)

// Shrinking of failing inputs (delta debugging).  A violation whose oracle is self-contained — "this project makes
// the process panic with this signature", "the scanner's lexemes of this input break rule X" — carries a predicate
// over projects; when it is the violation that gets reported, the project is reduced (whole files, then runs of lines,
// then runs of bytes) while the predicate keeps holding, within a budget of evaluations.  The original input stays in
// the replay file under "original_files".

// stillFails evaluates a batch of candidate projects: true = the same violation is still there
type stillFails func(cands []Project) []bool

func cloneProject(p Project) Project {
	q := Project{Files: map[string][]byte{}, Root: p.Root, Banned: p.Banned}
	for k, v := range p.Files {
		q.Files[k] = v
	}
	return q
}

func projectSize(p Project) int {
	n := 0
	for _, v := range p.Files {
		n += len(v)
	}
	return n
}

// ddmin on one file of the project; units are its lines or its bytes
func shrinkFile(p Project, name string, byLines bool, f stillFails, budget *int) Project {
	split := func(b []byte) [][]byte {
		if byLines {
			return bytes.SplitAfter(b, []byte("\n"))
		}
		out := make([][]byte, len(b))
		for i := range b {
			out[i] = b[i : i+1]
		}
		return out
	}
	units := split(p.Files[name])
	n := 2
	for len(units) >= 2 && *budget > 0 {
		if n > len(units) {
			n = len(units)
		}
		var cands []Project
		var kept [][][]byte
		for i := 0; i < n; i++ {
			lo, hi := i*len(units)/n, (i+1)*len(units)/n
			if lo == hi {
				continue
			}
			rest := append(append([][]byte{}, units[:lo]...), units[hi:]...)
			q := cloneProject(p)
			q.Files[name] = bytes.Join(rest, nil)
			cands = append(cands, q)
			kept = append(kept, rest)
		}
		*budget -= len(cands)
		res := f(cands)
		found := -1
		for i, ok := range res {
			if ok {
				found = i
				break
			}
		}
		if found >= 0 {
			p, units = cands[found], kept[found]
			if n > 2 {
				n--
			}
			continue
		}
		if n >= len(units) {
			break
		}
		n *= 2
	}
	return p
}

// shrinkProject reduces a failing project; returns the reduced project and whether anything was removed
func shrinkProject(p Project, f stillFails, budget int) (Project, bool) {
	before := projectSize(p)
	// whole files other than the root
	var names []string
	for k := range p.Files {
		names = append(names, k)
	}
	sort.Strings(names)
	for _, k := range names {
		if k == p.Root || budget <= 0 {
			continue
		}
		q := cloneProject(p)
		delete(q.Files, k)
		budget--
		if f([]Project{q})[0] {
			p = q
		}
	}
	names = names[:0]
	for k := range p.Files {
		names = append(names, k)
	}
	sort.Strings(names)
	for pass := 0; pass < 2; pass++ {
		for _, k := range names {
			p = shrinkFile(p, k, true, f, &budget)
		}
	}
	for _, k := range names {
		if len(p.Files[k]) <= 600 {
			p = shrinkFile(p, k, false, f, &budget)
		}
	}
	return p, projectSize(p) < before
}

// shrunkInput: the input map of a reduced project, with the original kept beside it
func shrunkInput(orig map[string]any, p Project) map[string]any {
	in := projectInput(p)
	for k, v := range orig {
		switch k {
		case "files", "root", "root_text", "banned":
		default:
			in[k] = v
		}
	}
	in["original_files"] = orig["files"]
	in["shrunk"] = true
	return in
}
