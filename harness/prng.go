package main

// splitmix64: every random choice of a check derives from one state (VERIF_SEED).
type Rng struct{ s uint64 }

func NewRng(seed uint64) *Rng { return &Rng{s: seed*0x9E3779B97F4A7C15 + 0x1234567} }

func (r *Rng) Next() uint64 {
	r.s += 0x9E3779B97F4A7C15
	z := r.s
	z = (z ^ (z >> 30)) * 0xBF58476D1CE4E5B9
	z = (z ^ (z >> 27)) * 0x94D049BB133111EB
	return z ^ (z >> 31)
}

func (r *Rng) Intn(n int) int {
	if n <= 0 {
		return 0
	}
	return int(r.Next() % uint64(n))
}

func (r *Rng) Bool() bool { return r.Next()&1 == 1 }

// Chance returns true with probability num/den.
func (r *Rng) Chance(num, den int) bool { return r.Intn(den) < num }

func (r *Rng) Pick(ss []string) string { return ss[r.Intn(len(ss))] }

func (r *Rng) Bytes(alphabet []byte, n int) []byte {
	b := make([]byte, n)
	for i := range b {
		b[i] = alphabet[r.Intn(len(alphabet))]
	}
	return b
}

// Fork derives an independent generator (so that adding draws in one stream
// does not shift another).
func (r *Rng) Fork() *Rng { return &Rng{s: r.Next()} }

// Perm returns a random permutation of 0..n-1 (Fisher-Yates).
func (r *Rng) Perm(n int) []int {
	p := make([]int, n)
	for i := range p {
		p[i] = i
	}
	for i := n - 1; i > 0; i-- {
		j := r.Intn(i + 1)
		p[i], p[j] = p[j], p[i]
	}
	return p
}
