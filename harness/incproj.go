package main

import (
	"fmt"
	"os"
	"path/filepath"
	"strings"

	"github.com/jsightapi/jsight-schema-go-library/fs"

	"github.com/jsightapi/jsight-api-go-library/core"
	"github.com/jsightapi/jsight-api-go-library/directive"
)

// Token-level multi-file projects for the include model (Model/Include.lean).

type fTok struct {
	CTok
	Incl    int  // >= 0: INCLUDE of file f<Incl>.jst
	BadName bool // written with a name the validator refuses ("../f<k>.jst")
}

type tokProject struct {
	files map[int][]fTok // file id -> tokens
	dirs  map[int]bool   // ids that are directories
	root  int
}

func genTokProject(r *Rng) tokProject {
	n := 1 + r.Intn(4)
	p := tokProject{files: map[int][]fTok{}, dirs: map[int]bool{}}
	for f := 0; f < n; f++ {
		var tt []fTok
		base := plausibleCToks(r, 1+r.Intn(6), false)
		for _, t := range base {
			if f > 0 && !t.Close && directive.Enumeration(t.Kind) == directive.Jsight {
				continue
			}
			tt = append(tt, fTok{CTok: t, Incl: -1})
			if r.Chance(1, 4) {
				target := r.Intn(n + 2) // may be missing (>= n) or a directory
				tt = append(tt, fTok{Incl: target, BadName: r.Chance(1, 12)})
			}
		}
		if f > 0 && r.Chance(1, 15) {
			tt = append(tt, fTok{CTok: CTok{Kind: int(directive.Jsight)}, Incl: -1})
		}
		p.files[f] = tt
	}
	if r.Chance(1, 6) {
		p.dirs[n] = true
	}
	return p
}

func (p tokProject) proto() string {
	var parts []string
	parts = append(parts, fmt.Sprint(p.root))
	for f := 0; f < len(p.files); f++ {
		var tt []string
		for _, t := range p.files[f] {
			switch {
			case t.Incl >= 0 && t.BadName:
				tt = append(tt, fmt.Sprintf("I%d!", t.Incl))
			case t.Incl >= 0:
				tt = append(tt, fmt.Sprintf("I%d", t.Incl))
			default:
				tt = append(tt, t.CTok.Proto())
			}
		}
		parts = append(parts, fmt.Sprintf("%d=%s", f, strings.Join(tt, ",")))
	}
	for d := range p.dirs {
		parts = append(parts, fmt.Sprintf("%d=DIR", d))
	}
	return strings.Join(parts, " ")
}

// render writes the project under dir; returns per file the keyword offsets of its tokens.
func (p tokProject) render(dir string) (map[int][]int, error) {
	offsets := map[int][]int{}
	for f, tt := range p.files {
		var b strings.Builder
		var offs []int
		pos := 0
		flush := func(run []CTok) {
			if len(run) == 0 {
				return
			}
			c, oo := renderCToksAt(run, pos)
			for _, o := range oo {
				offs = append(offs, b.Len()+o)
			}
			b.Write(c)
			pos += len(run)
		}
		var run []CTok
		for _, t := range tt {
			if t.Incl < 0 {
				run = append(run, t.CTok)
				continue
			}
			flush(run)
			run = nil
			offs = append(offs, b.Len())
			name := fmt.Sprintf("f%d.jst", t.Incl)
			if t.BadName {
				name = "../" + name
			}
			b.WriteString("INCLUDE " + name + "\n")
			pos++
		}
		flush(run)
		offsets[f] = offs
		if err := os.WriteFile(filepath.Join(dir, fmt.Sprintf("f%d.jst", f)), []byte(b.String()), 0o644); err != nil {
			return nil, err
		}
	}
	for d := range p.dirs {
		_ = os.MkdirAll(filepath.Join(dir, fmt.Sprintf("f%d.jst", d)), 0o755)
	}
	return offsets, nil
}

// renderCToksAt renders tokens whose per-file positions start at `base` (names derived from the position must be
// unique across the project: the position is offset by the file-specific base the caller passes through the names).
func renderCToksAt(tt []CTok, base int) ([]byte, []int) {
	// shift the index-derived names by using distinct Name-independent numbering: renderCToks names things by
	// the token index, so render with padding tokens removed afterwards is overkill; names only need to be valid,
	// duplicates across files are a catalog matter (not seen by the scan phase)
	return renderCToks(tt)
}

func runTokProject(p tokProject, banned ...directive.Enumeration) string {
	dir, err := os.MkdirTemp(scratchBase(), "jsvinc")
	if err != nil {
		return "other: scratch"
	}
	defer os.RemoveAll(dir)
	offsets, err := p.render(dir)
	if err != nil {
		return "other: render"
	}
	idAt := func(file string, off uint) int {
		var f int
		if _, err := fmt.Sscanf(filepath.Base(file), "f%d.jst", &f); err != nil {
			return -1
		}
		for i, o := range offsets[f] {
			if uint(o) == off {
				return f*1000 + i
			}
		}
		return -1
	}
	return safely(func() string {
		rootPath := filepath.Join(dir, fmt.Sprintf("f%d.jst", p.root))
		content, _ := os.ReadFile(rootPath)
		var oo []core.Option
		if len(banned) > 0 {
			oo = append(oo, banOptions(banned)...)
		}
		c := core.NewJApiCore(fs.NewFile(rootPath, content), oo...)
		if je := c.VerifScanOnly(); je != nil {
			id := idAt(je.VerifFile(), uint(je.Index()))
			m := je.Msg
			switch {
			case strings.HasPrefix(m, "directive not allowed"):
				return fmt.Sprintf("err banned %d", id)
			case strings.Contains(m, "isn't exists"):
				return fmt.Sprintf("err inc missing %d", id)
			case strings.Contains(m, "is a directory"):
				return fmt.Sprintf("err inc dir %d", id)
			case strings.Contains(m, "recursion detected"):
				return fmt.Sprintf("err inc recursion %d", id)
			case strings.Contains(m, "not allowed in included file"):
				return fmt.Sprintf("err inc jsight %d", id)
			case strings.Contains(m, "mustn't") || strings.Contains(m, "separator for directories"):
				return fmt.Sprintf("err inc badname %d", id)
			}
			return classifyCtxErr(je, func(off uint) int { return idAt(je.VerifFile(), off) })
		}
		idOf := func(d *directive.Directive) int {
			file, b, _ := d.VerifKeywordCoords()
			return idAt(file, b)
		}
		return showGoForest(c.VerifDirectives(), idOf)
	})
}

func includeCorrespondence(ctx *Ctx, r *Rng, n int) {
	var reqs, impl []string
	for k := 0; k < n; k++ {
		p := genTokProject(r)
		got := runTokProject(p)
		if strings.HasPrefix(got, "other") {
			ctx.Cov.Hit("token project outside the model: " + firstWords(got, 4))
			continue
		}
		reqs = append(reqs, "project "+p.proto())
		impl = append(impl, got)
	}
	Corr(ctx, "multi-file scan phase (INCLUDE splice, cycle / missing / directory / JSIGHT / bad name) vs Model.Include.scanProject", "jsight-ctx", reqs, func(i int) string { return impl[i] })
}

// includeBanCorrespondence: the same projects with random sets of banned directive kinds (INCLUDE among them):
// where the project is refused, and that nothing behind a banned INCLUDE matters.
func includeBanCorrespondence(ctx *Ctx, r *Rng, n int) {
	var reqs, impl []string
	for k := 0; k < n; k++ {
		p := genTokProject(r)
		var bans []directive.Enumeration
		var bs []string
		for _, e := range []directive.Enumeration{directive.Include, directive.URL, directive.Get, directive.Type, directive.Macro, directive.Paste, directive.HTTPResponseCode, directive.Info, directive.Jsight, directive.Description} {
			if r.Chance(1, 5) {
				bans = append(bans, e)
				bs = append(bs, fmt.Sprint(int(e)))
			}
		}
		if len(bans) == 0 {
			bans = []directive.Enumeration{directive.Include}
			bs = []string{fmt.Sprint(int(directive.Include))}
		}
		got := runTokProject(p, bans...)
		if strings.HasPrefix(got, "other") {
			ctx.Cov.Hit("token project outside the model: " + firstWords(got, 4))
			continue
		}
		ctx.Cov.Hit("banned project: " + firstWords(got, 2))
		reqs = append(reqs, "projectb "+strings.Join(bs, ",")+" "+p.proto())
		impl = append(impl, got)
	}
	Corr(ctx, "multi-file scan phase with banned directive kinds vs Model.IncludeBans.scanProjectB", "jsight-ctx", reqs, func(i int) string { return impl[i] })
}
