package main

import (
	"bytes"
	"fmt"
	"sort"
	"strings"

	"github.com/jsightapi/jsight-schema-go-library/fs"

	"github.com/jsightapi/jsight-api-go-library/jerr"
)

func init() {
	props["C02"] = &propCheck{
		lean:    []string{"JSight.Props.C02", "JSight.Props.C02_Located", "JSight.Props.C08_Include"},
		exes:    []string{"jsight-model"},
		run:     runC02,
		rule:    "location arithmetic: all contents over {a,space,LF,CR} up to the length bound, every index 0..len+2, plus random longer contents (LF, CR, CRLF, mixed); non-trivial = content with >= 2 lines and index > 0; pipeline: rejected generated documents with the fault not at index 0",
		trusted: []string{"modelled, not verified: schema library bytes.TrimSpacesFromLeft (re-stated in Model/Location.lean)"},
	}
}

func implLoc(content []byte, i uint) string {
	return safely(func() string {
		je := jerr.NewJApiError("x", fs.NewFile("f", content), bytesIndex(i))
		return fmt.Sprintf("ok %d %s", je.Line(), hx([]byte(je.Quote())))
	})
}

// specLine: the line number and the quoted line of the line containing index i, by splitting.
func specLine(content []byte, i int, nl byte) (line int, lb int) {
	if len(content) == 0 {
		return 1, 0
	}
	j := i
	if j > len(content)-1 {
		j = len(content) - 1
	}
	line = 1
	lb = 0
	for k := 0; k <= j; k++ {
		if content[k] == nl && k != i {
			// a line end strictly before the position (the position itself may sit on the line end)
			if k < j || k != i {
				line++
				lb = k + 1
			}
		}
	}
	return line, lb
}

func runC02(ctx *Ctx) {
	type li struct {
		c []byte
		i uint
	}
	var cases []li
	enumStrings([]byte{'a', ' ', '\n', '\r'}, ctx.Len(6, 8), func(s []byte) {
		c := append([]byte(nil), s...)
		for i := 0; i <= len(s)+2; i++ {
			cases = append(cases, li{c, uint(i)})
		}
	})
	r := ctx.Rng.Fork()
	for k := 0; k < ctx.Budget(20000, 500000); k++ {
		n := r.Intn(40)
		var c []byte
		style := r.Intn(4)
		for len(c) < n {
			switch r.Intn(5) {
			case 0:
				switch style {
				case 0:
					c = append(c, '\n')
				case 1:
					c = append(c, '\r')
				case 2:
					c = append(c, '\r', '\n')
				default:
					c = append(c, []byte{'\n', '\r'}[r.Intn(2)])
				}
			case 1:
				c = append(c, ' ')
			default:
				c = append(c, 'a'+byte(r.Intn(3)))
			}
		}
		if r.Chance(1, 30) {
			c = append(c, bytes.Repeat([]byte{'x'}, 190+r.Intn(30))...)
		}
		cases = append(cases, li{c, uint(r.Intn(len(c) + 3))})
	}
	reqs := make([]string, len(cases))
	for k, c := range cases {
		reqs[k] = fmt.Sprintf("loc %s %d", hx(c.c), c.i)
	}
	Corr(ctx, "jerr.NewLocation vs Model.newLocation", "jsight-model", reqs, func(k int) string { return implLoc(cases[k].c, cases[k].i) })

	// search: specification (split-based reference) on the implementation
	for _, c := range cases {
		nontrivial := (bytes.IndexByte(c.c, '\n') >= 0 || bytes.IndexByte(c.c, '\r') >= 0) && c.i > 0
		key := append(append([]byte{}, c.c...), byte(c.i), 0xfe)
		ctx.Cov.Count(key, nontrivial)
		in := map[string]any{"op": "loc", "content": hx(c.c), "index": c.i}
		got := implLoc(c.c, c.i)
		if got == "fault" {
			ctx.Violate(Violation{Kind: "crash", Site: "jerr.NewLocation", What: fmt.Sprintf("NewLocation panics on content %q index %d", c.c, c.i), Input: in, Signature: "loc-panic"})
			continue
		}
		nl := jerr.DetectNewLineSymbol(c.c)
		wantLine, lb := specLine(c.c, int(c.i), nl)
		je := jerr.NewJApiError("x", fs.NewFile("f", c.c), bytesIndex(c.i))
		if int(je.Line()) != wantLine {
			ctx.Violate(Violation{Kind: "wrong-output", Site: "jerr.LineNumber", What: fmt.Sprintf("content %q index %d: line %d, the index is on line %d", c.c, c.i, je.Line(), wantLine), Input: in, Observed: je.Line(), Expected: wantLine, Signature: "loc-line"})
		}
		// quote = the line containing the index (from lb to the line end), left-trimmed, cut at 200
		end := int(c.i)
		if end > len(c.c) {
			end = len(c.c)
		}
		for end < len(c.c) && c.c[end] != nl {
			end++
		}
		if end > 0 && end <= len(c.c) && ((nl == '\n' && c.c[end-1] == '\r') || (nl == '\r' && c.c[end-1] == '\n')) && end > lb {
			end--
		}
		if end < lb {
			end = lb
		}
		q := c.c[lb:end]
		dots := ""
		if len(q) > 200 {
			q = q[:197]
			dots = "..."
		}
		tq := bytes.TrimLeft(q, " \t\r\n")
		if len(tq) == 0 {
			tq = q
		}
		want := string(tq) + dots
		if je.Quote() != want {
			ctx.Violate(Violation{Kind: "wrong-output", Site: "jerr.quote", What: fmt.Sprintf("content %q index %d: quote %q, the line of the index is %q", c.c, c.i, je.Quote(), want), Input: in, Observed: je.Quote(), Expected: want, Signature: "loc-quote"})
		}
	}
	ctx.Cov.Sample(map[string]any{"content": "ab\ncd", "index": 3, "location": implLoc([]byte("ab\ncd"), 3)})
	c02Pipeline(ctx, r)
}


// ---- pipeline diagnostics in multi-file projects: file, index, line, quote and include trace

type incEdge struct {
	parent string
	line   int // 1-based line of the INCLUDE directive in the parent
}

// includeEdges parses the files of a cut project: child file -> (including file, line of the INCLUDE)
func includeEdges(files map[string][]byte) map[string][]incEdge {
	out := map[string][]incEdge{}
	for name, content := range files {
		dir := ""
		if i := strings.LastIndex(name, "/"); i >= 0 {
			dir = name[:i]
		}
		for li, l := range strings.Split(string(content), "\n") {
			f := strings.Fields(l)
			if len(f) >= 2 && f[0] == "INCLUDE" {
				out[joinRel(dir, f[1])] = append(out[joinRel(dir, f[1])], incEdge{name, li + 1})
			}
		}
	}
	return out
}

func c02Pipeline(ctx *Ctx, r *Rng) {
	n := ctx.Budget(300, 20000)
	cases := 0
	for i := 0; i < n && len(ctx.Violations) < 12; i++ {
		m := GenModel(r)
		base, _ := m.Render(PlainStyle(), true)
		if !RunProject(SingleFile(base), false).Accepted() {
			continue
		}
		c := &cutter{r: r.Fork(), files: map[string][]byte{}}
		root := c.cutBlocks("", splitTopBlocks(string(base)), 0)
		c.files["root.jst"] = []byte(root)
		edges := includeEdges(c.files)
		// inject one fault at the end of a random file: an early (scanner) fault or a late (catalog) fault
		var names []string
		for k := range c.files {
			names = append(names, k)
		}
		sort.Strings(names)
		target := names[r.Intn(len(names))]
		late := r.Bool()
		old := string(c.files[target])
		faultLine := strings.Count(old, "\n") + 1
		var fault string
		chain := late && r.Chance(1, 2)
		pending := false
		// (not in a file that holds the CHILDREN of a directive: there BaseUrl may be a proper child — thorough-tier false
		// alarm of this generator, corrected)
		if late && !chain && !c.nested[target] && r.Chance(1, 2) {
			// a misplaced directive written directly BEFORE a top-level INCLUDE of the target file: it is still pending
			// when the INCLUDE is met; the diagnostic is about the including file and must carry ITS include chain
			ll := strings.Split(old, "\n")
			var at []int
			for k, l := range ll {
				if strings.HasPrefix(l, "INCLUDE ") {
					at = append(at, k)
				}
			}
			if len(at) > 0 {
				k := at[r.Intn(len(at))]
				nl := append(append(append([]string{}, ll[:k]...), "BaseUrl \"http://misplaced\""), ll[k:]...)
				c.files[target] = []byte(strings.Join(nl, "\n"))
				faultLine = k + 1
				pending = true
				edges = includeEdges(c.files)
				ctx.Cov.Hit("misplaced directive directly before an INCLUDE")
			}
		}
		if pending {
		} else if chain {
			// a fault INSIDE the body of a user type that is reached through a chain of usages @k0 -> @k1 -> … :
			// the types in a random declaration order, the fault (a rule the schema language does not have, or an
			// example that violates its own constraint) on a line of its own in the deepest type
			depth := 1 + r.Intn(3)
			var decls []string
			// the usages may close a cycle (the last type refers back to the first one, optionally); in a cycle the
			// faulty type is any type of it — also the one that is declared, or compiled, first
			cyclic := r.Chance(1, 2)
			faulty := depth
			if cyclic {
				faulty = r.Intn(depth + 1)
				ctx.Cov.Hit("fault inside a type of a reference cycle")
				if faulty == 0 {
					ctx.Cov.Hit("fault inside the first type of a reference cycle")
				}
			}
			for d := 0; d <= depth; d++ {
				next := ""
				if d < depth {
					next = fmt.Sprintf("\"next\": @k%d_%d", i, d+1)
				} else if cyclic {
					next = fmt.Sprintf("\"next\": @k%d_0 // {optional: true}", i)
				}
				if d != faulty {
					decls = append(decls, fmt.Sprintf("TYPE @k%d_%d\n{\n  %s\n}\n", i, d, next))
				} else {
					bad := []string{"\"id\": 1 // {type2: \"any\"}", "\"id\": 1 // {min: 5}", fmt.Sprintf("\"id\": @undeclared%d", i)}[r.Intn(3)]
					if next != "" {
						if strings.Contains(bad, " //") {
							bad = strings.Replace(bad, " //", ", //", 1)
						} else {
							bad += ","
						}
						next = "\n  " + next
					}
					decls = append(decls, fmt.Sprintf("TYPE @k%d_%d\n{\n  \"someLongPropertyName\": \"some long value, to be well past the other bodies\",\n  %s%s\n}\n", i, d, bad, next))
				}
			}
			perm := r.Perm(len(decls))
			for _, k := range perm {
				if k == faulty {
					faultLine += strings.Count(fault, "\n") + 3 // the line of the faulty property
				}
				fault += decls[k]
			}
			ctx.Cov.Hit(fmt.Sprintf("fault inside a type used through a chain of %d", depth))
		} else if late {
			fault = fmt.Sprintf("TYPE @dup%d\n{}\nTYPE @dup%d\n{}\n", i, i)
			faultLine += 2 // the second TYPE is the offending directive
		} else {
			fault = "?not a directive\n"
			faultLine = 1
		}
		endsInText := false
		if ll := strings.Split(strings.TrimRight(old, "\n"), "\n"); len(ll) > 0 {
			for k := len(ll) - 1; k >= 0; k-- {
				kw := keywordOf(ll[k])
				if kw == "Description" {
					endsInText = true
				}
				if len(kw) > 0 && (kw[0] >= 'A' && kw[0] <= 'Z') && kw != "Description" && indentOf(ll[k]) < 4 {
					break
				}
				if kw == "Description" {
					break
				}
			}
		}
		if late && !pending && (endsInText || c.nested[target]) {
			// a top-level TYPE at the end of a file that holds the CHILDREN of a directive ends that directive's
			// context: what follows the INCLUDE in the including file would be rejected first
			continue
		}
		if pending {
		} else if late {
			c.files[target] = []byte(old + fault)
		} else {
			if target == "root.jst" {
				continue
			}
			c.files[target] = []byte(fault + old)
		}
		// the line ends of each file are its own: LF, CRLF or CR (line numbers are the same in every spelling)
		for _, k := range names {
			switch r.Intn(4) {
			case 0:
				c.files[k] = bytes.ReplaceAll(c.files[k], []byte("\n"), []byte("\r\n"))
				ctx.Cov.Hit("file with CRLF line ends")
			case 1:
				c.files[k] = bytes.ReplaceAll(c.files[k], []byte("\n"), []byte("\r"))
				ctx.Cov.Hit("file with CR line ends")
			}
		}
		p := Project{Files: c.files, Root: "root.jst"}
		res := RunProject(p, false)
		cases++
		var key []byte
		for _, k := range names {
			key = append(append(key, k...), c.files[k]...)
		}
		ctx.Cov.Count(key, len(c.files) >= 2 && target != "root.jst")
		ctx.Cov.Hit(map[bool]string{true: "late fault (directive level)", false: "early fault (scanner level)"}[late])
		in := projectInput(p)
		in["op"] = "project"
		in["fault_file"] = target
		if res.Err == nil {
			if res.Panic == "" {
				ctx.Violate(Violation{Kind: "wrong-output", Site: "diagnostics", What: "a project with an injected fault is accepted", Input: in, Signature: "fault-accepted"})
			}
			continue
		}
		e := res.Err
		if e.File != target || int(e.Line) != faultLine {
			ctx.Violate(Violation{Kind: "wrong-output", Site: "diagnostics", What: fmt.Sprintf("fault injected at %s:%d is reported at %s:%d (%s)", target, faultLine, e.File, e.Line, e.Msg), Input: in,
				Observed: fmt.Sprintf("%s:%d", e.File, e.Line), Expected: fmt.Sprintf("%s:%d", target, faultLine), Signature: "fault-location"})
			continue
		}
		if int(e.Index) > len(c.files[target]) {
			ctx.Violate(Violation{Kind: "wrong-output", Site: "diagnostics", What: fmt.Sprintf("index %d beyond the end of %s (%d bytes)", e.Index, target, len(c.files[target])), Input: in, Signature: "index-out-of-file"})
		}
		// expected include trace: innermost first, each entry = (including file, line of its INCLUDE)
		var want []TraceItem
		cur := target
		okChain := true
		for cur != "root.jst" {
			ee := edges[cur]
			if len(ee) != 1 {
				okChain = false
				break
			}
			want = append(want, TraceItem{Path: ee[0].parent, Line: uint(ee[0].line)})
			cur = ee[0].parent
		}
		if !okChain {
			continue
		}
		if fmt.Sprint(e.Trace) != fmt.Sprint(want) {
			// F8: the tracer is cached per including file: a directive of a file included by the SECOND (or later)
			// INCLUDE of one file carries the line of the FIRST one
			sig := "trace-wrong"
			if len(e.Trace) == len(want) {
				cached := true
				for k := range want {
					if e.Trace[k].Path != want[k].Path {
						cached = false
					} else if e.Trace[k].Line != want[k].Line {
						// is it the line of an earlier INCLUDE in the same including file?
						earlier := false
						for _, ee := range edges {
							for _, x := range ee {
								if x.parent == want[k].Path && uint(x.line) == e.Trace[k].Line && x.line < int(want[k].Line) {
									earlier = true
								}
							}
						}
						if !earlier {
							cached = false
						}
					}
				}
				if cached && late {
					sig = "F8-trace-cached-per-includer"
				}
			}
			ctx.Violate(Violation{Kind: "wrong-output", Site: "scanner.Stack.ToDirectiveIncludeTracer", What: fmt.Sprintf("include trace %v, the files say %v (fault in %s)", e.Trace, want, target), Input: in,
				Observed: fmt.Sprint(e.Trace), Expected: fmt.Sprint(want), Signature: sig})
		}
	}
	ctx.Cov.Component("located diagnostics and include traces of injected faults in cut projects (specification on the implementation)", cases, len(ctx.Violations), "")
}
