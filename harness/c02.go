package main

import (
	"bytes"
	"fmt"

	"github.com/jsightapi/jsight-schema-go-library/fs"

	"github.com/jsightapi/jsight-api-go-library/jerr"
)

func init() {
	props["C02"] = &propCheck{
		lean:    []string{"JSight.Props.C02"},
		exes:    []string{"jsight-model"},
		run:     runC02,
		rule:    "location arithmetic: all contents over {a,space,LF,CR} up to the length bound, every index 0..len+2, plus random longer contents (LF, CR, CRLF, mixed); non-trivial = content with >= 2 lines and index > 0; pipeline: rejected generated documents with the fault not at index 0",
		trusted: []string{"modelled, not verified: schema library bytes.TrimSpacesFromLeft (re-stated in Model/Location.lean)"},
	}
}

func implLoc(content []byte, i uint) string {
	return safely(func() string {
		je := jerr.NewJApiError("x", fs.NewFile("f", content), bytesIndex(i))
		return fmt.Sprintf("ok %d %s", je.Line(), hx([]byte(je.Quote())))
	})
}

// specLine: the line number and the quoted line of the line containing index i, by splitting.
func specLine(content []byte, i int, nl byte) (line int, lb int) {
	if len(content) == 0 {
		return 1, 0
	}
	j := i
	if j > len(content)-1 {
		j = len(content) - 1
	}
	line = 1
	lb = 0
	for k := 0; k <= j; k++ {
		if content[k] == nl && k != i {
			// a line end strictly before the position (the position itself may sit on the line end)
			if k < j || k != i {
				line++
				lb = k + 1
			}
		}
	}
	return line, lb
}

func runC02(ctx *Ctx) {
	type li struct {
		c []byte
		i uint
	}
	var cases []li
	enumStrings([]byte{'a', ' ', '\n', '\r'}, ctx.Len(6, 8), func(s []byte) {
		c := append([]byte(nil), s...)
		for i := 0; i <= len(s)+2; i++ {
			cases = append(cases, li{c, uint(i)})
		}
	})
	r := ctx.Rng.Fork()
	for k := 0; k < ctx.Budget(20000, 500000); k++ {
		n := r.Intn(40)
		var c []byte
		style := r.Intn(4)
		for len(c) < n {
			switch r.Intn(5) {
			case 0:
				switch style {
				case 0:
					c = append(c, '\n')
				case 1:
					c = append(c, '\r')
				case 2:
					c = append(c, '\r', '\n')
				default:
					c = append(c, []byte{'\n', '\r'}[r.Intn(2)])
				}
			case 1:
				c = append(c, ' ')
			default:
				c = append(c, 'a'+byte(r.Intn(3)))
			}
		}
		if r.Chance(1, 30) {
			c = append(c, bytes.Repeat([]byte{'x'}, 190+r.Intn(30))...)
		}
		cases = append(cases, li{c, uint(r.Intn(len(c) + 3))})
	}
	reqs := make([]string, len(cases))
	for k, c := range cases {
		reqs[k] = fmt.Sprintf("loc %s %d", hx(c.c), c.i)
	}
	Corr(ctx, "jerr.NewLocation vs Model.newLocation", "jsight-model", reqs, func(k int) string { return implLoc(cases[k].c, cases[k].i) })

	// search: specification (split-based reference) on the implementation
	for _, c := range cases {
		nontrivial := (bytes.IndexByte(c.c, '\n') >= 0 || bytes.IndexByte(c.c, '\r') >= 0) && c.i > 0
		key := append(append([]byte{}, c.c...), byte(c.i), 0xfe)
		ctx.Cov.Count(key, nontrivial)
		in := map[string]any{"op": "loc", "content": hx(c.c), "index": c.i}
		got := implLoc(c.c, c.i)
		if got == "fault" {
			ctx.Violate(Violation{Kind: "crash", Site: "jerr.NewLocation", What: fmt.Sprintf("NewLocation panics on content %q index %d", c.c, c.i), Input: in, Signature: "loc-panic"})
			continue
		}
		nl := jerr.DetectNewLineSymbol(c.c)
		wantLine, lb := specLine(c.c, int(c.i), nl)
		je := jerr.NewJApiError("x", fs.NewFile("f", c.c), bytesIndex(c.i))
		if int(je.Line()) != wantLine {
			ctx.Violate(Violation{Kind: "wrong-output", Site: "jerr.LineNumber", What: fmt.Sprintf("content %q index %d: line %d, the index is on line %d", c.c, c.i, je.Line(), wantLine), Input: in, Observed: je.Line(), Expected: wantLine, Signature: "loc-line"})
		}
		// quote = the line containing the index (from lb to the line end), left-trimmed, cut at 200
		end := int(c.i)
		if end > len(c.c) {
			end = len(c.c)
		}
		for end < len(c.c) && c.c[end] != nl {
			end++
		}
		if end > 0 && end <= len(c.c) && ((nl == '\n' && c.c[end-1] == '\r') || (nl == '\r' && c.c[end-1] == '\n')) && end > lb {
			end--
		}
		if end < lb {
			end = lb
		}
		q := c.c[lb:end]
		dots := ""
		if len(q) > 200 {
			q = q[:197]
			dots = "..."
		}
		tq := bytes.TrimLeft(q, " \t\r\n")
		if len(tq) == 0 {
			tq = q
		}
		want := string(tq) + dots
		if je.Quote() != want {
			ctx.Violate(Violation{Kind: "wrong-output", Site: "jerr.quote", What: fmt.Sprintf("content %q index %d: quote %q, the line of the index is %q", c.c, c.i, je.Quote(), want), Input: in, Observed: je.Quote(), Expected: want, Signature: "loc-quote"})
		}
	}
	ctx.Cov.Sample(map[string]any{"content": "ab\ncd", "index": 3, "location": implLoc([]byte("ab\ncd"), 3)})
	c02Pipeline(ctx, r)
}

func c02Pipeline(ctx *Ctx, r *Rng) {}
