package main

import (
	"bufio"
	"crypto/sha256"
	"encoding/hex"
	"encoding/json"
	"fmt"
	"os"
	"os/exec"
	"path/filepath"
	"strings"
	"time"

	"github.com/jsightapi/jsight-api-go-library/directive"
)

// Worker: the real library in a child process (a fatal error — stack overflow, out of memory — or a hang
// cannot be recovered in-process). One JSON request per line, one JSON response per line.

type WorkReq struct {
	Files  map[string]string `json:"files"` // name -> hex
	Root   string            `json:"root"`
	Banned []int             `json:"banned,omitempty"`
	Ctx    string            `json:"ctx,omitempty"` // context-level token sequence (protocol syntax): run scan + paste phases only
}

type WorkResp struct {
	Verdict  string   `json:"verdict"`
	Panic    string   `json:"panic,omitempty"`
	Stack    string   `json:"stack,omitempty"`
	Err      *ErrInfo `json:"err,omitempty"`
	JSONSum  string   `json:"json_sum,omitempty"`
	JSONLen  int      `json:"json_len,omitempty"`
	CtxScan  string   `json:"ctx_scan,omitempty"`
	CtxPaste string   `json:"ctx_paste,omitempty"`
	CtxOther bool     `json:"ctx_other,omitempty"`
	LibFault string   `json:"lib_fault,omitempty"`
}

func reqOf(p Project) WorkReq {
	if p.Root == "\x00ctx" {
		return WorkReq{Ctx: string(p.Files["ctx"])}
	}
	r := WorkReq{Files: map[string]string{}, Root: p.Root}
	for k, v := range p.Files {
		r.Files[k] = hex.EncodeToString(v)
	}
	for _, b := range p.Banned {
		r.Banned = append(r.Banned, int(b))
	}
	return r
}

func projectOf(r WorkReq) Project {
	p := Project{Files: map[string][]byte{}, Root: r.Root}
	for k, v := range r.Files {
		b, _ := hex.DecodeString(v)
		p.Files[k] = b
	}
	for _, b := range r.Banned {
		p.Banned = append(p.Banned, directive.Enumeration(b))
	}
	return p
}

func respOf(res RunResult) WorkResp {
	w := WorkResp{Verdict: res.Verdict(), Panic: res.Panic, Err: res.Err}
	if res.Panic != "" {
		w.Stack = trunc(res.Stack, 3000)
	}
	if res.JSON != nil {
		h := sha256.Sum256(res.JSON)
		w.JSONSum = hex.EncodeToString(h[:8])
		w.JSONLen = len(res.JSON)
	}
	return w
}

func workerMain() {
	in := bufio.NewReaderSize(os.Stdin, 1<<22)
	out := bufio.NewWriter(os.Stdout)
	for {
		line, err := in.ReadString('\n')
		if len(line) > 0 {
			var req WorkReq
			if json.Unmarshal([]byte(line), &req) == nil {
				var b []byte
				if req.Ctx != "" {
					cr := runCtx(parseCToks(req.Ctx))
					b, _ = json.Marshal(WorkResp{Verdict: "ctx", Panic: cr.Panic, CtxScan: cr.Scan, CtxPaste: cr.Paste, CtxOther: cr.Other})
				} else {
					res := RunProject(projectOf(req), false)
					b, _ = json.Marshal(respOf(res))
				}
				out.Write(b)
				out.WriteByte('\n')
				out.Flush()
			}
		}
		if err != nil {
			return
		}
	}
}

// workerExe overrides the worker binary (the tracing build).
var workerExe string

// TraceLibFault re-runs one project with the tracing build (library handler re-raises runtime faults)
// and returns the top frames: (frame in /repo, frame in the schema library).
func TraceLibFault(p Project) (string, string, string) {
	tr := filepath.Join(verifDir(), "bin", "jsv-trace")
	if _, err := os.Stat(tr); err != nil {
		return "", "", ""
	}
	old := workerExe
	workerExe = tr
	defer func() { workerExe = old }()
	out := make([]WorkerResult, 1)
	runBatch([]Project{p}, out, 10*time.Second)
	if out[0].Resp == nil || out[0].Resp.Panic == "" {
		return "", "", ""
	}
	repo, lib := topFrames(out[0].Resp.Stack)
	return repo, lib, out[0].Resp.Stack
}

// WorkerResult of one project run in a child process.
type WorkerResult struct {
	Resp    *WorkResp
	Crashed string // non-empty: the process died (fatal error / signal) or timed out; holds the reason + stderr tail
}

// RunInWorkers runs the projects in child processes (batches; a batch whose process dies is re-run one
// by one to find the culprit).
func RunInWorkers(projects []Project, perDoc time.Duration) []WorkerResult {
	out := make([]WorkerResult, len(projects))
	const batch = 200
	type job struct{ lo, hi int }
	var jobs []job
	for lo := 0; lo < len(projects); lo += batch {
		hi := lo + batch
		if hi > len(projects) {
			hi = len(projects)
		}
		jobs = append(jobs, job{lo, hi})
	}
	parallelFor(len(jobs), func(j int) {
		lo, hi := jobs[j].lo, jobs[j].hi
		if !runBatch(projects[lo:hi], out[lo:hi], perDoc*time.Duration(hi-lo)+5*time.Second) {
			for i := lo; i < hi; i++ {
				if out[i].Resp == nil {
					runBatch(projects[i:i+1], out[i:i+1], perDoc+3*time.Second)
					if out[i].Resp == nil && out[i].Crashed == "" {
						out[i].Crashed = "no response"
					}
				}
			}
		}
	})
	return out
}

// runBatch returns false if the process died or timed out before answering everything.
func runBatch(projects []Project, out []WorkerResult, limit time.Duration) bool {
	exe, _ := os.Executable()
	if workerExe != "" {
		exe = workerExe
	}
	cmd := exec.Command(exe, "worker")
	cmd.Env = append(os.Environ(), "GOMEMLIMIT=2GiB", "GOMAXPROCS=2")
	if workerExe != "" {
		cmd.Env = append(cmd.Env, "JSV_TRACE=1")
	}
	stdin, _ := cmd.StdinPipe()
	stdout, _ := cmd.StdoutPipe()
	var stderr strings.Builder
	cmd.Stderr = &limitedWriter{b: &stderr, n: 6000}
	if err := cmd.Start(); err != nil {
		return false
	}
	done := make(chan int, 1)
	go func() {
		w := bufio.NewWriter(stdin)
		for _, p := range projects {
			b, _ := json.Marshal(reqOf(p))
			w.Write(b)
			w.WriteByte('\n')
		}
		w.Flush()
		stdin.Close()
	}()
	go func() {
		sc := bufio.NewReaderSize(stdout, 1<<20)
		n := 0
		for n < len(projects) {
			line, err := sc.ReadString('\n')
			if len(line) > 1 {
				var r WorkResp
				if json.Unmarshal([]byte(line), &r) == nil {
					out[n].Resp = &r
					n++
				}
			}
			if err != nil {
				break
			}
		}
		done <- n
	}()
	var n int
	timedOut := false
	select {
	case n = <-done:
	case <-time.After(limit):
		timedOut = true
		_ = cmd.Process.Kill()
		n = <-done
	}
	err := cmd.Wait()
	if n == len(projects) {
		return true
	}
	// the first unanswered project is the one the process died on (when run alone)
	if len(projects) == 1 {
		reason := "process exited"
		if timedOut {
			reason = fmt.Sprintf("timeout after %s", limit)
		} else if err != nil {
			reason = err.Error()
		}
		out[0].Crashed = reason + "; stderr: " + trunc(firstLines(stderr.String(), 12), 1500)
	}
	return false
}

type limitedWriter struct {
	b *strings.Builder
	n int
}

func (l *limitedWriter) Write(p []byte) (int, error) {
	if l.b.Len() < l.n {
		l.b.Write(p)
	}
	return len(p), nil
}

func firstLines(s string, n int) string {
	ll := strings.Split(s, "\n")
	if len(ll) > n {
		ll = ll[:n]
	}
	return strings.Join(ll, "\n")
}

// RunCtxInWorkers runs the scan and paste phases of token sequences in child processes (a macro cycle
// that is not rejected is a fatal stack overflow).
func RunCtxInWorkers(seqs [][]CTok) []ctxRun {
	pp := make([]Project, len(seqs))
	for i, s := range seqs {
		pp[i] = Project{Files: map[string][]byte{"ctx": []byte(ctoksProto(s))}, Root: "\x00ctx"}
	}
	res := RunInWorkers(pp, 2*time.Second)
	out := make([]ctxRun, len(seqs))
	for i, r := range res {
		switch {
		case r.Resp == nil:
			out[i] = ctxRun{Panic: "process died or timed out: " + trunc(r.Crashed, 400)}
		default:
			out[i] = ctxRun{Scan: r.Resp.CtxScan, Paste: r.Resp.CtxPaste, Other: r.Resp.CtxOther, Panic: r.Resp.Panic}
		}
	}
	return out
}
