package main

func workerMain() {}
