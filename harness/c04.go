package main

import (
	"bytes"
	"os"
	"fmt"
	"strings"

	"github.com/jsightapi/jsight-api-go-library/catalog"
)

func init() {
	props["C04"] = &propCheck{
		lean: []string{"JSight.Props.C04", "JSight.Props.C04_Pipeline", "JSight.Props.C04_Build", "JSight.Props.C04_Content", "JSight.Props.C04_Schema", "JSight.Props.C04_Bridge", "JSight.Props.C01_Project", "JSight.Props.C17_Param", "JSight.Props.C06"},
		exes: []string{"jsight-build"},
		run:  runC04,
		rule: "generated abstract API models (info, servers, user types with references, enums, tags, URL blocks with HTTP or JSON-RPC methods, path-bearing methods; all four notations, type references and arrays of references) rendered in a plain and in a random surface style; non-trivial = accepted document with >= 2 interactions and >= 1 cross-reference; distinct = distinct rendered bytes",
		assume: []string{
			"schema content, examples and enum values inside each body are produced by the schema library (oracle); the skeleton compared here carries notation, format, used types and enums",
		},
		trusted: []string{"the harness-side renderer of abstract models (its output is what the implementation is run on) and the expected-catalog function Expected() — the specification of C04"},
	}
}

var orderedCollections = []string{"tags", "servers", "userTypes", "userEnums", "interactions"}

// compareCatalog compares an actual catalog JSON with the expected skeleton: content (key order inside
// records immaterial) and the source order of the five ordered collections.
func compareCatalog(actual []byte, want *OVal, graph map[string][]string) string {
	v, dups, err := ParseOJSON(actual)
	if err != nil {
		return "catalog JSON does not parse: " + err.Error()
	}
	if len(dups) > 0 {
		return "duplicate keys in the catalog JSON: " + strings.Join(dups, ", ")
	}
	got := Skeleton(v)
	closeUsedTypes(got, graph)
	closeUsedTypes(want, graph)
	for _, c := range orderedCollections {
		gk, wk := got.Get(c).Keys(), want.Get(c).Keys()
		if strings.Join(gk, "\x00") != strings.Join(wk, "\x00") {
			return fmt.Sprintf("%s: entries %q, declared (in source order) %q", c, gk, wk)
		}
	}
	g, w := got.Canon(true), want.Canon(true)
	if g != w {
		// find the first differing top-level entry for the message
		for _, c := range append([]string{"info", "jsight"}, orderedCollections...) {
			gc, wc := got.Get(c), want.Get(c)
			if gc.Canon(true) == wc.Canon(true) {
				continue
			}
			if gc != nil && wc != nil && gc.Kind == OObj && wc.Kind == OObj {
				for _, kv := range wc.Obj {
					if x := gc.Get(kv.K); x.Canon(true) != kv.V.Canon(true) {
						return fmt.Sprintf("%s[%s]: catalog has %s, the document declares %s", c, kv.K, x.Canon(true), kv.V.Canon(true))
					}
				}
			}
			return fmt.Sprintf("%s: catalog has %s, the document declares %s", c, trunc(gc.Canon(true), 400), trunc(wc.Canon(true), 400))
		}
		return "catalogs differ"
	}
	return ""
}

func modelNontrivial(m *ApiModel) bool {
	n, refs := 0, 0
	cnt := func(s *SchemaM) {
		if s != nil && (len(s.usedTypes()) > 0 || len(s.Enums) > 0) {
			refs++
		}
	}
	for i := range m.Blocks {
		b := &m.Blocks[i]
		switch b.Kind {
		case "method":
			n++
			cnt(b.Method.Request)
			for k := range b.Method.Responses {
				cnt(b.Method.Responses[k].Body)
			}
		case "url":
			n += len(b.Methods) + len(b.Rpc)
			for k := range b.Methods {
				cnt(b.Methods[k].Request)
				for j := range b.Methods[k].Responses {
					cnt(b.Methods[k].Responses[j].Body)
				}
			}
			for k := range b.Rpc {
				cnt(b.Rpc[k].Params)
				cnt(b.Rpc[k].Result)
			}
		case "type":
			cnt(b.Schema)
		}
	}
	return n >= 2 && refs >= 1
}

func runC04(ctx *Ctx) {
	r := ctx.Rng.Fork()
	buildCorrSuite(ctx, r.Fork(), ctx.Budget(600, 40000))
	projectCorrSuite(ctx, r.Fork(), ctx.Budget(1500, 100000))
	{
		rr := r.Fork()
		var docs [][]byte
		for i := 0; i < ctx.Budget(150, 10000); i++ {
			d, _ := GenModel(rr).Render(RandomStyle(rr.Fork()), true)
			docs = append(docs, d)
		}
		for _, f := range fixtureFiles() {
			if strings.Contains(f, "include") {
				continue
			}
			if b, err := os.ReadFile(f); err == nil && len(b) < 12000 {
				docs = append(docs, b)
			}
		}
		contentCorrespondence(ctx, docs, "generated documents and the fixture files")
	}
	c04TemplateFiles(ctx, r.Fork())
	c04MacroChildren(ctx, r.Fork())
	n := ctx.Budget(1500, 100000)
	rejected := 0
	for i := 0; i < n; i++ {
		m := GenModel(r)
		want := m.Expected(catalog.VerifTagName)
		for pass := 0; pass < 2; pass++ {
			st := PlainStyle()
			if pass == 1 {
				st = RandomStyle(r.Fork())
			}
			content, _ := m.Render(st, true)
			res := RunProject(SingleFile(content), false)
			ctx.Cov.Count(content, modelNontrivial(m) && res.Accepted())
			in := projectInput(SingleFile(content))
			in["op"] = "doc"
			if i < 2 && pass == 0 {
				ctx.Cov.Sample(map[string]any{"document": string(content), "verdict": res.Verdict()})
			}
			if !res.Accepted() {
				rejected++
				ctx.Cov.Hit("rejected: " + firstWords(res.Verdict(), 5))
				ctx.Violate(Violation{Kind: "wrong-output", Site: "pipeline", What: "a well-formed generated document is not accepted: " + res.Verdict(),
					Input: in, Observed: res.Verdict(), Expected: "accepted", Signature: "doc-rejected"})
				continue
			}
			ctx.Cov.Hit(fmt.Sprintf("accepted (style %d)", pass))
			if msg := compareCatalog(res.JSON, want, m.allOfGraph()); msg != "" {
				ctx.Violate(Violation{Kind: "wrong-output", Site: "pipeline", What: "catalog differs from what the document declares: " + msg,
					Input: in, Observed: trunc(string(res.JSON), 2000), Signature: "doc-catalog:" + firstWords(msg, 1)})
			}
		}
		if len(ctx.Violations) >= 20 {
			break
		}
	}
	ctx.Cov.Component("catalog of generated documents vs Expected(model) (specification on the implementation)", ctx.Cov.Evaluations, len(ctx.Violations), fmt.Sprintf("%d rejected", rejected))
}


// c04TemplateFiles: projects whose files are written from ONE template (same layout, names of the same length), so that
// directives of different files have the same byte offsets: every interaction must carry the Params / Result / Query /
// Headers / Path schema its own file declares, and the catalog must equal that of the same text in a single file.
func c04TemplateFiles(ctx *Ctx, r *Rng) {
	n := ctx.Budget(60, 3000)
	cases := 0
	var tmplProjects []Project
	defer func() {
		projectFSCorrespondence(ctx, tmplProjects, "projects of files written from one template")
	}()
	for it := 0; it < n && len(ctx.Violations) < 10; it++ {
		k := 2 + r.Intn(3)
		parts := r.Intn(31) + 1 // which sections the template has
		tmpl := func(i int) string {
			var b strings.Builder
			if parts&1 != 0 {
				fmt.Fprintf(&b, "URL /r%d\n  Protocol json-rpc-2.0\n  Method m%d\n    Params\n    {\"p%d\": %d}\n    Result\n    {\"q%d\": %d}\n", i, i, i, i, i, i)
			}
			fmt.Fprintf(&b, "GET /g%d/{v%d}\n", i, i)
			if parts&2 != 0 {
				fmt.Fprintf(&b, "  Path\n  {\"v%d\": %d}\n", i, i)
			}
			if parts&4 != 0 {
				fmt.Fprintf(&b, "  Query\n  {\"u%d\": %d}\n", i, i)
			}
			if parts&8 != 0 {
				fmt.Fprintf(&b, "  Request\n    Headers\n    {\"h%d\": %d}\n    Body any\n", i, i)
			}
			fmt.Fprintf(&b, "  200\n")
			if parts&16 != 0 {
				fmt.Fprintf(&b, "    Headers\n    {\"w%d\": %d}\n", i, i)
			}
			fmt.Fprintf(&b, "    Body\n    {\"b%d\": %d}\n", i, i)
			return b.String()
		}
		head := "JSIGHT 0.3\n"
		pad := "# 23456789\n" // a comment line of the length of the JSIGHT line
		if r.Chance(1, 4) {
			pad = "# c\n" // control: different offsets
		}
		files := map[string][]byte{}
		root := head + tmpl(0)
		single := head + tmpl(0)
		for i := 1; i < k; i++ {
			name := fmt.Sprintf("f%d.jst", i)
			files[name] = []byte(pad + tmpl(i))
			root += "INCLUDE " + name + "\n"
			single += pad + tmpl(i)
		}
		files["root.jst"] = []byte(root)
		p := Project{Files: files, Root: "root.jst"}
		tmplProjects = append(tmplProjects, p)
		res := RunProject(p, false)
		one := RunProject(SingleFile([]byte(single)), false)
		cases++
		ctx.Cov.Count([]byte(root+string(files["f1.jst"])), true)
		ctx.Cov.Hit("template project")
		in := projectInput(p)
		in["op"] = "project"
		if res.Panic != "" || one.Panic != "" {
			continue
		}
		if !res.Accepted() || !one.Accepted() {
			ctx.Violate(Violation{Kind: "wrong-output", Site: "pipeline", What: "a well-formed project of template files is not accepted: " + res.Verdict() + " / as one file: " + one.Verdict(), Input: in, Signature: "template-rejected"})
			continue
		}
		if !bytes.Equal(res.JSON, one.JSON) {
			ctx.Violate(Violation{Kind: "wrong-output", Site: "pipeline", What: "the catalog of a project of template files differs from the catalog of the same text in one file: " + firstDiff(res.JSON, one.JSON),
				Input: in, Observed: trunc(string(res.JSON), 1500), Expected: trunc(string(one.JSON), 1500), Signature: "template-catalog"})
			continue
		}
		// every interaction carries the property names of its own file
		doc, _, err := ParseOJSON(res.JSON)
		if err != nil {
			continue
		}
		js := string(res.JSON)
		for i := 0; i < k; i++ {
			get := doc.Path("interactions", fmt.Sprintf("http GET /g%d/{v%d}", i, i))
			want := []string{fmt.Sprintf("\"b%d\"", i)}
			if parts&4 != 0 {
				want = append(want, fmt.Sprintf("\"u%d\"", i))
			}
			if parts&8 != 0 {
				want = append(want, fmt.Sprintf("\"h%d\"", i))
			}
			if parts&16 != 0 {
				want = append(want, fmt.Sprintf("\"w%d\"", i))
			}
			if parts&2 != 0 {
				want = append(want, fmt.Sprintf("\"v%d\"", i))
			}
			gs := get.Canon(false)
			for _, w := range want {
				if !strings.Contains(gs, w) {
					ctx.Violate(Violation{Kind: "wrong-output", Site: "pipeline", What: fmt.Sprintf("interaction GET /g%d/{v%d} does not carry the property %s its file declares", i, i, w), Input: in, Observed: trunc(gs, 1200), Signature: "template-content"})
				}
			}
			if parts&1 != 0 {
				ms := doc.Path("interactions", fmt.Sprintf("json-rpc-2.0 m%d /r%d", i, i)).Canon(false)
				for _, w := range []string{fmt.Sprintf("\"p%d\"", i), fmt.Sprintf("\"q%d\"", i)} {
					if !strings.Contains(ms, w) {
						ctx.Violate(Violation{Kind: "wrong-output", Site: "pipeline", What: fmt.Sprintf("JSON-RPC method m%d does not carry the property %s its file declares", i, w), Input: in, Observed: trunc(ms, 1200), Signature: "template-content"})
					}
				}
			}
		}
		_ = js
	}
	ctx.Cov.Component("projects of files written from one template (same byte offsets in different files): catalog = catalog of the one-file text, every interaction carries its own file's schemas", cases, len(ctx.Violations), "")
}

// c04MacroChildren: macros whose bodies are CHILDREN of a method — responses with the body in place, responses with
// Body / Headers children, a Request, a Query — pasted once, twice or three times into one method, directly and
// through another macro: the catalog is the catalog of the document with every PASTE written out by hand (the
// copies of a macro's directives keep the coordinates of the macro's text; nothing may depend on them).
func c04MacroChildren(ctx *Ctx, r *Rng) {
	pieces := []string{
		"404 @error // Not found.\n", "404\n  Body @error\n", "404\n  Headers\n  {\"h\": 1}\n  Body any\n", "500 any\n", "401\n  Body\n  {\"m\": 1}\n",
		"404\n  Headers\n  {\"h\": 2}\n", "200 @error\n",
	}
	singles := []string{"Query\n{\"q\": 1}\n", "Request\n  Body any\n", "Description\n(\n  text\n)\n"}
	indent := func(s, ind string) string {
		var b strings.Builder
		for _, l := range strings.SplitAfter(s, "\n") {
			if l != "" {
				b.WriteString(ind + l)
			}
		}
		return b.String()
	}
	n := ctx.Budget(200, 8000)
	cases, twice := 0, 0
	for i := 0; i < n && len(ctx.Violations) < 10; i++ {
		nm := 1 + r.Intn(3)
		// macro k: a list of items, an item is a piece or the paste of a macro with a smaller number
		type item struct {
			text  string
			paste int
		}
		macros := make([][]item, nm)
		for k := range macros {
			for j := 0; j < 1+r.Intn(2); j++ {
				if k > 0 && r.Chance(1, 3) {
					macros[k] = append(macros[k], item{paste: r.Intn(k) + 1})
				} else if r.Chance(1, 8) {
					macros[k] = append(macros[k], item{text: singles[r.Intn(len(singles))]})
				} else {
					macros[k] = append(macros[k], item{text: pieces[r.Intn(len(pieces))]})
				}
			}
		}
		var expand func(k int) string
		expand = func(k int) string {
			var b strings.Builder
			for _, it := range macros[k] {
				if it.paste > 0 {
					b.WriteString(expand(it.paste - 1))
				} else {
					b.WriteString(it.text)
				}
			}
			return b.String()
		}
		var docM, docI strings.Builder
		head := "JSIGHT 0.3\nTYPE @error\n{\"message\": \"abc\"}\n"
		docM.WriteString(head)
		docI.WriteString(head)
		maxSame := 0
		for mi, meth := range []string{"DELETE /cats/{id}", "GET /cats", "URL /dogs\n  POST"}[:1+r.Intn(3)] {
			ind := "  "
			if strings.HasPrefix(meth, "URL") {
				ind = "    "
			}
			docM.WriteString(meth + "\n")
			docI.WriteString(meth + "\n")
			if r.Bool() {
				docM.WriteString(ind + "204 empty\n")
				docI.WriteString(ind + "204 empty\n")
			}
			used := map[int]int{}
			for j := 0; j < 1+r.Intn(3); j++ {
				k := r.Intn(nm)
				used[k]++
				if used[k] > maxSame {
					maxSame = used[k]
				}
				docM.WriteString(fmt.Sprintf("%sPASTE @m%d\n", ind, k))
				docI.WriteString(indent(expand(k), ind))
			}
			_ = mi
		}
		for k := range macros {
			docM.WriteString(fmt.Sprintf("MACRO @m%d\n", k))
			for _, it := range macros[k] {
				if it.paste > 0 {
					docM.WriteString(fmt.Sprintf("  PASTE @m%d\n", it.paste-1))
				} else {
					docM.WriteString(indent(it.text, "  "))
				}
			}
		}
		rm := RunProject(SingleFile([]byte(docM.String())), false)
		ri := RunProject(SingleFile([]byte(docI.String())), false)
		cases++
		ctx.Cov.Count([]byte(docM.String()), maxSame >= 2)
		if rm.Panic != "" || ri.Panic != "" {
			continue
		}
		if maxSame >= 2 {
			twice++
			ctx.Cov.Hit("macro of method children pasted twice or more into one method")
		}
		if ri.Accepted() {
			ctx.Cov.Hit("macro children: hand-inlined document accepted")
		} else {
			ctx.Cov.Hit("macro children: hand-inlined document rejected")
		}
		in := projectInput(SingleFile([]byte(docM.String())))
		in["op"] = "inline"
		in["inlined"] = docI.String()
		switch {
		case ri.Accepted() && !rm.Accepted():
			ctx.Violate(Violation{Kind: "wrong-output", Site: "macros", What: "the document with every PASTE written out by hand is accepted, the document with the macros is rejected: " + rm.Verdict(), Input: in,
				Observed: rm.Verdict(), Expected: "accepted", Signature: "macro-children-rejected"})
		case !ri.Accepted() && rm.Accepted():
			ctx.Violate(Violation{Kind: "wrong-output", Site: "macros", What: "the document with the macros is accepted, the same document with every PASTE written out by hand is rejected: " + ri.Verdict(), Input: in,
				Observed: "accepted", Expected: ri.Verdict(), Signature: "macro-children-accepted"})
		case ri.Accepted() && !bytes.Equal(rm.JSON, ri.JSON):
			ctx.Violate(Violation{Kind: "wrong-output", Site: "macros", What: "the document with macros of method children and the document with every PASTE written out by hand have different catalogs: " + firstDiff(ri.JSON, rm.JSON), Input: in,
				Signature: "macro-children-catalog"})
		}
	}
	ctx.Cov.Component("macros of method children (responses with body in place / Body / Headers children, Request, Query) pasted 1-3 times into one method, directly and through macros, vs the hand-inlined document", cases, len(ctx.Violations), fmt.Sprintf("%d documents paste one macro twice or more into one method", twice))
}
