package main

import (
	"bytes"
	"os"
	"fmt"
	"strings"

	"github.com/jsightapi/jsight-api-go-library/catalog"
)

func init() {
	props["C04"] = &propCheck{
		lean: []string{"JSight.Props.C04", "JSight.Props.C04_Pipeline", "JSight.Props.C04_Build", "JSight.Props.C04_Content", "JSight.Props.C04_Schema", "JSight.Props.C04_Bridge", "JSight.Props.C01_Project", "JSight.Props.C17_Param", "JSight.Props.C06"},
		exes: []string{"jsight-build"},
		run:  runC04,
		rule: "generated abstract API models (info, servers, user types with references, enums, tags, URL blocks with HTTP or JSON-RPC methods, path-bearing methods; all four notations, type references and arrays of references) rendered in a plain and in a random surface style; non-trivial = accepted document with >= 2 interactions and >= 1 cross-reference; distinct = distinct rendered bytes",
		assume: []string{
			"schema content, examples and enum values inside each body are produced by the schema library (oracle); the skeleton compared here carries notation, format, used types and enums",
		},
		trusted: []string{"the harness-side renderer of abstract models (its output is what the implementation is run on) and the expected-catalog function Expected() — the specification of C04"},
	}
}

var orderedCollections = []string{"tags", "servers", "userTypes", "userEnums", "interactions"}

// compareCatalog compares an actual catalog JSON with the expected skeleton: content (key order inside
// records immaterial) and the source order of the five ordered collections.
func compareCatalog(actual []byte, want *OVal, graph map[string][]string) string {
	v, dups, err := ParseOJSON(actual)
	if err != nil {
		return "catalog JSON does not parse: " + err.Error()
	}
	if len(dups) > 0 {
		return "duplicate keys in the catalog JSON: " + strings.Join(dups, ", ")
	}
	got := Skeleton(v)
	closeUsedTypes(got, graph)
	closeUsedTypes(want, graph)
	for _, c := range orderedCollections {
		gk, wk := got.Get(c).Keys(), want.Get(c).Keys()
		if strings.Join(gk, "\x00") != strings.Join(wk, "\x00") {
			return fmt.Sprintf("%s: entries %q, declared (in source order) %q", c, gk, wk)
		}
	}
	g, w := got.Canon(true), want.Canon(true)
	if g != w {
		// find the first differing top-level entry for the message
		for _, c := range append([]string{"info", "jsight"}, orderedCollections...) {
			gc, wc := got.Get(c), want.Get(c)
			if gc.Canon(true) == wc.Canon(true) {
				continue
			}
			if gc != nil && wc != nil && gc.Kind == OObj && wc.Kind == OObj {
				for _, kv := range wc.Obj {
					if x := gc.Get(kv.K); x.Canon(true) != kv.V.Canon(true) {
						return fmt.Sprintf("%s[%s]: catalog has %s, the document declares %s", c, kv.K, x.Canon(true), kv.V.Canon(true))
					}
				}
			}
			return fmt.Sprintf("%s: catalog has %s, the document declares %s", c, trunc(gc.Canon(true), 400), trunc(wc.Canon(true), 400))
		}
		return "catalogs differ"
	}
	return ""
}

func modelNontrivial(m *ApiModel) bool {
	n, refs := 0, 0
	cnt := func(s *SchemaM) {
		if s != nil && (len(s.usedTypes()) > 0 || len(s.Enums) > 0) {
			refs++
		}
	}
	for i := range m.Blocks {
		b := &m.Blocks[i]
		switch b.Kind {
		case "method":
			n++
			cnt(b.Method.Request)
			for k := range b.Method.Responses {
				cnt(b.Method.Responses[k].Body)
			}
		case "url":
			n += len(b.Methods) + len(b.Rpc)
			for k := range b.Methods {
				cnt(b.Methods[k].Request)
				for j := range b.Methods[k].Responses {
					cnt(b.Methods[k].Responses[j].Body)
				}
			}
			for k := range b.Rpc {
				cnt(b.Rpc[k].Params)
				cnt(b.Rpc[k].Result)
			}
		case "type":
			cnt(b.Schema)
		}
	}
	return n >= 2 && refs >= 1
}

func runC04(ctx *Ctx) {
	r := ctx.Rng.Fork()
	buildCorrSuite(ctx, r.Fork(), ctx.Budget(600, 40000))
	projectCorrSuite(ctx, r.Fork(), ctx.Budget(1500, 100000))
	{
		rr := r.Fork()
		var docs [][]byte
		for i := 0; i < ctx.Budget(150, 10000); i++ {
			d, _ := GenModel(rr).Render(RandomStyle(rr.Fork()), true)
			docs = append(docs, d)
		}
		for _, f := range fixtureFiles() {
			if strings.Contains(f, "include") {
				continue
			}
			if b, err := os.ReadFile(f); err == nil && len(b) < 12000 {
				docs = append(docs, b)
			}
		}
		contentCorrespondence(ctx, docs, "generated documents and the fixture files")
	}
	c04TemplateFiles(ctx, r.Fork())
	n := ctx.Budget(1500, 100000)
	rejected := 0
	for i := 0; i < n; i++ {
		m := GenModel(r)
		want := m.Expected(catalog.VerifTagName)
		for pass := 0; pass < 2; pass++ {
			st := PlainStyle()
			if pass == 1 {
				st = RandomStyle(r.Fork())
			}
			content, _ := m.Render(st, true)
			res := RunProject(SingleFile(content), false)
			ctx.Cov.Count(content, modelNontrivial(m) && res.Accepted())
			in := projectInput(SingleFile(content))
			in["op"] = "doc"
			if i < 2 && pass == 0 {
				ctx.Cov.Sample(map[string]any{"document": string(content), "verdict": res.Verdict()})
			}
			if !res.Accepted() {
				rejected++
				ctx.Cov.Hit("rejected: " + firstWords(res.Verdict(), 5))
				ctx.Violate(Violation{Kind: "wrong-output", Site: "pipeline", What: "a well-formed generated document is not accepted: " + res.Verdict(),
					Input: in, Observed: res.Verdict(), Expected: "accepted", Signature: "doc-rejected"})
				continue
			}
			ctx.Cov.Hit(fmt.Sprintf("accepted (style %d)", pass))
			if msg := compareCatalog(res.JSON, want, m.allOfGraph()); msg != "" {
				ctx.Violate(Violation{Kind: "wrong-output", Site: "pipeline", What: "catalog differs from what the document declares: " + msg,
					Input: in, Observed: trunc(string(res.JSON), 2000), Signature: "doc-catalog:" + firstWords(msg, 1)})
			}
		}
		if len(ctx.Violations) >= 20 {
			break
		}
	}
	ctx.Cov.Component("catalog of generated documents vs Expected(model) (specification on the implementation)", ctx.Cov.Evaluations, len(ctx.Violations), fmt.Sprintf("%d rejected", rejected))
}


// c04TemplateFiles: projects whose files are written from ONE template (same layout, names of the same length), so that
// directives of different files have the same byte offsets: every interaction must carry the Params / Result / Query /
// Headers / Path schema its own file declares, and the catalog must equal that of the same text in a single file.
func c04TemplateFiles(ctx *Ctx, r *Rng) {
	n := ctx.Budget(60, 3000)
	cases := 0
	var tmplProjects []Project
	defer func() {
		projectFSCorrespondence(ctx, tmplProjects, "projects of files written from one template")
	}()
	for it := 0; it < n && len(ctx.Violations) < 10; it++ {
		k := 2 + r.Intn(3)
		parts := r.Intn(31) + 1 // which sections the template has
		tmpl := func(i int) string {
			var b strings.Builder
			if parts&1 != 0 {
				fmt.Fprintf(&b, "URL /r%d\n  Protocol json-rpc-2.0\n  Method m%d\n    Params\n    {\"p%d\": %d}\n    Result\n    {\"q%d\": %d}\n", i, i, i, i, i, i)
			}
			fmt.Fprintf(&b, "GET /g%d/{v%d}\n", i, i)
			if parts&2 != 0 {
				fmt.Fprintf(&b, "  Path\n  {\"v%d\": %d}\n", i, i)
			}
			if parts&4 != 0 {
				fmt.Fprintf(&b, "  Query\n  {\"u%d\": %d}\n", i, i)
			}
			if parts&8 != 0 {
				fmt.Fprintf(&b, "  Request\n    Headers\n    {\"h%d\": %d}\n    Body any\n", i, i)
			}
			fmt.Fprintf(&b, "  200\n")
			if parts&16 != 0 {
				fmt.Fprintf(&b, "    Headers\n    {\"w%d\": %d}\n", i, i)
			}
			fmt.Fprintf(&b, "    Body\n    {\"b%d\": %d}\n", i, i)
			return b.String()
		}
		head := "JSIGHT 0.3\n"
		pad := "# 23456789\n" // a comment line of the length of the JSIGHT line
		if r.Chance(1, 4) {
			pad = "# c\n" // control: different offsets
		}
		files := map[string][]byte{}
		root := head + tmpl(0)
		single := head + tmpl(0)
		for i := 1; i < k; i++ {
			name := fmt.Sprintf("f%d.jst", i)
			files[name] = []byte(pad + tmpl(i))
			root += "INCLUDE " + name + "\n"
			single += pad + tmpl(i)
		}
		files["root.jst"] = []byte(root)
		p := Project{Files: files, Root: "root.jst"}
		tmplProjects = append(tmplProjects, p)
		res := RunProject(p, false)
		one := RunProject(SingleFile([]byte(single)), false)
		cases++
		ctx.Cov.Count([]byte(root+string(files["f1.jst"])), true)
		ctx.Cov.Hit("template project")
		in := projectInput(p)
		in["op"] = "project"
		if res.Panic != "" || one.Panic != "" {
			continue
		}
		if !res.Accepted() || !one.Accepted() {
			ctx.Violate(Violation{Kind: "wrong-output", Site: "pipeline", What: "a well-formed project of template files is not accepted: " + res.Verdict() + " / as one file: " + one.Verdict(), Input: in, Signature: "template-rejected"})
			continue
		}
		if !bytes.Equal(res.JSON, one.JSON) {
			ctx.Violate(Violation{Kind: "wrong-output", Site: "pipeline", What: "the catalog of a project of template files differs from the catalog of the same text in one file: " + firstDiff(res.JSON, one.JSON),
				Input: in, Observed: trunc(string(res.JSON), 1500), Expected: trunc(string(one.JSON), 1500), Signature: "template-catalog"})
			continue
		}
		// every interaction carries the property names of its own file
		doc, _, err := ParseOJSON(res.JSON)
		if err != nil {
			continue
		}
		js := string(res.JSON)
		for i := 0; i < k; i++ {
			get := doc.Path("interactions", fmt.Sprintf("http GET /g%d/{v%d}", i, i))
			want := []string{fmt.Sprintf("\"b%d\"", i)}
			if parts&4 != 0 {
				want = append(want, fmt.Sprintf("\"u%d\"", i))
			}
			if parts&8 != 0 {
				want = append(want, fmt.Sprintf("\"h%d\"", i))
			}
			if parts&16 != 0 {
				want = append(want, fmt.Sprintf("\"w%d\"", i))
			}
			if parts&2 != 0 {
				want = append(want, fmt.Sprintf("\"v%d\"", i))
			}
			gs := get.Canon(false)
			for _, w := range want {
				if !strings.Contains(gs, w) {
					ctx.Violate(Violation{Kind: "wrong-output", Site: "pipeline", What: fmt.Sprintf("interaction GET /g%d/{v%d} does not carry the property %s its file declares", i, i, w), Input: in, Observed: trunc(gs, 1200), Signature: "template-content"})
				}
			}
			if parts&1 != 0 {
				ms := doc.Path("interactions", fmt.Sprintf("json-rpc-2.0 m%d /r%d", i, i)).Canon(false)
				for _, w := range []string{fmt.Sprintf("\"p%d\"", i), fmt.Sprintf("\"q%d\"", i)} {
					if !strings.Contains(ms, w) {
						ctx.Violate(Violation{Kind: "wrong-output", Site: "pipeline", What: fmt.Sprintf("JSON-RPC method m%d does not carry the property %s its file declares", i, w), Input: in, Observed: trunc(ms, 1200), Signature: "template-content"})
					}
				}
			}
		}
		_ = js
	}
	ctx.Cov.Component("projects of files written from one template (same byte offsets in different files): catalog = catalog of the one-file text, every interaction carries its own file's schemas", cases, len(ctx.Violations), "")
}
