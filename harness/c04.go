package main

import (
	"os"
	"fmt"
	"strings"

	"github.com/jsightapi/jsight-api-go-library/catalog"
)

func init() {
	props["C04"] = &propCheck{
		lean: []string{"JSight.Props.C04", "JSight.Props.C04_Pipeline", "JSight.Props.C04_Build", "JSight.Props.C04_Content", "JSight.Props.C04_Schema", "JSight.Props.C04_Bridge", "JSight.Props.C01_Project", "JSight.Props.C06"},
		exes: []string{"jsight-build"},
		run:  runC04,
		rule: "generated abstract API models (info, servers, user types with references, enums, tags, URL blocks with HTTP or JSON-RPC methods, path-bearing methods; all four notations, type references and arrays of references) rendered in a plain and in a random surface style; non-trivial = accepted document with >= 2 interactions and >= 1 cross-reference; distinct = distinct rendered bytes",
		assume: []string{
			"schema content, examples and enum values inside each body are produced by the schema library (oracle); the skeleton compared here carries notation, format, used types and enums",
		},
		trusted: []string{"the harness-side renderer of abstract models (its output is what the implementation is run on) and the expected-catalog function Expected() — the specification of C04"},
	}
}

var orderedCollections = []string{"tags", "servers", "userTypes", "userEnums", "interactions"}

// compareCatalog compares an actual catalog JSON with the expected skeleton: content (key order inside
// records immaterial) and the source order of the five ordered collections.
func compareCatalog(actual []byte, want *OVal, graph map[string][]string) string {
	v, dups, err := ParseOJSON(actual)
	if err != nil {
		return "catalog JSON does not parse: " + err.Error()
	}
	if len(dups) > 0 {
		return "duplicate keys in the catalog JSON: " + strings.Join(dups, ", ")
	}
	got := Skeleton(v)
	closeUsedTypes(got, graph)
	closeUsedTypes(want, graph)
	for _, c := range orderedCollections {
		gk, wk := got.Get(c).Keys(), want.Get(c).Keys()
		if strings.Join(gk, "\x00") != strings.Join(wk, "\x00") {
			return fmt.Sprintf("%s: entries %q, declared (in source order) %q", c, gk, wk)
		}
	}
	g, w := got.Canon(true), want.Canon(true)
	if g != w {
		// find the first differing top-level entry for the message
		for _, c := range append([]string{"info", "jsight"}, orderedCollections...) {
			gc, wc := got.Get(c), want.Get(c)
			if gc.Canon(true) == wc.Canon(true) {
				continue
			}
			if gc != nil && wc != nil && gc.Kind == OObj && wc.Kind == OObj {
				for _, kv := range wc.Obj {
					if x := gc.Get(kv.K); x.Canon(true) != kv.V.Canon(true) {
						return fmt.Sprintf("%s[%s]: catalog has %s, the document declares %s", c, kv.K, x.Canon(true), kv.V.Canon(true))
					}
				}
			}
			return fmt.Sprintf("%s: catalog has %s, the document declares %s", c, trunc(gc.Canon(true), 400), trunc(wc.Canon(true), 400))
		}
		return "catalogs differ"
	}
	return ""
}

func modelNontrivial(m *ApiModel) bool {
	n, refs := 0, 0
	cnt := func(s *SchemaM) {
		if s != nil && (len(s.usedTypes()) > 0 || len(s.Enums) > 0) {
			refs++
		}
	}
	for i := range m.Blocks {
		b := &m.Blocks[i]
		switch b.Kind {
		case "method":
			n++
			cnt(b.Method.Request)
			for k := range b.Method.Responses {
				cnt(b.Method.Responses[k].Body)
			}
		case "url":
			n += len(b.Methods) + len(b.Rpc)
			for k := range b.Methods {
				cnt(b.Methods[k].Request)
				for j := range b.Methods[k].Responses {
					cnt(b.Methods[k].Responses[j].Body)
				}
			}
			for k := range b.Rpc {
				cnt(b.Rpc[k].Params)
				cnt(b.Rpc[k].Result)
			}
		case "type":
			cnt(b.Schema)
		}
	}
	return n >= 2 && refs >= 1
}

func runC04(ctx *Ctx) {
	r := ctx.Rng.Fork()
	buildCorrSuite(ctx, r.Fork(), ctx.Budget(600, 40000))
	projectCorrSuite(ctx, r.Fork(), ctx.Budget(1500, 100000))
	{
		rr := r.Fork()
		var docs [][]byte
		for i := 0; i < ctx.Budget(150, 10000); i++ {
			d, _ := GenModel(rr).Render(RandomStyle(rr.Fork()), true)
			docs = append(docs, d)
		}
		for _, f := range fixtureFiles() {
			if strings.Contains(f, "include") {
				continue
			}
			if b, err := os.ReadFile(f); err == nil && len(b) < 12000 {
				docs = append(docs, b)
			}
		}
		contentCorrespondence(ctx, docs, "generated documents and the fixture files")
	}
	n := ctx.Budget(1500, 100000)
	rejected := 0
	for i := 0; i < n; i++ {
		m := GenModel(r)
		want := m.Expected(catalog.VerifTagName)
		for pass := 0; pass < 2; pass++ {
			st := PlainStyle()
			if pass == 1 {
				st = RandomStyle(r.Fork())
			}
			content, _ := m.Render(st, true)
			res := RunProject(SingleFile(content), false)
			ctx.Cov.Count(content, modelNontrivial(m) && res.Accepted())
			in := projectInput(SingleFile(content))
			in["op"] = "doc"
			if i < 2 && pass == 0 {
				ctx.Cov.Sample(map[string]any{"document": string(content), "verdict": res.Verdict()})
			}
			if !res.Accepted() {
				rejected++
				ctx.Cov.Hit("rejected: " + firstWords(res.Verdict(), 5))
				ctx.Violate(Violation{Kind: "wrong-output", Site: "pipeline", What: "a well-formed generated document is not accepted: " + res.Verdict(),
					Input: in, Observed: res.Verdict(), Expected: "accepted", Signature: "doc-rejected"})
				continue
			}
			ctx.Cov.Hit(fmt.Sprintf("accepted (style %d)", pass))
			if msg := compareCatalog(res.JSON, want, m.allOfGraph()); msg != "" {
				ctx.Violate(Violation{Kind: "wrong-output", Site: "pipeline", What: "catalog differs from what the document declares: " + msg,
					Input: in, Observed: trunc(string(res.JSON), 2000), Signature: "doc-catalog:" + firstWords(msg, 1)})
			}
		}
		if len(ctx.Violations) >= 20 {
			break
		}
	}
	ctx.Cov.Component("catalog of generated documents vs Expected(model) (specification on the implementation)", ctx.Cov.Evaluations, len(ctx.Violations), fmt.Sprintf("%d rejected", rejected))
}
