package main

import (
	"sort"
	"fmt"
	"os"
	"path/filepath"
	"strings"

	"github.com/jsightapi/jsight-schema-go-library/fs"

	"github.com/jsightapi/jsight-api-go-library/core"
)

func init() {
	props["C08"] = &propCheck{
		lean: []string{"JSight.Props.C08", "JSight.Props.C08_Include", "JSight.Props.C08_Project"},
		exes: []string{"jsight-model", "jsight-ctx", "jsight-build"},
		run:  runC08,
		rule: "file names: all strings over {.,/,\\,a} up to the length bound + random; non-trivial = contains at least one of . / \\ ; projects: generated documents cut into files (depth, same file twice, several files from one place) and faulty include graphs",
		assume: []string{
			"path/filepath.Join/Dir/Clean behave as their lexical model (tied by correspondence on enumerated names); symlinks and case folding are outside the lexical model",
		},
		trusted: []string{"modelled, not verified: path/filepath.Join/Dir/Clean, os.Stat/ReadFile (lexical path model in Model/IncName.lean)"},
	}
}

func incErrClass(err error) string {
	if err == nil {
		return "ok"
	}
	m := err.Error()
	switch {
	case strings.Contains(m, "starts with"):
		return "err absolute"
	case strings.Contains(m, "'..' or '.'"):
		return "err dot"
	case strings.Contains(m, "separator"):
		return "err backslash"
	}
	return "err other " + m
}

func runC08(ctx *Ctx) {
	var names []string
	enumStrings([]byte{'.', '/', '\\', 'a'}, ctx.Len(8, 10), func(s []byte) { names = append(names, string(s)) })
	r := ctx.Rng.Fork()
	for i := 0; i < ctx.Budget(20000, 500000); i++ {
		names = append(names, string(r.Bytes([]byte{'.', '.', '/', '\\', 'a', 'b', ' ', 0xc3, '-'}, r.Intn(16))))
	}
	reqs := make([]string, len(names))
	for i, n := range names {
		reqs[i] = "incname " + hx([]byte(n))
	}
	Corr(ctx, "core.validateIncludeFileName vs Model.validName", "jsight-model", reqs, func(i int) string {
		return safely(func() string { return incErrClass(core.VerifValidateIncludeFileName(names[i])) })
	})
	// lexical path model vs path/filepath
	dirs := []string{".", "/x", "/x/y", "x", "x/y", "..", "../x", "/", "/x/../y", "x//y/", "./x"}
	reqs = reqs[:0]
	type jd struct{ d, n string }
	var jds []jd
	for _, d := range dirs {
		for i, n := range names {
			if i%7 == 0 || len(n) <= 5 {
				jds = append(jds, jd{d, n})
				reqs = append(reqs, "join "+hx([]byte(d))+" "+hx([]byte(n)))
			}
		}
	}
	Corr(ctx, "filepath.Join vs Model.pathJoin", "jsight-model", reqs, func(i int) string {
		return "ok " + hx([]byte(filepath.Join(jds[i].d, jds[i].n)))
	})
	reqs = reqs[:0]
	for _, n := range names {
		reqs = append(reqs, "dir "+hx([]byte(n)))
	}
	Corr(ctx, "filepath.Dir vs Model.pathDir", "jsight-model", reqs, func(i int) string {
		return "ok " + hx([]byte(filepath.Dir(names[i])))
	})

	// search: the specification on the implementation: a name with a "."/".." component, a leading '/'
	// or a backslash is rejected; an accepted name joined to any directory stays inside it.
	for _, n := range names {
		if n == "" {
			continue
		}
		bad := n[0] == '/' || strings.Contains(n, "\\")
		for _, c := range strings.Split(n, "/") {
			if c == "." || c == ".." {
				bad = true
			}
		}
		ctx.Cov.Count([]byte(n), strings.ContainsAny(n, "./\\"))
		cls := safely(func() string { return incErrClass(core.VerifValidateIncludeFileName(n)) })
		if bad && cls == "ok" {
			ctx.Violate(Violation{Kind: "wrong-output", Site: "core.validateIncludeFileName",
				What:     fmt.Sprintf("include file name %q is accepted although it is absolute, has a '.'/'..' component or a backslash", n),
				Input:    map[string]any{"op": "incname", "name": hx([]byte(n))},
				Observed: cls, Expected: "rejected", Signature: "incname-accepts-bad"})
		}
		if cls == "ok" {
			for _, d := range []string{"/x/y", "x", "."} {
				j := filepath.Join(d, n)
				cd := filepath.Clean(d)
				inside := j == cd || strings.HasPrefix(j, cd+"/") || cd == "." && !strings.HasPrefix(j, "../") && j != ".." && !strings.HasPrefix(j, "/")
				if !inside {
					ctx.Violate(Violation{Kind: "wrong-output", Site: "core.validateIncludeFileName",
						What:     fmt.Sprintf("accepted include file name %q joined to %q gives %q, outside the directory", n, d, j),
						Input:    map[string]any{"op": "incname", "name": hx([]byte(n))},
						Observed: j, Signature: "incname-escapes"})
				}
			}
		}
	}
	ctx.Cov.Sample(map[string]any{"name": "a/../b", "verdict": incErrClass(core.VerifValidateIncludeFileName("a/../b"))})
	ctx.Cov.Sample(map[string]any{"name": "sub/inc.jst", "verdict": incErrClass(core.VerifValidateIncludeFileName("sub/inc.jst"))})
	includeCorrespondence(ctx, r, ctx.Budget(3000, 100000))
	c08Projects(ctx, r)
}

// ---- textual inclusion: cut a document into files

type cutter struct {
	r      *Rng
	files  map[string][]byte
	n      int
	nested map[string]bool // files that hold the children of a directive of the including file (not top-level blocks)
	inKids bool
}

func joinRel(dir, name string) string {
	if dir == "" {
		return name
	}
	return dir + "/" + name
}

// place stores content as a new file reachable from a file in directory `fromDir`; returns the INCLUDE
// parameter (relative to fromDir). Names are deliberately reused across directories.
func (c *cutter) place(fromDir string, content string, depth int) string {
	c.n++
	subdirs := []string{"", "sub", "sub/deep", "other", "a/b/c"}
	names := []string{"inc.jst", "part.jst", "body.jst", "x.jst"}
	for try := 0; try < 50; try++ {
		rel := joinRel(subdirs[c.r.Intn(len(subdirs))], names[c.r.Intn(len(names))])
		if try > 20 {
			rel = fmt.Sprintf("gen%d/%s", c.n, names[c.r.Intn(len(names))])
		}
		full := joinRel(fromDir, rel)
		if _, taken := c.files[full]; taken {
			continue
		}
		dir := ""
		if i := strings.LastIndex(full, "/"); i >= 0 {
			dir = full[:i]
		}
		c.files[full] = nil // reserve
		if c.inKids {
			if c.nested == nil {
				c.nested = map[string]bool{}
			}
			c.nested[full] = true
		}
		c.files[full] = []byte(c.cutBlocks(dir, splitTopBlocks(content), depth+1))
		return rel
	}
	return ""
}

// splitTopBlocks splits plain-style text into its top-level blocks (a line with no indentation that starts
// with an upper-case letter or a digit begins a block; bodies at column 0 start with { [ " / or } ]).
func splitTopBlocks(text string) []string {
	var blocks []string
	var cur []string
	for _, l := range strings.SplitAfter(text, "\n") {
		if l == "" {
			continue
		}
		starts := len(l) > 0 && ((l[0] >= 'A' && l[0] <= 'Z') || (l[0] >= '0' && l[0] <= '9'))
		if starts && len(cur) > 0 {
			blocks = append(blocks, strings.Join(cur, ""))
			cur = nil
		}
		cur = append(cur, l)
	}
	if len(cur) > 0 {
		blocks = append(blocks, strings.Join(cur, ""))
	}
	return blocks
}

// cutBlocks re-assembles the blocks, moving random runs of complete blocks — and the complete children of an
// implicitly nested directive — into other files.
func (c *cutter) cutBlocks(dir string, blocks []string, depth int) string {
	var b strings.Builder
	for i := 0; i < len(blocks); {
		if depth < 3 && c.r.Chance(1, 3) && !strings.HasPrefix(blocks[i], "JSIGHT") {
			run := 1 + c.r.Intn(3)
			if i+run > len(blocks) {
				run = len(blocks) - i
			}
			if rel := c.place(dir, strings.Join(blocks[i:i+run], ""), depth); rel != "" {
				b.WriteString("INCLUDE " + rel + "\n")
				i += run
				continue
			}
		}
		blk := blocks[i]
		// children of an implicitly nested URL / method / INFO / SERVER block: everything after its first line
		first := strings.SplitAfterN(blk, "\n", 2)
		kw := keywordOf(first[0])
		if depth < 3 && len(first) == 2 && first[1] != "" && c.r.Chance(1, 4) && (kw == "URL" || kw == "INFO" || kw == "SERVER") && !strings.Contains(first[1], "Description") {
			// dedent the children by their own indentation (2 in the plain style)
			var kids []string
			for _, l := range strings.SplitAfter(first[1], "\n") {
				kids = append(kids, strings.TrimPrefix(l, "  "))
			}
			was := c.inKids
			c.inKids = true
			rel := c.place(dir, strings.Join(kids, ""), depth)
			c.inKids = was
			if rel != "" {
				b.WriteString(first[0] + "  INCLUDE " + rel + "\n")
				i++
				continue
			}
		}
		b.WriteString(blk)
		i++
	}
	return b.String()
}

func c08Projects(ctx *Ctx, r *Rng) {
	n := ctx.Budget(400, 20000)
	cases := 0
	var cutProjects []Project
	buildCorrespondenceFixtureProjects(ctx)
	encProjects := c08Encodings(ctx)
	// the inputs of every stated case (all properties) also go through the composed multi-file model
	for _, c := range statedCases {
		encProjects = append(encProjects, casesProject(c.a))
		if c.b != nil {
			encProjects = append(encProjects, casesProject(c.b))
		}
	}
	defer func() {
		// the catalog-construction model on the forests of multi-file projects (with single faults in some)
		buildCorrespondenceProjects(ctx, cutProjects, "documents cut into included files (plain and with a line mutant in one file)")
		// the composed model on the FILES of the same projects and of the include graphs (cycles, missing files, directories, JSIGHT)
		projectFSCorrespondence(ctx, append(append(append(append([]Project{}, cutProjects...), includeGraphs(r.Fork())...), dagProjects...), encProjects...), "documents cut into included files (plain and with a line mutant in one file), include graphs, cycle-free include graphs with shared files")
	}()
	for i := 0; i < n && len(ctx.Violations) < 10; i++ {
		m := GenModel(r)
		base, _ := m.Render(PlainStyle(), true)
		b0 := RunProject(SingleFile(base), false)
		if !b0.Accepted() {
			continue
		}
		c := &cutter{r: r.Fork(), files: map[string][]byte{}}
		root := c.cutBlocks("", splitTopBlocks(string(base)), 0)
		if len(c.files) == 0 {
			continue
		}
		c.files["root.jst"] = []byte(root)
		p := Project{Files: c.files, Root: "root.jst"}
		if i%2 == 0 {
			cutProjects = append(cutProjects, p)
			// and a variant with one mutated file
			mf := map[string][]byte{}
			var names []string
			for k, v := range c.files {
				mf[k] = v
				names = append(names, k)
			}
			sort.Strings(names)
			t := names[r.Intn(len(names))]
			mf[t] = lineMutant(r, append([]byte("X\n"), mf[t]...))[2:]
			cutProjects = append(cutProjects, Project{Files: mf, Root: "root.jst"})
		}
		b1 := RunProject(p, false)
		cases++
		var key []byte
		for k, v := range c.files {
			key = append(append(key, k...), v...)
		}
		ctx.Cov.Count(key, len(c.files) >= 2)
		ctx.Cov.Hit(fmt.Sprintf("project with %d files", len(c.files)))
		in := projectInput(p)
		in["op"] = "project"
		in["uncut"] = hx(base)
		if len(ctx.Cov.Samples) < 4 && len(c.files) >= 3 {
			ff := map[string]string{}
			for k, v := range c.files {
				ff[k] = string(v)
			}
			ctx.Cov.Sample(map[string]any{"files": ff, "verdict": b1.Verdict()})
		}
		if !b1.Accepted() {
			ctx.Violate(Violation{Kind: "wrong-output", Site: "INCLUDE", What: "moving complete directives into included files makes an accepted document rejected: " + b1.Verdict(), Input: in, Observed: b1.Verdict(), Expected: "accepted", Signature: "cut-rejected:" + firstWords(b1.Verdict(), 4)})
			continue
		}
		if string(b1.JSON) != string(b0.JSON) {
			ctx.Violate(Violation{Kind: "wrong-output", Site: "INCLUDE", What: "moving complete directives into included files changes the catalog: " + firstDiff(b0.JSON, b1.JSON), Input: in, Signature: "cut-catalog"})
		}
	}
	// a name with a "." or ".." component is refused even when the file it would reach exists (and so is a backslash)
	for _, name := range []string{"./part.jst", "sub/./part.jst", "sub/../part.jst", "a/b/../../part.jst", "sub/../sub/inner.jst", "./sub/inner.jst", "sub//inner.jst/..", "sub" + "\x5c" + "inner.jst", "." + "\x5c" + "part.jst"} {
		for _, from := range []string{"root", "nested"} {
			files := map[string][]byte{"part.jst": []byte("TYPE @p\n{}\n"), "sub/inner.jst": []byte("TYPE @q\n{}\n"), "sub/part.jst": []byte("TYPE @r\n{}\n"),
				"a/b/x.jst": []byte("TYPE @x\n{}\n")}
			if from == "root" {
				files["root.jst"] = []byte("JSIGHT 0.3\nINCLUDE " + name + "\n")
			} else {
				files["root.jst"] = []byte("JSIGHT 0.3\nINCLUDE mid.jst\n")
				files["mid.jst"] = []byte("INCLUDE " + name + "\n")
			}
			p := Project{Files: files, Root: "root.jst"}
			res := RunProject(p, false)
			cases++
			ctx.Cov.Hit("include name with a dot component or a backslash, target exists")
			if res.Panic == "" && res.Err == nil {
				in := projectInput(p)
				in["op"] = "project"
				ctx.Violate(Violation{Kind: "wrong-output", Site: "INCLUDE", What: fmt.Sprintf("INCLUDE %s (a name with a '.', '..' component or a backslash) is accepted", name), Input: in,
					Observed: "accepted", Expected: "rejected", Signature: "include-dot-name-accepted"})
			}
		}
	}
	cases += includeDags(ctx, r.Fork())
	cases += c08InMemoryRoot(ctx)
	// faulty include targets must be rejected with a diagnostic
	for _, p := range includeGraphs(r)[:13] {
		res := RunProject(p, false)
		cases++
		in := projectInput(p)
		in["op"] = "project"
		root := string(p.Files[p.Root])
		mustReject := strings.Contains(root, "missing") || strings.Contains(root, "INCLUDE dir") || strings.Contains(root, "INCLUDE root.jst") || strings.Contains(root, "INCLUDE\n") || strings.Contains(string(p.Files["a.jst"]), "JSIGHT") || strings.Contains(string(p.Files["b.jst"]), "INCLUDE a.jst")
		if mustReject && res.Err == nil && res.Panic == "" {
			ctx.Violate(Violation{Kind: "wrong-output", Site: "INCLUDE", What: "a faulty include (cycle / missing / directory / JSIGHT inside / no name) is accepted", Input: in, Signature: "include-fault-accepted"})
		}
	}
	ctx.Cov.Component("cut documents vs uncut documents; faulty include targets (specification on the implementation)", cases, len(ctx.Violations), "")
}


// includeDags: cycle-free include graphs in which files are SHARED — a file that itself includes others is included
// several times, from different files, at different depths, in both orders (deep use first / shallow use first) and from
// sub-directories. INCLUDE is textual: the project must give the verdict and the catalog of the flattened text.
// dagProjects: the projects of the last includeDags run (also fed to the composed model)
var dagProjects []Project

func includeDags(ctx *Ctx, r *Rng) int {
	dagProjects = nil
	n := ctx.Budget(120, 6000)
	cases := 0
	for it := 0; it < n && len(ctx.Violations) < 10; it++ {
		k := 3 + r.Intn(4)
		name := func(i int) string {
			if i%3 == 2 {
				return fmt.Sprintf("sub/f%d.jst", i)
			}
			return fmt.Sprintf("f%d.jst", i)
		}
		// the name of file j as written in file i (relative to the directory of i)
		rel := func(i, j int) (string, bool) {
			di, dj := i%3 == 2 && i > 0, j%3 == 2
			switch {
			case di == dj && di:
				return fmt.Sprintf("f%d.jst", j), true
			case !di:
				return name(j), true
			}
			return "", false // a file of the sub-directory cannot name a file of the parent directory (no "..")
		}
		lines := make([][]string, k+1) // lines[0] = root
		for i := k; i >= 0; i-- {
			var ll []string
			m := 1 + r.Intn(3)
			for q := 0; q < m; q++ {
				switch r.Intn(4) {
				case 0, 1:
					if i < k {
						j := i + 1 + r.Intn(k-i)
						if w, ok := rel(i, j); ok {
							ll = append(ll, "INCLUDE "+w)
							continue
						}
					}
					fallthrough
				case 2:
					ll = append(ll, fmt.Sprintf("%d any", 200+i*3+q))
				default:
					ll = append(ll, "Query", fmt.Sprintf("{\"q%d\": %d}", i, q))
				}
			}
			lines[i] = ll
		}
		// the root: methods whose children come from the files
		var root []string
		root = append(root, "JSIGHT 0.3")
		for v, verb := range []string{"GET", "POST", "PUT"}[:1+r.Intn(3)] {
			root = append(root, fmt.Sprintf("%s /m%d", verb, v))
			for q := 0; q < 1+r.Intn(2); q++ {
				j := 1 + r.Intn(k)
				root = append(root, "INCLUDE "+name(j))
			}
			root = append(root, "599 any")
		}
		files := map[string][]byte{"root.jst": []byte(strings.Join(root, "\n") + "\n")}
		for i := 1; i <= k; i++ {
			files[name(i)] = []byte(strings.Join(lines[i], "\n") + "\n")
		}
		// the flattened text
		var flat func(text string, self int, depth int) string
		flat = func(text string, self int, depth int) string {
			if depth > 12 {
				return text
			}
			var out []string
			for _, l := range strings.Split(strings.TrimRight(text, "\n"), "\n") {
				if strings.HasPrefix(l, "INCLUDE ") {
					w := strings.TrimPrefix(l, "INCLUDE ")
					full := w
					if self > 0 && self%3 == 2 {
						full = "sub/" + w
					}
					var j int
					fmt.Sscanf(full[strings.LastIndex(full, "f")+1:], "%d", &j)
					out = append(out, strings.TrimRight(flat(string(files[full]), j, depth+1), "\n"))
				} else {
					out = append(out, l)
				}
			}
			return strings.Join(out, "\n") + "\n"
		}
		single := flat(string(files["root.jst"]), 0, 0)
		p := Project{Files: files, Root: "root.jst"}
		dagProjects = append(dagProjects, p)
		res := RunProject(p, false)
		one := RunProject(SingleFile([]byte(single)), false)
		cases++
		var key []byte
		for kk, v := range files {
			key = append(append(key, kk...), v...)
		}
		ctx.Cov.Count(key, true)
		ctx.Cov.Hit("include DAG with shared files")
		if res.Panic != "" || one.Panic != "" {
			continue
		}
		in := projectInput(p)
		in["op"] = "project"
		in["flattened"] = single
		same := res.Accepted() == one.Accepted()
		if same && res.Accepted() {
			same = string(res.JSON) == string(one.JSON)
		} else if same {
			same = res.Err.Msg == one.Err.Msg
		}
		if !same {
			ctx.Violate(Violation{Kind: "wrong-output", Site: "INCLUDE", What: "a cycle-free project with shared included files does not give the result of its flattened text: project: " + res.Verdict() + "; flattened: " + one.Verdict(),
				Input: in, Observed: res.Verdict(), Expected: one.Verdict(), Signature: "dag-differs:" + firstWords(res.Verdict(), 3)})
		}
	}
	ctx.Cov.Component("cycle-free include graphs with shared files vs their flattened text (specification on the implementation)", cases, len(ctx.Violations), "")
	return cases
}


// c08InMemoryRoot: the root document is given IN MEMORY, under the empty name (the library's convention for a document
// that was not read from a file) or a relative name; its INCLUDEs are relative to the current directory. The included
// file must be the one in that directory (never a file of the same name one level up), the result must be that of the
// inlined text, and a file that exists only outside the directory must be reported as missing.
func c08InMemoryRoot(ctx *Ctx) int {
	base, err := os.MkdirTemp(scratchBase(), "jsvm")
	if err != nil {
		return 0
	}
	defer os.RemoveAll(base)
	proj := filepath.Join(base, "proj")
	_ = os.MkdirAll(filepath.Join(proj, "sub"), 0o755)
	_ = os.WriteFile(filepath.Join(proj, "part.jst"), []byte("TYPE @p\n{}\nINCLUDE sub/inner.jst\n"), 0o644)
	_ = os.WriteFile(filepath.Join(proj, "sub", "inner.jst"), []byte("TYPE @q\n{}\n"), 0o644)
	_ = os.WriteFile(filepath.Join(base, "part.jst"), []byte("TYPE @decoy\n{}\n"), 0o644)
	_ = os.WriteFile(filepath.Join(base, "outside.jst"), []byte("TYPE @outside\n{}\n"), 0o644)
	old, err := os.Getwd()
	if err != nil || os.Chdir(proj) != nil {
		return 0
	}
	defer os.Chdir(old)
	inlined := core.NewJApiCore(fs.NewFile("inlined.jst", []byte("JSIGHT 0.3\nTYPE @p\n{}\nTYPE @q\n{}\nGET /a\n  200 @p\n")), core.WithFixedSeedForRegex())
	var want []byte
	if je := inlined.ValidateJAPI(); je == nil {
		want, _ = inlined.Catalog().ToJson()
	}
	cases := 0
	for _, name := range []string{"", "main.jst", "./main.jst"} {
		run := func(doc string) (string, []byte) {
			defer func() { _ = recover() }()
			c := core.NewJApiCore(fs.NewFile(name, []byte(doc)), core.WithFixedSeedForRegex())
			if je := c.ValidateJAPI(); je != nil {
				return "rejected: " + je.Msg, nil
			}
			js, _ := c.Catalog().ToJson()
			return "accepted", js
		}
		cases += 2
		ctx.Cov.Hit("root document given in memory under the name " + fmt.Sprintf("%q", name))
		in := map[string]any{"op": "memory-root", "name": name}
		v, js := run("JSIGHT 0.3\nINCLUDE part.jst\nGET /a\n  200 @p\n")
		if v != "accepted" || string(js) != string(want) {
			ctx.Violate(Violation{Kind: "wrong-output", Site: "INCLUDE", What: fmt.Sprintf("a root document given in memory under the name %q that INCLUDEs a file of the current directory: %s (the inlined text is accepted; the catalogs %s)", name, v, map[bool]string{true: "are equal", false: "differ"}[string(js) == string(want)]),
				Input: in, Observed: v, Expected: "accepted, catalog of the inlined text", Signature: "memory-root"})
		}
		v2, _ := run("JSIGHT 0.3\nINCLUDE outside.jst\nGET /a\n  200 any\n")
		if !strings.HasPrefix(v2, "rejected") {
			ctx.Violate(Violation{Kind: "wrong-output", Site: "INCLUDE", What: fmt.Sprintf("a root document given in memory under the name %q INCLUDEs a file that exists only one level above the current directory, and is accepted", name),
				Input: in, Observed: v2, Expected: "rejected (missing file)", Signature: "memory-root-outside"})
		}
	}
	return cases
}

// c08Encodings: what is checked of a file AS A WHOLE before its lexemes are read (it must be UTF-8) is checked of an
// included file as of the root: bytes that are not UTF-8 — in a comment, an annotation, a description text, a schema
// string, a parameter — written in the one-file document and moved into an included file (one and two levels down) must
// give the same verdict.
func c08Encodings(ctx *Ctx) []Project {
	bads := []struct{ id, b string }{{"latin-1 e-acute", "caf\xe9"}, {"truncated sequence", "caf\xc3"}, {"lone continuation", "x\x80y"}, {"overlong", "\xc0\xaf"}, {"surrogate", "\xed\xa0\x80"}, {"valid", "café"}}
	places := []struct{ id, block string }{
		{"comment", "GET /cats # %s\n  200 any\n"},
		{"block comment", "###\n%s\n###\nGET /cats\n  200 any\n"},
		{"annotation", "GET /cats // %s\n  200 any\n"},
		{"description", "GET /cats\n  Description\n    %s\n  200 any\n"},
		{"schema string", "TYPE @t\n{\"a\": \"%s\"}\n"},
		{"quoted parameter", "INFO\n  Title \"%s\"\n"},
	}
	var projects []Project
	cases := 0
	for _, pl := range places {
		for _, bd := range bads {
			blk := fmt.Sprintf(pl.block, bd.b)
			one := "JSIGHT 0.3\nGET /dogs\n  200 any\n" + blk
			r1 := RunProject(SingleFile([]byte(one)), false)
			if r1.Panic != "" {
				continue
			}
			variants := []Project{
				{Files: map[string][]byte{"root.jst": []byte("JSIGHT 0.3\nGET /dogs\n  200 any\nINCLUDE cats.jst\n"), "cats.jst": []byte(blk)}, Root: "root.jst"},
				{Files: map[string][]byte{"root.jst": []byte("JSIGHT 0.3\nGET /dogs\n  200 any\nINCLUDE parts/mid.jst\n"), "parts/mid.jst": []byte("INCLUDE cats.jst\n"), "parts/cats.jst": []byte(blk)}, Root: "root.jst"},
				{Files: map[string][]byte{"root.jst": []byte("JSIGHT 0.3\nINCLUDE dogs.jst\n" + blk), "dogs.jst": []byte("GET /dogs\n  200 any\n")}, Root: "root.jst"},
			}
			for vi, p := range variants {
				projects = append(projects, p)
				r2 := RunProject(p, false)
				cases++
				var key []byte
				for _, f := range p.Files {
					key = append(key, f...)
				}
				ctx.Cov.Count(key, bd.id != "valid")
				ctx.Cov.Hit("bytes that are not UTF-8 (" + pl.id + ") in an included file")
				if r2.Panic != "" {
					continue
				}
				if r1.Accepted() != r2.Accepted() {
					in := projectInput(p)
					in["op"] = "project"
					in["one_file"] = hx([]byte(one))
					ctx.Violate(Violation{Kind: "wrong-output", Site: "include", What: fmt.Sprintf("%s in a %s: the one-file document is %s; with the text moved into an included file (variant %d) the project is %s", bd.id, pl.id, r1.Verdict(), vi, r2.Verdict()),
						Input: in, Observed: r2.Verdict(), Expected: r1.Verdict(), Signature: "include-encoding"})
				}
			}
		}
	}
	ctx.Cov.Component("bytes that are not UTF-8 in a one-file document vs the same text in an included file", cases, len(ctx.Violations), "")
	return projects
}
