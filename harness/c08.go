package main

import (
	"fmt"
	"path/filepath"
	"strings"

	"github.com/jsightapi/jsight-api-go-library/core"
)

func init() {
	props["C08"] = &propCheck{
		lean: []string{"JSight.Props.C08"},
		exes: []string{"jsight-model"},
		run:  runC08,
		rule: "file names: all strings over {.,/,\\,a} up to the length bound + random; non-trivial = contains at least one of . / \\ ; projects: generated documents cut into files (depth, same file twice, several files from one place) and faulty include graphs",
		assume: []string{
			"path/filepath.Join/Dir/Clean behave as their lexical model (tied by correspondence on enumerated names); symlinks and case folding are outside the lexical model",
		},
		trusted: []string{"modelled, not verified: path/filepath.Join/Dir/Clean, os.Stat/ReadFile (lexical path model in Model/IncName.lean)"},
	}
}

func incErrClass(err error) string {
	if err == nil {
		return "ok"
	}
	m := err.Error()
	switch {
	case strings.Contains(m, "starts with"):
		return "err absolute"
	case strings.Contains(m, "'..' or '.'"):
		return "err dot"
	case strings.Contains(m, "separator"):
		return "err backslash"
	}
	return "err other " + m
}

func runC08(ctx *Ctx) {
	var names []string
	enumStrings([]byte{'.', '/', '\\', 'a'}, ctx.Len(8, 10), func(s []byte) { names = append(names, string(s)) })
	r := ctx.Rng.Fork()
	for i := 0; i < ctx.Budget(20000, 500000); i++ {
		names = append(names, string(r.Bytes([]byte{'.', '.', '/', '\\', 'a', 'b', ' ', 0xc3, '-'}, r.Intn(16))))
	}
	reqs := make([]string, len(names))
	for i, n := range names {
		reqs[i] = "incname " + hx([]byte(n))
	}
	Corr(ctx, "core.validateIncludeFileName vs Model.validName", "jsight-model", reqs, func(i int) string {
		return safely(func() string { return incErrClass(core.VerifValidateIncludeFileName(names[i])) })
	})
	// lexical path model vs path/filepath
	dirs := []string{".", "/x", "/x/y", "x", "x/y", "..", "../x", "/", "/x/../y", "x//y/", "./x"}
	reqs = reqs[:0]
	type jd struct{ d, n string }
	var jds []jd
	for _, d := range dirs {
		for i, n := range names {
			if i%7 == 0 || len(n) <= 5 {
				jds = append(jds, jd{d, n})
				reqs = append(reqs, "join "+hx([]byte(d))+" "+hx([]byte(n)))
			}
		}
	}
	Corr(ctx, "filepath.Join vs Model.pathJoin", "jsight-model", reqs, func(i int) string {
		return "ok " + hx([]byte(filepath.Join(jds[i].d, jds[i].n)))
	})
	reqs = reqs[:0]
	for _, n := range names {
		reqs = append(reqs, "dir "+hx([]byte(n)))
	}
	Corr(ctx, "filepath.Dir vs Model.pathDir", "jsight-model", reqs, func(i int) string {
		return "ok " + hx([]byte(filepath.Dir(names[i])))
	})

	// search: the specification on the implementation: a name with a "."/".." component, a leading '/'
	// or a backslash is rejected; an accepted name joined to any directory stays inside it.
	for _, n := range names {
		if n == "" {
			continue
		}
		bad := n[0] == '/' || strings.Contains(n, "\\")
		for _, c := range strings.Split(n, "/") {
			if c == "." || c == ".." {
				bad = true
			}
		}
		ctx.Cov.Count([]byte(n), strings.ContainsAny(n, "./\\"))
		cls := safely(func() string { return incErrClass(core.VerifValidateIncludeFileName(n)) })
		if bad && cls == "ok" {
			ctx.Violate(Violation{Kind: "wrong-output", Site: "core.validateIncludeFileName",
				What:     fmt.Sprintf("include file name %q is accepted although it is absolute, has a '.'/'..' component or a backslash", n),
				Input:    map[string]any{"op": "incname", "name": hx([]byte(n))},
				Observed: cls, Expected: "rejected", Signature: "incname-accepts-bad"})
		}
		if cls == "ok" {
			for _, d := range []string{"/x/y", "x", "."} {
				j := filepath.Join(d, n)
				cd := filepath.Clean(d)
				inside := j == cd || strings.HasPrefix(j, cd+"/") || cd == "." && !strings.HasPrefix(j, "../") && j != ".." && !strings.HasPrefix(j, "/")
				if !inside {
					ctx.Violate(Violation{Kind: "wrong-output", Site: "core.validateIncludeFileName",
						What:     fmt.Sprintf("accepted include file name %q joined to %q gives %q, outside the directory", n, d, j),
						Input:    map[string]any{"op": "incname", "name": hx([]byte(n))},
						Observed: j, Signature: "incname-escapes"})
				}
			}
		}
	}
	ctx.Cov.Sample(map[string]any{"name": "a/../b", "verdict": incErrClass(core.VerifValidateIncludeFileName("a/../b"))})
	ctx.Cov.Sample(map[string]any{"name": "sub/inc.jst", "verdict": incErrClass(core.VerifValidateIncludeFileName("sub/inc.jst"))})
	c08Projects(ctx, r)
}

func c08Projects(ctx *Ctx, r *Rng) {}
