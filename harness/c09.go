package main

import (
	"bytes"
	"fmt"
	"os"
	"strings"
	"unicode/utf8"

	"github.com/jsightapi/jsight-api-go-library/kit"
)

func init() {
	props["C09"] = &propCheck{
		lean:    []string{"JSight.Props.C09", "JSight.Props.C09_Build", "JSight.Props.C09_Json", "JSight.Props.C16", "JSight.Props.C19"},
		exes:    []string{"jsight-build"},
		run:     runC09,
		rule:    "accepted projects: generated documents, the accepted fixture files, byte-level mutants of fixtures and generated documents with hostile names/paths (spaces, quotes, non-ASCII, invalid UTF-8), documents whose JSON-RPC (method, path) pairs differ while their id texts coincide (both orders); every accepted one is serialised and read back with a strict (duplicate-key-detecting, UTF-8-validating) JSON reader; non-trivial = accepted with >= 2 interactions; distinct = distinct input bytes",
		assume:  []string{"encoding/json produces valid JSON text for the values handed to it (trusted); the check reads that text back strictly"},
		trusted: []string{"modelled, not verified: encoding/json (escaping, UTF-8 coercion, MarshalIndent)"},
	}
}

// checkSerialised evaluates the statement of C09 on one accepted result.
func checkSerialised(res RunResult) string {
	if !utf8.Valid(res.JSON) {
		return "JSON is not valid UTF-8"
	}
	v, dups, err := ParseOJSON(res.JSON)
	if err != nil {
		return "JSON does not parse: " + err.Error()
	}
	if len(dups) > 0 {
		return "repeated key: " + strings.Join(dups, ", ")
	}
	vi, dupsI, err := ParseOJSON(res.Indent)
	if err != nil || len(dupsI) > 0 {
		return fmt.Sprintf("indented JSON does not parse or has repeated keys: %v %v", err, dupsI)
	}
	if v.Canon(false) != vi.Canon(false) {
		return "indented and compact forms denote different values"
	}
	inter := v.Get("interactions")
	tags := v.Get("tags")
	types := v.Get("userTypes")
	if inter != nil {
		for _, kv := range inter.Fields() {
			it := kv.V
			id := it.Get("id").Str()
			if id != kv.K {
				return fmt.Sprintf("interaction key %q != id %q", kv.K, id)
			}
			proto := it.Get("protocol").Str()
			var want string
			if proto == "http" {
				want = "http " + it.Get("httpMethod").Str() + " " + it.Get("path").Str()
			} else {
				want = proto + " " + it.Get("method").Str() + " " + it.Get("path").Str()
			}
			if id != want {
				return fmt.Sprintf("interaction id %q does not encode protocol, method and path (%q)", id, want)
			}
			tl := it.Get("tags")
			if tl == nil || len(tl.Items()) == 0 {
				return fmt.Sprintf("interaction %q has no tag", id)
			}
			for _, t := range tl.Items() {
				tg := tags.Get(t.S)
				if tg == nil {
					return fmt.Sprintf("interaction %q names tag %q which does not exist", id, t.S)
				}
				found := false
				for _, g := range tg.Get("interactionGroups").Items() {
					if g.Get("protocol").Str() == proto {
						for _, x := range g.Get("interactions").Items() {
							if x.S == id {
								found = true
							}
						}
					}
				}
				if !found {
					return fmt.Sprintf("tag %q does not list interaction %q", t.S, id)
				}
			}
			if proto == "http" {
				if rq := it.Get("request"); rq != nil {
					if msg := checkBody(rq.Get("body"), "request of "+id); msg != "" {
						return msg
					}
				}
				for _, rs := range it.Get("responses").Items() {
					if msg := checkBody(rs.Get("body"), "response "+rs.Get("code").Str()+" of "+id); msg != "" {
						return msg
					}
				}
			}
		}
	}
	if tags != nil {
		for _, kv := range tags.Fields() {
			if kv.V.Get("name").Str() != kv.K {
				return fmt.Sprintf("tag key %q != name %q", kv.K, kv.V.Get("name").Str())
			}
			for _, g := range kv.V.Get("interactionGroups").Items() {
				for _, x := range g.Get("interactions").Items() {
					it := inter.Get(x.S)
					if it == nil {
						return fmt.Sprintf("tag %q lists interaction %q which does not exist", kv.K, x.S)
					}
					ok := false
					for _, t := range it.Get("tags").Items() {
						if t.S == kv.K {
							ok = true
						}
					}
					if !ok {
						return fmt.Sprintf("tag %q lists interaction %q which does not name the tag", kv.K, x.S)
					}
				}
			}
		}
	}
	// every used user type exists
	var missing string
	var walk func(x *OVal)
	walk = func(x *OVal) {
		if x == nil || missing != "" {
			return
		}
		switch x.Kind {
		case OObj:
			for _, kv := range x.Obj {
				if kv.K == "usedUserTypes" {
					for _, t := range kv.V.Items() {
						if types.Get(t.S) == nil {
							missing = t.S
						}
					}
				}
				walk(kv.V)
			}
		case OArr:
			for _, y := range x.Arr {
				walk(y)
			}
		}
	}
	walk(v)
	if missing != "" {
		return fmt.Sprintf("used user type %q does not exist", missing)
	}
	return ""
}

func checkBody(b *OVal, where string) string {
	if b == nil || b.Kind != OObj {
		return where + " has no body"
	}
	nt := b.Path("schema", "notation").Str()
	want := map[string]string{"jsight": "json", "regex": "plainString", "any": "binary", "empty": "binary"}[nt]
	if b.Get("format").Str() != want {
		return fmt.Sprintf("%s: format %q does not match notation %q", where, b.Get("format").Str(), nt)
	}
	return ""
}

func hostileDoc(r *Rng) []byte {
	names := []string{"a b", "a\"b", "é", "\xff", "\xfe", "a\\b", "x /y", "/", "a\tb", "'", " ", "{x}", "a%2Fb", "_", "__",
		// control characters and runes that Go's and JSON's string escapes treat differently
		"a\x7fb", "a\x01b", "a\vb", "a\ab", "a\x1fb", "\U000e0001", "a b", "<&>",
		// texts that SPELL an escape sequence (a backslash followed by letters): they must come out as themselves
		"a\\u003cb", "\\u0026", "x\\u003e", "a\\nb", "\\\\u003c", "\\\"", "&lt;\\u0026&amp;", "\\u2028", "\\/", "a\\tb"}
	pick :=func() string { return names[r.Intn(len(names))] }
	var b strings.Builder
	b.WriteString("JSIGHT 0.3\n")
	if r.Bool() {
		b.WriteString("INFO\n  Title " + string(quoteSpec([]byte(pick()))) + "\n  Version " + string(quoteSpec([]byte(pick()))) + "\n")
	}
	for i := 0; i < 1+r.Intn(3); i++ {
		switch r.Intn(3) {
		case 0:
			b.WriteString([]string{"GET", "POST"}[r.Intn(2)] + " " + string(quoteSpec([]byte("/"+pick()))) + "\n  200 any\n")
		case 1:
			b.WriteString("URL " + string(quoteSpec([]byte("/"+pick()))) + "\n  Protocol json-rpc-2.0\n  Method " + string(quoteSpec([]byte(pick()))) + "\n    Params\n    {}\n")
		default:
			b.WriteString("URL " + string(quoteSpec([]byte("/"+pick()+"/"+pick()))) + "\n  GET\n    200 any // " + pick() + "\n")
		}
	}
	return []byte(b.String())
}

// collisionDoc declares JSON-RPC methods (and HTTP methods) whose (method, path) pairs differ while the TEXT of
// their ids — the key they are serialised under — is the same: "n /x" on "/y" and "n" on "/x /y", in both orders,
// possibly with unrelated interactions in between.
func collisionDoc(r *Rng) []byte {
	w := []string{"foo", "a", "b c", "x", "get"}
	n, x, y := w[r.Intn(len(w))], w[r.Intn(len(w))], w[r.Intn(len(w))]
	rpc := func(name, path string) string {
		return "URL " + string(quoteSpec([]byte(path))) + "\n  Protocol json-rpc-2.0\n  Method " + string(quoteSpec([]byte(name))) + "\n    Params\n    {}\n"
	}
	blocks := []string{rpc(n+" /"+x, "/"+y), rpc(n, "/"+x+" /"+y)}
	if r.Bool() {
		blocks[0], blocks[1] = blocks[1], blocks[0]
	}
	if r.Chance(1, 3) { // a three-way split
		blocks = append(blocks, rpc(n+" /"+x+" /"+y[:len(y)/2], "/"+y[len(y)/2:]))
	}
	filler := []string{"GET /zz\n  200 any\n", "URL /rpc\n  Protocol json-rpc-2.0\n  Method " + n + "\n    Result\n    {}\n", "TYPE @t\n{}\n"}
	var b strings.Builder
	b.WriteString("JSIGHT 0.3\n")
	for i, blk := range blocks {
		if i > 0 && r.Bool() {
			b.WriteString(filler[r.Intn(len(filler))])
		}
		b.WriteString(blk)
	}
	return []byte(b.String())
}

// bodylessDoc: methods with several responses (and a request) where one of them — at any position — has no body
// (bare code, code with Headers only, Request with Headers only): every request and response must have a body
func bodylessDoc(r *Rng) []byte {
	var b strings.Builder
	b.WriteString("JSIGHT 0.3\n")
	verbs := []string{"GET", "POST", "PUT"}
	for m := 0; m < 1+r.Intn(2); m++ {
		b.WriteString(fmt.Sprintf("%s /p%d\n", verbs[r.Intn(3)], m))
		if r.Chance(1, 3) {
			if r.Chance(1, 3) {
				b.WriteString("  Request\n    Headers\n    {\"h\": 1}\n")
			} else {
				b.WriteString("  Request any\n")
			}
		}
		n := 1 + r.Intn(4)
		hole := r.Intn(n + 1) // == n: every response has a body
		for k := 0; k < n; k++ {
			code := 200 + k
			switch {
			case k == hole && r.Bool():
				b.WriteString(fmt.Sprintf("  %d\n", code))
			case k == hole:
				b.WriteString(fmt.Sprintf("  %d\n    Headers\n    {\"h\": 1}\n", code))
			case r.Bool():
				b.WriteString(fmt.Sprintf("  %d any\n", code))
			default:
				b.WriteString(fmt.Sprintf("  %d\n    Headers\n    {\"h\": 1}\n    Body\n    {\"a\": 1}\n", code))
			}
		}
	}
	return []byte(b.String())
}

func runC09(ctx *Ctx) {
	r := ctx.Rng.Fork()
	buildCorrSuite(ctx, r.Fork(), ctx.Budget(300, 30000))
	var docs [][]byte
	for i := 0; i < ctx.Budget(200, 5000); i++ {
		docs = append(docs, collisionDoc(r), bodylessDoc(r))
	}
	for i := 0; i < ctx.Budget(800, 60000); i++ {
		m := GenModel(r)
		c, _ := m.Render(RandomStyle(r.Fork()), true)
		docs = append(docs, c)
	}
	for i := 0; i < ctx.Budget(1500, 100000); i++ {
		docs = append(docs, hostileDoc(r))
	}
	var fixtures [][]byte
	for _, f := range fixtureFiles() {
		if strings.Contains(f, "include") {
			continue
		}
		b, err := os.ReadFile(f)
		if err == nil && len(b) < 6000 {
			fixtures = append(fixtures, b)
			docs = append(docs, b)
		}
	}
	for i := 0; i < ctx.Budget(3000, 200000) && len(fixtures) > 0; i++ {
		docs = append(docs, mutate(r, fixtures[r.Intn(len(fixtures))]))
	}
	accepted := 0
	for i, d := range docs {
		res := RunProject(SingleFile(d), false)
		if res.Panic != "" {
			ctx.Cov.Hit("panic (C01 matter)")
			continue
		}
		if res.JSErr != "" {
			ctx.Violate(Violation{Kind: "wrong-output", Site: "ToJson", What: "an accepted project does not serialise: " + res.JSErr, Input: projectInput(SingleFile(d)), Signature: "json-error"})
			continue
		}
		if !res.Accepted() {
			ctx.Cov.Count(d, false)
			ctx.Cov.Hit("rejected")
			continue
		}
		accepted++
		ctx.Cov.Hit("accepted")
		ctx.Cov.Count(d, bytes.Count(res.JSON, []byte(`"protocol":"`)) >= 4)
		if i < 1 {
			ctx.Cov.Sample(map[string]any{"document": trunc(string(d), 400), "json": trunc(string(res.JSON), 300)})
		}
		if msg := checkSerialised(res); msg != "" {
			in := projectInput(SingleFile(d))
			in["op"] = "doc"
			ctx.Violate(Violation{Kind: "wrong-output", Site: "ToJson", What: "accepted project, but: " + msg, Input: in,
				Observed: trunc(string(res.JSON), 1500), Signature: "json:" + firstWords(msg, 2)})
		}
		// Title() through the kit API
		if i%7 == 0 {
			if msg := checkTitle(d); msg != "" {
				ctx.Violate(Violation{Kind: "wrong-output", Site: "kit.Title", What: msg, Input: projectInput(SingleFile(d)), Signature: "title"})
			}
		}
		if len(ctx.Violations) > 20 {
			break
		}
	}
	ctx.Cov.Component("strict re-reading of the JSON of accepted projects (specification on the implementation)", accepted, len(ctx.Violations), "")
}

func checkTitle(doc []byte) (msg string) {
	defer func() {
		if r := recover(); r != nil {
			msg = fmt.Sprint("kit API panics: ", r)
		}
	}()
	dir, err := os.MkdirTemp(scratchBase(), "jsvk")
	if err != nil {
		return ""
	}
	defer os.RemoveAll(dir)
	p := dir + "/root.jst"
	if err := os.WriteFile(p, doc, 0o644); err != nil {
		return ""
	}
	j, err := kit.NewJapi(p)
	if err != nil {
		return "kit.NewJapi fails on a readable file: " + err.Error()
	}
	if je := j.ValidateJAPI(); je != nil {
		return ""
	}
	js, err := j.ToJson()
	if err != nil {
		return "ToJson: " + err.Error()
	}
	v, _, err := ParseOJSON(js)
	if err != nil {
		return ""
	}
	if want := v.Path("info", "title").Str(); j.Title() != want {
		return fmt.Sprintf("Title() = %q, info.title = %q", j.Title(), want)
	}
	return ""
}
