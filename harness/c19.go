package main

import (
	"fmt"
	"strings"

	"github.com/jsightapi/jsight-api-go-library/catalog"
)

func init() {
	props["C19"] = &propCheck{
		lean: []string{"JSight.Props.C19"},
		exes: []string{"jsight-model"},
		run:  runC19,
		rule: "tag names: all first-segment strings over {_,%,.,space,a,F,0,é-bytes,@,~} up to the length bound (all pairs compared through a hash of the produced name) and all 256 single bytes; documents: generated mixes of method-level, URL-level and absent Tags for HTTP and JSON-RPC interactions; a case is non-trivial when the segment contains a byte that is escaped or doubled / when the document has >= 2 interactions",
		assume: []string{
			"net/url.PathEscape behaves as its byte-level model (tied by exhaustive correspondence over all single bytes and enumerated strings)",
		},
		trusted: []string{"modelled, not verified: net/url.PathEscape, strings.Replace/ReplaceAll/Split (byte-level models in Model/TagName.lean)"},
	}
}

func runC19(ctx *Ctx) {
	alpha := []byte{'_', '%', '.', ' ', 'a', 'F', '0', '2', '5', 0xc3, 0xa9, '@', '~'}
	maxLen := ctx.Len(4, 6)
	var segs [][]byte
	enumStrings(alpha, maxLen, func(s []byte) { segs = append(segs, append([]byte(nil), s...)) })
	for b := 0; b < 256; b++ {
		if b != '/' {
			segs = append(segs, []byte{byte(b)}, []byte{'a', byte(b), '_'})
		}
	}
	// correspondence tagName / pathTagTitle
	reqs := make([]string, 0, 2*len(segs))
	titles := make([]string, 0, len(segs))
	for _, s := range segs {
		t := "/" + string(s)
		titles = append(titles, t)
		reqs = append(reqs, "tagname "+hx([]byte(t)))
	}
	Corr(ctx, "catalog.tagName vs Model.tagName", "jsight-model", reqs, func(i int) string {
		return "ok " + hx([]byte(catalog.VerifTagName(titles[i])))
	})
	// titles with arbitrary slashes (tagName is total on any string)
	r := ctx.Rng.Fork()
	var raw []string
	for i := 0; i < ctx.Budget(20000, 300000); i++ {
		raw = append(raw, string(r.Bytes([]byte{'/', '_', '%', 'a', '.', ' ', 0xff, '-'}, r.Intn(8))))
	}
	reqs = reqs[:0]
	for _, t := range raw {
		reqs = append(reqs, "tagname "+hx([]byte(t)))
	}
	Corr(ctx, "catalog.tagName vs Model.tagName (random titles)", "jsight-model", reqs, func(i int) string {
		return "ok " + hx([]byte(catalog.VerifTagName(raw[i])))
	})
	reqs = reqs[:0]
	var paths []string
	enumStrings([]byte{'/', '.', 'a', '{'}, ctx.Len(7, 9), func(s []byte) { paths = append(paths, string(s)) })
	for _, p := range paths {
		reqs = append(reqs, "tagtitle "+hx([]byte(p)))
	}
	Corr(ctx, "catalog.pathTagTitle vs Model.pathTagTitle", "jsight-model", reqs, func(i int) string {
		return "ok " + hx([]byte(catalog.VerifPathTagTitle(paths[i])))
	})

	// search: injectivity of the automatic name on the implementation (all pairs via a map)
	seen := map[string]string{}
	for _, s := range segs {
		if len(s) == 0 || string(s) == "." {
			// pathTagTitle never produces "/" + "" (that is the title "/") nor "/." ; "/" itself is the empty segment
		}
		t := "/" + string(s)
		name := catalog.VerifTagName(t)
		nontrivial := strings.ContainsAny(string(s), "_% ") || len(name) != len(t)
		ctx.Cov.Count([]byte(t), nontrivial)
		if prev, ok := seen[name]; ok && prev != t {
			ctx.Violate(Violation{Kind: "wrong-output", Site: "catalog.tagName",
				What:     fmt.Sprintf("two different first segments get one automatic tag name: %q and %q -> %q", prev, t, name),
				Input:    map[string]any{"op": "tagname-pair", "a": hx([]byte(prev)), "b": hx([]byte(t))},
				Observed: name, Signature: "tagname-collision"})
		}
		seen[name] = t
	}
	ctx.Cov.Sample(map[string]any{"title": "/a_b c", "tagName": catalog.VerifTagName("/a_b c")})
	ctx.Cov.Sample(map[string]any{"title": "/", "tagName": catalog.VerifTagName("/")})
	c19Docs(ctx, r)
}

func c19Docs(ctx *Ctx, r *Rng) {}
