package main

import (
	"fmt"
	"strings"

	"github.com/jsightapi/jsight-api-go-library/catalog"
)

func init() {
	props["C19"] = &propCheck{
		lean: []string{"JSight.Props.C19", "JSight.Props.C19_Build"},
		exes: []string{"jsight-model", "jsight-build"},
		run:  runC19,
		rule: "tag names: all first-segment strings over {_,%,.,space,a,F,0,é-bytes,@,~} up to the length bound (all pairs compared through a hash of the produced name) and all 256 single bytes; documents: generated mixes of method-level, URL-level and absent Tags for HTTP and JSON-RPC interactions; a case is non-trivial when the segment contains a byte that is escaped or doubled / when the document has >= 2 interactions",
		assume: []string{
			"net/url.PathEscape behaves as its byte-level model (tied by exhaustive correspondence over all single bytes and enumerated strings)",
		},
		trusted: []string{"modelled, not verified: net/url.PathEscape, strings.Replace/ReplaceAll/Split (byte-level models in Model/TagName.lean)"},
	}
}

func runC19(ctx *Ctx) {
	alpha := []byte{'_', '%', '.', ' ', 'a', 'F', '0', '2', '5', 0xc3, 0xa9, '@', '~'}
	maxLen := ctx.Len(4, 6)
	var segs [][]byte
	enumStrings(alpha, maxLen, func(s []byte) { segs = append(segs, append([]byte(nil), s...)) })
	for b := 0; b < 256; b++ {
		if b != '/' {
			segs = append(segs, []byte{byte(b)}, []byte{'a', byte(b), '_'})
		}
	}
	// correspondence tagName / pathTagTitle
	reqs := make([]string, 0, 2*len(segs))
	titles := make([]string, 0, len(segs))
	for _, s := range segs {
		t := "/" + string(s)
		titles = append(titles, t)
		reqs = append(reqs, "tagname "+hx([]byte(t)))
	}
	Corr(ctx, "catalog.tagName vs Model.tagName", "jsight-model", reqs, func(i int) string {
		return "ok " + hx([]byte(catalog.VerifTagName(titles[i])))
	})
	// titles with arbitrary slashes (tagName is total on any string)
	r := ctx.Rng.Fork()
	var raw []string
	for i := 0; i < ctx.Budget(20000, 300000); i++ {
		raw = append(raw, string(r.Bytes([]byte{'/', '_', '%', 'a', '.', ' ', 0xff, '-'}, r.Intn(8))))
	}
	reqs = reqs[:0]
	for _, t := range raw {
		reqs = append(reqs, "tagname "+hx([]byte(t)))
	}
	Corr(ctx, "catalog.tagName vs Model.tagName (random titles)", "jsight-model", reqs, func(i int) string {
		return "ok " + hx([]byte(catalog.VerifTagName(raw[i])))
	})
	reqs = reqs[:0]
	var paths []string
	enumStrings([]byte{'/', '.', 'a', '{'}, ctx.Len(7, 9), func(s []byte) { paths = append(paths, string(s)) })
	for _, p := range paths {
		reqs = append(reqs, "tagtitle "+hx([]byte(p)))
	}
	Corr(ctx, "catalog.pathTagTitle vs Model.pathTagTitle", "jsight-model", reqs, func(i int) string {
		return "ok " + hx([]byte(catalog.VerifPathTagTitle(paths[i])))
	})

	// search: injectivity of the automatic name on the implementation (all pairs via a map)
	seen := map[string]string{}
	for _, s := range segs {
		if len(s) == 0 || string(s) == "." {
			// pathTagTitle never produces "/" + "" (that is the title "/") nor "/." ; "/" itself is the empty segment
		}
		t := "/" + string(s)
		name := catalog.VerifTagName(t)
		nontrivial := strings.ContainsAny(string(s), "_% ") || len(name) != len(t)
		ctx.Cov.Count([]byte(t), nontrivial)
		if prev, ok := seen[name]; ok && prev != t {
			ctx.Violate(Violation{Kind: "wrong-output", Site: "catalog.tagName",
				What:     fmt.Sprintf("two different first segments get one automatic tag name: %q and %q -> %q", prev, t, name),
				Input:    map[string]any{"op": "tagname-pair", "a": hx([]byte(prev)), "b": hx([]byte(t))},
				Observed: name, Signature: "tagname-collision"})
		}
		seen[name] = t
	}
	ctx.Cov.Sample(map[string]any{"title": "/a_b c", "tagName": catalog.VerifTagName("/a_b c")})
	ctx.Cov.Sample(map[string]any{"title": "/", "tagName": catalog.VerifTagName("/")})
	c19Docs(ctx, r)
}

// tagDoc: a document about tags only, with the tagging the rule of C19 gives it.
type tagDoc struct {
	text     []byte
	rejected bool                // some Tags directive names an undeclared tag
	declared [][2]string         // name, title — in source order
	inters   []string            // interaction ids in source order
	tags     map[string][]string // interaction id -> tag names
	proto    map[string]string
}

func genTagDoc(r *Rng) tagDoc {
	d := tagDoc{tags: map[string][]string{}, proto: map[string]string{}}
	var b strings.Builder
	b.WriteString("JSIGHT 0.3\n")
	nd := r.Intn(4)
	var names []string
	tagBlock := func(i int) string {
		n := fmt.Sprintf("@t%d", i)
		title := n
		l := "TAG " + n
		if r.Bool() {
			title = fmt.Sprintf("Title %d", i)
			l += " // " + title
		}
		d.declared = append(d.declared, [2]string{n, title})
		return l + "\n"
	}
	for i := 0; i < nd; i++ {
		names = append(names, fmt.Sprintf("@t%d", i))
	}
	// TAG declarations may come before or after their use
	var pre, post []string
	for i := 0; i < nd; i++ {
		if r.Bool() {
			pre = append(pre, "")
		} else {
			post = append(post, "")
		}
	}
	k := 0
	for range pre {
		b.WriteString(tagBlock(k))
		k++
	}
	pick := func() []string {
		if r.Chance(2, 5) {
			return nil
		}
		var tt []string
		for i := 0; i < 1+r.Intn(2); i++ {
			if len(names) > 0 && !r.Chance(1, 12) {
				tt = append(tt, names[r.Intn(len(names))])
			} else {
				tt = append(tt, "@undeclared")
				d.rejected = true
			}
		}
		return tt
	}
	segs := []string{"cats", "dogs", "a_b", "x y", "cats", "cats/..", "..", ".", "./cats", "cats/.", "../cats", "/dogs", "..."}
	// the automatic tag is the tag of the FIRST segment of the path (written from the statement: the first segment
	// that is neither empty nor "."; "/" when there is none), not what pathTagTitle computes
	auto := func(path string) string { return catalog.VerifTagName(specPathTagTitle(path)) }
	tagsLine := func(ind string, tt []string) string {
		if tt == nil {
			return ""
		}
		return ind + "Tags " + strings.Join(tt, " ") + "\n"
	}
	used := map[string]bool{}
	nb := 1 + r.Intn(4)
	for i := 0; i < nb; i++ {
		seg := segs[r.Intn(len(segs))]
		path := fmt.Sprintf("/%s/p%d", seg, i)
		qpath := string(quoteSpec([]byte(path)))
		switch r.Intn(3) {
		case 0: // root-level method
			own := pick()
			b.WriteString("GET " + qpath + "\n" + tagsLine("  ", own) + "  200 any\n")
			id := "http GET " + path
			d.inters = append(d.inters, id)
			d.proto[id] = "http"
			if own != nil {
				d.tags[id] = own
			} else {
				d.tags[id] = []string{auto(path)}
			}
		case 1: // URL with HTTP methods
			ut := pick()
			b.WriteString("URL " + qpath + "\n")
			// a Tags line after a method that is NOT parenthesised would belong to that method; when the methods are
			// closed by parentheses, the URL-level Tags line may stand before, between or after them
			paren := r.Bool()
			verbs := []string{"GET", "POST", "PUT"}[:1+r.Intn(3)]
			at := 0
			if paren {
				at = r.Intn(len(verbs) + 1)
			}
			for vi, verb := range verbs {
				if vi == at {
					b.WriteString(tagsLine("  ", ut))
				}
				own := pick()
				if paren {
					b.WriteString("  " + verb + "\n  (\n" + tagsLine("    ", own) + "    200 any\n  )\n")
				} else {
					b.WriteString("  " + verb + "\n" + tagsLine("    ", own) + "    200 any\n")
				}
				id := "http " + verb + " " + path
				d.inters = append(d.inters, id)
				d.proto[id] = "http"
				switch {
				case own != nil:
					d.tags[id] = own
				case ut != nil:
					d.tags[id] = ut
				default:
					d.tags[id] = []string{auto(path)}
				}
			}
			if at == len(verbs) {
				b.WriteString(tagsLine("  ", ut))
			}
		default: // URL with JSON-RPC methods
			ut := pick()
			b.WriteString("URL " + qpath + "\n")
			tagsFirst := r.Bool()
			if tagsFirst {
				b.WriteString(tagsLine("  ", ut))
			}
			b.WriteString("  Protocol json-rpc-2.0\n")
			if !tagsFirst {
				b.WriteString(tagsLine("  ", ut))
				tagsFirst = true
			}
			for j := 0; j < 1+r.Intn(2); j++ {
				own := pick()
				m := fmt.Sprintf("m%d", j)
				b.WriteString("  Method " + m + "\n" + tagsLine("    ", own) + "    Params\n    {}\n")
				id := "json-rpc-2.0 " + m + " " + path
				d.inters = append(d.inters, id)
				d.proto[id] = "json-rpc-2.0"
				switch {
				case own != nil:
					d.tags[id] = own
				case ut != nil:
					d.tags[id] = ut
				default:
					d.tags[id] = []string{auto(path)}
				}
			}
			if !tagsFirst {
				b.WriteString(tagsLine("  ", ut))
			}
		}
		_ = used
	}
	for range post {
		b.WriteString(tagBlock(k))
		k++
	}
	d.text = []byte(b.String())
	return d
}

// c19Docs: the tagging rule on the implementation — own Tags, else the URL's Tags, else the automatic tag;
// undeclared names are rejected; declared titles; the tags collection and its interaction lists.
func c19Docs(ctx *Ctx, r *Rng) {
	n := ctx.Budget(1500, 60000)
	var docs [][]byte
	bad := 0
	for i := 0; i < n && len(ctx.Violations) < 12; i++ {
		d := genTagDoc(r)
		docs = append(docs, d.text)
		res := RunProject(SingleFile(d.text), false)
		ctx.Cov.Count(d.text, len(d.inters) >= 2 && len(d.declared) >= 1)
		in := projectInput(SingleFile(d.text))
		in["op"] = "doc"
		viol := func(sig, what string) {
			bad++
			ctx.Violate(Violation{Kind: "wrong-output", Site: "catalog.tags", What: what, Input: in, Signature: "tags:" + sig})
		}
		if res.Panic != "" {
			continue
		}
		if d.rejected {
			ctx.Cov.Hit("tag documents: undeclared tag named")
			if res.Accepted() {
				viol("undeclared-accepted", "a Tags directive names a tag that no TAG directive declares, and the document is accepted")
			} else if !strings.Contains(res.Err.Msg, "tag not found") {
				viol("undeclared-other-diagnostic", "undeclared tag: rejected with another diagnostic: "+res.Err.Msg)
			}
			continue
		}
		if !res.Accepted() {
			viol("rejected", "a well-formed document about tags is rejected: "+res.Verdict())
			continue
		}
		ctx.Cov.Hit("tag documents: accepted")
		doc, _, err := ParseOJSON(res.JSON)
		if err != nil {
			continue
		}
		// expected tags collection: declared in source order, then automatic ones in order of first use
		type exp struct {
			title string
			http  []string
			rpc   []string
		}
		order := []string{}
		coll := map[string]*exp{}
		for _, t := range d.declared {
			order = append(order, t[0])
			coll[t[0]] = &exp{title: t[1]}
		}
		for _, id := range d.inters {
			for _, tn := range d.tags[id] {
				e, ok := coll[tn]
				if !ok {
					path := id[strings.LastIndex(id, " /")+1:]
					if i := strings.Index(id, " /"); i >= 0 {
						path = id[i+1:]
					}
					e = &exp{title: catalog.VerifPathTagTitle(path)}
					coll[tn] = e
					order = append(order, tn)
				}
				if d.proto[id] == "http" {
					e.http = append(e.http, id)
				} else {
					e.rpc = append(e.rpc, id)
				}
			}
		}
		for _, id := range d.inters {
			it := doc.Path("interactions", id)
			if it == nil {
				viol("interaction-missing", "interaction "+id+" is missing from the catalog")
				continue
			}
			var got []string
			for _, t := range it.Get("tags").Items() {
				got = append(got, t.S)
			}
			if len(got) == 0 {
				viol("untagged", "interaction "+id+" carries no tag")
			}
			if strings.Join(got, " ") != strings.Join(d.tags[id], " ") {
				viol("precedence", fmt.Sprintf("interaction %s carries the tags %v, the rule gives %v", id, got, d.tags[id]))
			}
		}
		if got := strings.Join(doc.Get("tags").Keys(), " "); got != strings.Join(order, " ") {
			viol("collection", fmt.Sprintf("tags collection %q, expected %q", got, strings.Join(order, " ")))
			continue
		}
		for _, tn := range order {
			tv := doc.Path("tags", tn)
			if tv.Get("title").Str() != coll[tn].title {
				viol("title", fmt.Sprintf("tag %s has the title %q, expected %q", tn, tv.Get("title").Str(), coll[tn].title))
			}
			var http, rpc []string
			for _, g := range tv.Get("interactionGroups").Items() {
				for _, x := range g.Get("interactions").Items() {
					if g.Get("protocol").Str() == "http" {
						http = append(http, x.S)
					} else {
						rpc = append(rpc, x.S)
					}
				}
			}
			if strings.Join(http, "|") != strings.Join(coll[tn].http, "|") || strings.Join(rpc, "|") != strings.Join(coll[tn].rpc, "|") {
				viol("groups", fmt.Sprintf("tag %s lists %v %v, expected %v %v", tn, http, rpc, coll[tn].http, coll[tn].rpc))
			}
		}
	}
	ctx.Cov.Component("tagging rule on documents about tags (specification on the implementation)", len(docs), bad, "")
	buildCorrespondence(ctx, docs, nil, "documents about tags (own Tags, URL-level Tags, automatic tags, undeclared names)")
}


// specPathTagTitle: "/" + the first path segment that is neither empty nor "." ("/" when there is none) — C19's
// "first path segment", written from the statement.
func specPathTagTitle(path string) string {
	for _, sg := range strings.Split(path, "/") {
		if sg != "" && sg != "." {
			return "/" + sg
		}
	}
	return "/"
}
