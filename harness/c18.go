package main

import (
	"fmt"
	"os"
	"path/filepath"
	"strings"

	"github.com/jsightapi/jsight-api-go-library/directive"
)

func init() {
	props["C18"] = &propCheck{
		lean:    []string{"JSight.Props.C18", "JSight.Props.C18_Include", "JSight.Props.C04_Pipeline", "JSight.Props.C08_Project"},
		exes:    []string{"jsight-ctx"},
		run:     runC18,
		assume:  []string{"the ban check of addDirective (catalog phase) is redundant after the keyword-time check and is not modelled", "that no file is read behind a banned INCLUDE is a theorem of the multi-file scan model (C18_Include.banned_include_reads_nothing: the result depends on the root file only), tied by the projectb correspondence; on the real code it is additionally observed with a canary (a banned INCLUDE of a non-existent file), not traced"},
		rule:    "all 30 singleton ban sets and sampled larger ones x generated documents with and without the banned kinds (written directly, brought in by PASTE, in an included file); non-trivial = non-empty ban set and a document with >= 3 directive kinds; distinct = distinct (ban set, document)",
		trusted: []string{"the harness-side renderer; 'no file read before the ban' is observed through a canary: the banned INCLUDE names a file that does not exist, so any read attempt changes the diagnostic"},
	}
}

// kindsIn lists the directive kinds that occur in a document (keyword at the beginning of a line).
func kindsIn(doc []byte) map[directive.Enumeration]int {
	out := map[directive.Enumeration]int{}
	off := 0
	inText := false
	for _, l := range strings.SplitAfter(string(doc), "\n") {
		t := strings.TrimSpace(l)
		f := strings.Fields(t)
		if len(f) > 0 {
			if e, err := directive.NewDirectiveType(f[0]); err == nil && !strings.HasPrefix(t, "\"") {
				if _, seen := out[e]; !seen {
					out[e] = off + strings.Index(l, f[0])
				}
				inText = e == directive.Description
			} else if inText {
				// free text of a description
			}
		}
		off += len(l)
	}
	return out
}

func runC18(ctx *Ctx) {
	r := ctx.Rng.Fork()
	banCorrespondence(ctx, r.Fork(), ctx.Budget(20000, 500000))
	includeBanCorrespondence(ctx, r.Fork(), ctx.Budget(1500, 60000))
	n := ctx.Budget(120, 5000)
	for i := 0; i < n && len(ctx.Violations) < 10; i++ {
		m := GenModel(r)
		base, _ := m.Render(PlainStyle(), true)
		// add a macro + paste and an include so that those kinds occur too
		withMacro := string(base) + "MACRO @bm\n(\n  TYPE @fromMacro\n  {}\n)\nPASTE @bm\n"
		files := map[string][]byte{"root.jst": []byte(withMacro + "INCLUDE inc.jst\n"), "inc.jst": []byte("TYPE @fromInclude\n{}\nSERVER @incSrv\n  BaseUrl \"http://inc\"\n")}
		proj := Project{Files: files, Root: "root.jst"}
		r0 := RunProject(proj, false)
		if !r0.Accepted() {
			ctx.Cov.Hit("base project rejected: " + firstWords(r0.Verdict(), 4))
			continue
		}
		kinds := kindsIn(files["root.jst"])
		incKinds := kindsIn(files["inc.jst"])
		var sets [][]directive.Enumeration
		for k := 0; k < 30; k++ {
			sets = append(sets, []directive.Enumeration{directive.Enumeration(k)})
		}
		for k := 0; k < ctx.Len(6, 40); k++ {
			var s []directive.Enumeration
			for j := 0; j < 2+r.Intn(4); j++ {
				s = append(s, directive.Enumeration(r.Intn(30)))
			}
			sets = append(sets, s)
		}
		for _, ban := range sets {
			p := proj
			p.Banned = ban
			res := RunProject(p, false)
			key := fmt.Sprint(ban, string(files["root.jst"]))
			ctx.Cov.Count([]byte(key), len(kinds) >= 3)
			// first banned occurrence in the root file (by offset), or in the included file
			firstOff, firstKind, inInc := -1, directive.Jsight, false
			for _, b := range ban {
				if off, ok := kinds[b]; ok && (firstOff < 0 || off < firstOff) {
					firstOff, firstKind = off, b
				}
			}
			incOff := kinds[directive.Include]
			// kinds that occur only via the pasted macro body / the included file
			for _, b := range ban {
				if _, ok := incKinds[b]; ok && (firstOff < 0 || incOff < firstOff) {
					// occurs in the included file, which is read at the INCLUDE position
					if _, inRoot := kinds[b]; !inRoot || incOff < kinds[b] {
						inInc = true
						firstKind = b
					}
				}
			}
			in := projectInput(p)
			in["op"] = "ban"
			occurs := firstOff >= 0 || inInc
			if len(ctx.Cov.Samples) < 2 && occurs {
				ctx.Cov.Sample(map[string]any{"banned": fmt.Sprint(ban), "verdict": res.Verdict()})
			}
			if !occurs {
				ctx.Cov.Hit("ban set without occurrence")
				if res.Verdict() != r0.Verdict() || string(res.JSON) != string(r0.JSON) {
					ctx.Violate(Violation{Kind: "wrong-output", Site: "banned directives", What: fmt.Sprintf("banning %v (none of which occurs) changes the result: %s vs %s", ban, res.Verdict(), r0.Verdict()),
						Input: in, Signature: "ban-frame"})
				}
				continue
			}
			ctx.Cov.Hit("ban set with occurrence")
			if res.Err == nil || !strings.Contains(res.Err.Msg, "not allowed") {
				ctx.Violate(Violation{Kind: "wrong-output", Site: "banned directives", What: fmt.Sprintf("banned kind %s occurs but the project is not rejected as 'not allowed': %s", firstKind, res.Verdict()),
					Input: in, Observed: res.Verdict(), Expected: "directive not allowed", Signature: "ban-not-enforced:" + firstKind.String()})
				continue
			}
			if !inInc && (res.Err.File != "root.jst" || int(res.Err.Index) != firstOff) {
				ctx.Violate(Violation{Kind: "wrong-output", Site: "banned directives", What: fmt.Sprintf("banned kind %s first occurs at root.jst:%d, the diagnostic is at %s:%d (%s)", firstKind, firstOff, res.Err.File, res.Err.Index, res.Err.Msg),
					Input: in, Signature: "ban-location:" + firstKind.String()})
			}
		}
		// INCLUDE banned: the file it names must not be read (it does not exist: a read attempt would say so)
		can := Project{Files: map[string][]byte{"root.jst": []byte("JSIGHT 0.3\nINCLUDE missing/canary.jst\n")}, Root: "root.jst", Banned: []directive.Enumeration{directive.Include}}
		rc := RunProject(can, false)
		if rc.Err == nil || !strings.Contains(rc.Err.Msg, "not allowed") {
			ctx.Violate(Violation{Kind: "wrong-output", Site: "banned directives", What: "INCLUDE is banned but the named file is looked at first: " + rc.Verdict(), Input: projectInput(can), Signature: "ban-include-read"})
		}
	}
	// every kind, banned, directly followed by something that is itself an error (an INCLUDE of a missing file, an
	// unknown keyword, a stray ")"): the ban must be what is reported, at the banned directive
	lines := map[directive.Enumeration]string{
		directive.Info: "INFO", directive.Server: "SERVER @s", directive.URL: "URL /u", directive.Get: "GET /g", directive.Post: "POST /g",
		directive.Put: "PUT /g", directive.Patch: "PATCH /g", directive.Delete: "DELETE /g", directive.Type: "TYPE @t", directive.Enum: "ENUM @e",
		directive.Macro: "MACRO @m", directive.Paste: "PASTE @m", directive.TAG: "TAG @g", directive.Include: "INCLUDE missing/canary2.jst",
	}
	for k, l := range lines {
		for _, after := range []string{"INCLUDE missing/after.jst\n", "NOSUCHDIRECTIVE\n", ")\n", ""} {
			doc := "JSIGHT 0.3\n" + l + "\n" + after
			pr := Project{Files: map[string][]byte{"root.jst": []byte(doc)}, Root: "root.jst", Banned: []directive.Enumeration{k}}
			res := RunProject(pr, false)
			ctx.Cov.Count([]byte("directed "+doc), true)
			ctx.Cov.Hit("ban: banned directive followed by another fault")
			if res.Panic != "" {
				continue
			}
			if res.Err == nil || !strings.Contains(res.Err.Msg, "not allowed") || int(res.Err.Index) != len("JSIGHT 0.3\n") {
				in := projectInput(pr)
				in["op"] = "ban"
				ctx.Violate(Violation{Kind: "wrong-output", Site: "banned directives", What: fmt.Sprintf("banned %s followed by %q: expected 'not allowed' at the banned directive, got %s", k, after, res.Verdict()),
					Input: in, Observed: res.Verdict(), Expected: "directive not allowed at index 11", Signature: "ban-location:" + k.String()})
			}
		}
	}
	_ = os.Remove
	_ = filepath.Join
	ctx.Cov.Component("ban sets x generated projects (specification on the implementation)", ctx.Cov.Evaluations, len(ctx.Violations), "")
}
