package main

import (
	"fmt"
	"regexp"
	"strings"

	"github.com/jsightapi/jsight-api-go-library/core"
)

func init() {
	props["C13"] = &propCheck{
		lean:    []string{"JSight.Props.C13", "JSight.Props.C13_Bind"},
		exes:    []string{"jsight-model", "jsight-build"},
		run:     runC13,
		assume:  []string{"the property keys of each Path body (after shortcut expansion) and the flat-object check are the schema library's (oracle); the binding model is given the keys the real code read (hook VerifRawPathVariableDetails)"},
		rule:    "path strings: all strings over {/,{,},a,b} up to the length bound + random; a case is non-trivial when the path has at least one {..} segment; path trees: generated documents with shared prefixes, parameters at any depth, Path under URL or method, and faulty variants",
		trusted: []string{"modelled, not verified: strings.Trim/Split/Join (byte-level models in Model/PathPar.lean)"},
	}
}

func pairsStr(pp [][2]string) string {
	parts := make([]string, len(pp))
	for i, p := range pp {
		parts[i] = hx([]byte(p[0])) + ":" + hx([]byte(p[1]))
	}
	return strings.Join(parts, " ")
}

func runC13(ctx *Ctx) {
	var paths []string
	enumStrings([]byte{'/', '{', '}', 'a', 'b'}, ctx.Len(7, 9), func(s []byte) { paths = append(paths, string(s)) })
	r := ctx.Rng.Fork()
	for i := 0; i < ctx.Budget(20000, 500000); i++ {
		paths = append(paths, string(r.Bytes([]byte{'/', '/', '{', '}', 'a', 'b', 'i', 'd', ' ', 0xc3}, r.Intn(20))))
	}
	reqs := make([]string, len(paths))
	for i, p := range paths {
		reqs[i] = "pathpar " + hx([]byte(p))
	}
	Corr(ctx, "core.pathParameters vs Model.pathParameters", "jsight-model", reqs, func(i int) string {
		return safely(func() string { return "ok " + pairsStr(core.VerifPathParameters(paths[i])) })
	})
	for i, p := range paths {
		reqs[i] = "pathparchk " + hx([]byte(p))
	}
	Corr(ctx, "core.PathParameters (empty/duplicate checks) vs Model.checkedPathParameters", "jsight-model", reqs, func(i int) string {
		return safely(func() string {
			pp, err := core.PathParameters(paths[i])
			if err != nil {
				if strings.Contains(err.Error(), "empty") {
					return "err empty"
				}
				// duplicated name
				m := err.Error()
				a := strings.Index(m, `the "`) + 5
				b := strings.Index(m, `" parameter is duplicated`)
				return "err dup " + hx([]byte(m[a:b]))
			}
			_ = pp
			vp := core.VerifPathParameters(paths[i])
			if len(vp) == 0 {
				return "ok "
			}
			return "ok " + pairsStr(vp)
		})
	})
	// search: the specification evaluated directly on the implementation
	for _, p := range paths {
		segs := []string{}
		for _, s := range strings.Split(p, "/") {
			if s != "" {
				segs = append(segs, s)
			}
		}
		var want [][2]string
		for i, s := range segs {
			if len(s) >= 2 && s[0] == '{' && s[len(s)-1] == '}' {
				want = append(want, [2]string{strings.Join(segs[:i+1], "/"), s[1 : len(s)-1]})
			}
		}
		ctx.Cov.Count([]byte(p), len(want) > 0)
		got := safely(func() string { return pairsStr(core.VerifPathParameters(p)) })
		if got != pairsStr(want) {
			ctx.Violate(Violation{Kind: "wrong-output", Site: "core.pathParameters",
				What:     fmt.Sprintf("path %q: parameters %s, specification says %s", p, got, pairsStr(want)),
				Input:    map[string]any{"op": "pathpar", "path": hx([]byte(p))},
				Observed: got, Expected: pairsStr(want), Signature: "pathpar-spec"})
		}
	}
	ctx.Cov.Sample(map[string]any{"path": "/a/{id}/b/{x}", "parameters": core.VerifPathParameters("/a/{id}/b/{x}")})
	c13Docs(ctx, r)
}

// ---- path trees: documents with {parameters}, Path directives under URL or method, expected binding

type pathRes struct {
	path   string   // full path, e.g. /a/{x}/b/{y}
	url    bool     // rendered as a URL block (else a path-bearing method)
	decl   []string // parameter names this resource's Path directive declares (subset of the parameters of its path)
	values map[string]string
	// typeRef: when set, the Path body is written as a bare reference to this user type (declared once, after the
	// resources); resources that declare the same names share ONE type
	typeRef string
}

func pathTreeDoc(r *Rng) ([]pathRes, string) {
	// a small forest of path templates with shared prefixes
	bases := []string{"a", "b", "c"}
	params := []string{"x", "y", "z", "id"}
	var paths []string
	n := 2 + r.Intn(4)
	seen := map[string]bool{}
	shapeName := map[string]string{} // shape of the prefix before a parameter -> the parameter name used there
	for len(paths) < n {
		depth := 1 + r.Intn(3)
		p := ""
		used := map[string]bool{}
		ok := true
		for d := 0; d < depth; d++ {
			p += "/" + bases[r.Intn(len(bases))]
			if r.Chance(2, 3) {
				shape := regexpBraces.ReplaceAllString(p, "{}")
				nm, fixed := shapeName[shape]
				if !fixed {
					nm = params[r.Intn(len(params))]
				}
				if used[nm] {
					if fixed {
						ok = false
					}
					continue
				}
				shapeName[shape] = nm
				used[nm] = true
				p += "/{" + nm + "}"
			}
		}
		shape := regexpBraces.ReplaceAllString(p, "{}")
		if !ok || seen[shape] {
			continue
		}
		seen[shape] = true
		paths = append(paths, p)
	}
	declared := map[string]bool{} // "prefix|name"
	var res []pathRes
	for _, p := range paths {
		pr := pathRes{path: p, url: r.Bool(), values: map[string]string{}}
		segs := strings.Split(strings.Trim(p, "/"), "/")
		for i, sg := range segs {
			if strings.HasPrefix(sg, "{") {
				name := sg[1 : len(sg)-1]
				key := strings.Join(segs[:i+1], "/") + "|" + name
				if !declared[key] && r.Chance(1, 2) {
					declared[key] = true
					pr.decl = append(pr.decl, name)
					pr.values[name] = fmt.Sprint(100 + r.Intn(900))
				}
			}
		}
		res = append(res, pr)
	}
	if r.Chance(1, 2) {
		// typed mode: one value per parameter name, so that equal declarations can share a user type
		fixed := map[string]string{"x": "101", "y": "102", "z": "103", "id": "104"}
		for i := range res {
			if len(res[i].decl) == 0 {
				continue
			}
			for _, n := range res[i].decl {
				res[i].values[n] = fixed[n]
			}
			if r.Chance(3, 4) {
				res[i].typeRef = "@p_" + strings.Join(res[i].decl, "_")
			}
		}
	}
	return res, renderPathTree(res, nil)
}

var regexpBraces = regexp.MustCompile(`\{[^}]*\}`)

func renderPathTree(res []pathRes, extraPathBody map[int]string) string {
	var b strings.Builder
	typeBodies := map[string]string{}
	var typeOrder []string
	b.WriteString("JSIGHT 0.3\n")
	for i, pr := range res {
		body := ""
		if len(pr.decl) > 0 {
			var pp []string
			for _, n := range pr.decl {
				pp = append(pp, fmt.Sprintf("%q: %s", n, pr.values[n]))
			}
			body = "{" + strings.Join(pp, ", ") + "}"
		}
		if x, ok := extraPathBody[i]; ok {
			body = x
		} else if pr.typeRef != "" && body != "" {
			if _, seen := typeBodies[pr.typeRef]; !seen {
				typeOrder = append(typeOrder, pr.typeRef)
			}
			typeBodies[pr.typeRef] = body
			body = "@"
		}
		if pr.url {
			b.WriteString("URL " + pr.path + "\n")
			if body == "@" {
				b.WriteString("  Path\n  " + pr.typeRef + "\n")
			} else if body != "" {
				b.WriteString("  Path\n  " + body + "\n")
			}
			b.WriteString("  GET\n    200 any\n")
		} else {
			b.WriteString("GET " + pr.path + "\n")
			if body == "@" {
				b.WriteString("  Path\n  " + pr.typeRef + "\n")
			} else if body != "" {
				b.WriteString("  Path\n  " + body + "\n")
			}
			b.WriteString("  200 any\n")
		}
	}
	for _, t := range typeOrder {
		b.WriteString("TYPE " + t + "\n" + typeBodies[t] + "\n")
	}
	return b.String()
}

// expectedPathVars: for every interaction the (name, value) pairs its pathVariables must list, in path order.
func expectedPathVars(res []pathRes) map[string][][2]string {
	decl := map[string]string{} // prefix|name -> value
	for _, pr := range res {
		segs := strings.Split(strings.Trim(pr.path, "/"), "/")
		for i, sg := range segs {
			if strings.HasPrefix(sg, "{") {
				name := sg[1 : len(sg)-1]
				for _, d := range pr.decl {
					if d == name {
						decl[strings.Join(segs[:i+1], "/")+"|"+name] = pr.values[name]
					}
				}
			}
		}
	}
	out := map[string][][2]string{}
	for _, pr := range res {
		segs := strings.Split(strings.Trim(pr.path, "/"), "/")
		var vv [][2]string
		for i, sg := range segs {
			if strings.HasPrefix(sg, "{") {
				name := sg[1 : len(sg)-1]
				if v, ok := decl[strings.Join(segs[:i+1], "/")+"|"+name]; ok {
					vv = append(vv, [2]string{name, v})
				}
			}
		}
		out["http GET "+pr.path] = vv
	}
	return out
}

func c13Docs(ctx *Ctx, r *Rng) {
	n := ctx.Budget(1500, 100000)
	cases := 0
	var all [][]byte
	defer func() {
		bindCorrespondence(ctx, all, "path trees and their faulty variants")
	}()
	// hand-made trees whose paths have "." / ".." segments before a parameter: prefixes are TEXT, a resource whose cleaned
	// prefix equals another one's shares nothing with it
	dotTrees := [][]pathRes{
		{{path: "/cats/{id}", decl: []string{"id"}, values: map[string]string{"id": "1"}}, {path: "/cats/./{id}"}},
		{{path: "/cats/./{id}"}, {path: "/cats/{id}", decl: []string{"id"}, values: map[string]string{"id": "1"}}},
		{{path: "/cats/{id}", decl: []string{"id"}, values: map[string]string{"id": "1"}}, {path: "/cats/./{id}", decl: []string{"id"}, values: map[string]string{"id": "2"}}},
		{{path: "/{id}", decl: []string{"id"}, values: map[string]string{"id": "1"}}, {path: "/v1/../{id}/items/{item}", decl: []string{"item"}, values: map[string]string{"item": "3"}}},
		{{path: "/a/{x}", url: true, decl: []string{"x"}, values: map[string]string{"x": "4"}}, {path: "/b/../a/{x}", url: true}, {path: "/a/b/../{x}"}},
	}
	// three resources on one parametrised prefix — a deeper one, a sibling continuation, a path through the deeper one
	// again — in every order, each parameter declared by the first resource that mentions it
	{
		shop := []pathRes{
			{path: "/shops/{shopId}/items/{itemId}"}, {path: "/shops/{shopId}/staff/{staffId}"}, {path: "/shops/{shopId}/items/{itemId}/photos"},
			{path: "/shops/{shopId}"},
		}
		vals := map[string]string{"shopId": "1", "itemId": "2", "staffId": "3"}
		allPerms(len(shop), func(p []int) {
			var tree []pathRes
			seen := map[string]bool{}
			for _, k := range p {
				pr := pathRes{path: shop[k].path, url: k%2 == 0, values: map[string]string{}}
				for _, sg := range strings.Split(pr.path, "/") {
					if strings.HasPrefix(sg, "{") {
						nm := sg[1 : len(sg)-1]
						if !seen[nm] {
							seen[nm] = true
							pr.decl = append(pr.decl, nm)
							pr.values[nm] = vals[nm]
						}
					}
				}
				tree = append(tree, pr)
			}
			dotTrees = append(dotTrees, tree)
		})
	}
	for i := 0; i < n+len(dotTrees) && len(ctx.Violations) < 10; i++ {
		var res []pathRes
		var doc string
		if i < len(dotTrees) {
			res = dotTrees[i]
			for k := range res {
				if res[k].values == nil {
					res[k].values = map[string]string{}
				}
			}
			doc = renderPathTree(res, nil)
			ctx.Cov.Hit("path tree with dot segments")
		} else {
			res, doc = pathTreeDoc(r)
		}
		all = append(all, []byte(doc))
		run := RunProject(SingleFile([]byte(doc)), false)
		cases++
		ctx.Cov.Count([]byte(doc), strings.Contains(doc, "{"))
		in := projectInput(SingleFile([]byte(doc)))
		in["op"] = "doc"
		if i < 1 {
			ctx.Cov.Sample(map[string]any{"document": doc, "verdict": run.Verdict()})
		}
		if !run.Accepted() {
			ctx.Violate(Violation{Kind: "wrong-output", Site: "path variables", What: "a well-formed path tree is not accepted: " + run.Verdict(), Input: in, Signature: "pathtree-rejected:" + firstWords(run.Verdict(), 4)})
			continue
		}
		v, _, err := ParseOJSON(run.JSON)
		if err != nil {
			continue
		}
		for id, want := range expectedPathVars(res) {
			it := v.Path("interactions", id)
			var got [][2]string
			for _, c := range it.Path("pathVariables", "schema", "content", "children").Items() {
				got = append(got, [2]string{c.Get("key").Str(), c.Get("scalarValue").Str()})
			}
			if fmt.Sprint(got) != fmt.Sprint(want) {
				ctx.Violate(Violation{Kind: "wrong-output", Site: "path variables", What: fmt.Sprintf("%s: pathVariables %v, the document declares %v", id, got, want), Input: in, Observed: fmt.Sprint(got), Expected: fmt.Sprint(want), Signature: "pathvars-binding"})
				break
			}
		}
		// faulty variants: each must be rejected
		type fv struct {
			kind string
			doc  string
		}
		var faults []fv
		for k, pr := range res {
			if strings.Contains(pr.path, "{") {
				faults = append(faults, fv{"Path property matching no segment", renderPathTree(res, map[int]string{k: `{"nosuchparam": 1}`})})
				faults = append(faults, fv{"Path body that is not a flat object", renderPathTree(res, map[int]string{k: `[1, 2]`})})
				// a parameter declared twice for one prefix: another resource under the same prefix re-declares it
				segs := strings.Split(strings.Trim(pr.path, "/"), "/")
				for si, sg := range segs {
					if strings.HasPrefix(sg, "{") && len(pr.decl) > 0 && pr.decl[0] == sg[1:len(sg)-1] {
						prefix := "/" + strings.Join(segs[:si+1], "/")
						extra := []pathRes{
							{path: prefix + "/dup1", decl: []string{pr.decl[0]}, values: map[string]string{pr.decl[0]: "7"}},
							{path: prefix + "/dup2/{q}", decl: []string{pr.decl[0], "q"}, values: map[string]string{pr.decl[0]: "7", "q": "8"}},
						}
						for _, e := range extra {
							faults = append(faults, fv{"parameter declared twice for one prefix", renderPathTree(append(append([]pathRes{}, res...), e), nil)})
						}
						break
					}
				}
			}
		}
		for _, pr := range res {
			if pr.typeRef != "" && len(pr.decl) > 0 {
				// the type is in use by an earlier Path directive; a later one whose path has none of its properties
				extra := pathRes{path: "/zz9/{nosuch}", decl: pr.decl, values: pr.values, typeRef: pr.typeRef}
				faults = append(faults, fv{"Path property matching no segment", renderPathTree(append(append([]pathRes{}, res...), extra), nil)})
				break
			}
		}
		faults = append(faults, fv{"empty {} in a path", doc + "GET /e/{}\n  200 any\n"}, fv{"repeated {name} in one path", doc + "GET /r/{k}/s/{k}\n  200 any\n"})
		for _, f := range faults {
			if i%4 == 0 {
				all = append(all, []byte(f.doc))
			}
			fr := RunProject(SingleFile([]byte(f.doc)), false)
			cases++
			ctx.Cov.Hit("fault: " + f.kind)
			if fr.Accepted() {
				fin := projectInput(SingleFile([]byte(f.doc)))
				fin["op"] = "doc"
				ctx.Violate(Violation{Kind: "wrong-output", Site: "path variables", What: "a document with the fault '" + f.kind + "' is accepted", Input: fin, Observed: "accepted", Expected: "rejected", Signature: "pathfault-accepted:" + f.kind})
			}
		}
	}
	ctx.Cov.Component("path trees: binding of declared parameters and rejection of faulty variants (specification on the implementation)", cases, len(ctx.Violations), "")
}
