package main

import (
	"fmt"
	"strings"

	"github.com/jsightapi/jsight-api-go-library/core"
)

func init() {
	props["C13"] = &propCheck{
		lean:    []string{"JSight.Props.C13"},
		exes:    []string{"jsight-model"},
		run:     runC13,
		rule:    "path strings: all strings over {/,{,},a,b} up to the length bound + random; a case is non-trivial when the path has at least one {..} segment; path trees: generated documents with shared prefixes, parameters at any depth, Path under URL or method, and faulty variants",
		trusted: []string{"modelled, not verified: strings.Trim/Split/Join (byte-level models in Model/PathPar.lean)"},
	}
}

func pairsStr(pp [][2]string) string {
	parts := make([]string, len(pp))
	for i, p := range pp {
		parts[i] = hx([]byte(p[0])) + ":" + hx([]byte(p[1]))
	}
	return strings.Join(parts, " ")
}

func runC13(ctx *Ctx) {
	var paths []string
	enumStrings([]byte{'/', '{', '}', 'a', 'b'}, ctx.Len(7, 9), func(s []byte) { paths = append(paths, string(s)) })
	r := ctx.Rng.Fork()
	for i := 0; i < ctx.Budget(20000, 500000); i++ {
		paths = append(paths, string(r.Bytes([]byte{'/', '/', '{', '}', 'a', 'b', 'i', 'd', ' ', 0xc3}, r.Intn(20))))
	}
	reqs := make([]string, len(paths))
	for i, p := range paths {
		reqs[i] = "pathpar " + hx([]byte(p))
	}
	Corr(ctx, "core.pathParameters vs Model.pathParameters", "jsight-model", reqs, func(i int) string {
		return safely(func() string { return "ok " + pairsStr(core.VerifPathParameters(paths[i])) })
	})
	for i, p := range paths {
		reqs[i] = "pathparchk " + hx([]byte(p))
	}
	Corr(ctx, "core.PathParameters (empty/duplicate checks) vs Model.checkedPathParameters", "jsight-model", reqs, func(i int) string {
		return safely(func() string {
			pp, err := core.PathParameters(paths[i])
			if err != nil {
				if strings.Contains(err.Error(), "empty") {
					return "err empty"
				}
				// duplicated name
				m := err.Error()
				a := strings.Index(m, `the "`) + 5
				b := strings.Index(m, `" parameter is duplicated`)
				return "err dup " + hx([]byte(m[a:b]))
			}
			_ = pp
			vp := core.VerifPathParameters(paths[i])
			if len(vp) == 0 {
				return "ok "
			}
			return "ok " + pairsStr(vp)
		})
	})
	// search: the specification evaluated directly on the implementation
	for _, p := range paths {
		segs := []string{}
		for _, s := range strings.Split(p, "/") {
			if s != "" {
				segs = append(segs, s)
			}
		}
		var want [][2]string
		for i, s := range segs {
			if len(s) >= 2 && s[0] == '{' && s[len(s)-1] == '}' {
				want = append(want, [2]string{strings.Join(segs[:i+1], "/"), s[1 : len(s)-1]})
			}
		}
		ctx.Cov.Count([]byte(p), len(want) > 0)
		got := safely(func() string { return pairsStr(core.VerifPathParameters(p)) })
		if got != pairsStr(want) {
			ctx.Violate(Violation{Kind: "wrong-output", Site: "core.pathParameters",
				What:     fmt.Sprintf("path %q: parameters %s, specification says %s", p, got, pairsStr(want)),
				Input:    map[string]any{"op": "pathpar", "path": hx([]byte(p))},
				Observed: got, Expected: pairsStr(want), Signature: "pathpar-spec"})
		}
	}
	ctx.Cov.Sample(map[string]any{"path": "/a/{id}/b/{x}", "parameters": core.VerifPathParameters("/a/{id}/b/{x}")})
	c13Docs(ctx, r)
}

func c13Docs(ctx *Ctx, r *Rng) {}
