package main

import (
	"bytes"
	"fmt"
	"strings"
)

func init() {
	props["C11"] = &propCheck{
		lean:    []string{"JSight.Props.C11", "JSight.Props.C11_Enum", "JSight.Props.C02_Located", "JSight.Props.C04_Build", "JSight.Props.C04_Content", "JSight.Props.C07", "JSight.Props.C13", "JSight.Props.C13_Bind", "JSight.Props.C19_Build"},
		exes:    []string{"jsight-build"},
		run:     runC11,
		assume:  []string{"references inside schema bodies (undefined type / enum) are resolved by the schema library (oracle); duplicates, second singletons, missing required parameters and undeclared tags are theorems of the catalog model (C04_Build group B), macro faults of C07, path-parameter faults of C13/C13_Bind"},
		rule:    "generated accepted documents x fault kinds (duplicate type/enum/server/tag/macro, same method on the same path, same URL path, paths differing only in a parameter name, second singleton child, missing required parameter, undefined type/enum/macro/tag) x every position where the fault can be injected; non-trivial = the fault is injected >= 1 directive away from the start; distinct = distinct faulty document",
		trusted: []string{"the harness-side renderer and the line-level fault injectors"},
	}
}

type fault struct {
	kind string
	doc  []string // lines
	lo   int      // 1-based line range in which the diagnostic must lie
	hi   int
}

func indentOf(l string) int { return len(l) - len(strings.TrimLeft(l, " ")) }

// blockEnd: index just after the lines that belong to the directive at line i (deeper-indented lines and
// its body lines which, in the plain style, are at the same indentation but start with a body character).
func blockEnd(lines []string, i int) int {
	ind := indentOf(lines[i])
	j := i + 1
	for j < len(lines) {
		l := lines[j]
		if strings.TrimSpace(l) == "" {
			j++
			continue
		}
		in := indentOf(l)
		t := strings.TrimSpace(l)
		isBody := in == ind && (t[0] == '{' || t[0] == '}' || t[0] == '"' || t[0] == '[' || t[0] == '/')
		if in > ind || isBody {
			j++
			continue
		}
		break
	}
	return j
}

func insertAt(lines []string, at int, more []string) []string {
	out := append([]string(nil), lines[:at]...)
	out = append(out, more...)
	return append(out, lines[at:]...)
}

func keywordOf(l string) string {
	f := strings.Fields(l)
	if len(f) == 0 {
		return ""
	}
	return f[0]
}

// injectFaults lists single-fault variants of a plain-style document.
func injectFaults(lines []string, r *Rng) []fault {
	var out []fault
	singletons := map[string]bool{"Title": true, "Version": true, "Description": true, "Query": true, "Protocol": true, "Headers": true, "Body": true, "BaseUrl": true, "Request": true}
	namedTop := map[string]string{"TYPE": "duplicate type", "ENUM": "duplicate enum", "SERVER": "duplicate server", "TAG": "duplicate tag"}
	for i, l := range lines {
		kw := keywordOf(l)
		end := blockEnd(lines, i)
		blk := lines[i:end]
		switch {
		case singletons[kw]:
			// a second copy right after the first
			d := insertAt(lines, end, blk)
			out = append(out, fault{"second " + kw, d, end + 1, end + len(blk)})
			if kw == "Title" || kw == "Version" || kw == "BaseUrl" {
				// the required parameter written as an empty quoted string: alone, and in front of the real one
				empty := strings.Repeat(" ", indentOf(l)) + kw + ` ""`
				nl := append([]string(nil), lines...)
				nl[i] = empty
				out = append(out, fault{"empty required parameter of " + kw, nl, i + 1, i + 1})
				d2 := insertAt(lines, i, []string{empty})
				out = append(out, fault{"second " + kw + " after one with an empty value", d2, i + 1, i + 2})
			}
		case namedTop[kw] != "" && indentOf(l) == 0:
			// a second declaration with the same name at the end of the document
			d := insertAt(lines, len(lines), blk)
			out = append(out, fault{namedTop[kw], d, len(lines) + 1, len(lines) + len(blk)})
			// the declaration without its name
			f := strings.Fields(l)
			if len(f) >= 2 && strings.Count(strings.Join(lines, "\n"), f[1]) == 1 { // not referenced elsewhere: exactly one fault
				nl := append([]string(nil), lines...)
				nl[i] = strings.Replace(l, " "+f[1], "", 1)
				out = append(out, fault{"missing name of " + kw, nl, i + 1, end})
			}
		case kw == "URL" && indentOf(l) == 0:
			d := insertAt(lines, len(lines), blk)
			out = append(out, fault{"same URL path twice", d, len(lines) + 1, len(lines) + len(blk)})
		case (kw == "GET" || kw == "POST" || kw == "PUT" || kw == "PATCH" || kw == "DELETE"):
			if indentOf(l) == 0 {
				d := insertAt(lines, len(lines), blk)
				out = append(out, fault{"same method on the same path twice", d, len(lines) + 1, len(lines) + len(blk)})
				// a path that differs only in a parameter name
				f := strings.Fields(l)
				if len(f) >= 2 && strings.HasPrefix(f[1], "/") {
					a := []string{"GET " + f[1] + "/{pa}", "  200 any"}
					b := []string{"GET " + f[1] + "/{pb}", "  200 any"}
					d := insertAt(insertAt(lines, len(lines), a), len(lines)+2, b)
					out = append(out, fault{"paths differing only in a parameter name", d, len(lines) + 3, len(lines) + 4})
					// the same with the parameter as the first segment, and through a URL block
					a = []string{"GET /{ra}/x", "  200 any"}
					b = []string{"URL /{rb}/y", "  POST", "    200 any"}
					d = insertAt(insertAt(lines, len(lines), a), len(lines)+2, b)
					out = append(out, fault{"paths differing only in the name of a leading parameter", d, len(lines) + 3, len(lines) + 5})
				}
			} else {
				d := insertAt(lines, end, blk)
				out = append(out, fault{"same method on the same path twice", d, end + 1, end + len(blk)})
			}
		case kw == "Tags":
			nl := append([]string(nil), lines...)
			nl[i] = l + " @undefinedTag"
			out = append(out, fault{"undefined tag", nl, i + 1, i + 1})
		case kw == "Method":
			nl := append([]string(nil), lines...)
			nl[i] = strings.Repeat(" ", indentOf(l)) + "Method"
			out = append(out, fault{"missing name of Method", nl, i + 1, end})
		}
		// undefined type / enum references inside bodies
		if strings.Contains(l, "@type") && !strings.HasPrefix(strings.TrimSpace(l), "TYPE") {
			nl := append([]string(nil), lines...)
			k := strings.Index(l, "@type")
			nl[i] = l[:k] + "@undefinedType" + strings.TrimLeft(l[k+5:], "0123456789")
			// the diagnostic must lie in the directive that owns this line: walk back to its keyword line
			lo := i
			for lo > 0 && (strings.TrimSpace(lines[lo]) == "" || strings.ContainsAny(strings.TrimSpace(lines[lo])[:1], "{}\"[")) {
				lo--
			}
			out = append(out, fault{"undefined type", nl, lo + 1, blockEnd(lines, lo)})
		}
		if strings.Contains(l, "{enum: @enum") {
			nl := append([]string(nil), lines...)
			k := strings.Index(l, "{enum: @enum")
			rest := strings.TrimLeft(l[k+12:], "0123456789")
			nl[i] = l[:k] + "{enum: @undefinedEnum" + rest
			lo := i
			for lo > 0 && (strings.TrimSpace(lines[lo]) == "" || strings.ContainsAny(strings.TrimSpace(lines[lo])[:1], "{}\"[")) {
				lo--
			}
			out = append(out, fault{"undefined enum", nl, lo + 1, blockEnd(lines, lo)})
		}
	}
	// undefined macro, duplicate macro (documents have no macros of their own: add a pair)
	out = append(out, fault{"undefined macro", insertAt(lines, len(lines), []string{"PASTE @undefinedMacro"}), len(lines) + 1, len(lines) + 1})
	mac := []string{"MACRO @dupMacro", "(", "  TYPE @fromMacro" + fmt.Sprint(r.Intn(1000)), "  {}", ")"}
	d := insertAt(insertAt(lines, len(lines), mac), len(lines)+5, []string{"MACRO @dupMacro", "(", "  TYPE @fromMacroB", "  {}", ")"})
	out = append(out, fault{"duplicate macro", d, len(lines) + 6, len(lines) + 10})
	return out
}

func runC11(ctx *Ctx) {
	r := ctx.Rng.Fork()
	buildCorrSuite(ctx, r.Fork(), ctx.Budget(300, 20000))
	regCorrespondence(ctx, r, ctx.Budget(3000, 100000))
	n := ctx.Budget(150, 8000)
	for i := 0; i < n && len(ctx.Violations) < 15; i++ {
		m := GenModel(r)
		base, _ := m.Render(PlainStyle(), true)
		if !RunProject(SingleFile(base), false).Accepted() {
			continue
		}
		lines := strings.Split(strings.TrimRight(string(base), "\n"), "\n")
		for _, f := range injectFaults(lines, r) {
			doc := []byte(strings.Join(f.doc, "\n") + "\n")
			ctx.Cov.Count(doc, f.lo > 2)
			ctx.Cov.Hit("fault: " + f.kind)
			res := RunProject(SingleFile(doc), false)
			in := projectInput(SingleFile(doc))
			in["op"] = "fault"
			in["fault"] = f.kind
			if len(ctx.Cov.Samples) < 2 && f.kind == "second Title" {
				ctx.Cov.Sample(map[string]any{"fault": f.kind, "document": string(doc), "verdict": res.Verdict()})
			}
			if res.Panic != "" {
				ctx.Cov.Hit("panic (C01 matter)")
				continue
			}
			if res.Err == nil {
				ctx.Violate(Violation{Kind: "wrong-output", Site: "static checks", What: fmt.Sprintf("a document with the fault %q (lines %d-%d) is accepted", f.kind, f.lo, f.hi),
					Input: in, Observed: "accepted", Expected: "rejected", Signature: "fault-accepted:" + f.kind})
				continue
			}
			if int(res.Err.Line) < f.lo || int(res.Err.Line) > f.hi {
				ctx.Violate(Violation{Kind: "wrong-output", Site: "static checks",
					What:  fmt.Sprintf("fault %q injected at lines %d-%d is reported at line %d (%s)", f.kind, f.lo, f.hi, res.Err.Line, res.Err.Msg),
					Input: in, Observed: res.Err.Line, Expected: fmt.Sprintf("%d-%d", f.lo, f.hi), Signature: "fault-location:" + f.kind})
			}
		}
	}
	// a second Request directive of one method, whatever the two hold
	for i := 0; i < ctx.Budget(150, 5000) && len(ctx.Violations) < 15; i++ {
		doc := twoRequestsDoc(r)
		two := bytes.Count(doc, []byte("  Request")) == 2
		res := RunProject(SingleFile(doc), false)
		ctx.Cov.Count(doc, two)
		if res.Panic != "" {
			continue
		}
		if two {
			ctx.Cov.Hit("fault: second Request")
		}
		if two && res.Err == nil {
			in := projectInput(SingleFile(doc))
			in["op"] = "fault"
			ctx.Violate(Violation{Kind: "wrong-output", Site: "static checks", What: "a method with two Request directives is accepted", Input: in,
				Observed: "accepted", Expected: "rejected", Signature: "fault-accepted:second Request"})
		}
	}
	// a second Path directive in one context, whatever stands between the two (nothing, childless siblings, siblings with
	// children of their own), under a method, under a URL, and brought in by a PASTE; with a control holding one Path
	{
		between := []string{"", "  200 any\n", "  200\n    Body any\n", "  Request\n    Headers\n    {\"h\": 1}\n    Body any\n", "  Query\n  {\"q\": 1}\n",
			"  Description\n  (\n    text\n  )\n", "  200\n    Body any\n  404\n    Headers\n    {\"h\": 2}\n    Body any\n"}
		for _, host := range []string{"method", "url"} {
			for _, btw := range between {
				for _, second := range []bool{true, false} {
					var doc string
					p2 := ""
					if second {
						p2 = "  Path\n  {\"toy\": 2}\n"
					}
					if host == "method" {
						doc = "JSIGHT 0.3\nGET /cats/{id}/toys/{toy}\n  Path\n  {\"id\": 1}\n" + btw + p2 + "  200 any\n"
					} else {
						// the method between the two Path directives is closed by a parenthesis: what follows belongs to the URL
						inner := ""
						for _, l := range strings.Split(strings.TrimRight(btw, "\n"), "\n") {
							if l != "" {
								inner += "  " + l + "\n"
							}
						}
						if inner == "" || strings.Contains(btw, "Query") || strings.Contains(btw, "Description") || strings.Contains(btw, "Request") {
							inner += "    200 any\n"
						}
						doc = "JSIGHT 0.3\nURL /cats/{id}/toys/{toy}\n(\n  Path\n  {\"id\": 1}\n  GET\n  (\n" + inner + "  )\n" + p2 + "  POST\n    200 any\n)\n"
					}
					res := RunProject(SingleFile([]byte(doc)), false)
					ctx.Cov.Count([]byte(doc), true)
					if res.Panic != "" {
						continue
					}
					in := projectInput(SingleFile([]byte(doc)))
					in["op"] = "fault"
					if second {
						ctx.Cov.Hit("fault: second Path")
						if res.Err == nil {
							ctx.Violate(Violation{Kind: "wrong-output", Site: "static checks", What: "a second Path directive in one " + host + " context is accepted", Input: in,
								Observed: "accepted", Expected: "rejected", Signature: "fault-accepted:second Path"})
						}
					} else if res.Err != nil {
						ctx.Violate(Violation{Kind: "wrong-output", Site: "static checks", What: "the control document with ONE Path directive is rejected: " + res.Verdict(), Input: in, Signature: "second-path-control-rejected"})
					}
				}
			}
		}
	}
	// the same URL path twice, in every spelling of a path (trailing slash, doubled slash, parameters, the root), the two
	// URL blocks holding different methods (so that only the path check can refuse); control: two different paths
	{
		paths := []string{"/cats", "/cats/", "/api/v1/cats/", "/cats/{id}", "/cats/{id}/", "/api//cats", "/", "/cats//", "/a.b/c-d/", "/cats/{id}//toys"}
		inners := [][2]string{{"  GET\n    200 any\n", "  POST\n    200 any\n"}, {"  GET\n    200 any\n", "  Protocol json-rpc-2.0\n  Method foo\n    Params\n    {}\n"},
			{"  Protocol json-rpc-2.0\n  Method foo\n    Params\n    {}\n", "  Protocol json-rpc-2.0\n  Method bar\n    Params\n    {}\n"}, {"  PUT\n    200 any\n", ""}}
		for _, p := range paths {
			for _, in2 := range inners {
				for _, mid := range []string{"", "TYPE @t\n{}\n", "URL /other\n  DELETE\n    200 any\n"} {
					for _, same := range []bool{true, false} {
						q := p
						if !same {
							q = "/dogs" + p
						}
						doc := "JSIGHT 0.3\nURL " + p + "\n" + in2[0] + mid + "URL " + q + "\n" + in2[1]
						res := RunProject(SingleFile([]byte(doc)), false)
						ctx.Cov.Count([]byte(doc), true)
						if res.Panic != "" {
							continue
						}
						in := projectInput(SingleFile([]byte(doc)))
						in["op"] = "fault"
						secondLine := 1 + strings.Count(doc[:strings.LastIndex(doc, "URL "+q)], "\n")
						if same {
							ctx.Cov.Hit("fault: same URL path twice (path spellings)")
							if res.Err == nil {
								ctx.Violate(Violation{Kind: "wrong-output", Site: "static checks", What: fmt.Sprintf("two URL directives with the same path %q are accepted", p), Input: in,
									Observed: "accepted", Expected: "rejected", Signature: "fault-accepted:same URL path twice"})
							} else if int(res.Err.Line) != secondLine {
								ctx.Violate(Violation{Kind: "wrong-output", Site: "static checks", What: fmt.Sprintf("the second URL directive of the path %q stands on line %d, the rejection points at line %d (%s)", p, secondLine, res.Err.Line, res.Err.Msg), Input: in,
									Observed: res.Err.Line, Expected: secondLine, Signature: "fault-location:same URL path twice"})
							}
						} else if res.Err != nil {
							ctx.Violate(Violation{Kind: "wrong-output", Site: "static checks", What: "the control document with two DIFFERENT URL paths is rejected: " + res.Verdict(), Input: in, Signature: "same-url-control-rejected"})
						}
					}
				}
			}
		}
	}
	ctx.Cov.Component("single injected fault => rejection located at the offending directive (specification on the implementation)", ctx.Cov.Evaluations, len(ctx.Violations), "")
}
