package main

import (
	"encoding/json"
	"flag"
	"fmt"
	"os"
	"path/filepath"
	"sort"
	"strconv"
	"strings"
	"time"
)

func verifDir() string {
	if d := os.Getenv("VERIF_DIR"); d != "" {
		return d
	}
	return "/verif"
}

func repoDir() string {
	if d := os.Getenv("REPO_DIR"); d != "" {
		return d
	}
	return "/repo"
}

// Violation is something a check found that breaks (or no longer shows) the property.
type Violation struct {
	Kind       string         `json:"kind"` // crash, wrong-output, correspondence, obligation, ...
	Site       string         `json:"site,omitempty"`
	What       string         `json:"what"`
	Input      map[string]any `json:"input,omitempty"`
	Observed   any            `json:"observed,omitempty"`
	Expected   any            `json:"expected,omitempty"`
	Obligation string         `json:"obligation,omitempty"`
	NoInput    bool           `json:"no_failing_input_found"`
	Signature  string         `json:"signature,omitempty"` // for matching known findings
	// shrink, when set, reduces the failing input (delta debugging with the violation's own oracle); it is run only for the
	// violation that gets reported
	shrink func() map[string]any
}

// Ctx is the state of one run of one property's check.
type Ctx struct {
	Prop       string
	Tier       string
	Seed       uint64
	Rng        *Rng
	Cov        *Cover
	Violations []Violation
	Broken     []string // broken obligations / correspondences (names)
	Assume     []string
	Trusted    []string
	models     map[string]*ModelProc
	start      time.Time
	Wide       bool // widen the search (an obligation or correspondence broke)
}

func (c *Ctx) Thorough() bool { return c.Tier == "thorough" }

// Budget scales a quick count for the tier (and for the widened search).
func (c *Ctx) Budget(quick, thorough int) int {
	n := quick
	if c.Thorough() {
		n = thorough
	}
	if c.Wide && !c.Thorough() {
		n *= 4
	}
	return n
}

// Len picks a length/depth bound for the tier; a widened quick search goes one deeper, never multiplied.
func (c *Ctx) Len(quick, thorough int) int {
	if c.Thorough() {
		return thorough
	}
	if c.Wide && quick < thorough {
		return quick + 1
	}
	return quick
}

func (c *Ctx) Model(exe string) (*ModelProc, error) {
	if m, ok := c.models[exe]; ok {
		return m, nil
	}
	m, err := StartModel(exe)
	if err != nil {
		return nil, err
	}
	c.models[exe] = m
	return m, nil
}

func (c *Ctx) Violate(v Violation) {
	// at most 2 witnesses per signature, so that a frequent (possibly known) finding cannot crowd out others
	n := 0
	for _, x := range c.Violations {
		if x.Signature == v.Signature && x.Kind == v.Kind {
			n++
		}
	}
	if n < 2 && len(c.Violations) < 300 {
		c.Violations = append(c.Violations, v)
	}
}

func (c *Ctx) Break(name string) { c.Broken = append(c.Broken, name) }

type propCheck struct {
	lean    []string // lake targets holding the obligations
	exes    []string // model executables needed
	run     func(*Ctx)
	replay  func(*Ctx, map[string]any) // re-run one recorded input
	assume  []string
	trusted []string
	rule    string
}

var props = map[string]*propCheck{}

func main() {
	if len(os.Args) < 2 {
		fmt.Fprintln(os.Stderr, "usage: jsv check <Cxx> [--tier quick|thorough] [--replay file] | jsv worker | jsv setup")
		os.Exit(2)
	}
	switch os.Args[1] {
	case "cases":
		// every stated case on the implementation as it is now: "<property> <id> pass|FAIL <what fails>"
		for _, pr := range []string{"C01", "C02", "C04", "C05", "C07", "C08", "C10", "C11", "C12", "C13", "C15", "C17", "C19", "C20"} {
			ctx := &Ctx{Prop: pr, Tier: "quick", Seed: 1, Rng: NewRng(1), Cov: NewCover(), models: map[string]*ModelProc{}, start: time.Now()}
			runStatedCases(ctx)
			failed := map[string]string{}
			for _, v := range ctx.Violations {
				failed[strings.TrimPrefix(v.Signature, "case:")] = v.What
			}
			for _, c := range statedCases {
				if c.prop != pr {
					continue
				}
				if w, ok := failed[c.id]; ok {
					fmt.Printf("%s %s FAIL %s\n", pr, c.id, trunc(w, 300))
				} else {
					fmt.Printf("%s %s pass\n", pr, c.id)
				}
			}
		}
		return
	case "worker":
		workerMain()
	case "setup":
		os.Exit(setupMain())
	case "ctx":
		tt := parseCToks(os.Args[2])
		content, _ := renderCToks(tt)
		fmt.Println(string(content))
		r := runCtx(tt)
		fmt.Printf("scan: %s\npaste: %s\n", r.Scan, r.Paste)
		res := RunProject(SingleFile(content), false)
		fmt.Println(res.Verdict())
	case "conc":
		b, _ := os.ReadFile(os.Args[2])
		other, _ := os.ReadFile(os.Args[3])
		first := RunProject(SingleFile(b), false)
		for round := 0; round < 200; round++ {
			ch := make(chan RunResult, 8)
			for k := 0; k < 8; k++ {
				go func(k int) {
					if k%2 == 1 {
						RunProject(SingleFile(other), false)
					}
					ch <- RunProject(SingleFile(b), false)
				}(k)
			}
			for k := 0; k < 8; k++ {
				r := <-ch
				if r.Verdict() != first.Verdict() || string(r.JSON) != string(first.JSON) {
					fmt.Println("DIFF in round", round, r.Verdict())
					fmt.Println(firstDiff(first.JSON, r.JSON))
					os.Exit(1)
				}
			}
		}
		fmt.Println("no difference")
	case "lex":
		b, _ := os.ReadFile(os.Args[2])
		lexs, tail := ScanAll(b)
		fmt.Println(lexStr(lexs, tail))
		for _, l := range lexs {
			if l.Ty == 'S' || l.Ty == 'E' {
				fmt.Printf("  lib at %d: %s\n", l.B, LibLen(b, int(l.B), l.Ty == 'E'))
			}
		}
	case "run":
		os.Exit(runFileMain(os.Args[2], len(os.Args) > 3))
	case "build":
		b, _ := os.ReadFile(os.Args[2])
		bc := buildCaseOf(b, nil)
		fmt.Println("proto:", bc.Proto)
		fmt.Println("skip:", bc.Skip)
		fmt.Println("real:", bc.Real, bc.ErrAt)
		if bc.Skip == "" {
			m, err := StartModel("jsight-build")
			if err != nil {
				fmt.Println(err)
				os.Exit(2)
			}
			out, err := m.Batch([]string{bc.Proto})
			fmt.Println("model:", out, err)
			if len(out) == 1 {
				fmt.Println("compare:", compareBuild(bc, out[0]))
			}
		}
	case "check":
		fsf := flag.NewFlagSet("check", flag.ExitOnError)
		tier := fsf.String("tier", envOr("VERIF_TIER", "quick"), "quick|thorough")
		replay := fsf.String("replay", "", "replay file")
		if len(os.Args) < 3 {
			fmt.Fprintln(os.Stderr, "missing property id")
			os.Exit(2)
		}
		prop := os.Args[2]
		_ = fsf.Parse(os.Args[3:])
		seed := uint64(1)
		if s := os.Getenv("VERIF_SEED"); s != "" {
			if v, err := strconv.ParseInt(s, 10, 64); err == nil {
				seed = uint64(v)
			}
		}
		os.Exit(checkMain(prop, *tier, seed, *replay))
	default:
		fmt.Fprintln(os.Stderr, "unknown command", os.Args[1])
		os.Exit(2)
	}
}

func envOr(k, d string) string {
	if v := os.Getenv(k); v != "" {
		return v
	}
	return d
}

func checkMain(prop, tier string, seed uint64, replayFile string) int {
	pc, ok := props[prop]
	if !ok {
		fmt.Fprintf(os.Stderr, "unknown property %s\n", prop)
		return 2
	}
	ctx := &Ctx{Prop: prop, Tier: tier, Seed: seed, Rng: NewRng(seed), Cov: NewCover(),
		models: map[string]*ModelProc{}, start: time.Now()}
	ctx.Assume = append(ctx.Assume, pc.assume...)
	ctx.Trusted = append([]string{
		"Lean 4.33.0 kernel; axioms allowed: propext, Classical.choice, Quot.sound (audited with #print axioms on every property theorem)",
		"tools/extract (Go->Lean table/fact extractor) and the jsv correspondence harness with its canonicalisation",
	}, pc.trusted...)
	ctx.Cov.Rule = pc.rule
	startWatchdog(ctx)
	defer func() {
		for _, m := range ctx.models {
			m.Close()
		}
	}()

	if replayFile != "" {
		return replayMain(ctx, pc, replayFile)
	}

	// 1-3: extract, prove, audit
	obligations(ctx, pc)

	// model executables
	exesOK := true
	for _, e := range pc.exes {
		if _, err := os.Stat(filepath.Join(verifDir(), "lean", ".lake", "build", "bin", e)); err != nil {
			exesOK = false
			ctx.Break("model executable " + e + " does not build against the regenerated tables")
		}
	}
	_ = exesOK
	if len(ctx.Broken) > 0 {
		ctx.Wide = true
	}

	// 4-6: correspondence + search
	runGuarded(ctx, pc)

	return verdict(ctx)
}

func runGuarded(ctx *Ctx, pc *propCheck) {
	defer func() {
		if r := recover(); r != nil {
			ctx.Break(fmt.Sprintf("harness panic: %v", r))
		}
	}()
	pc.run(ctx)
	runStatedCases(ctx)
}

// verdict matches violations against the known findings, writes replay files
// and evidence, prints the result lines and returns the exit code.
func verdict(ctx *Ctx) int {
	kfs := loadKnownFindings()
	var kfLines []string
	seenKF := map[string]bool{}
	var real []Violation
	for _, v := range ctx.Violations {
		if k := matchKnown(kfs, ctx.Prop, v); k != nil {
			if !seenKF[k.ID] {
				seenKF[k.ID] = true
				kfLines = append(kfLines, fmt.Sprintf("KNOWN-FINDING: property=%s %s (%s)", ctx.Prop, k.What, k.ID))
			}
			continue
		}
		real = append(real, v)
	}
	sort.Strings(kfLines)
	for _, l := range kfLines {
		fmt.Println(l)
	}
	code := 0
	nviol := 0
	if len(real) > 0 {
		if real[0].shrink != nil {
			if in := real[0].shrink(); in != nil {
				real[0].Input = in
			}
		}
		v := real[0]
		path := writeReplay(ctx, v, real)
		fmt.Printf("VIOLATION property=%s replay=%s\n", ctx.Prop, path)
		fmt.Fprintf(os.Stderr, "  what: %s\n", v.What)
		code = 1
		nviol = len(real)
	} else if len(ctx.Broken) > 0 {
		v := Violation{Kind: "obligation", What: "an obligation or correspondence no longer checks; the search found no failing input",
			Obligation: strings.Join(ctx.Broken, "; "), NoInput: true}
		path := writeReplay(ctx, v, nil)
		fmt.Printf("VIOLATION property=%s replay=%s no-failing-input-found\n", ctx.Prop, path)
		for _, b := range ctx.Broken {
			fmt.Fprintf(os.Stderr, "  broken: %s\n", b)
		}
		code = 1
		nviol = 1
	}
	if err := writeEvidence(ctx.Prop, ctx.Tier, ctx.Seed, ctx.Cov, ctx.Assume, ctx.Trusted, ctx.start, nviol, kfLines); err != nil {
		fmt.Fprintln(os.Stderr, "evidence:", err)
		return 2
	}
	if code == 0 {
		fmt.Printf("OK property=%s tier=%s obligations=%d/%d evaluations=%d distinct_nontrivial=%d wall=%.1fs\n",
			ctx.Prop, ctx.Tier, ctx.Cov.Discharged, ctx.Cov.Obligations, ctx.Cov.Evaluations, len(ctx.Cov.distinct), time.Since(ctx.start).Seconds())
	}
	return code
}

func writeReplay(ctx *Ctx, v Violation, all []Violation) string {
	dir := filepath.Join(verifDir(), "replays")
	_ = os.MkdirAll(dir, 0o755)
	name := fmt.Sprintf("%s-%s-%d.json", ctx.Prop, ctx.Tier, ctx.Seed)
	m := map[string]any{
		"property": ctx.Prop, "tier": ctx.Tier, "seed": ctx.Seed,
		"violation": v,
		"how":       fmt.Sprintf("./check %s --replay replays/%s", ctx.Prop, name),
	}
	if len(all) > 1 {
		m["other_violations"] = all[1:]
	}
	if len(ctx.Broken) > 0 {
		m["broken_obligations"] = ctx.Broken
	}
	b, _ := json.MarshalIndent(m, "", " ")
	p := filepath.Join(dir, name)
	_ = os.WriteFile(p, append(b, '\n'), 0o644)
	return "replays/" + name
}

func replayMain(ctx *Ctx, pc *propCheck, file string) int {
	b, err := os.ReadFile(file)
	if err != nil {
		b, err = os.ReadFile(filepath.Join(verifDir(), file))
	}
	if err != nil {
		fmt.Fprintln(os.Stderr, err)
		return 2
	}
	var m struct {
		Violation Violation `json:"violation"`
	}
	if err := json.Unmarshal(b, &m); err != nil {
		fmt.Fprintln(os.Stderr, err)
		return 2
	}
	if m.Violation.NoInput || m.Violation.Input == nil {
		fmt.Printf("replay: no failing input was recorded; broken obligation: %s\n", m.Violation.Obligation)
		return 1
	}
	if pc.replay == nil {
		return genericReplay(m.Violation)
	}
	pc.replay(ctx, m.Violation.Input)
	if len(ctx.Violations) > 0 {
		v := ctx.Violations[0]
		ob, _ := json.Marshal(v.Observed)
		ex, _ := json.Marshal(v.Expected)
		fmt.Printf("replay: still fails: %s\n observed: %s\n expected: %s\n", v.What, ob, ex)
		return 1
	}
	fmt.Println("replay: the recorded input no longer fails")
	return 0
}

// watchdog: an in-process call into the library that does not return is
// reported with the current input instead of hanging the check.
func startWatchdog(ctx *Ctx) {
	limit := 40 * time.Minute
	if ctx.Thorough() {
		limit = 6 * time.Hour
	}
	go func() {
		var last *Project
		var since time.Time
		t0 := time.Now()
		for {
			time.Sleep(500 * time.Millisecond)
			ci := curInput
			if ci != nil && ci == last {
				if time.Since(since) > 20*time.Second {
					ctx.Violate(Violation{Kind: "hang", What: "an in-process call into the library did not return within 20 s",
						Input: projectInput(*ci), Signature: "hang"})
					os.Exit(verdict(ctx))
				}
			} else {
				last = ci
				since = time.Now()
			}
			if time.Since(t0) > limit {
				ctx.Break("check exceeded its wall-clock limit")
				os.Exit(verdict(ctx))
			}
		}
	}()
}

func projectInput(p Project) map[string]any {
	files := map[string]any{}
	for k, v := range p.Files {
		files[k] = hx(v)
	}
	m := map[string]any{"files": files, "root": p.Root}
	if len(p.Banned) > 0 {
		var bb []string
		for _, b := range p.Banned {
			bb = append(bb, b.String())
		}
		m["banned"] = bb
	}
	// human-readable rendering of the root file
	m["root_text"] = string(p.Files[p.Root])
	return m
}

// genericReplay re-runs the recorded input on the implementation as it is now and prints the outcome next to
// what was recorded (the property-specific oracle is not re-evaluated; the check itself does that).
func genericReplay(v Violation) int {
	fmt.Println("recorded violation:", v.What)
	in := v.Input
	if files, ok := in["files"].(map[string]any); ok {
		p := Project{Files: map[string][]byte{}}
		for k, x := range files {
			p.Files[k] = unhx(fmt.Sprint(x))
		}
		p.Root, _ = in["root"].(string)
		if bb, ok := in["banned"].([]any); ok {
			for _, b := range bb {
				for k := 0; k < 30; k++ {
					if directiveName(k) == fmt.Sprint(b) {
						p.Banned = append(p.Banned, directiveOf(k))
					}
				}
			}
		}
		res := RunProject(p, false)
		fmt.Println("implementation now:", res.Verdict())
		if res.Err != nil {
			fmt.Printf("  at %s index %d line %d quote %q trace %v\n", res.Err.File, res.Err.Index, res.Err.Line, res.Err.Quote, res.Err.Trace)
		}
		if res.JSON != nil {
			fmt.Println("  json:", trunc(string(res.JSON), 1500))
		}
		if v.Expected != nil {
			fmt.Printf("expected: %v\n", v.Expected)
		}
		return 1
	}
	if toks, ok := in["tokens"].(string); ok {
		r := runCtx(parseCToks(toks))
		fmt.Printf("implementation now: scan=%s paste=%s panic=%s\n", r.Scan, r.Paste, r.Panic)
		fmt.Printf("recorded: observed=%v expected=%v\n", v.Observed, v.Expected)
		return 1
	}
	b, _ := json.MarshalIndent(v, "", " ")
	fmt.Println(string(b))
	return 1
}
