package main

import (
	"runtime"
	"sync"
)

// parallelFor runs f(i) for i in [0,n) on all cores (f must only write to its own slots).
func parallelFor(n int, f func(i int)) {
	w := runtime.NumCPU()
	if w > n {
		w = n
	}
	if w < 1 {
		w = 1
	}
	var wg sync.WaitGroup
	chunk := (n + w - 1) / w
	for k := 0; k < w; k++ {
		lo, hi := k*chunk, (k+1)*chunk
		if hi > n {
			hi = n
		}
		if lo >= hi {
			break
		}
		wg.Add(1)
		go func(lo, hi int) {
			defer wg.Done()
			for i := lo; i < hi; i++ {
				f(i)
			}
		}(lo, hi)
	}
	wg.Wait()
}
