package main

import (
	"fmt"
	"os"
	"os/exec"
	"path/filepath"
	"strings"

	"github.com/jsightapi/jsight-api-go-library/catalog"
)

func init() {
	props["C16"] = &propCheck{
		lean: []string{"JSight.Props.C16"},
		exes: []string{"jsight-model"},
		run:  runC16,
		rule: "collections: random operation sequences (Set, SetToTop, Update, Map) on the real generated collection, compared with the Lean model; non-trivial = sequence with >= 2 keys and >= 1 update; distinct = distinct sequence. Concurrency (supporting validation of the premises only): a -race build runs concurrent writers/readers on the collections, N concurrent validations of fixtures and generated documents against their solo results, and concurrent serialisation of one catalog",
		assume: []string{
			"data-race freedom is a property of Go executions under the Go memory model: Lean proves mutual exclusion and atomicity for the lock-level model under the lock discipline extracted from the source; the race detector run is supporting evidence, not a proof",
			"races inside the schema library are only observable, not provable here",
		},
		trusted: []string{"modelled, not verified: sync.RWMutex / sync.Once semantics, the Go memory model, the Go race detector"},
	}
}

func runC16(ctx *Ctx) {
	r := ctx.Rng.Fork()
	// ---- sequential correspondence: real collection vs OMap model
	n := ctx.Budget(20000, 500000)
	reqs := make([]string, n)
	impl := make([]string, n)
	keys := []string{"a", "b", "c", "d", "e"}
	for i := 0; i < n; i++ {
		s := &catalog.Servers{}
		var ops []string
		nontrivialKeys := map[string]bool{}
		updates := 0
		for k := 0; k < 1+r.Intn(10); k++ {
			key := keys[r.Intn(len(keys))]
			val := fmt.Sprintf("v%d", r.Intn(100))
			switch r.Intn(5) {
			case 0, 1:
				ops = append(ops, "s:"+key+":"+val)
				s.Set(key, &catalog.Server{BaseUrl: val})
				nontrivialKeys[key] = true
			case 2:
				ops = append(ops, "t:"+key+":"+val)
				s.SetToTop(key, &catalog.Server{BaseUrl: val})
				nontrivialKeys[key] = true
			case 3:
				ops = append(ops, "u:"+key+":x")
				s.Update(key, func(v *catalog.Server) *catalog.Server { return &catalog.Server{BaseUrl: v.BaseUrl + "x"} })
				updates++
			case 4:
				ops = append(ops, "m:!")
				_ = s.Map(func(k string, v *catalog.Server) (*catalog.Server, error) {
					return &catalog.Server{BaseUrl: v.BaseUrl + "!"}, nil
				})
				updates++
			}
		}
		reqs[i] = "omap " + strings.Join(ops, " ")
		var ents []string
		_ = s.Each(func(k string, v *catalog.Server) error {
			ents = append(ents, k+"="+v.BaseUrl)
			return nil
		})
		impl[i] = "ok " + strings.Join(ents, ",") + fmt.Sprintf(" len=%d", s.Len())
		ctx.Cov.Count([]byte(reqs[i]), len(nontrivialKeys) >= 2 && updates >= 1)
		if i < 2 {
			ctx.Cov.Sample(map[string]any{"ops": reqs[i], "result": impl[i]})
		}
	}
	Corr(ctx, "catalog.Servers (generated ordered map) vs Model.OMap", "jsight-model", reqs, func(i int) string { return impl[i] })

	// ---- race detector stress (supporting)
	bin := filepath.Join(verifDir(), "bin", "racestress")
	if _, err := os.Stat(bin); err != nil {
		ctx.Break("racestress binary (go build -race) is not available: " + err.Error())
		return
	}
	dir, err := os.MkdirTemp(scratchBase(), "jsvrace")
	if err != nil {
		ctx.Break("scratch dir: " + err.Error())
		return
	}
	defer os.RemoveAll(dir)
	cnt := 0
	for _, f := range fixtureFiles() {
		if strings.Contains(f, "include") || strings.Contains(f, "err_") {
			continue
		}
		if b, err := os.ReadFile(f); err == nil && len(b) < 20000 && cnt < ctx.Len(60, 400) {
			_ = os.WriteFile(filepath.Join(dir, fmt.Sprintf("fx%03d.jst", cnt)), b, 0o644)
			cnt++
		}
	}
	for i := 0; i < ctx.Len(30, 300); i++ {
		m := GenModel(r)
		d, _ := m.Render(RandomStyle(r.Fork()), true)
		_ = os.WriteFile(filepath.Join(dir, fmt.Sprintf("gen%03d.jst", i)), d, 0o644)
		cnt++
	}
	// quoted parameters with escapes (every parse unescapes them) and hostile names
	for i := 0; i < ctx.Len(24, 200); i++ {
		var d []byte
		if i%2 == 0 {
			d = []byte(fmt.Sprintf("JSIGHT 0.3\nINFO\n  Title \"The \\\"catalog\\\" no %d \\\\ x\"\n  Version \"v\\\"%d\\\"\"\nSERVER @s\n  BaseUrl \"https://h%d/\\\\path\"\nGET \"/p%d/\\\"q\\\"\"\n  Query \"a=\\\"%d\\\"\"\n  {\"a\": 1}\n  200 any\n", i, i, i, i, i))
		} else {
			d = hostileDoc(r)
		}
		_ = os.WriteFile(filepath.Join(dir, fmt.Sprintf("esc%03d.jst", i)), d, 0o644)
		cnt++
	}
	rounds := ctx.Len(3, 30)
	cmd := exec.Command(bin, dir, fmt.Sprint(rounds))
	cmd.Env = append(os.Environ(), "GORACE=halt_on_error=0 history_size=3")
	out, err := cmd.CombinedOutput()
	text := string(out)
	ctx.Cov.Notes = append(ctx.Cov.Notes, fmt.Sprintf("race stress: %d documents, %d rounds: %s", cnt, rounds, lastLines(text, 1)))
	if strings.Contains(text, "DATA RACE") {
		// name the first racing frame inside the library code
		site := ""
		for _, l := range strings.Split(text, "\n") {
			l = strings.TrimSpace(l)
			if strings.HasPrefix(l, "github.com/jsightapi/") {
				site = l
				if i := strings.Index(site, "("); i > 0 {
					site = site[:i]
				}
				break
			}
		}
		ctx.Violate(Violation{Kind: "data-race", Site: site, What: "the race detector reports a data race: " + site, Observed: trunc(text, 3000), Input: map[string]any{"op": "race", "documents": cnt},
			Signature: "race@" + site})
	}
	if strings.Contains(text, "FAIL ") || (err != nil && !strings.Contains(text, "DATA RACE")) {
		ctx.Violate(Violation{Kind: "wrong-output", Site: "concurrency", What: "concurrent use gives a different result than solo use: " + trunc(firstLines(text, 5), 500), Observed: trunc(text, 3000),
			Input: map[string]any{"op": "race", "documents": cnt}, Signature: "concurrent-differs"})
	}
	ctx.Cov.Component("race-detector build: concurrent collections, concurrent validations vs solo, concurrent serialisation (supporting)", cnt*rounds, len(ctx.Violations), "")
}
