package main

import (
	"bufio"
	"encoding/hex"
	"fmt"
	"io"
	"os/exec"
	"path/filepath"
	"strings"
)

// ModelProc is a running Lean model driver (compiled lean_exe) answering the
// line protocol: one request per line, one response per line.
type ModelProc struct {
	cmd *exec.Cmd
	in  io.WriteCloser
	out *bufio.Reader
	exe string
}

func StartModel(exe string) (*ModelProc, error) {
	path := filepath.Join(verifDir(), "lean", ".lake", "build", "bin", exe)
	cmd := exec.Command(path)
	in, err := cmd.StdinPipe()
	if err != nil {
		return nil, err
	}
	outp, err := cmd.StdoutPipe()
	if err != nil {
		return nil, err
	}
	if err := cmd.Start(); err != nil {
		return nil, err
	}
	return &ModelProc{cmd: cmd, in: in, out: bufio.NewReaderSize(outp, 1<<20), exe: exe}, nil
}

// Batch sends all requests and returns the responses in order.
func (m *ModelProc) Batch(reqs []string) ([]string, error) {
	errc := make(chan error, 1)
	go func() {
		w := bufio.NewWriterSize(m.in, 1<<20)
		for _, r := range reqs {
			if _, err := w.WriteString(r); err != nil {
				errc <- err
				return
			}
			if err := w.WriteByte('\n'); err != nil {
				errc <- err
				return
			}
		}
		if _, err := w.WriteString("flush\n"); err != nil {
			errc <- err
			return
		}
		errc <- w.Flush()
	}()
	res := make([]string, 0, len(reqs))
	for range reqs {
		line, err := m.out.ReadString('\n')
		if err != nil {
			return res, fmt.Errorf("model %s: read after %d responses: %w", m.exe, len(res), err)
		}
		res = append(res, strings.TrimRight(line, "\n"))
	}
	if err := <-errc; err != nil {
		return res, err
	}
	return res, nil
}

func (m *ModelProc) Close() {
	if m == nil {
		return
	}
	_ = m.in.Close()
	_ = m.cmd.Wait()
}

// hx encodes a byte string for the line protocol ("-" = empty).
func hx(b []byte) string {
	if len(b) == 0 {
		return "-"
	}
	return hex.EncodeToString(b)
}

func unhx(s string) []byte {
	if s == "-" || s == "" {
		return nil
	}
	b, err := hex.DecodeString(s)
	if err != nil {
		return []byte("!!bad-hex:" + s)
	}
	return b
}
