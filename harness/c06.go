package main

import (
	"fmt"
	"strings"

	"github.com/jsightapi/jsight-api-go-library/directive"
)

func init() {
	props["C06"] = &propCheck{
		lean:    []string{"JSight.Props.C06", "JSight.Props.C06_Obeys"},
		exes:    []string{"jsight-ctx", "jsight-build"},
		run:     runC06,
		assume:  []string{"the theorems are about the frame-stack model of the parent-pointer code; the equivalence is the tree correspondence", "directive attributes read by the resolution (kind, Path parameter, parenthesis) are delivered by the scanner as modelled under C14"},
		rule:    "all sequences of the directive kinds (INCLUDE excluded) with '(' after any directive and ')' at any point up to the length bound, HTTP methods with and without a path, random sequences beyond it; each sequence is rendered with minimal valid parameters and bodies; non-trivial = at least one directive is placed by walking up at least one level or at least one context is closed; distinct = distinct token sequence",
		trusted: []string{"the rendering of kind sequences to bytes (sequences the scanner refuses for lexical reasons are counted and skipped)"},
	}
}

func ctxAlphabet() []CTok {
	var al []CTok
	for k := 0; k < 30; k++ {
		e := directive.Enumeration(k)
		if e == directive.Include {
			continue
		}
		al = append(al, CTok{Kind: k})
		if canExplicit(e) {
			al = append(al, CTok{Kind: k, Explicit: true})
		}
		if e.IsHTTPRequestMethod() {
			al = append(al, CTok{Kind: k, HasPath: true})
			al = append(al, CTok{Kind: k, HasPath: true, Explicit: true})
		}
		if e == directive.Macro || e == directive.Paste || e == directive.Enum {
			al[len(al)-1].Name = 1
			al[len(al)-2].Name = 1
		}
	}
	al = append(al, CTok{Close: true})
	return al
}

func enumCToks(al []CTok, n int, f func([]CTok)) {
	buf := make([]CTok, 0, n)
	var rec func()
	rec = func() {
		if len(buf) > 0 {
			f(buf)
		}
		if len(buf) == n {
			return
		}
		for _, a := range al {
			buf = append(buf, a)
			rec()
			buf = buf[:len(buf)-1]
		}
	}
	rec()
}

func randCToks(r *Rng, al []CTok, n int) []CTok {
	tt := make([]CTok, n)
	// bias towards plausible documents: HTTP-ish kinds more often
	common := []int{7, 8, 9, 14, 15, 13, 16, 17, 18, 4, 22, 21, 29}
	for i := range tt {
		if r.Chance(1, 2) {
			k := common[r.Intn(len(common))]
			t := CTok{Kind: k}
			e := directive.Enumeration(k)
			if e.IsHTTPRequestMethod() && r.Chance(1, 2) {
				t.HasPath = true
			}
			if canExplicit(e) && r.Chance(1, 4) {
				t.Explicit = true
			}
			if e == directive.Macro || e == directive.Paste || e == directive.Enum {
				t.Name = 1 + r.Intn(3)
			}
			tt[i] = t
		} else if r.Chance(1, 6) {
			tt[i] = CTok{Close: true}
		} else {
			tt[i] = al[r.Intn(len(al))]
			if !tt[i].Close && (directive.Enumeration(tt[i].Kind) == directive.Macro || directive.Enumeration(tt[i].Kind) == directive.Paste || directive.Enumeration(tt[i].Kind) == directive.Enum) {
				tt[i].Name = 1 + r.Intn(3)
			}
		}
	}
	return tt
}

// ctxSpecPlace: the declarative statement of C06, evaluated on the harness side (independent of the Lean model):
// given the stack of open directives (innermost first), where does a directive of kind k go?
// returns the index in the stack of the parent, -1 for top level, -2 for "rejected".
func ctxSpecPlace(stack []CTok, d CTok) int {
	e := directive.Enumeration(d.Kind)
	for i, p := range stack {
		pe := directive.Enumeration(p.Kind)
		// a URL does not admit a method that carries its own path: such a method ends the URL's context
		if pe.IsAllowedForDirectiveContext(e) && !(e.IsHTTPRequestMethod() && d.HasPath && pe == directive.URL) {
			return i
		}
		if p.Explicit {
			return -2
		}
	}
	if e.IsAllowedForRootContext() {
		return -1
	}
	return -2
}

func runC06(ctx *Ctx) {
	c06ParenBalance(ctx)
	al := ctxAlphabet()
	var seqs [][]CTok
	depth := ctx.Len(2, 3)
	enumCToks(al, depth, func(t []CTok) { seqs = append(seqs, append([]CTok(nil), t...)) })
	r := ctx.Rng.Fork()
	for i := 0; i < ctx.Budget(40000, 1500000); i++ {
		seqs = append(seqs, randCToks(r, al, 3+r.Intn(12)))
	}
	for i := 0; i < ctx.Budget(40000, 1500000); i++ {
		seqs = append(seqs, plausibleCToks(r, 4+r.Intn(14), false))
	}
	runs := make([]ctxRun, len(seqs))
	parallelFor(len(seqs), func(i int) { runs[i] = runCtx(seqs[i]) })

	reqs := make([]string, 0, len(seqs))
	idx := make([]int, 0, len(seqs))
	skipped := 0
	for i, s := range seqs {
		if runs[i].Other || runs[i].Panic != "" {
			skipped++
			ctx.Cov.Hit("rendering refused by the scanner or outside the context model")
			if runs[i].Panic != "" {
				ctx.Violate(Violation{Kind: "crash", Site: "scan/paste phase", What: "panic while scanning " + ctoksProto(s) + ": " + runs[i].Panic,
					Input: map[string]any{"op": "ctx", "tokens": ctoksProto(s)}, Signature: "ctx-panic"})
			}
			continue
		}
		reqs = append(reqs, "resolve "+ctoksProto(s))
		idx = append(idx, i)
	}
	Corr(ctx, "core.scanProject directive tree vs Model.Context.resolve", "jsight-ctx", reqs, func(k int) string { return runs[idx[k]].Scan })
	// the same resolution is re-run over the directive trees after macro expansion (processDirective): without
	// macros its result must be the same forest again
	var reqs2 []string
	var idx2 []int
	for _, i := range idx {
		hasMacro := false
		for _, t := range seqs[i] {
			if !t.Close && (directive.Enumeration(t.Kind) == directive.Macro || directive.Enumeration(t.Kind) == directive.Paste) {
				hasMacro = true
			}
		}
		if !hasMacro && strings.HasPrefix(runs[i].Scan, "ok") && !strings.HasPrefix(runs[i].Paste, "other") {
			reqs2 = append(reqs2, "expand "+ctoksProto(seqs[i]))
			idx2 = append(idx2, i)
		}
	}
	Corr(ctx, "core.processPaste re-resolution (documents without macros) vs Model.Paste.expand", "jsight-ctx", reqs2, func(k int) string { return runs[idx2[k]].Paste })
	for _, i := range idx2 {
		if strings.HasPrefix(runs[i].Paste, "ok") && runs[i].Paste != runs[i].Scan {
			content, _ := renderCToks(seqs[i])
			ctx.Violate(Violation{Kind: "wrong-output", Site: "core.processDirective",
				What:     fmt.Sprintf("tokens %s: the tree after the paste phase %q differs from the scanned tree %q although there is no macro", ctoksProto(seqs[i]), runs[i].Paste, runs[i].Scan),
				Input:    map[string]any{"op": "ctx", "tokens": ctoksProto(seqs[i]), "document": string(content)},
				Observed: runs[i].Paste, Expected: runs[i].Scan, Signature: "reresolve-differs"})
		}
	}
	ctx.Cov.Notes = append(ctx.Cov.Notes, fmt.Sprintf("%d of %d sequences skipped (rendering refused for lexical reasons)", skipped, len(seqs)))

	// search: the declarative statement on the implementation's trees
	for k, i := range idx {
		s := seqs[i]
		want, walked := ctxSpecResolve(s)
		ctx.Cov.Count([]byte(ctoksProto(s)), walked)
		if k < 3 {
			content, _ := renderCToks(s)
			ctx.Cov.Sample(map[string]any{"tokens": ctoksProto(s), "document": string(content), "tree": runs[i].Scan})
		}
		if runs[i].Scan != want {
			content, _ := renderCToks(s)
			ctx.Violate(Violation{Kind: "wrong-output", Site: "core.processContext",
				What:     fmt.Sprintf("tokens %s: tree %q, the nearest-admitting-parent rule gives %q", ctoksProto(s), runs[i].Scan, want),
				Input:    map[string]any{"op": "ctx", "tokens": ctoksProto(s), "document": string(content)},
				Observed: runs[i].Scan, Expected: want, Signature: "ctx-spec"})
		}
	}
}

// ctxSpecResolve folds the declarative placement rule over a token sequence and renders the
// resulting forest / error in the protocol syntax. walked = some directive walked up >= 1 level or a context was closed.
func ctxSpecResolve(tt []CTok) (string, bool) {
	type node struct {
		id   int
		tok  CTok
		kids []*node
	}
	var roots []*node
	var stack []*node // innermost first
	walked := false
	toks := func() []CTok {
		r := make([]CTok, len(stack))
		for i, n := range stack {
			r[i] = n.tok
		}
		return r
	}
	for i, t := range tt {
		if t.Close {
			// innermost explicit frame
			j := -1
			for k, n := range stack {
				if n.tok.Explicit {
					j = k
					break
				}
			}
			if j < 0 {
				return "err noclose", walked
			}
			stack = stack[j+1:]
			walked = true
			continue
		}
		n := &node{id: i, tok: t}
		p := ctxSpecPlace(toks(), t)
		switch {
		case p == -2:
			return fmt.Sprintf("err context %d", i), walked
		case p == -1:
			if len(stack) > 0 {
				walked = true
			}
			roots = append(roots, n)
			stack = []*node{n}
		default:
			if p > 0 {
				walked = true
			}
			parent := stack[p]
			parent.kids = append(parent.kids, n)
			stack = append([]*node{n}, stack[p:]...)
		}
	}
	for _, n := range stack {
		if n.tok.Explicit {
			return "err unclosed", walked
		}
	}
	var b strings.Builder
	b.WriteString("ok")
	var show func(n *node)
	show = func(n *node) {
		fmt.Fprintf(&b, "(%d", n.id)
		for _, c := range n.kids {
			b.WriteString(" ")
			show(c)
		}
		b.WriteString(")")
	}
	for _, n := range roots {
		b.WriteString(" ")
		show(n)
	}
	return b.String(), walked
}

// c06ParenBalance: the parentheses of a document, as BYTES (the token-level searches above give every directive at most
// one parenthesis): from accepted documents with parenthesised contexts, every document obtained by writing one "(" twice,
// one ")" twice, or by deleting one of them leaves a parenthesis open at the end of the input or closes one that was not
// opened, and must be rejected; the composed model reads the same bytes.
func c06ParenBalance(ctx *Ctx) {
	bases := []string{
		"JSIGHT 0.3\nGET /a\n(\n  200 any\n)\n",
		"JSIGHT 0.3\nURL /a\n(\n  GET\n  (\n    200\n    (\n      Body any\n    )\n  )\n)\nGET /b\n  200 any\n",
		"JSIGHT 0.3\nTYPE @t\n(\n{}\n)\nGET /a\n  200 @t\n",
		"JSIGHT 0.3\nMACRO @m\n(\n  200 any\n)\nGET /a\n(\n  PASTE @m\n)\n",
		"JSIGHT 0.3\nINFO\n(\n  Title \"t\"\n  Description\n  (\n    text\n  )\n)\nGET /a\n  200 any\n",
		"JSIGHT 0.3\nURL /r\n(\n  Protocol json-rpc-2.0\n  Method foo\n  (\n    Params\n    (\n    {}\n    )\n  )\n)\n",
	}
	var docs [][]byte
	cases := 0
	for bi, base := range bases {
		if !RunProject(SingleFile([]byte(base)), false).Accepted() {
			ctx.Break(fmt.Sprintf("parenthesis balance: the base document %d is not accepted", bi))
			continue
		}
		docs = append(docs, []byte(base))
		lines := strings.SplitAfter(base, "\n")
		inDescr := false
		for li, l := range lines {
			t := strings.TrimSpace(l)
			if t == "Description" {
				inDescr = true
				continue
			}
			if t != "(" && t != ")" {
				continue
			}
			if inDescr { // the parentheses of a description's text are not contexts
				if t == ")" {
					inDescr = false
				}
				continue
			}
			for _, edit := range []string{"doubled", "deleted"} {
				var nl []string
				nl = append(nl, lines[:li]...)
				if edit == "doubled" {
					nl = append(nl, l, l)
				}
				nl = append(nl, lines[li+1:]...)
				doc := strings.Join(nl, "")
				docs = append(docs, []byte(doc))
				res := RunProject(SingleFile([]byte(doc)), false)
				cases++
				ctx.Cov.Count([]byte(doc), true)
				ctx.Cov.Hit("a parenthesis " + edit)
				if res.Panic == "" && res.Accepted() {
					in := projectInput(SingleFile([]byte(doc)))
					in["op"] = "doc"
					ctx.Violate(Violation{Kind: "wrong-output", Site: "context", What: fmt.Sprintf("the %q of line %d %s: the parentheses no longer balance, yet the document is accepted", t, li+1, edit),
						Input: in, Observed: "accepted", Expected: "rejected", Signature: "paren-balance:" + t + " " + edit})
				}
			}
		}
	}
	ctx.Cov.Component("parentheses written twice / deleted in accepted documents => rejected (specification on the implementation)", cases, len(ctx.Violations), "")
	projectCorrespondence(ctx, docs, nil, "documents with unbalanced parentheses")
}
