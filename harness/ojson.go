package main

import (
	"fmt"
	"sort"
	"strconv"
	"strings"
	"unicode/utf8"
)

// Order-preserving, duplicate-key-detecting, UTF-8-validating JSON reader (C09 needs what
// encoding/json's map decoding hides).

type OKind int

const (
	ONull OKind = iota
	OBool
	ONum
	OStr
	OArr
	OObj
)

type OKV struct {
	K string
	V *OVal
}

type OVal struct {
	Kind OKind
	B    bool
	S    string // string value / number literal
	Arr  []*OVal
	Obj  []OKV
}

type ojParser struct {
	b   []byte
	i   int
	dup []string // duplicate keys found (with path)
}

func ParseOJSON(b []byte) (*OVal, []string, error) {
	if !utf8.Valid(b) {
		return nil, nil, fmt.Errorf("not valid UTF-8")
	}
	p := &ojParser{b: b}
	v, err := p.value("$")
	if err != nil {
		return nil, nil, err
	}
	p.ws()
	if p.i != len(b) {
		return nil, nil, fmt.Errorf("trailing data at %d", p.i)
	}
	return v, p.dup, nil
}

func (p *ojParser) ws() {
	for p.i < len(p.b) && (p.b[p.i] == ' ' || p.b[p.i] == '\n' || p.b[p.i] == '\t' || p.b[p.i] == '\r') {
		p.i++
	}
}

func (p *ojParser) value(path string) (*OVal, error) {
	p.ws()
	if p.i >= len(p.b) {
		return nil, fmt.Errorf("unexpected end")
	}
	switch c := p.b[p.i]; {
	case c == '{':
		p.i++
		v := &OVal{Kind: OObj}
		seen := map[string]bool{}
		p.ws()
		if p.i < len(p.b) && p.b[p.i] == '}' {
			p.i++
			return v, nil
		}
		for {
			p.ws()
			k, err := p.str()
			if err != nil {
				return nil, err
			}
			if seen[k] {
				p.dup = append(p.dup, path+"."+k)
			}
			seen[k] = true
			p.ws()
			if p.i >= len(p.b) || p.b[p.i] != ':' {
				return nil, fmt.Errorf("expected ':' at %d", p.i)
			}
			p.i++
			x, err := p.value(path + "." + k)
			if err != nil {
				return nil, err
			}
			v.Obj = append(v.Obj, OKV{k, x})
			p.ws()
			if p.i < len(p.b) && p.b[p.i] == ',' {
				p.i++
				continue
			}
			if p.i < len(p.b) && p.b[p.i] == '}' {
				p.i++
				return v, nil
			}
			return nil, fmt.Errorf("expected ',' or '}' at %d", p.i)
		}
	case c == '[':
		p.i++
		v := &OVal{Kind: OArr}
		p.ws()
		if p.i < len(p.b) && p.b[p.i] == ']' {
			p.i++
			return v, nil
		}
		for n := 0; ; n++ {
			x, err := p.value(fmt.Sprintf("%s[%d]", path, n))
			if err != nil {
				return nil, err
			}
			v.Arr = append(v.Arr, x)
			p.ws()
			if p.i < len(p.b) && p.b[p.i] == ',' {
				p.i++
				continue
			}
			if p.i < len(p.b) && p.b[p.i] == ']' {
				p.i++
				return v, nil
			}
			return nil, fmt.Errorf("expected ',' or ']' at %d", p.i)
		}
	case c == '"':
		s, err := p.str()
		if err != nil {
			return nil, err
		}
		return &OVal{Kind: OStr, S: s}, nil
	case c == 't' && strings.HasPrefix(string(p.b[p.i:]), "true"):
		p.i += 4
		return &OVal{Kind: OBool, B: true}, nil
	case c == 'f' && strings.HasPrefix(string(p.b[p.i:]), "false"):
		p.i += 5
		return &OVal{Kind: OBool}, nil
	case c == 'n' && strings.HasPrefix(string(p.b[p.i:]), "null"):
		p.i += 4
		return &OVal{Kind: ONull}, nil
	case c == '-' || (c >= '0' && c <= '9'):
		j := p.i
		for j < len(p.b) && strings.IndexByte("+-0123456789.eE", p.b[j]) >= 0 {
			j++
		}
		if _, err := strconv.ParseFloat(string(p.b[p.i:j]), 64); err != nil {
			return nil, fmt.Errorf("bad number at %d", p.i)
		}
		v := &OVal{Kind: ONum, S: string(p.b[p.i:j])}
		p.i = j
		return v, nil
	}
	return nil, fmt.Errorf("unexpected byte %q at %d", p.b[p.i], p.i)
}

func (p *ojParser) str() (string, error) {
	if p.i >= len(p.b) || p.b[p.i] != '"' {
		return "", fmt.Errorf("expected string at %d", p.i)
	}
	j := p.i + 1
	for j < len(p.b) {
		if p.b[j] == '\\' {
			j += 2
			continue
		}
		if p.b[j] == '"' {
			break
		}
		if p.b[j] < 0x20 {
			return "", fmt.Errorf("control character in string at %d", j)
		}
		j++
	}
	if j >= len(p.b) {
		return "", fmt.Errorf("unterminated string at %d", p.i)
	}
	s, err := strconv.Unquote(string(p.b[p.i : j+1]))
	if err != nil {
		// JSON escapes \/ and \uD800-style surrogates are not Go escapes: fall back
		var sb strings.Builder
		raw := p.b[p.i+1 : j]
		for k := 0; k < len(raw); k++ {
			if raw[k] != '\\' {
				sb.WriteByte(raw[k])
				continue
			}
			k++
			if k >= len(raw) {
				return "", fmt.Errorf("bad escape at %d", p.i)
			}
			switch raw[k] {
			case '"', '\\', '/':
				sb.WriteByte(raw[k])
			case 'b':
				sb.WriteByte('\b')
			case 'f':
				sb.WriteByte('\f')
			case 'n':
				sb.WriteByte('\n')
			case 'r':
				sb.WriteByte('\r')
			case 't':
				sb.WriteByte('\t')
			case 'u':
				if k+4 >= len(raw)+0 && k+4 > len(raw)-1+1 {
					return "", fmt.Errorf("bad \\u escape at %d", p.i)
				}
				if k+5 > len(raw) {
					return "", fmt.Errorf("bad \\u escape at %d", p.i)
				}
				n, err := strconv.ParseUint(string(raw[k+1:k+5]), 16, 32)
				if err != nil {
					return "", fmt.Errorf("bad \\u escape at %d", p.i)
				}
				sb.WriteRune(rune(n))
				k += 4
			default:
				return "", fmt.Errorf("bad escape \\%c at %d", raw[k], p.i)
			}
		}
		s = sb.String()
	}
	p.i = j + 1
	return s, nil
}

func (v *OVal) Get(k string) *OVal {
	if v == nil || v.Kind != OObj {
		return nil
	}
	for _, kv := range v.Obj {
		if kv.K == k {
			return kv.V
		}
	}
	return nil
}

func (v *OVal) Path(keys ...string) *OVal {
	cur := v
	for _, k := range keys {
		cur = cur.Get(k)
		if cur == nil {
			return nil
		}
	}
	return cur
}

func (v *OVal) Str() string {
	if v == nil || v.Kind != OStr {
		return ""
	}
	return v.S
}

func (v *OVal) Keys() []string {
	if v == nil || v.Kind != OObj {
		return nil
	}
	kk := make([]string, len(v.Obj))
	for i, kv := range v.Obj {
		kk[i] = kv.K
	}
	return kk
}

// Canon renders a value canonically. ordered: keep object key order (ordered collections) or sort keys.
func (v *OVal) Canon(sortKeys bool) string {
	var b strings.Builder
	v.canon(&b, sortKeys)
	return b.String()
}

func (v *OVal) canon(b *strings.Builder, sortKeys bool) {
	if v == nil {
		b.WriteString("null")
		return
	}
	switch v.Kind {
	case ONull:
		b.WriteString("null")
	case OBool:
		fmt.Fprintf(b, "%v", v.B)
	case ONum:
		b.WriteString(v.S)
	case OStr:
		b.WriteString(strconv.Quote(v.S))
	case OArr:
		b.WriteByte('[')
		for i, x := range v.Arr {
			if i > 0 {
				b.WriteByte(',')
			}
			x.canon(b, sortKeys)
		}
		b.WriteByte(']')
	case OObj:
		kvs := v.Obj
		if sortKeys {
			kvs = append([]OKV(nil), kvs...)
			sort.SliceStable(kvs, func(i, j int) bool { return kvs[i].K < kvs[j].K })
		}
		b.WriteByte('{')
		for i, kv := range kvs {
			if i > 0 {
				b.WriteByte(',')
			}
			b.WriteString(strconv.Quote(kv.K))
			b.WriteByte(':')
			kv.V.canon(b, sortKeys)
		}
		b.WriteByte('}')
	}
}

// Items is the nil-safe element list of an array value.
func (v *OVal) Items() []*OVal {
	if v == nil || v.Kind != OArr {
		return nil
	}
	return v.Arr
}

// Fields is the nil-safe member list of an object value.
func (v *OVal) Fields() []OKV {
	if v == nil || v.Kind != OObj {
		return nil
	}
	return v.Obj
}
