module jsv

go 1.19

require (
	github.com/jsightapi/jsight-api-go-library v0.0.0
	github.com/jsightapi/jsight-schema-go-library v1.0.1-0.20221003140029-c68c810f065f
)

require github.com/lucasjones/reggen v0.0.0-20200904144131-37ba4fa293bb // indirect

replace github.com/jsightapi/jsight-api-go-library => /repo
