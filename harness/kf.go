package main

import (
	"bufio"
	"encoding/json"
	"os"
	"path/filepath"
	"strings"
)

// KnownFinding is one line of /verif/known-findings.jsonl.
type KnownFinding struct {
	ID        string `json:"id"`
	Property  string `json:"property"`
	Status    string `json:"status"` // open | fixed
	Kind      string `json:"kind"`
	Site      string `json:"site,omitempty"`
	Signature string `json:"signature,omitempty"`
	Witness   string `json:"witness,omitempty"`
	What      string `json:"what"`
	Commit    string `json:"commit,omitempty"`
}

func loadKnownFindings() []KnownFinding {
	f, err := os.Open(filepath.Join(verifDir(), "known-findings.jsonl"))
	if err != nil {
		return nil
	}
	defer f.Close()
	var out []KnownFinding
	sc := bufio.NewScanner(f)
	sc.Buffer(make([]byte, 1<<20), 1<<20)
	for sc.Scan() {
		l := strings.TrimSpace(sc.Text())
		if l == "" || strings.HasPrefix(l, "#") {
			continue
		}
		var k KnownFinding
		if json.Unmarshal([]byte(l), &k) == nil {
			out = append(out, k)
		}
	}
	return out
}

// matchKnown: a violation is a known finding iff an *open* entry of the same
// property has the same kind and the same site/signature. Fixed entries
// suppress nothing.
func matchKnown(kfs []KnownFinding, prop string, v Violation) *KnownFinding {
	for i := range kfs {
		k := &kfs[i]
		if k.Status != "open" || k.Property != prop || k.Kind != v.Kind {
			continue
		}
		// an entry with a signature is matched by the signature alone (its site is documentation);
		// only entries without one are matched by site
		if k.Signature != "" {
			if k.Signature == v.Signature {
				return k
			}
			continue
		}
		if k.Site != "" && k.Site == v.Site {
			return k
		}
	}
	return nil
}
