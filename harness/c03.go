package main

import (
	"bytes"
	"fmt"
	"strings"
	"sync"
	"time"
)

func init() {
	props["C03"] = &propCheck{
		lean:    []string{"JSight.Props.C03"},
		exes:    []string{},
		run:     runC03,
		rule:    "generated documents, with emphasis on those with >= 2 simultaneous faults of the same kind and >= 2 entries in every internally hashed collection (macros, enum rules, unused path parameters, tags), each processed repeatedly in-process, concurrently with other documents, and in fresh processes; non-trivial = the document has >= 2 entries in a hashed collection or >= 2 faults; distinct = distinct document",
		assume:  []string{"'fresh processes' and 'while other projects are processed' are observed, not proved; iteration order inside the schema library is outside the model"},
		trusted: []string{"the Go runtime randomises map iteration per range statement, so repetition explores orders; the theorem side (every map range is order-independent) is in Props/C03.lean"},
	}
}

// multiDocs: documents designed around the hashed collections.
func multiDocs(r *Rng) [][]byte {
	var out [][]byte
	// several recursive macros: which one is reported?
	out = append(out, []byte("JSIGHT 0.3\nMACRO @a\n(\n  PASTE @a\n)\nMACRO @b\n(\n  PASTE @b\n)\nMACRO @c\n(\n  PASTE @c\n)\n"))
	out = append(out, []byte("JSIGHT 0.3\nMACRO @a\n(\n  PASTE @b\n)\nMACRO @b\n(\n  PASTE @a\n)\nMACRO @c\n(\n  PASTE @d\n)\nMACRO @d\n(\n  PASTE @c\n)\n"))
	// Path schema with several unused properties
	out = append(out, []byte("JSIGHT 0.3\nURL /a/{id}\n  Path\n  {\"id\": 1, \"zz\": 2, \"aa\": 3, \"mm\": 4}\n  GET\n    200 any\n"))
	// … whose names tie under the comparisons an "ordered" listing might use (letter case, length, a common prefix)
	out = append(out, []byte("JSIGHT 0.3\nURL /a/{id}\n  Path\n  {\"id\": 1, \"Name\": 2, \"name\": 3, \"NAME\": 4, \"nAme\": 5}\n  GET\n    200 any\n"))
	out = append(out, []byte("JSIGHT 0.3\nURL /a/{id}\n  Path\n  {\"id\": 1, \"ab\": 2, \"ba\": 3, \"aB\": 4, \"Ba\": 5, \"a_\": 6}\n  GET\n    200 any\n"))
	out = append(out, []byte("JSIGHT 0.3\nMACRO @Aa\n(\n  PASTE @Aa\n)\nMACRO @aa\n(\n  PASTE @aa\n)\nMACRO @AA\n(\n  PASTE @AA\n)\nMACRO @aA\n(\n  PASTE @aA\n)\n"))
	out = append(out, []byte("JSIGHT 0.3\nTYPE @t\n{\n  \"a\": 1, // {enum: @Xx}\n  \"b\": 2, // {enum: @xx}\n  \"c\": 3 // {enum: @XX}\n}\n"))
	out = append(out, []byte("JSIGHT 0.3\nTYPE @t\n{\"a\": @Mm, \"b\": @mm, \"c\": @MM, \"d\": @mM}\nGET /x\n  200 @mM\n"))
	out = append(out, []byte("JSIGHT 0.3\nGET /a/{X}\n  200 any\nGET /A/{x}\n  200 any\nPOST /a/{x}\n  200 any\nPOST /A/{X}\n  200 any\n"))
	// pairs of projects with byte-identical bodies whose verdict depends on ANOTHER declaration of the project (an ENUM
	// with other values, a TYPE with another body, a MACRO with another body): the first is accepted, the second must be
	// judged on its own declarations whatever was processed before it in this process
	out = append(out, []byte("JSIGHT 0.3\nENUM @petKind\n[\"cat\", \"dog\"]\nGET /pets\n  200\n  {\n    \"kind\": \"cat\" // {enum: @petKind}\n  }\n"))
	out = append(out, []byte("JSIGHT 0.3\nENUM @petKind\n[\"dog\", \"cow\"]\nGET /pets\n  200\n  {\n    \"kind\": \"cat\" // {enum: @petKind}\n  }\n"))
	out = append(out, []byte("JSIGHT 0.3\nTYPE @id\n1\nGET /pets\n  200\n  {\n    \"id\": 5 // {type: \"@id\"}\n  }\n"))
	out = append(out, []byte("JSIGHT 0.3\nTYPE @id\n\"s\"\nGET /pets\n  200\n  {\n    \"id\": 5 // {type: \"@id\"}\n  }\n"))
	out = append(out, []byte("JSIGHT 0.3\nENUM @e\n[1, 2]\nTYPE @t\n1 // {enum: @e}\nGET /a\n  200 @t\n"))
	out = append(out, []byte("JSIGHT 0.3\nENUM @e\n[3, 4]\nTYPE @t\n1 // {enum: @e}\nGET /a\n  200 @t\n"))
	out = append(out, []byte("JSIGHT 0.3\nMACRO @m\n(\n  200 any\n)\nGET /a\n  PASTE @m\n"))
	out = append(out, []byte("JSIGHT 0.3\nMACRO @m\n(\n  Query\n  {}\n)\nGET /a\n  PASTE @m\n"))
	// one path with two different duplicated parameters / two empty ones
	out = append(out, []byte("JSIGHT 0.3\nURL /c/{id}/{name}/f/{id}/{name}\n  GET\n    200 any\n"))
	out = append(out, []byte("JSIGHT 0.3\nGET /c/{a}/{b}/{c}/{a}/{b}/{c}\n  200 any\n"))
	// several enums, several undefined enum uses
	out = append(out, []byte("JSIGHT 0.3\nENUM @e1\n[1]\nENUM @e2\n[2]\nENUM @e3\n[3]\nTYPE @t\n{\n  \"a\": 1, // {enum: @e1}\n  \"b\": 2, // {enum: @e2}\n  \"c\": 3 // {enum: @e3}\n}\n"))
	out = append(out, []byte("JSIGHT 0.3\nENUM @e1\n[1]\nTYPE @t\n{\n  \"a\": 1, // {enum: @x1}\n  \"b\": 2 // {enum: @x2}\n}\nTYPE @u\n{\n  \"a\": 1, // {enum: @x3}\n  \"b\": 2 // {enum: @x4}\n}\n"))
	// several undefined types
	out = append(out, []byte("JSIGHT 0.3\nTYPE @t\n{\"a\": @m1, \"b\": @m2}\nTYPE @u\n{\"a\": @m3, \"b\": @m4}\nGET /x\n  200 @m5\n"))
	// similar paths in several places
	out = append(out, []byte("JSIGHT 0.3\nGET /a/{x}\n  200 any\nGET /b/{y}\n  200 any\nPOST /a/{z}\n  200 any\nPOST /b/{w}\n  200 any\n"))
	for i := 0; i < 3; i++ {
		m := GenModel(r)
		d, _ := m.Render(RandomStyle(r.Fork()), true)
		out = append(out, d)
	}
	return out
}

func verdictKey(r RunResult) string {
	if r.Err != nil {
		var tr []string
		for _, t := range r.Err.Trace {
			tr = append(tr, fmt.Sprintf("%s:%d", t.Path, t.Line))
		}
		return fmt.Sprintf("rejected %q file=%s idx=%d line=%d trace=%s", r.Err.Msg, r.Err.File, r.Err.Index, r.Err.Line, strings.Join(tr, ","))
	}
	if r.Panic != "" {
		return "panic " + r.Panic
	}
	return "accepted " + string(r.JSON)
}

func runC03(ctx *Ctx) {
	r := ctx.Rng.Fork()
	var docs [][]byte
	for i := 0; i < ctx.Budget(30, 600); i++ {
		docs = append(docs, multiDocs(r)...)
	}
	// faulty variants of generated documents: two faults at once
	for i := 0; i < ctx.Budget(40, 2000); i++ {
		m := GenModel(r)
		base, _ := m.Render(PlainStyle(), true)
		lines := strings.Split(strings.TrimRight(string(base), "\n"), "\n")
		ff := injectFaults(lines, r)
		if len(ff) >= 2 {
			a, b := ff[r.Intn(len(ff))], ff[r.Intn(len(ff))]
			docs = append(docs, []byte(strings.Join(a.doc, "\n")+"\n"), []byte(strings.Join(b.doc, "\n")+"\n"))
		}
	}
	reps := ctx.Len(12, 50)
	seen := map[string]bool{}
	for i, d := range docs {
		if seen[string(d)] {
			continue
		}
		seen[string(d)] = true
		first := verdictKey(RunProject(SingleFile(d), false))
		nontrivial := strings.Count(string(d), "MACRO") >= 2 || strings.Count(string(d), "ENUM") >= 2 || strings.Contains(first, "rejected")
		ctx.Cov.Count(d, nontrivial)
		if i < 2 {
			ctx.Cov.Sample(map[string]any{"document": trunc(string(d), 300), "result": trunc(first, 200)})
		}
		in := projectInput(SingleFile(d))
		in["op"] = "repeat"
		// repeated, and concurrently with other documents
		var mu sync.Mutex
		diff := ""
		var wg sync.WaitGroup
		for k := 0; k < reps; k++ {
			wg.Add(1)
			go func(k int) {
				defer wg.Done()
				if k%2 == 1 {
					// an unrelated document in the same process at the same time
					RunProject(SingleFile(docs[(i+k)%len(docs)]), false)
				}
				got := verdictKey(RunProject(SingleFile(d), false))
				if got != first {
					mu.Lock()
					diff = got
					mu.Unlock()
				}
			}(k)
		}
		wg.Wait()
		if diff != "" {
			ctx.Violate(Violation{Kind: "wrong-output", Site: "determinism", What: "the same document gives different results on repetition: " + trunc(first, 300) + "  ||  " + trunc(diff, 300),
				Input: in, Observed: trunc(diff, 600), Expected: trunc(first, 600), Signature: "nondeterministic:" + firstWords(first, 4)})
		}
	}
	// fresh processes
	var pp []Project
	var keys []string
	k := 0
	for d := range seen {
		if k >= ctx.Len(40, 400) {
			break
		}
		k++
		pp = append(pp, SingleFile([]byte(d)))
		keys = append(keys, d)
	}
	a := RunInWorkers(pp, 2*time.Second)
	b := RunInWorkers(pp, 2*time.Second)
	for i := range pp {
		if a[i].Resp == nil || b[i].Resp == nil {
			ctx.Cov.Hit("worker crashed (C01 matter)")
			continue
		}
		ra, rb := a[i].Resp, b[i].Resp
		local := RunProject(pp[i], false)
		if ra.Verdict != rb.Verdict || ra.JSONSum != rb.JSONSum || ra.Verdict != local.Verdict() || (local.JSON != nil && ra.JSONLen != len(local.JSON)) {
			ctx.Violate(Violation{Kind: "wrong-output", Site: "determinism", What: fmt.Sprintf("fresh processes disagree: %q / %q / in-process %q", ra.Verdict, rb.Verdict, local.Verdict()),
				Input: projectInput(pp[i]), Signature: "nondeterministic-process"})
		}
	}
	// every hand-written document alone in a process of its own, against its result in THIS process (which has processed
	// all the others before): a result must not depend on what else the process has seen
	for _, d := range multiDocs(ctx.Rng.Fork()) {
		if len(d) > 4000 {
			continue
		}
		p := SingleFile(d)
		solo := RunInWorkers([]Project{p}, 2*time.Second)
		local := RunProject(p, false)
		ctx.Cov.Hit("document alone in a fresh process vs in this process")
		if solo[0].Resp == nil {
			continue
		}
		if solo[0].Resp.Verdict != local.Verdict() || (local.JSON != nil && solo[0].Resp.JSONLen != len(local.JSON)) {
			ctx.Violate(Violation{Kind: "wrong-output", Site: "determinism", What: fmt.Sprintf("a document gives another result alone in a fresh process than in a process that has seen other documents: %q / in-process %q", solo[0].Resp.Verdict, local.Verdict()),
				Input: projectInput(p), Signature: "nondeterministic-history"})
		}
	}
	_ = bytes.Equal
	_ = keys
	ctx.Cov.Component("repeated / concurrent / fresh-process runs of the same document", ctx.Cov.Evaluations, len(ctx.Violations), fmt.Sprintf("%d repetitions each, %d documents in 2 fresh processes", reps, len(pp)))
}
