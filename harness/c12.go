package main

import (
	"fmt"
	"strings"
)

func init() {
	props["C12"] = &propCheck{
		lean:    []string{"JSight.Props.C12"},
		exes:    []string{"jsight-model"},
		run:     runC12,
		rule:    "generated inheritance graphs over user types (chains up to depth 4, several bases, bases shared between heirs, no diamonds) used from types, requests, responses, headers and query schemas, in sampled / all declaration orders, plus faulty variants (override, non-object base, undefined base); non-trivial = at least one allOf whose base itself inherits; distinct = distinct document",
		assume:  []string{"the AST -> content conversion is the schema library's (oracle); rules other than allOf are carried opaquely"},
		trusted: []string{"the harness-side generator of inheritance graphs and the declarative expansion Spec.inherited (expandSpec)"},
	}
}

type inhType struct {
	name   string
	bases  []string
	own    []string            // own property keys
	nested map[string]*inhType // own properties that are objects themselves (with their own allOf rule)
}

type inhNode struct {
	key, from string
	kids      []inhNode
}

func showNodes(nn []inhNode) string {
	var pp []string
	for _, n := range nn {
		s := n.key + "<" + n.from
		if n.kids != nil {
			s += "{" + showNodes(n.kids) + "}"
		}
		pp = append(pp, s)
	}
	return strings.Join(pp, " ")
}

// expandTree: expandSpec with nested objects (an inherited property keeps the expansion of its own object)
func expandTree(types map[string]*inhType, t *inhType) []inhNode {
	var out []inhNode
	for _, b := range t.bases {
		for _, n := range expandTree(types, types[b]) {
			out = append(out, inhNode{n.key, b, n.kids})
		}
	}
	for _, k := range t.own {
		n := inhNode{key: k}
		if sub, ok := t.nested[k]; ok {
			n.kids = expandTree(types, sub)
			if n.kids == nil {
				n.kids = []inhNode{}
			}
		}
		out = append(out, n)
	}
	return out
}

func treeOf(v *OVal) []inhNode {
	var out []inhNode
	for _, c := range v.Get("children").Items() {
		n := inhNode{key: c.Get("key").Str(), from: c.Get("inheritedFrom").Str()}
		if c.Get("tokenType").Str() == "object" {
			n.kids = treeOf(c)
			if n.kids == nil {
				n.kids = []inhNode{}
			}
		}
		out = append(out, n)
	}
	return out
}

// expandSpec: the declarative statement of C12 — inherited properties first (bases in the order named, each
// with its own expansion), marked with the direct base, then the own properties.
func expandSpec(types map[string]*inhType, t *inhType) [][2]string {
	var out [][2]string
	for _, b := range t.bases {
		for _, kv := range expandSpec(types, types[b]) {
			out = append(out, [2]string{kv[0], b})
		}
	}
	for _, k := range t.own {
		out = append(out, [2]string{k, ""})
	}
	return out
}

func inhBody(t *inhType) string {
	var b strings.Builder
	b.WriteString("{")
	if len(t.bases) == 1 {
		fmt.Fprintf(&b, " // {allOf: %q}", t.bases[0])
	} else if len(t.bases) > 1 {
		var qq []string
		for _, x := range t.bases {
			qq = append(qq, fmt.Sprintf("%q", x))
		}
		b.WriteString(" // {allOf: [" + strings.Join(qq, ", ") + "]}")
	}
	b.WriteString("\n")
	for i, k := range t.own {
		if sub, ok := t.nested[k]; ok {
			fmt.Fprintf(&b, "  %q: %s", k, strings.ReplaceAll(inhBody(sub), "\n", "\n  "))
		} else {
			fmt.Fprintf(&b, "  %q: %d", k, i+1)
		}
		if i+1 < len(t.own) {
			b.WriteString(",")
		}
		b.WriteString("\n")
	}
	b.WriteString("}")
	return b.String()
}

func genInheritance(r *Rng) (map[string]*inhType, []string) {
	n := 2 + r.Intn(4)
	types := map[string]*inhType{}
	var names []string
	anc := map[string]map[string]bool{} // closure incl. itself
	kid := 0
	for i := n - 1; i >= 0; i-- { // later types first: bases are later types
		name := fmt.Sprintf("@t%d", i)
		t := &inhType{name: name}
		// 0 to 3 own properties: an heir may have none of its own ("{} // {allOf: […]}"), bases differ in size
		for k := 0; k < r.Intn(4); k++ {
			kid++
			t.own = append(t.own, fmt.Sprintf("k%d", kid))
		}
		cl := map[string]bool{name: true}
		var later []string
		for j := i + 1; j < n; j++ {
			later = append(later, fmt.Sprintf("@t%d", j))
		}
		for _, cand := range later {
			if !r.Chance(1, 2) || len(t.bases) >= 3 {
				continue
			}
			disjoint := true
			for a := range anc[cand] {
				if cl[a] {
					disjoint = false
				}
			}
			if disjoint {
				t.bases = append(t.bases, cand)
				for a := range anc[cand] {
					cl[a] = true
				}
			}
		}
		// a nested object property with its own allOf (to a later type outside this type's ancestry)
		if r.Chance(1, 3) {
			for _, cand := range later {
				disjoint := true
				for a := range anc[cand] {
					if cl[a] {
						disjoint = false
					}
				}
				if disjoint {
					kid += 2
					key := fmt.Sprintf("k%d", kid-1)
					t.own = append(t.own, key)
					sub := &inhType{bases: []string{cand}, own: []string{fmt.Sprintf("k%d", kid)}}
					if r.Chance(1, 3) {
						sub.own = nil // an empty object that only inherits:  "k": {} // {allOf: "@t"}
					}
					t.nested = map[string]*inhType{key: sub}
					for a := range anc[cand] {
						cl[a] = true
					}
					break
				}
			}
		}
		anc[name] = cl
		types[name] = t
		names = append([]string{name}, names...)
	}
	return types, names
}

func childrenOf(v *OVal) [][2]string {
	var out [][2]string
	for _, c := range v.Get("children").Items() {
		out = append(out, [2]string{c.Get("key").Str(), c.Get("inheritedFrom").Str()})
	}
	return out
}

func runC12(ctx *Ctx) {
	r := ctx.Rng.Fork()
	n := ctx.Budget(300, 20000)
	cases := 0
	var corrReqs, corrImpl []string
	for i := 0; i < n && len(ctx.Violations) < 10; i++ {
		types, names := genInheritance(r)
		deep := false
		for _, t := range types {
			for _, b := range t.bases {
				if len(types[b].bases) > 0 {
					deep = true
				}
			}
		}
		// an interaction that uses inheritance from request, response, headers and query
		user := &inhType{name: "", bases: []string{names[r.Intn(len(names))]}, own: []string{"ownReq"}}
		orders := [][]int{}
		if len(names) <= ctx.Len(3, 5) {
			allPerms(len(names), func(p []int) { orders = append(orders, append([]int(nil), p...)) })
		} else {
			for k := 0; k < ctx.Len(4, 24); k++ {
				orders = append(orders, permute(r, len(names)))
			}
		}
		for _, ord := range orders {
			var b strings.Builder
			b.WriteString("JSIGHT 0.3\n")
			usePos := r.Intn(len(ord) + 1)
			prelude := []string{"", "  204 empty\n", "  201 any\n  202 regex\n  /x/\n", "  201\n  {\"plain\": 1}\n", "  201\n  {\"plain\": 1}\n    Headers\n    {\"h\": 1}\n  203 empty\n"}[r.Intn(5)]
			use := func() {
				b.WriteString("POST /use\n  Query\n  " + strings.ReplaceAll(inhBody(&inhType{bases: user.bases, own: []string{"ownQuery"}}), "\n", "\n  ") + "\n")
				b.WriteString("  Request\n    Headers\n    " + strings.ReplaceAll(inhBody(&inhType{bases: user.bases, own: []string{"ownHdr"}}), "\n", "\n    ") + "\n")
				b.WriteString("    Body\n    " + strings.ReplaceAll(inhBody(user), "\n", "\n    ") + "\n")
				// earlier responses without Headers, or with a body that is not a JSight schema, must not stop the
				// expansion in the later ones
				b.WriteString(prelude)
				b.WriteString("  200\n  " + strings.ReplaceAll(inhBody(&inhType{bases: user.bases, own: []string{"ownResp"}}), "\n", "\n  ") + "\n")
				b.WriteString("    Headers\n    " + strings.ReplaceAll(inhBody(&inhType{bases: user.bases, own: []string{"ownRH"}}), "\n", "\n    ") + "\n")
			}
			for k, j := range ord {
				if k == usePos {
					use()
				}
				t := types[names[j]]
				b.WriteString("TYPE " + t.name + "\n" + inhBody(t) + "\n")
			}
			if usePos == len(ord) {
				use()
			}
			doc := b.String()
			res := RunProject(SingleFile([]byte(doc)), false)
			cases++
			ctx.Cov.Count([]byte(doc), deep)
			in := projectInput(SingleFile([]byte(doc)))
			in["op"] = "doc"
			if len(ctx.Cov.Samples) < 1 && deep {
				ctx.Cov.Sample(map[string]any{"document": doc, "verdict": res.Verdict()})
			}
			if !res.Accepted() {
				ctx.Violate(Violation{Kind: "wrong-output", Site: "allOf", What: "a well-formed inheritance graph is not accepted: " + res.Verdict(), Input: in, Signature: "allof-rejected:" + firstWords(res.Verdict(), 4)})
				continue
			}
			v, _, err := ParseOJSON(res.JSON)
			if err != nil {
				continue
			}
			check := func(where string, content *OVal, want [][2]string) bool {
				got := childrenOf(content)
				if fmt.Sprint(got) != fmt.Sprint(want) {
					ctx.Violate(Violation{Kind: "wrong-output", Site: "allOf", What: fmt.Sprintf("%s: properties (key, inheritedFrom) %v, the statement gives %v", where, got, want), Input: in, Observed: fmt.Sprint(got), Expected: fmt.Sprint(want), Signature: "allof-children"})
					return false
				}
				return true
			}
			ok := true
			for _, nm := range names {
				got, want := showNodes(treeOf(v.Path("userTypes", nm, "schema", "content"))), showNodes(expandTree(types, types[nm]))
				if got != want {
					ctx.Violate(Violation{Kind: "wrong-output", Site: "allOf", What: fmt.Sprintf("type %s: properties (key<inheritedFrom{nested}) %q, the statement gives %q", nm, got, want), Input: in, Observed: got, Expected: want, Signature: "allof-children"})
					ok = false
				}
			}
			it := v.Path("interactions", "http POST /use")
			wantUser := func(own string) [][2]string {
				return expandSpec(types, &inhType{bases: user.bases, own: []string{own}})
			}
			ok = ok && check("request body", it.Path("request", "body", "schema", "content"), wantUser("ownReq"))
			ok = ok && check("request headers", it.Path("request", "headers", "schema", "content"), wantUser("ownHdr"))
			ok = ok && check("query", it.Path("query", "schema", "content"), wantUser("ownQuery"))
			if rs := it.Get("responses").Items(); len(rs) >= 1 {
				last := rs[len(rs)-1]
				ok = ok && check("response body", last.Path("body", "schema", "content"), wantUser("ownResp"))
				ok = ok && check("response headers", last.Path("headers", "schema", "content"), wantUser("ownRH"))
			}
			// correspondence: the same store processed by the Lean model of the allOf code, in this catalog order
			num := func(nm string) string { return strings.TrimPrefix(nm, "@t") }
			var args []string
			var ordNames []string
			for _, j := range ord {
				ordNames = append(ordNames, num(names[j]))
			}
			for _, j := range ord {
				t := types[names[j]]
				var bs, ks []string
				for _, x := range t.bases {
					bs = append(bs, num(x))
				}
				for _, k := range t.own {
					ks = append(ks, strings.TrimPrefix(k, "k"))
				}
				args = append(args, "t:"+num(t.name)+":"+strings.Join(bs, ",")+":"+strings.Join(ks, ","))
			}
			hasNested := false
			for _, t := range types {
				if len(t.nested) > 0 {
					hasNested = true
				}
			}
			if hasNested {
				if !ok {
					break
				}
				continue
			}
			corrReqs = append(corrReqs, "allof "+strings.Join(args, " ")+" o:"+strings.Join(ordNames, ","))
			var parts []string
			for _, j := range ord {
				var kk []string
				for _, c := range childrenOf(v.Path("userTypes", names[j], "schema", "content")) {
					from := "-"
					if c[1] != "" {
						from = num(c[1])
					}
					kk = append(kk, strings.TrimPrefix(c[0], "k")+"/"+from)
				}
				parts = append(parts, num(names[j])+"="+strings.Join(kk, ","))
			}
			corrImpl = append(corrImpl, "ok "+strings.Join(parts, " "))
			if !ok {
				break
			}
		}
		// faulty variants
		base := names[len(names)-1]
		ownKey := "k0"
		if len(types[base].own) > 0 {
			ownKey = types[base].own[0]
		} else {
			types[base].own = []string{"k0"} // the last type has no bases: give it a property to override
		}
		faults := map[string]string{
			"override of an inherited property": "JSIGHT 0.3\nTYPE @heir\n{ // {allOf: \"" + base + "\"}\n  \"" + ownKey + "\": 1\n}\nTYPE " + base + "\n" + inhBody(types[base]) + "\n",
			"base that is not an object":        "JSIGHT 0.3\nTYPE @heir\n{ // {allOf: \"@str\"}\n  \"a\": 1\n}\nTYPE @str\n\"abc\"\n",
			"undefined base":                    "JSIGHT 0.3\nTYPE @heir\n{ // {allOf: \"@nosuch\"}\n  \"a\": 1\n}\n",
		}
		for kind, doc := range faults {
			fr := RunProject(SingleFile([]byte(doc)), false)
			cases++
			ctx.Cov.Hit("fault: " + kind)
			if fr.Accepted() {
				in := projectInput(SingleFile([]byte(doc)))
				in["op"] = "doc"
				ctx.Violate(Violation{Kind: "wrong-output", Site: "allOf", What: "a document with the fault '" + kind + "' is accepted", Input: in, Signature: "allof-fault-accepted:" + kind})
			}
		}
	}
	Corr(ctx, "core.ProcessAllOf on user types vs Model.AllOf.processStore", "jsight-model", corrReqs, func(i int) string { return corrImpl[i] })
	ctx.Cov.Component("inheritance graphs: children of every schema vs the declarative expansion, in several declaration orders; faulty variants (specification on the implementation)", cases, len(ctx.Violations), "")
}
