package main

import (
	"github.com/jsightapi/jsight-schema-go-library/bytes"
)

func bytesIndex(i uint) bytes.Index { return bytes.Index(i) }
