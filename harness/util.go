package main

import (
	"github.com/jsightapi/jsight-schema-go-library/bytes"

	"github.com/jsightapi/jsight-api-go-library/directive"
)

func directiveName(k int) string { return directive.Enumeration(k).String() }

func directiveOf(k int) directive.Enumeration { return directive.Enumeration(k) }

func bytesIndex(i uint) bytes.Index { return bytes.Index(i) }
