package main

import (
	"path/filepath"
	"os"
	"encoding/hex"
	"fmt"
	"sort"
	"strings"
	"unicode/utf8"

	"github.com/jsightapi/jsight-schema-go-library/fs"

	"github.com/jsightapi/jsight-api-go-library/core"
	"github.com/jsightapi/jsight-api-go-library/directive"
)

// Correspondence of the catalog-construction model (lean/JSight/Model/Build.lean, exe jsight-build) with the
// real pipeline: the real directive forest after PASTE expansion is handed to the model; the model's catalog
// skeleton / first diagnostic is compared with what the real code produces from the same document.

func hxs(s string) string {
	if s == "" {
		return "-"
	}
	return hex.EncodeToString([]byte(s))
}

type buildDir struct {
	file       string
	begin      uint
	bodyB      uint
	bodyE      uint
	hasBody    bool
	kind       directive.Enumeration
	parentKind directive.Enumeration
}

// buildProto serialises the expanded forest for the model; dirs[i] describes the directive with model id i.
func buildProto(forest []*directive.Directive, banned []directive.Enumeration) (string, []buildDir, bool) {
	var b strings.Builder
	b.WriteString("build ")
	if len(banned) == 0 {
		b.WriteString("-")
	} else {
		for i, e := range banned {
			if i > 0 {
				b.WriteString(",")
			}
			fmt.Fprintf(&b, "%d", int(e))
		}
	}
	var dirs []buildDir
	srcIDs := map[string]int{}
	valid := true
	var rec func(d *directive.Directive, parent directive.Enumeration)
	rec = func(d *directive.Directive, parent directive.Enumeration) {
		file, kb, _ := d.VerifKeywordCoords()
		key := fmt.Sprintf("%s:%d", file, kb)
		if _, ok := srcIDs[key]; !ok {
			srcIDs[key] = len(srcIDs) + 1
		}
		bd := buildDir{file: file, begin: kb, kind: d.Type(), parentKind: parent}
		named := d.VerifNamedParameters()
		keys := make([]string, 0, len(named))
		for k := range named {
			keys = append(keys, k)
		}
		sort.Strings(keys)
		var np []string
		for _, k := range keys {
			if !utf8.ValidString(named[k]) {
				valid = false
			}
			np = append(np, k+"="+hxs(named[k]))
		}
		var up []string
		for _, u := range d.UnnamedParameter() {
			if !utf8.ValidString(u) {
				valid = false
			}
			up = append(up, hxs(u))
		}
		body := "n"
		if set, _, bb, be := d.VerifBodyCoords(); set {
			bd.hasBody, bd.bodyB, bd.bodyE = true, bb, be
			body = "b"
			if d.Type() == directive.Description {
				txt := string(d.BodyCoords.Read())
				if !utf8.ValidString(txt) {
					valid = false
				}
				body = "b" + hex.EncodeToString([]byte(txt))
			}
		}
		if !utf8.ValidString(d.Annotation) {
			valid = false
		}
		fmt.Fprintf(&b, " +%d;%d;%s;%s;%s;%s;%s", int(d.Type()), srcIDs[key], hxs(d.Keyword), strings.Join(np, ","), strings.Join(up, ","), hxs(d.Annotation), body)
		dirs = append(dirs, bd)
		for _, c := range d.Children {
			rec(c, d.Type())
		}
		b.WriteString(" -")
	}
	for _, d := range forest {
		rec(d, directive.Enumeration(255))
	}
	return b.String(), dirs, valid
}

// classifyBuildMsg maps a diagnostic text to the model's message class ("" = raised outside the modelled stages)
func classifyBuildMsg(msg string) string {
	has := func(s string) bool { return strings.Contains(msg, s) }
	pre := func(s string) bool { return strings.HasPrefix(msg, s) }
	switch {
	case msg == "JSIGHT should be the first directive":
		return "jsightFirst"
	case pre("directive not allowed"):
		return "notAllowed"
	case pre("required parameter(s) not specified"):
		if i := strings.LastIndex(msg, "("); i >= 0 && strings.HasSuffix(msg, ")") && i > 30 {
			return "required:" + msg[i+1:len(msg)-1]
		}
		return "required:"
	case msg == "unsupported version of JSIGHT":
		return "unsupportedVersion"
	case msg == "annotation is forbidden for the directive":
		return "annotationForbidden"
	case msg == "directive JSIGHT gotta be only one time":
		return "jsightTwice"
	case msg == "parameters are forbidden for the directive":
		return "parametersForbidden"
	case msg == "directive INFO gotta be only one time":
		return "infoTwice"
	case msg == "not a unique directive":
		return "notUnique"
	case msg == "empty description":
		return "emptyDescription"
	case pre("apart from the opening parenthesis"):
		return "descrParens"
	case msg == "wrong description context":
		return "wrongDescriptionContext"
	case pre("duplicate names are not allowed"):
		return "duplicateNames"
	case pre("server not found for"):
		return "serverNotFound"
	case msg == "BaseURL already defined":
		return "baseUrlDefined"
	case msg == "empty body":
		return "emptyBody"
	case msg == "unknown schema notation":
		return "unknownNotation"
	case msg == "path not found":
		return "pathNotFound"
	case msg == "incorrect path":
		return "incorrectPath"
	case pre("incorrect empty PATH parameter"):
		return "emptyPathParameter"
	case has("parameter is duplicated in the path"):
		return "duplicatePathParameter"
	case pre("disallow the use of \"similar\" paths"):
		return "similarPaths"
	case pre("non-unique path"):
		return "nonUniqueURL"
	case has("cannot be within the same URL directive"):
		return "mixedUrlChildren"
	case pre("method is already defined in resource"):
		return "methodDefined"
	case pre("tag not found"):
		return "tagNotFound"
	case msg == "HTTP method not found":
		return "httpMethodNotFound"
	case pre("resource not found"):
		return "resourceNotFound"
	case msg == "cannot use the Type and SchemaNotation parameters together":
		return "typeAndNotation"
	case pre("request is empty"):
		return "requestEmpty"
	case pre("responses is empty"):
		return "responsesEmpty"
	case msg == "incorrect request":
		return "incorrectRequest"
	case msg == "body is empty":
		return "bodyIsEmpty"
	case pre("You cannot specify User Type in the response directive"):
		return "userTypeWithBody"
	case msg == "parameters are unacceptable, according to the Body directive":
		return "parentParameters"
	case pre("the parameter value have to be"):
		return "protocolValue"
	case msg == "the directive Protocol must be unique within the directive URL":
		return "protocolNotUnique"
	case msg == "the directive \"Protocol\" was not found":
		return "protocolMissing"
	case msg == "JSON-RPC method not found":
		return "rpcMethodNotFound"
	case msg == "incorrect directive context":
		return "headersContext"
	case msg == "there is no body for the Path directive":
		return "noPathBody"
	case msg == "parent directive not found":
		return "parentNotFound"
	case msg == "empty info":
		return "emptyInfo"
	case pre("undefined request body for resource"):
		return "undefinedRequestBody"
	case pre("undefined response body for resource"):
		return "undefinedResponseBody"
	}
	return ""
}

func normBuildClass(c string) string {
	if c == "rpcResourceNotFound" {
		return "resourceNotFound"
	}
	return c
}

// ---- the real catalog's skeleton, in the format of DriverBuild.showCat

func hexOf(v *OVal) string {
	if v == nil {
		return "-"
	}
	return hxs(v.S)
}

func hexOpt(v *OVal) string {
	if v == nil {
		return "~"
	}
	return hxs(v.S)
}

func skelBody(b *OVal) string {
	if b == nil {
		return "~"
	}
	return hexOf(b.Get("format")) + "/" + hexOf(b.Path("schema", "notation"))
}

func realSkeleton(doc *OVal) string {
	var parts []string
	parts = append(parts, "jsight="+hexOf(doc.Get("jsight")))
	if in := doc.Get("info"); in != nil {
		parts = append(parts, "info="+strings.Join([]string{hexOf(in.Get("title")), hexOf(in.Get("version")), hexOpt(in.Get("description"))}, ","))
	} else {
		parts = append(parts, "info=~")
	}
	var ss []string
	for _, kv := range doc.Get("servers").Fields() {
		ss = append(ss, strings.Join([]string{hxs(kv.K), hexOf(kv.V.Get("annotation")), hexOf(kv.V.Get("baseUrl"))}, ","))
	}
	parts = append(parts, "servers="+strings.Join(ss, ";"))
	ss = nil
	for _, kv := range doc.Get("userTypes").Fields() {
		ss = append(ss, strings.Join([]string{hxs(kv.K), hexOf(kv.V.Get("annotation")), hexOf(kv.V.Path("schema", "notation"))}, ","))
	}
	parts = append(parts, "types="+strings.Join(ss, ";"))
	ss = nil
	for _, kv := range doc.Get("tags").Fields() {
		var http, rpc []string
		for _, g := range kv.V.Get("interactionGroups").Items() {
			for _, i := range g.Get("interactions").Items() {
				if g.Get("protocol").Str() == "http" {
					http = append(http, hxs(i.S))
				} else {
					rpc = append(rpc, hxs(i.S))
				}
			}
		}
		name := hexOf(kv.V.Get("name"))
		if name != hxs(kv.K) {
			name += "!key=" + hxs(kv.K)
		}
		ss = append(ss, strings.Join([]string{name, hexOf(kv.V.Get("title")), hexOpt(kv.V.Get("description")),
			"[" + strings.Join(http, "+") + "]", "[" + strings.Join(rpc, "+") + "]"}, ","))
	}
	parts = append(parts, "tags="+strings.Join(ss, ";"))
	ss = nil
	for _, kv := range doc.Get("interactions").Fields() {
		v := kv.V
		proto, method := "http", hexOf(v.Get("httpMethod"))
		if v.Get("protocol").Str() != "http" {
			proto, method = "rpc", hexOf(v.Get("method"))
		}
		id := hexOf(v.Get("id"))
		if id != hxs(kv.K) {
			id += "!key=" + hxs(kv.K)
		}
		var tags []string
		for _, t := range v.Get("tags").Items() {
			tags = append(tags, hxs(t.S))
		}
		q := "~"
		if qq := v.Get("query"); qq != nil {
			q = "Q" + hexOf(qq.Get("format")) + "/" + hexOf(qq.Get("example"))
		}
		rq := "~"
		if r := v.Get("request"); r != nil {
			hd := "~"
			if r.Get("headers") != nil {
				hd = "H"
			}
			rq = "R" + skelBody(r.Get("body")) + "/" + hd
		}
		var rs []string
		for _, r := range v.Get("responses").Items() {
			hd := "~"
			if r.Get("headers") != nil {
				hd = "H"
			}
			rs = append(rs, strings.Join([]string{hexOf(r.Get("code")), hexOf(r.Get("annotation")), skelBody(r.Get("body")), hd}, ","))
		}
		pa, re := "~", "~"
		if v.Get("params") != nil {
			pa = "P"
		}
		if v.Get("result") != nil {
			re = "S"
		}
		ss = append(ss, strings.Join([]string{id, proto, method, hexOf(v.Get("path")), hexOf(v.Get("annotation")), hexOpt(v.Get("description")),
			"[" + strings.Join(tags, "+") + "]", q, rq, "[" + strings.Join(rs, "+") + "]", pa, re}, ","))
	}
	parts = append(parts, "inters="+strings.Join(ss, ";"))
	return strings.Join(parts, " ")
}

// ---- the SHAPE of the real catalog JSON, in the canonical text of Json.text (lean/JSight/Model/Json.lean):
// objects "{<key hex>:<value>,…}" with the keys IN ORDER, arrays "[…]", strings "s<hex>" ("s-" when empty), null /
// true / false, numbers "n<literal>" (none is expected outside the opaque subtrees), and "?" for exactly the subtrees
// the model renders as `opaque` — decided by POSITION ("*" = a key of one of the four ordered maps, "[]" = an item):
var opaqueJsonPositions = map[string]bool{
	"userEnums":                                  true, // catalog.UserRules
	"userTypes.*.schema":                         true, // catalog.Schema
	"interactions.*.pathVariables":               true, // catalog.PathVariables
	"interactions.*.query.schema":                true,
	"interactions.*.request.headers.schema":      true,
	"interactions.*.request.body.schema":         true,
	"interactions.*.responses.[].headers.schema": true,
	"interactions.*.responses.[].body.schema":    true,
	"interactions.*.params.schema":               true,
	"interactions.*.result.schema":               true,
}

// the objects whose keys are user-given names (generated ordered maps), by position
var orderedMapPositions = map[string]bool{"tags": true, "servers": true, "userTypes": true, "interactions": true}

func realJsonShape(doc *OVal) string {
	var b strings.Builder
	var rec func(v *OVal, pos string)
	join := func(pos, k string) string {
		if pos == "" {
			return k
		}
		return pos + "." + k
	}
	rec = func(v *OVal, pos string) {
		if opaqueJsonPositions[pos] {
			b.WriteString("?")
			return
		}
		if v == nil {
			b.WriteString("null")
			return
		}
		switch v.Kind {
		case ONull:
			b.WriteString("null")
		case OBool:
			if v.B {
				b.WriteString("true")
			} else {
				b.WriteString("false")
			}
		case ONum:
			b.WriteString("n" + v.S)
		case OStr:
			b.WriteString("s" + hxs(v.S))
		case OArr:
			b.WriteString("[")
			for i, x := range v.Arr {
				if i > 0 {
					b.WriteString(",")
				}
				rec(x, join(pos, "[]"))
			}
			b.WriteString("]")
		case OObj:
			b.WriteString("{")
			for i, kv := range v.Obj {
				if i > 0 {
					b.WriteString(",")
				}
				b.WriteString(hxs(kv.K) + ":")
				if orderedMapPositions[pos] {
					rec(kv.V, join(pos, "*"))
				} else {
					rec(kv.V, join(pos, kv.K))
				}
			}
			b.WriteString("}")
		}
	}
	rec(doc, "")
	return b.String()
}

// pathVariableTokens: the Path directives the real code collected, as the "P<i>;<prefix>:<name>,…;<prop>,…" tokens
func pathVariableTokens(c *core.JApiCore) string {
	var b strings.Builder
	for i, v := range c.VerifRawPathVariableDetails() {
		var pp, props []string
		for _, x := range v.Params {
			pp = append(pp, hxs(x[0])+":"+hxs(x[1]))
		}
		for _, x := range v.Props {
			props = append(props, hxs(x))
		}
		fmt.Fprintf(&b, " P%d;%s;%s", i, strings.Join(pp, ","), strings.Join(props, ","))
	}
	return b.String()
}

// shapeFirstDiff: a window around the first position where two texts differ
func shapeFirstDiff(a, b string) string {
	i := 0
	for i < len(a) && i < len(b) && a[i] == b[i] {
		i++
	}
	lo := i - 120
	if lo < 0 {
		lo = 0
	}
	return fmt.Sprintf("at %d: implementation …%s, model …%s", i, trunc(a[lo:], 300), trunc(b[lo:], 300))
}

// jsonShapeCorrespondence: for every ACCEPTED case, the rendering model (Model/Json.lean `render`, op buildjson)
// against the shape of the real catalog JSON: key order, key set, every model-level string.
func jsonShapeCorrespondence(ctx *Ctx, mp *ModelProc, cases []buildCase, describe func(i int) string, label string) {
	var reqs []string
	var idx []int
	for i, bc := range cases {
		if bc.Skip != "" || !strings.HasPrefix(bc.Real, "ok ") || bc.RealJson == "" {
			continue
		}
		reqs = append(reqs, "buildjson "+strings.TrimPrefix(bc.Proto, "build ")+bc.PVs)
		idx = append(idx, i)
	}
	outs, err := mp.Batch(reqs)
	if err != nil {
		ctx.Break("model executable jsight-build failed (buildjson): " + err.Error())
		return
	}
	bad := 0
	for k, out := range outs {
		bc := cases[idx[k]]
		if strings.Contains(bc.RealJson, "?") {
			ctx.Cov.Hit("json shape: with opaque subtrees")
		}
		if out == "ok "+bc.RealJson {
			continue
		}
		bad++
		if bad <= 3 {
			ctx.Break(fmt.Sprintf("correspondence catalog serialisation (JSON tree differs): %s: %s", describe(idx[k]), shapeFirstDiff("ok "+bc.RealJson, out)))
		}
	}
	ctx.Cov.Component("catalog serialisation: Model/Json.lean render (jsight-build buildjson) vs the object tree of Catalog.ToJson() (key order, key set, strings; schemas / pathVariables / userEnums opaque) on the accepted ones of "+label, len(reqs), bad, "")
}

type buildCase struct {
	Proto string
	Dirs  []buildDir
	Real  string // "ok <skeleton>" | "err <class>"
	ErrAt []int  // model ids the real diagnostic may be located at
	Skip  string
	// accepted documents only: the shape of the real catalog JSON (realJsonShape) and the collected Path
	// directives (the "P…" tokens of the ops bind / buildjson)
	RealJson string
	PVs      string
}

// buildCaseOf runs the real code on one single-file document.
func buildCaseOf(content []byte, banned []directive.Enumeration) buildCase {
	return buildCaseOfProject(Project{Files: map[string][]byte{"root.jst": content}, Root: "root.jst", Banned: banned})
}

// buildCaseOfProject runs the real code on a project (several files are written to a scratch directory).
func buildCaseOfProject(p Project) (bc buildCase) {
	defer func() {
		if r := recover(); r != nil {
			bc.Skip = "panic (C01 matter)"
		}
	}()
	curInput = &p
	defer func() { curInput = nil }()
	rootName := p.Root
	if len(p.Files) > 1 {
		d, err := os.MkdirTemp(scratchBase(), "jsvb")
		if err != nil {
			bc.Skip = "scratch"
			return
		}
		defer os.RemoveAll(d)
		for name, content := range p.Files {
			full := filepath.Join(d, name)
			_ = os.MkdirAll(filepath.Dir(full), 0o755)
			_ = os.WriteFile(full, content, 0o644)
		}
		rootName = filepath.Join(d, p.Root)
	}
	return buildCaseAt(rootName, p.Files[p.Root], p.Banned)
}

// buildCaseAt runs the real code on the root file `rootName` (files it includes are read from the disk).
func buildCaseAt(rootName string, rootContent []byte, banned []directive.Enumeration) (bc buildCase) {
	defer func() {
		if r := recover(); r != nil {
			bc.Skip = "panic (C01 matter)"
		}
	}()
	p := Project{Files: map[string][]byte{"root": rootContent}, Root: "root", Banned: banned}
	c2 := core.NewJApiCore(fs.NewFile(rootName, rootContent))
	if je := c2.VerifScanOnly(); je != nil {
		bc.Skip = "rejected while scanning"
		return
	}
	if je := c2.VerifPasteOnly(); je != nil {
		bc.Skip = "rejected while expanding macros"
		return
	}
	var valid bool
	bc.Proto, bc.Dirs, valid = buildProto(c2.VerifDirectivesWithPastes(), p.Banned)
	if !valid {
		bc.Skip = "invalid UTF-8 in a parameter (JSON coerces it)"
		return
	}
	var oo []core.Option
	if len(p.Banned) > 0 {
		oo = append(oo, banOptions(p.Banned)...)
	}
	oo = append(oo, core.WithFixedSeedForRegex())
	c1 := core.NewJApiCore(fs.NewFile(rootName, rootContent), oo...)
	if je := c1.ValidateJAPI(); je != nil {
		cl := classifyBuildMsg(je.Msg)
		if cl == "" {
			bc.Skip = "diagnostic of a stage outside the model"
			return
		}
		bc.Real = "err " + cl
		for i, d := range bc.Dirs {
			if d.file != je.VerifFile() {
				continue
			}
			if cl == "descrParens" {
				if d.hasBody && d.kind == directive.Description && uint(je.Index()) >= d.bodyB && uint(je.Index()) <= d.bodyE+1 {
					bc.ErrAt = append(bc.ErrAt, i)
				}
			} else if d.begin == uint(je.Index()) {
				bc.ErrAt = append(bc.ErrAt, i)
			}
		}
		// diagnostics located at an ENUM (collectRules) are raised by a stage outside the model
		outside := len(bc.ErrAt) > 0
		for _, i := range bc.ErrAt {
			if k := bc.Dirs[i].kind; k != directive.Enum {
				outside = false
			}
		}
		// … except the two diagnostics of collectRules that Build.checkRules models: a nameless ENUM, a second ENUM of one name
		if cl == "required:Name" || cl == "duplicateNames" {
			outside = false
		}
		if outside {
			bc.Skip = "diagnostic of a stage outside the model"
		}
		return
	}
	js, err := c1.Catalog().ToJson()
	if err != nil {
		bc.Skip = "serialisation error (C09 matter)"
		return
	}
	doc, _, err := ParseOJSON(js)
	if err != nil {
		bc.Skip = "unreadable JSON (C09 matter)"
		return
	}
	bc.Real = "ok " + realSkeleton(doc)
	bc.RealJson = realJsonShape(doc)
	bc.PVs = pathVariableTokens(c1)
	return
}

// compareBuild: "" when the model's answer agrees with the real outcome
func compareBuild(bc buildCase, model string) string {
	if strings.HasPrefix(bc.Real, "ok ") {
		if model == bc.Real {
			return ""
		}
		return "catalog differs"
	}
	var id int
	var cl string
	if n, _ := fmt.Sscanf(model, "err %d %s", &id, &cl); n != 2 {
		return "the model accepts, the implementation rejects"
	}
	if "err "+normBuildClass(cl) != bc.Real {
		return "diagnostic class differs"
	}
	for _, x := range bc.ErrAt {
		if x == id {
			return ""
		}
	}
	return "diagnostic located at another directive"
}

// buildCorrespondence feeds documents to both sides.
func buildCorrespondence(ctx *Ctx, docs [][]byte, bans [][]directive.Enumeration, label string) {
	var pp []Project
	for i, d := range docs {
		p := SingleFile(d)
		if bans != nil {
			p.Banned = bans[i]
		}
		pp = append(pp, p)
	}
	buildCorrespondenceProjects(ctx, pp, label)
	projectCorrespondence(ctx, docs, bans, label)
}

func buildCorrespondenceProjects(ctx *Ctx, projects []Project, label string) {
	mp, err := ctx.Model("jsight-build")
	if err != nil {
		ctx.Break("correspondence catalog construction: model not available: " + err.Error())
		return
	}
	var cases []buildCase
	var reqs []string
	var idx []int
	for i := range projects {
		bc := buildCaseOfProject(projects[i])
		cases = append(cases, bc)
		if bc.Skip != "" {
			ctx.Cov.Hit("build: " + bc.Skip)
			continue
		}
		reqs = append(reqs, bc.Proto)
		idx = append(idx, i)
	}
	outs, err := mp.Batch(reqs)
	if err != nil {
		ctx.Break("model executable jsight-build failed: " + err.Error())
		return
	}
	bad := 0
	for k, out := range outs {
		i := idx[k]
		bc := cases[i]
		nontrivial := strings.Count(bc.Proto, " +") >= 6
		ctx.Cov.Count([]byte(bc.Proto), nontrivial)
		if strings.HasPrefix(bc.Real, "ok ") {
			ctx.Cov.Hit("build: accepted")
		} else {
			ctx.Cov.Hit("build: " + bc.Real)
		}
		if why := compareBuild(bc, out); why != "" {
			bad++
			if bad <= 3 {
				ctx.Break(fmt.Sprintf("correspondence catalog construction (%s): document %q: implementation %q at %v, model %q", why, trunc(string(projects[i].Files[projects[i].Root]), 700), trunc(bc.Real, 900), bc.ErrAt, trunc(out, 900)))
			}
		}
	}
	ctx.Cov.Component("catalog construction: Model/Build.lean (jsight-build) vs the real pipeline on "+label, len(reqs), bad, "")
	jsonShapeCorrespondence(ctx, mp, cases, func(i int) string {
		return fmt.Sprintf("document %q", trunc(string(projects[i].Files[projects[i].Root]), 700))
	}, label)
}

// lineMutant: a document with one line deleted, duplicated, moved, re-indented or with its keyword replaced —
// most of them are rejected, by many different checks of the catalog construction
func lineMutant(r *Rng, doc []byte) []byte {
	lines := strings.Split(strings.TrimRight(string(doc), "\n"), "\n")
	if len(lines) < 3 {
		return doc
	}
	i := 1 + r.Intn(len(lines)-1)
	switch r.Intn(7) {
	case 0: // delete
		lines = append(lines[:i:i], lines[i+1:]...)
	case 1: // duplicate
		lines = insertAt(lines, i, []string{lines[i]})
	case 2: // move
		j := 1 + r.Intn(len(lines)-1)
		l := lines[i]
		lines = append(lines[:i:i], lines[i+1:]...)
		if j > len(lines) {
			j = len(lines)
		}
		lines = insertAt(lines, j, []string{l})
	case 3: // re-indent
		lines[i] = strings.Repeat(" ", 2*r.Intn(4)) + strings.TrimLeft(lines[i], " ")
	case 4: // duplicate the block
		e := blockEnd(lines, i)
		lines = insertAt(lines, e, append([]string{}, lines[i:e]...))
	case 5: // add an annotation
		if kw := keywordOf(lines[i]); kw != "" && !strings.Contains(lines[i], "//") {
			lines[i] += " // note"
		}
	default: // drop the parameters
		if kw := keywordOf(lines[i]); kw != "" {
			lines[i] = lines[i][:indentOf(lines[i])] + kw
		}
	}
	return []byte(strings.Join(lines, "\n") + "\n")
}

// buildCorrSuite: the documents the catalog-construction correspondence is run on
func buildCorrSuite(ctx *Ctx, r *Rng, n int) {
	var docs [][]byte
	for i := 0; i < n; i++ {
		m := GenModel(r)
		switch i % 5 {
		case 0:
			c, _ := m.Render(RandomStyle(r.Fork()), true)
			docs = append(docs, c)
		case 1, 2:
			base, _ := m.Render(PlainStyle(), true)
			lines := strings.Split(strings.TrimRight(string(base), "\n"), "\n")
			ff := injectFaults(lines, r)
			for k := 0; k < 3 && len(ff) > 0; k++ {
				f := ff[r.Intn(len(ff))]
				docs = append(docs, []byte(strings.Join(f.doc, "\n")+"\n"))
			}
		default:
			base, _ := m.Render(PlainStyle(), true)
			d := lineMutant(r, base)
			if r.Bool() {
				d = lineMutant(r, d)
			}
			docs = append(docs, d)
		}
	}
	for i := 0; i < n/4; i++ {
		docs = append(docs, collisionDoc(r), hostileDoc(r), bodylessDoc(r), similarRootDoc(r), twoRequestsDoc(r))
	}
	// copies of one macro method with its own Path under consecutive URLs (F44: the Path stage goes by identity)
	for _, d := range urlMacroDocs() {
		docs = append(docs, []byte(d.M), []byte(d.I))
	}
	var fixtures [][]byte
	for _, f := range fixtureFiles() {
		if strings.Contains(f, "include") {
			continue
		}
		if b, err := os.ReadFile(f); err == nil && len(b) < 8000 {
			fixtures = append(fixtures, b)
			docs = append(docs, b)
		}
	}
	for i := 0; i < n/2 && len(fixtures) > 0; i++ {
		docs = append(docs, lineMutant(r, fixtures[r.Intn(len(fixtures))]))
	}
	buildCorrespondence(ctx, docs, nil, "generated documents in random styles, single injected faults, line mutants, id-collision and hostile-name documents, the fixture files and their line mutants")
}

// similarRootDoc: paths that differ only in a parameter name, the parameter being the FIRST segment or a later one,
// through methods and URL blocks; and controls with the same name
func similarRootDoc(r *Rng) []byte {
	names := []string{"id", "name", "x"}
	a, b := names[r.Intn(3)], names[r.Intn(3)]
	pre := []string{"", "/shops", "/a/b"}[r.Intn(3)]
	suf1 := []string{"", "/items", "/u/{k}"}[r.Intn(3)]
	suf2 := []string{"", "/orders", "/v"}[r.Intn(3)]
	p1, p2 := pre+"/{"+a+"}"+suf1, pre+"/{"+b+"}"+suf2
	block := func(p string, i int) string {
		switch r.Intn(3) {
		case 0:
			return "GET " + p + "\n  200 any\n"
		case 1:
			return "URL " + p + "\n  POST\n    200 any\n"
		}
		return fmt.Sprintf("URL %s\n  Protocol json-rpc-2.0\n  Method m%d\n    Params\n    {}\n", p, i)
	}
	return []byte("JSIGHT 0.3\n" + block(p1, 1) + "TYPE @t\n{}\n" + block(p2, 2))
}

// twoRequestsDoc: one method with two Request directives whose contents complement one another (headers in one,
// the body in the other; `Request any` and a Request with Headers), in both orders, and controls with one Request
func twoRequestsDoc(r *Rng) []byte {
	parts := []string{"  Request\n    Headers\n    {\"h\": 1}\n", "  Request\n    Body\n    {\"a\": 1}\n", "  Request any\n", "  Request\n  {\"b\": 2}\n",
		"  Request\n    Headers\n    {\"h\": 1}\n    Body any\n"}
	a, b := parts[r.Intn(len(parts))], parts[r.Intn(len(parts))]
	between := []string{"", "  Query\n  {}\n", "  Description\n  (\n    text\n  )\n"}[r.Intn(3)]
	if r.Chance(1, 4) {
		b = "" // control: a single Request
	}
	return []byte("JSIGHT 0.3\nPOST /p\n" + a + between + b + "  200 any\n")
}

// buildCorrespondenceFixtureProjects: the fixture files that use INCLUDE, run in place (the files they include are
// read from the repository's testdata directory)
func buildCorrespondenceFixtureProjects(ctx *Ctx) {
	mp, err := ctx.Model("jsight-build")
	if err != nil {
		ctx.Break("correspondence catalog construction: model not available: " + err.Error())
		return
	}
	var cases []buildCase
	var reqs []string
	var names []string
	for _, f := range fixtureFiles() {
		if !strings.Contains(f, "include") {
			continue
		}
		b, err := os.ReadFile(f)
		if err != nil {
			continue
		}
		bc := buildCaseAt(f, b, nil)
		if bc.Skip != "" {
			ctx.Cov.Hit("build (fixture projects): " + bc.Skip)
			continue
		}
		cases = append(cases, bc)
		reqs = append(reqs, bc.Proto)
		names = append(names, f)
	}
	outs, err := mp.Batch(reqs)
	if err != nil {
		ctx.Break("correspondence catalog construction: " + err.Error())
		return
	}
	bad := 0
	for k, out := range outs {
		ctx.Cov.Count([]byte(reqs[k]), true)
		if why := compareBuild(cases[k], out); why != "" {
			bad++
			if bad <= 3 {
				ctx.Break(fmt.Sprintf("correspondence catalog construction (%s): fixture %s: implementation %q at %v, model %q", why, names[k], trunc(cases[k].Real, 700), cases[k].ErrAt, trunc(out, 700)))
			}
		}
	}
	ctx.Cov.Component("catalog construction: Model/Build.lean vs the real pipeline on the fixture projects that use INCLUDE", len(reqs), bad, "")
	jsonShapeCorrespondence(ctx, mp, cases, func(i int) string { return "fixture " + names[i] }, "the fixture projects that use INCLUDE")
}
