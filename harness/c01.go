package main

import (
	"encoding/json"
	"fmt"
	"os"
	"path/filepath"
	"regexp"
	"sort"
	"strings"
	"time"
)

func init() {
	props["C01"] = &propCheck{
		lean: []string{"JSight.Props.C01_Scanner", "JSight.Props.C01_Term", "JSight.Props.C01_Project", "JSight.Props.C02", "JSight.Props.C07", "JSight.Props.C08_Include"},
		exes: []string{"jsight-scan", "jsight-build"},
		run:  runC01,
		rule: "root files: all sequences up to the length bound over the 66-token scanner alphabet, sampled longer sequences, all fixture files and byte-level mutants of them, generated documents and mutants; projects: generated include graphs (empty, missing, directory, self-including, cyclic, diamond, deep) and macro graphs (chains, cycles of length 1..6, unused); every project is processed in a child process with a time limit; non-trivial = the scanner emits >= 2 lexemes or the project has >= 2 files; distinct = distinct project bytes",
		assume: []string{
			"faults raised inside the schema library and relayed as diagnostics cannot be repaired in /repo; they are excluded from the theorems by the oracle assumption and listed as known findings by fault class",
			"real stack depth and wall-clock are runtime: the model gives step bounds, the worker processes observe the process",
		},
		trusted: []string{"modelled, not verified: the schema library (oracle), os/filepath (finite-map file system in the include model)"},
	}
}

var reRuntime = regexp.MustCompile(`runtime error: ([a-z ]+)`)

// faultClass canonicalises a Go runtime fault text: "index out of range", "nil pointer dereference", "slice bounds out of range"…
func faultClass(s string) string {
	if m := reRuntime.FindStringSubmatch(s); m != nil {
		c := strings.TrimSpace(m[1])
		if i := strings.Index(c, " with "); i > 0 {
			c = c[:i]
		}
		return c
	}
	return "panic"
}

// topFrames: the frame in which the fault was raised = the first jsightapi frame below the LAST
// (innermost, original) runtime panic marker of the stack; split into (frame in /repo, frame in the library).
func topFrames(stack string) (repoFrame, libFrame string) {
	lines := strings.Split(stack, "\n")
	start := 0
	for i, l := range lines {
		t := strings.TrimSpace(l)
		if strings.HasPrefix(t, "panic(") || strings.HasPrefix(t, "runtime.goPanic") || strings.HasPrefix(t, "runtime.sigpanic") || strings.HasPrefix(t, "runtime.panic") {
			start = i + 1
		}
	}
	for _, l := range lines[start:] {
		l = strings.TrimSpace(l)
		if !strings.HasPrefix(l, "github.com/jsightapi/") {
			continue
		}
		fn := l
		if i := strings.LastIndex(fn, "("); i > 0 {
			fn = fn[:i]
		}
		if strings.Contains(fn, "jsight-schema-go-library") {
			if libFrame == "" && repoFrame == "" {
				libFrame = strings.TrimPrefix(fn, "github.com/jsightapi/jsight-schema-go-library/")
			}
		} else if repoFrame == "" {
			repoFrame = strings.TrimPrefix(fn, "github.com/jsightapi/jsight-api-go-library/")
		}
	}
	return
}

func includeGraphs(r *Rng) []Project {
	body := "TYPE @t%d\n{}\n"
	var out []Project
	mk := func(files map[string]string, root string) {
		p := Project{Files: map[string][]byte{}, Root: root}
		for k, v := range files {
			p.Files[k] = []byte(v)
		}
		out = append(out, p)
	}
	mk(map[string]string{"root.jst": "JSIGHT 0.3\nINCLUDE a.jst\n", "a.jst": ""}, "root.jst")                                                                                          // empty file
	mk(map[string]string{"root.jst": "JSIGHT 0.3\nURL /a\n(\nINCLUDE a.jst\n", "a.jst": ""}, "root.jst")                                                                               // empty file, open paren
	mk(map[string]string{"root.jst": "JSIGHT 0.3\nINCLUDE missing.jst\n"}, "root.jst")                                                                                                 // missing
	mk(map[string]string{"root.jst": "JSIGHT 0.3\nINCLUDE dir\n", "dir/": ""}, "root.jst")                                                                                             // directory
	mk(map[string]string{"root.jst": "JSIGHT 0.3\nINCLUDE root.jst\n"}, "root.jst")                                                                                                    // self
	mk(map[string]string{"root.jst": "JSIGHT 0.3\nINCLUDE a.jst\n", "a.jst": "INCLUDE b.jst\n", "b.jst": "INCLUDE a.jst\n"}, "root.jst")                                               // cycle
	mk(map[string]string{"root.jst": "JSIGHT 0.3\nINCLUDE a.jst\nINCLUDE b.jst\n", "a.jst": "INCLUDE c.jst\n", "b.jst": "INCLUDE c.jst\n", "c.jst": fmt.Sprintf(body, 1)}, "root.jst") // diamond (duplicate type)
	mk(map[string]string{"root.jst": "JSIGHT 0.3\nINCLUDE a.jst // x\n", "a.jst": ""}, "root.jst")
	mk(map[string]string{"root.jst": "JSIGHT 0.3\nINCLUDE a.jst b\n", "a.jst": ""}, "root.jst")
	mk(map[string]string{"root.jst": "JSIGHT 0.3\nINCLUDE\n"}, "root.jst")
	mk(map[string]string{"root.jst": "JSIGHT 0.3\nINCLUDE \"\"\n"}, "root.jst")
	mk(map[string]string{"root.jst": "JSIGHT 0.3\nINCLUDE a.jst\n", "a.jst": "JSIGHT 0.3\n"}, "root.jst")
	mk(map[string]string{"root.jst": "JSIGHT 0.3\nINCLUDE a.jst\n", "a.jst": "URL /x\n  GET\n    200\n"}, "root.jst") // error in included file at EOF
	// deep chain
	deep := map[string]string{"root.jst": "JSIGHT 0.3\nINCLUDE f0.jst\n"}
	for i := 0; i < 40; i++ {
		deep[fmt.Sprintf("f%d.jst", i)] = fmt.Sprintf("INCLUDE f%d.jst\n", i+1)
	}
	deep["f40.jst"] = fmt.Sprintf(body, 40)
	mk(deep, "root.jst")
	// random graphs
	for k := 0; k < 20; k++ {
		n := 2 + r.Intn(4)
		files := map[string]string{}
		for i := 0; i < n; i++ {
			var b strings.Builder
			if i == 0 {
				b.WriteString("JSIGHT 0.3\n")
			}
			for j := 0; j < 1+r.Intn(3); j++ {
				switch r.Intn(4) {
				case 0:
					fmt.Fprintf(&b, "INCLUDE f%d.jst\n", r.Intn(n))
				case 1:
					fmt.Fprintf(&b, body, k*100+i*10+j)
				case 2:
					fmt.Fprintf(&b, "URL /u%d\n  INCLUDE f%d.jst\n", k*100+i*10+j, r.Intn(n))
				default:
					fmt.Fprintf(&b, "GET /g%d\n  200 any\n", k*100+i*10+j)
				}
			}
			files[fmt.Sprintf("f%d.jst", i)] = b.String()
		}
		mk(files, "f0.jst")
	}
	return out
}

func macroGraphs(r *Rng) []Project {
	var out []Project
	for n := 1; n <= 6; n++ {
		for variant := 0; variant < 3; variant++ {
			var b strings.Builder
			b.WriteString("JSIGHT 0.3\n")
			for m := 1; m <= n; m++ {
				fmt.Fprintf(&b, "MACRO @m%d\n(\n  GET /p%d\n    200 any\n  PASTE @m%d\n)\n", m, m, m%n+1)
			}
			if variant >= 1 {
				b.WriteString("PASTE @m1\n")
			}
			if variant == 2 {
				b.WriteString("URL /x\n  PASTE @m2\n")
			}
			out = append(out, SingleFile([]byte(b.String())))
		}
	}
	// a cycle behind a macro that is not on it (entry defined first or last; pasted before the definitions)
	for n := 1; n <= 4; n++ {
		for variant := 0; variant < 2; variant++ {
			var b strings.Builder
			b.WriteString("JSIGHT 0.3\n\nPASTE @entry\n\n")
			entry := "MACRO @entry\n  PASTE @m1\n\n"
			if variant == 0 {
				b.WriteString(entry)
			}
			for m := 1; m <= n; m++ {
				fmt.Fprintf(&b, "MACRO @m%d\n  PASTE @m%d\n\n", m, m%n+1)
			}
			if variant == 1 {
				b.WriteString(entry)
			}
			out = append(out, SingleFile([]byte(b.String())))
		}
	}
	// long chain without a cycle, wide fan-out
	var b strings.Builder
	b.WriteString("JSIGHT 0.3\n")
	for m := 1; m <= 30; m++ {
		fmt.Fprintf(&b, "MACRO @m%d\n(\n  TYPE @t%d\n  {}\n", m, m)
		if m < 30 {
			fmt.Fprintf(&b, "  PASTE @m%d\n", m+1)
		}
		b.WriteString(")\n")
	}
	b.WriteString("PASTE @m1\n")
	out = append(out, SingleFile([]byte(b.String())))
	// exponential fan-out (bounded time?)
	b.Reset()
	b.WriteString("JSIGHT 0.3\n")
	for m := 1; m <= 14; m++ {
		fmt.Fprintf(&b, "MACRO @m%d\n(\n", m)
		if m < 14 {
			fmt.Fprintf(&b, "  PASTE @m%d\n  PASTE @m%d\n", m+1, m+1)
		} else {
			b.WriteString("  SERVER @s // x\n")
		}
		b.WriteString(")\n")
	}
	out = append(out, SingleFile([]byte(b.String())))
	return out
}

// corpusProjects: the witnesses of the known findings of this property and past failing inputs, run first
func corpusProjects() []Project {
	var out []Project
	files, _ := filepath.Glob(filepath.Join(verifDir(), "replays", "known", "F*.json"))
	sort.Strings(files)
	for _, f := range files {
		b, err := os.ReadFile(f)
		if err != nil {
			continue
		}
		var w struct {
			Property  string `json:"property"`
			Violation struct {
				Input struct {
					Files map[string]string `json:"files"`
					Root  string            `json:"root"`
				} `json:"input"`
			} `json:"violation"`
		}
		if json.Unmarshal(b, &w) != nil || w.Property != "C01" || len(w.Violation.Input.Files) == 0 {
			continue
		}
		p := Project{Files: map[string][]byte{}, Root: w.Violation.Input.Root}
		for k, v := range w.Violation.Input.Files {
			p.Files[k] = unhx(v)
		}
		out = append(out, p)
	}
	return out
}

func runC01(ctx *Ctx) {
	r := ctx.Rng.Fork()
	// tie of the composed model (Props/C01_Project: process_no_fault, process_total) to the real pipeline
	projectCorrSuite(ctx, r.Fork(), ctx.Budget(1000, 60000))
	projectFSCorrespondence(ctx, includeGraphs(r.Fork()), "include graphs (empty, missing, directory, self-including, cyclic, diamond, deep, random)")
	projects := corpusProjects()
	depth := 2
	enumTokenSeqs(scanTokens, depth, func(b []byte) { projects = append(projects, SingleFile(append([]byte("JSIGHT 0.3\n"), b...))) })
	for i := 0; i < ctx.Budget(30000, 2000000); i++ {
		n := 2 + r.Intn(7)
		var b []byte
		if r.Bool() {
			b = append(b, "JSIGHT 0.3\n"...)
		}
		for k := 0; k < n; k++ {
			b = append(b, scanTokens[r.Intn(len(scanTokens))]...)
			if r.Chance(1, 2) {
				b = append(b, []string{" ", "\n", "\n  "}[r.Intn(3)]...)
			}
		}
		projects = append(projects, SingleFile(b))
	}
	var fixtures [][]byte
	for _, f := range fixtureFiles() {
		if b, err := os.ReadFile(f); err == nil && len(b) < 8000 && !strings.Contains(f, "include") {
			fixtures = append(fixtures, b)
		}
	}
	for i := 0; i < ctx.Budget(8000, 600000) && len(fixtures) > 0; i++ {
		projects = append(projects, SingleFile(mutate(r, fixtures[r.Intn(len(fixtures))])))
	}
	for i := 0; i < ctx.Budget(1500, 100000); i++ {
		m := GenModel(r)
		d, _ := m.Render(RandomStyle(r.Fork()), true)
		projects = append(projects, SingleFile(mutate(r, d)))
	}
	projects = append(projects, includeGraphs(r)...)
	projects = append(projects, macroGraphs(r)...)
	projects = append(projects, schemaPlaceProjects()...)
	projects = append(projects, SingleFile(nil), SingleFile([]byte{0}), SingleFile([]byte("\xff\xfe")), SingleFile([]byte(strings.Repeat("(\n", 5000))),
		SingleFile([]byte("JSIGHT 0.3\nURL /a\n"+strings.Repeat("(\n URL /a\n", 800))), SingleFile([]byte("JSIGHT 0.3\nTYPE @t\n"+strings.Repeat("[", 3000))))

	// the signature of a run that is a violation ("" otherwise), and the reduction of a failing project under it
	sigOf := func(wr WorkerResult) string {
		switch {
		case wr.Resp == nil:
			return "fatal:" + firstWords(wr.Crashed, 3)
		case wr.Resp.Panic != "":
			repo, lib := topFrames(wr.Resp.Stack)
			if lib != "" {
				repo = lib
			}
			return "panic:" + faultClass(wr.Resp.Panic) + "@" + repo
		case wr.Resp.Err != nil && strings.Contains(wr.Resp.Err.Msg, "runtime error"):
			return "relayed:" + faultClass(wr.Resp.Err.Msg)
		}
		return ""
	}
	shrinker := func(p Project, in map[string]any, want string) func() map[string]any {
		return func() map[string]any {
			q, ok := shrinkProject(p, func(cands []Project) []bool {
				rs := RunInWorkers(cands, 3*time.Second)
				out := make([]bool, len(cands))
				for i := range rs {
					out[i] = sigOf(rs[i]) == want
				}
				return out
			}, 400)
			if !ok {
				return nil
			}
			return shrunkInput(in, q)
		}
	}
	results := RunInWorkers(projects, 3*time.Second)
	for i, p := range projects {
		wr := results[i]
		nontrivial := len(p.Files) >= 2 || strings.Count(string(p.Files[p.Root]), "\n") >= 2
		var key []byte
		for _, f := range p.Files {
			key = append(key, f...)
		}
		ctx.Cov.Count(key, nontrivial)
		in := projectInput(p)
		in["op"] = "project"
		switch {
		case wr.Resp == nil:
			ctx.Cov.Hit("process died / timed out")
			ctx.Violate(Violation{Kind: "crash", Site: "process", What: "the process processing the project died or did not finish: " + trunc(wr.Crashed, 600), Input: in,
				Signature: "fatal:" + firstWords(wr.Crashed, 3), shrink: shrinker(p, in, sigOf(wr))})
		case wr.Resp.Panic != "":
			repo, lib := topFrames(wr.Resp.Stack)
			ctx.Cov.Hit("panic")
			site := repo
			if lib != "" {
				site = lib
			}
			ctx.Violate(Violation{Kind: "crash", Site: site, What: fmt.Sprintf("panic: %s (in %s / %s)", wr.Resp.Panic, repo, lib), Input: in, Observed: trunc(wr.Resp.Stack, 1500),
				Signature: "panic:" + faultClass(wr.Resp.Panic) + "@" + site, shrink: shrinker(p, in, sigOf(wr))})
		case wr.Resp.Err != nil && strings.Contains(wr.Resp.Err.Msg, "runtime error"):
			ctx.Cov.Hit("runtime fault relayed as a diagnostic")
			_, lib, stack := TraceLibFault(p)
			wr.Resp.LibFault = stack
			if lib == "" {
				lib = "unknown (not swallowed by the library's own handler)"
			}
			ctx.Violate(Violation{Kind: "lib-runtime-fault", Site: lib, What: "a Go runtime fault is reported as if it were a diagnostic: " + wr.Resp.Err.Msg + " (raised in " + lib + ")", Input: in,
				Observed: trunc(wr.Resp.LibFault, 1500), Signature: "relayed:" + faultClass(wr.Resp.Err.Msg) + "@" + lib, shrink: shrinker(p, in, sigOf(wr))})
		case wr.Resp.Err != nil:
			ctx.Cov.Hit("rejected")
		default:
			ctx.Cov.Hit("accepted")
		}
		if i < 2 {
			ctx.Cov.Sample(map[string]any{"root": trunc(string(p.Files[p.Root]), 200), "verdict": fmt.Sprint(wr.Resp != nil && wr.Resp.Verdict != "", " ", func() string {
				if wr.Resp != nil {
					return wr.Resp.Verdict
				}
				return wr.Crashed
			}())})
		}
	}
	ctx.Cov.Component("every project ends in a catalog or a JApiError, in a child process with a time limit (specification on the implementation)", len(projects), len(ctx.Violations), "")
}


// schemaPlaceProjects: every SHAPE of schema body — objects, scalars, arrays, references to user types of every notation
// (object, scalar, regex, any, empty, enum-ruled, recursive, undefined), "or" rules with and without "type", enum rules,
// allOf, nullable, additionalProperties, nested objects, empty values — at every PLACE that takes a schema: Path (where
// the body is taken apart by core/compile_catalog.go and core/path_variables.go), Query, Headers, request / response
// bodies, Params / Result, TYPE. The stages behind the catalog construction must answer with a catalog or a diagnostic.
func schemaPlaceProjects() []Project {
	decls := "TYPE @obj\n{\"id\": 1}\nTYPE @scalar\n1\nTYPE @re regex\n/ab/\nTYPE @anyT any\nTYPE @emptyT empty\nTYPE @arr\n[1]\n" +
		"TYPE @short\n@obj\nTYPE @orT\n@obj | @scalar\nTYPE @rec\n{\n  \"id\": 1,\n  \"next\": @rec // {optional: true}\n}\nENUM @e\n[1, 2]\n" +
		"TYPE @inh\n{} // {allOf: \"@obj\"}\nTYPE @enumT\n1 // {enum: @e}\n"
	bodies := []string{
		"@obj", "@scalar", "@re", "@anyT", "@emptyT", "@arr", "@short", "@orT", "@rec", "@inh", "@enumT", "@undefined", "@obj | @scalar", "[@obj]",
		"{\"id\": 1}", "{}", "[]", "1", "\"s\"", "null", "{\"id\": @obj}", "{\"id\": @re}", "{\"id\": @scalar}", "{\"id\": @undefined}",
		"{\n  \"id\": 1 // {or: [{min: 1}, {type: \"string\"}]}\n}", "{\n  \"id\": 1 // {or: [{type: \"integer\"}, \"@scalar\"]}\n}",
		"{\n  \"id\": 1 // {or: [\"@re\", \"@obj\"]}\n}", "{\n  \"id\": 1 // {or: [{enum: [1, 2]}, {type: \"string\"}]}\n}", "{\n  \"id\": 1 // {or: []}\n}",
		"{\n  \"id\": 1 // {type: \"@scalar\"}\n}", "{\n  \"id\": 1 // {type: \"@re\"}\n}", "{\n  \"id\": 1 // {type: \"mixed\"}\n}", "{\n  \"id\": 1 // {enum: [1, 2]}\n}",
		"{\n  \"id\": 1 // {enum: @e}\n}", "{\n  \"id\": 1 // {enum: @undefinedEnum}\n}", "{\n  \"id\": 1 // {nullable: true}\n}", "{\n  \"id\": 1 // {optional: true}\n}",
		"{\"id\": 1} // {additionalProperties: true}", "{\"id\": 1} // {nullable: true}", "{\"id\": 1} // {allOf: \"@obj\"}", "{} // {allOf: [\"@obj\", \"@rec\"]}",
		"{} // {allOf: \"@re\"}", "{} // {allOf: \"@scalar\"}", "{\"id\": {\"deep\": 1}}", "{\"id\": [1, 2]}", "{\"id\": {}}", "{\"id\": []}",
		"{\"id\": 1, \"id\": 2}", "{\"other\": 1}", "{\"id\": 1, \"other\": 2}", "{@obj: 1}", "{\n  \"id\": 1 // {const: true}\n}", "{\n  \"id\": 1.5 // {precision: 1}\n}",
		"{\"id\": \"x\" // {regex: \"[\"}}", "{\n  \"id\": 1 // {min: \"a\"}\n}", "{\n  \"id\": 1 // {type: 5}\n}", "{\n  \"id\": 1 // {or: 5}\n}", "{\n  \"id\": 1 // {or: [5]}\n}", "{\n  \"id\": 1 // {or: [{}]}\n}",
	}
	places := []string{
		"GET /cats/{id}\n  Path\n  %s\n  200 any\n",
		"URL /cats/{id}\n  Path\n  %s\n  GET\n    200 any\n  POST\n    200 any\n",
		"GET /a/{id}/b/{id2}\n  Path\n  %s\n  200 any\nGET /a/{id}\n  200 any\n",
		"GET /cats\n  Query\n  %s\n  200 any\n",
		"POST /cats\n  Request\n    Headers\n    %s\n    Body any\n  200 any\n",
		"GET /cats\n  200\n    Headers\n    %s\n    Body any\n",
		"POST /cats\n  Request\n  %s\n  200\n  %s\n",
		"URL /rpc\n  Protocol json-rpc-2.0\n  Method m\n    Params\n    %s\n    Result\n    %s\n",
		"TYPE @fresh\n%s\nGET /cats\n  200 @fresh\n",
	}
	var out []Project
	for _, pl := range places {
		for _, b := range bodies {
			doc := "JSIGHT 0.3\n" + strings.ReplaceAll(pl, "%s", b) + decls
			out = append(out, SingleFile([]byte(doc)))
		}
	}
	return out
}
