package main

import (
	"crypto/sha256"
	"encoding/json"
	"os"
	"path/filepath"
	"sort"
	"time"
)

// Evidence mirrors /root/.vp/EVIDENCE.schema.json (level "proof").
type Evidence struct {
	PropertyID  string         `json:"property_id"`
	Tier        string         `json:"tier"`
	Seed        int64          `json:"seed"`
	Level       string         `json:"level"`
	Coverage    map[string]any `json:"coverage"`
	Assumptions []string       `json:"assumptions"`
	WallS       float64        `json:"wall_s"`
	Violations  int            `json:"violations"`
}

// Cover collects what a run covered.
type Cover struct {
	Evaluations int
	distinct    map[[16]byte]struct{}
	Samples     []any
	Rule        string
	Exhaustive  bool
	Components  []map[string]any // correspondence components
	Dist        map[string]int   // input distribution histogram
	Theorems    []map[string]any
	Obligations int
	Discharged  int
	CheckerCmd  string
	Notes       []string
}

func NewCover() *Cover {
	return &Cover{distinct: map[[16]byte]struct{}{}, Dist: map[string]int{}}
}

// Count registers one evaluated case. key is the canonical input; nontrivial
// says whether the case is non-trivial by the property's rule.
func (c *Cover) Count(key []byte, nontrivial bool) {
	c.Evaluations++
	if nontrivial {
		h := sha256.Sum256(key)
		var k [16]byte
		copy(k[:], h[:16])
		c.distinct[k] = struct{}{}
	}
}

func (c *Cover) Sample(s any) {
	if len(c.Samples) < 8 {
		c.Samples = append(c.Samples, s)
	}
}

func (c *Cover) Hit(k string) { c.Dist[k]++ }

func (c *Cover) Component(name string, cases, disagreements int, note string) {
	c.Components = append(c.Components, map[string]any{
		"component": name, "cases": cases, "disagreements": disagreements, "note": note,
	})
}

func writeEvidence(prop, tier string, seed uint64, c *Cover, assumptions, trusted []string, start time.Time, violations int, kf []string) error {
	dist := map[string]int{}
	keys := make([]string, 0, len(c.Dist))
	for k := range c.Dist {
		keys = append(keys, k)
	}
	sort.Strings(keys)
	for _, k := range keys {
		dist[k] = c.Dist[k]
	}
	cov := map[string]any{
		"obligations":               c.Obligations,
		"discharged":                c.Discharged,
		"checker_cmd":               c.CheckerCmd,
		"trusted_base":              trusted,
		"evaluations":               c.Evaluations,
		"distinct_nontrivial":       len(c.distinct),
		"rule":                      c.Rule,
		"samples":                   c.Samples,
		"exhaustive":                c.Exhaustive,
		"theorems":                  c.Theorems,
		"correspondence":            c.Components,
		"distribution":              dist,
		"known_findings_reproduced": nonNil(kf),
		"notes":                     nonNil(c.Notes),
	}
	if c.Samples == nil {
		cov["samples"] = []any{}
	}
	ev := Evidence{
		PropertyID: prop, Tier: tier, Seed: int64(seed & 0x7fffffffffffffff), Level: "proof",
		Coverage: cov, Assumptions: nonNil(assumptions),
		WallS: time.Since(start).Seconds(), Violations: violations,
	}
	b, err := json.MarshalIndent(ev, "", " ")
	if err != nil {
		return err
	}
	dir := filepath.Join(verifDir(), "evidence")
	_ = os.MkdirAll(dir, 0o755)
	return os.WriteFile(filepath.Join(dir, prop+".json"), append(b, '\n'), 0o644)
}

func nonNil(s []string) []string {
	if s == nil {
		return []string{}
	}
	return s
}
