package main

import (
	"bytes"
	"fmt"
	"strings"

	"github.com/jsightapi/jsight-api-go-library/directive"
)

func init() {
	props["C07"] = &propCheck{
		lean:    []string{"JSight.Props.C07"},
		exes:    []string{"jsight-ctx"},
		run:     runC07,
		assume:  []string{"catalog equality of a document and its inlining is decided by search on whole documents (c07Docs); the theorem expand_eq_inline is about the directive forest", "ENUM rules are collected after the expansion (F39) and are outside the expansion model; the document-level search compares whole catalogs"},
		rule:    "generated directive sequences with 1..4 macros (defined before or after use, with or without parentheses, pasting one another to any depth, cycles of length 1..4, unused macros) and pastes at top level, under URL, method, request, response, info, server; non-trivial = at least one PASTE is expanded; distinct = distinct token sequence",
		trusted: []string{"the rendering of kind sequences to bytes; catalog equality of a document and its inlining is checked by search on the implementation (C04 gives the catalog model)"},
	}
}

// macroDoc generates a token sequence with macros and pastes.
func macroDoc(r *Rng) []CTok {
	var tt []CTok
	nm := 1 + r.Intn(4)
	type frag []CTok
	// fragments that can be a macro body / be pasted somewhere
	bodies := []func() frag{
		func() frag {
			return frag{{Kind: int(directive.Get), HasPath: true}, {Kind: int(directive.HTTPResponseCode)}}
		},
		func() frag { return frag{{Kind: int(directive.HTTPResponseCode)}, {Kind: int(directive.Body)}} },
		func() frag { return frag{{Kind: int(directive.Headers)}} },
		func() frag { return frag{{Kind: int(directive.Query)}, {Kind: int(directive.Request)}} },
		func() frag { return frag{{Kind: int(directive.Title)}, {Kind: int(directive.Version)}} },
		func() frag { return frag{{Kind: int(directive.BaseURL)}} },
		func() frag {
			return frag{{Kind: int(directive.Type)}, {Kind: int(directive.Enum), Name: 1 + r.Intn(6)}}
		},
		func() frag {
			return frag{{Kind: int(directive.URL)}, {Kind: int(directive.Get)}, {Kind: int(directive.HTTPResponseCode)}}
		},
		func() frag { return frag{{Kind: int(directive.Description)}} },
		func() frag { return frag{{Kind: int(directive.Path)}} },
	}
	macro := func(name int) {
		expl := r.Chance(2, 3)
		tt = append(tt, CTok{Kind: int(directive.Macro), Name: name, Explicit: expl})
		n := 1 + r.Intn(2)
		for i := 0; i < n; i++ {
			tt = append(tt, bodies[r.Intn(len(bodies))]()...)
			if r.Chance(1, 3) {
				tt = append(tt, CTok{Kind: int(directive.Paste), Name: 1 + r.Intn(nm+1)})
			}
		}
		if expl && r.Chance(9, 10) {
			tt = append(tt, CTok{Close: true})
		}
	}
	hosts := []func(){
		func() { tt = append(tt, CTok{Kind: int(directive.URL)}, CTok{Kind: int(directive.Get)}) },
		func() {
			tt = append(tt, CTok{Kind: int(directive.Get), HasPath: true}, CTok{Kind: int(directive.Request)})
		},
		func() {
			tt = append(tt, CTok{Kind: int(directive.Get), HasPath: true}, CTok{Kind: int(directive.HTTPResponseCode)})
		},
		func() { tt = append(tt, CTok{Kind: int(directive.Info)}) },
		func() { tt = append(tt, CTok{Kind: int(directive.Server)}) },
		func() {},
		func() { tt = append(tt, CTok{Kind: int(directive.URL), Explicit: true}) },
	}
	defined := 0
	steps := 2 + r.Intn(5)
	for s := 0; s < steps; s++ {
		switch {
		case defined < nm && r.Chance(1, 2):
			defined++
			macro(defined)
		default:
			hosts[r.Intn(len(hosts))]()
			tt = append(tt, CTok{Kind: int(directive.Paste), Name: 1 + r.Intn(nm+1)})
			if r.Chance(1, 4) {
				tt = append(tt, bodies[r.Intn(len(bodies))]()...)
			}
			if r.Chance(1, 5) {
				tt = append(tt, CTok{Close: true})
			}
		}
	}
	for defined < nm && r.Chance(2, 3) {
		defined++
		macro(defined)
	}
	return tt
}

func runC07(ctx *Ctx) {
	r := ctx.Rng.Fork()
	c07Docs(ctx, r.Fork())
	c07UrlMacros(ctx)
	var seqs [][]CTok
	for i := 0; i < ctx.Budget(30000, 1000000); i++ {
		seqs = append(seqs, macroDoc(r))
	}
	// cycles of length 1..5 through explicit and implicit macros
	for n := 1; n <= 5; n++ {
		for variant := 0; variant < 4; variant++ {
			var tt []CTok
			for m := 1; m <= n; m++ {
				tt = append(tt, CTok{Kind: int(directive.Macro), Name: m, Explicit: variant%2 == 0},
					CTok{Kind: int(directive.Get), HasPath: true}, CTok{Kind: int(directive.Paste), Name: m%n + 1})
				if variant%2 == 0 {
					tt = append(tt, CTok{Close: true})
				}
			}
			if variant >= 2 {
				tt = append(tt, CTok{Kind: int(directive.Paste), Name: 1})
			}
			seqs = append(seqs, tt)
		}
	}
	al := ctxAlphabet()
	for i := 0; i < ctx.Budget(10000, 300000); i++ {
		seqs = append(seqs, randCToks(r, al, 3+r.Intn(10)))
	}
	for i := 0; i < ctx.Budget(20000, 600000); i++ {
		seqs = append(seqs, plausibleCToks(r, 4+r.Intn(14), true))
	}
	// a cycle behind a macro that is not on it, entry defined first / last, pasted or not
	for n := 1; n <= 4; n++ {
		for variant := 0; variant < 4; variant++ {
			var tt []CTok
			entry := []CTok{{Kind: int(directive.Macro), Name: 9, Explicit: true}, {Kind: int(directive.Get), HasPath: true}, {Kind: int(directive.Paste), Name: 1}, {Close: true}}
			if variant%2 == 0 {
				tt = append(tt, entry...)
			}
			for m := 1; m <= n; m++ {
				tt = append(tt, CTok{Kind: int(directive.Macro), Name: m, Explicit: true}, CTok{Kind: int(directive.Get), HasPath: true}, CTok{Kind: int(directive.Paste), Name: m%n + 1}, CTok{Close: true})
			}
			if variant%2 == 1 {
				tt = append(tt, entry...)
			}
			if variant >= 2 {
				tt = append(tt, CTok{Kind: int(directive.Paste), Name: 9})
			}
			seqs = append(seqs, tt)
		}
	}
	runs := RunCtxInWorkers(seqs)
	var reqs []string
	var idx []int
	for i, s := range seqs {
		if runs[i].Panic != "" {
			content, _ := renderCToks(s)
			ctx.Violate(Violation{Kind: "crash", Site: "scan/paste phase", What: "crash while processing " + ctoksProto(s) + ": " + trunc(runs[i].Panic, 300),
				Input: map[string]any{"op": "ctx", "tokens": ctoksProto(s), "document": string(content)}, Signature: "ctx-crash:" + firstWords(runs[i].Panic, 3)})
			continue
		}
		if runs[i].Other || strings.HasPrefix(runs[i].Scan, "err") {
			ctx.Cov.Hit("rejected while scanning")
			continue
		}
		if strings.HasPrefix(runs[i].Paste, "other") {
			ctx.Cov.Hit("paste phase: " + firstWords(runs[i].Paste, 4))
			continue
		}
		reqs = append(reqs, "expand "+ctoksProto(s))
		idx = append(idx, i)
	}
	Corr(ctx, "core macro collection, recursion check and paste expansion vs Model.Paste.expand", "jsight-ctx", reqs, func(k int) string { return runs[idx[k]].Paste })

	// search: pasting = writing the body in place (on the implementation's own trees):
	// the expanded forest equals the resolution of the token stream with every PASTE replaced by the
	// flattened body of its macro and the MACRO definitions deleted.
	for k, i := range idx {
		s := seqs[i]
		hasPaste := false
		for _, t := range s {
			if !t.Close && directive.Enumeration(t.Kind) == directive.Paste {
				hasPaste = true
			}
		}
		ctx.Cov.Count([]byte(ctoksProto(s)), hasPaste && strings.HasPrefix(runs[i].Paste, "ok"))
		switch {
		case strings.HasPrefix(runs[i].Paste, "ok"):
			ctx.Cov.Hit("expanded")
		default:
			ctx.Cov.Hit("paste phase verdict: " + firstWords(runs[i].Paste, 2))
		}
		if k < 2 {
			content, _ := renderCToks(s)
			ctx.Cov.Sample(map[string]any{"tokens": ctoksProto(s), "document": string(content), "scan": runs[i].Scan, "expanded": runs[i].Paste})
		}
		if strings.HasPrefix(runs[i].Paste, "ok") && macroCycle(s) {
			content, _ := renderCToks(s)
			ctx.Violate(Violation{Kind: "wrong-output", Site: "core.checkMacroForRecursion",
				What:     fmt.Sprintf("tokens %s: macros paste one another in a cycle, but the document is not rejected", ctoksProto(s)),
				Input:    map[string]any{"op": "ctx", "tokens": ctoksProto(s), "document": string(content)},
				Observed: runs[i].Paste, Expected: "rejected (recursion)", Signature: "cycle-accepted"})
			continue
		}
		if !strings.HasPrefix(runs[i].Paste, "ok") {
			continue
		}
		inl, ok := inlineToks(s)
		if !ok {
			continue
		}
		want, _ := ctxSpecResolveIDs(inl)
		if want != runs[i].Paste {
			content, _ := renderCToks(s)
			ctx.Violate(Violation{Kind: "wrong-output", Site: "core.processPaste",
				What:     fmt.Sprintf("tokens %s: expanded forest %q, but writing the macro bodies in place gives %q", ctoksProto(s), runs[i].Paste, want),
				Input:    map[string]any{"op": "ctx", "tokens": ctoksProto(s), "document": string(content)},
				Observed: runs[i].Paste, Expected: want, Signature: "paste-inline"})
		}
	}
}

// idTok carries the original token index through inlining.
type idTok struct {
	CTok
	ID int
}

// inlineToks: delete top-level MACRO definitions and replace every PASTE by the tokens of the macro body
// (recursively). Works on the token level using the scan-phase structure computed by the declarative rule.
func inlineToks(tt []CTok) ([]idTok, bool) {
	// structure by the declarative rule
	type node struct {
		id   int
		tok  CTok
		kids []*node
	}
	want, _ := ctxSpecResolve(tt)
	if !strings.HasPrefix(want, "ok") {
		return nil, false
	}
	// rebuild nodes (same algorithm as ctxSpecResolve, kept local for clarity)
	var roots []*node
	var stack []*node
	for i, t := range tt {
		if t.Close {
			j := -1
			for k, n := range stack {
				if n.tok.Explicit {
					j = k
					break
				}
			}
			stack = stack[j+1:]
			continue
		}
		n := &node{id: i, tok: t}
		toks := make([]CTok, len(stack))
		for k, s := range stack {
			toks[k] = s.tok
		}
		p := ctxSpecPlace(toks, t)
		if p == -1 {
			roots = append(roots, n)
			stack = []*node{n}
			continue
		}
		parent := stack[p]
		parent.kids = append(parent.kids, n)
		stack = append([]*node{n}, stack[p:]...)
	}
	macros := map[int]*node{}
	var rest []*node
	for _, n := range roots {
		if directive.Enumeration(n.tok.Kind) == directive.Macro {
			if _, dup := macros[n.tok.Name]; dup || n.tok.Name == 0 {
				return nil, false
			}
			macros[n.tok.Name] = n
		} else {
			rest = append(rest, n)
		}
	}
	var out []idTok
	var emit func(n *node, depth int) bool
	emit = func(n *node, depth int) bool {
		if depth > 50 {
			return false
		}
		if directive.Enumeration(n.tok.Kind) == directive.Paste {
			m, ok := macros[n.tok.Name]
			if !ok {
				return false
			}
			for _, c := range m.kids {
				if !emit(c, depth+1) {
					return false
				}
			}
			return true
		}
		out = append(out, idTok{n.tok, n.id})
		for _, c := range n.kids {
			if !emit(c, depth+1) {
				return false
			}
		}
		if n.tok.Explicit {
			out = append(out, idTok{CTok{Close: true}, -1})
		}
		return true
	}
	for _, n := range rest {
		if !emit(n, 0) {
			return nil, false
		}
	}
	return out, true
}

// ctxSpecResolveIDs: ctxSpecResolve over tokens that carry their own ids.
func ctxSpecResolveIDs(tt []idTok) (string, bool) {
	plain := make([]CTok, len(tt))
	for i, t := range tt {
		plain[i] = t.CTok
	}
	s, w := ctxSpecResolve(plain)
	if !strings.HasPrefix(s, "ok") {
		return s, w
	}
	// renumber: position -> original id
	var b strings.Builder
	i := 0
	for i < len(s) {
		if s[i] >= '0' && s[i] <= '9' {
			j := i
			for j < len(s) && s[j] >= '0' && s[j] <= '9' {
				j++
			}
			var pos int
			fmt.Sscanf(s[i:j], "%d", &pos)
			fmt.Fprintf(&b, "%d", tt[pos].ID)
			i = j
			continue
		}
		b.WriteByte(s[i])
		i++
	}
	return b.String(), w
}

// macroCycle: do the top-level macros of the token sequence paste one another in a cycle (by the declarative structure)?
func macroCycle(tt []CTok) bool {
	// macro name -> names pasted anywhere in its body; body = tokens up to the matching ")" (explicit) or up to
	// the next top-level-only kind (implicit); approximated through the declarative resolution
	inl, ok := macroBodies(tt)
	if !ok {
		return false
	}
	state := map[int]int{}
	var dfs func(n int) bool
	dfs = func(n int) bool {
		if state[n] == 1 {
			return true
		}
		if state[n] == 2 {
			return false
		}
		state[n] = 1
		for _, m := range inl[n] {
			if _, def := inl[m]; def && dfs(m) {
				return true
			}
		}
		state[n] = 2
		return false
	}
	for n := range inl {
		if dfs(n) {
			return true
		}
	}
	return false
}

// macroBodies: for every top-level macro (by the declarative nesting rule) the names of the PASTEs inside it.
func macroBodies(tt []CTok) (map[int][]int, bool) {
	want, _ := ctxSpecResolve(tt)
	if !strings.HasPrefix(want, "ok") {
		return nil, false
	}
	// parse the forest "(id kids…)" and collect, per top-level MACRO, the PASTE names below it
	out := map[int][]int{}
	depth := 0
	cur := -1
	i := 0
	for i < len(want) {
		switch want[i] {
		case '(':
			depth++
			j := i + 1
			for j < len(want) && want[j] >= '0' && want[j] <= '9' {
				j++
			}
			var id int
			fmt.Sscanf(want[i+1:j], "%d", &id)
			if depth == 1 {
				cur = -1
				if !tt[id].Close && directive.Enumeration(tt[id].Kind) == directive.Macro {
					cur = tt[id].Name
					if _, dup := out[cur]; !dup {
						out[cur] = nil
					}
				}
			} else if cur >= 0 && directive.Enumeration(tt[id].Kind) == directive.Paste {
				out[cur] = append(out[cur], tt[id].Name)
			}
			i = j
		case ')':
			depth--
			i++
		default:
			i++
		}
	}
	return out, true
}

// c07Docs: the statement of C07 on whole documents — a document that uses macros and its inlining (every PASTE
// replaced by the body of its macro, the MACRO definitions deleted) have the same verdict and the same catalog;
// a macro that is never pasted contributes nothing. Macro bodies are top-level blocks of generated documents
// (types, enums, servers, tags, URL and method blocks), pasted once, twice or never.
func c07Docs(ctx *Ctx, r *Rng) {
	n := ctx.Budget(250, 15000)
	cases := 0
	indent := func(s string) string {
		var b strings.Builder
		for _, l := range strings.SplitAfter(s, "\n") {
			if l != "" {
				b.WriteString("  " + l)
			}
		}
		return b.String()
	}
	fresh := []string{"ENUM @unusedEnum\n[1, 2]\n", "TYPE @unusedType\n{}\n", "GET /unused/path\n  200 any\n", "SERVER @unusedSrv\n  BaseUrl \"http://u\"\n",
		"URL /unused/url\n  POST\n    200 any\n"}
	for i := 0; i < n && len(ctx.Violations) < 10; i++ {
		m := GenModel(r)
		base, _ := m.Render(PlainStyle(), true)
		blocks := splitTopBlocks(string(base))
		if len(blocks) < 3 {
			continue
		}
		head, rest := blocks[0], blocks[1:]
		type mac struct {
			name  string
			body  string
			count int
		}
		var macros []mac
		var withMacros, inlined strings.Builder
		withMacros.WriteString(head)
		inlined.WriteString(head)
		k := 0
		for j := 0; j < len(rest); j++ {
			kw := keywordOf(rest[j])
			// blocks that hold free description text are left in place (the end of such a text depends on what follows)
			// (a MACRO admits INFO, SERVER, URL, the HTTP methods, TYPE, ENUM and PASTE — not TAG)
			inMacro := map[string]bool{"TYPE": true, "ENUM": true, "SERVER": true, "URL": true, "GET": true, "POST": true, "PUT": true, "PATCH": true, "DELETE": true}
			movable := inMacro[kw] && !strings.Contains(rest[j], "Description")
			if movable && r.Chance(1, 3) {
				k++
				body := rest[j]
				if j+1 < len(rest) && r.Chance(1, 3) && !strings.Contains(rest[j+1], "Description") && inMacro[keywordOf(rest[j+1])] {
					body += rest[j+1]
					j++
				}
				mc := mac{name: fmt.Sprintf("@mac%d", k), body: body, count: 1}
				macros = append(macros, mc)
				withMacros.WriteString("PASTE " + mc.name + "\n")
				inlined.WriteString(body)
				continue
			}
			withMacros.WriteString(rest[j])
			inlined.WriteString(rest[j])
		}
		// an unused macro and a macro pasted twice, made of fresh declarations
		extraKind := r.Intn(3)
		if extraKind == 0 {
			macros = append(macros, mac{name: "@never", body: fresh[r.Intn(len(fresh))] + fresh[r.Intn(len(fresh))], count: 0})
		} else if extraKind == 1 {
			mc := mac{name: "@twice", body: fresh[r.Intn(len(fresh))], count: 2}
			macros = append(macros, mc)
			for c := 0; c < 2; c++ {
				withMacros.WriteString("PASTE " + mc.name + "\n")
				inlined.WriteString(mc.body)
			}
		}
		if len(macros) == 0 {
			continue
		}
		// the definitions go before or after their use
		// (a macro written without parentheses takes in every following directive it admits, so the definitions
		// that come first are parenthesised; at the end of the document a MACRO ends the previous one)
		var defs, defsParen strings.Builder
		for _, mc := range macros {
			defs.WriteString("MACRO " + mc.name + "\n" + indent(mc.body))
			defsParen.WriteString("MACRO " + mc.name + "\n(\n" + indent(mc.body) + ")\n")
		}
		docM := withMacros.String() + defs.String()
		if r.Bool() {
			docM = head + defsParen.String() + strings.TrimPrefix(withMacros.String(), head)
		}
		docI := inlined.String()
		rm := RunProject(SingleFile([]byte(docM)), false)
		ri := RunProject(SingleFile([]byte(docI)), false)
		cases++
		ctx.Cov.Count([]byte(docM), len(macros) >= 2)
		in := projectInput(SingleFile([]byte(docM)))
		in["op"] = "doc"
		in["inlined"] = docI
		if rm.Panic != "" || ri.Panic != "" {
			continue
		}
		switch {
		case rm.Accepted() && !ri.Accepted():
			ctx.Cov.Hit("macro documents: accepted")
			ctx.Violate(Violation{Kind: "wrong-output", Site: "macros", What: "a document with macros is accepted, its inlining is rejected: " + ri.Verdict(), Input: in,
				Observed: "accepted", Expected: ri.Verdict(), Signature: "inline-rejected"})
		case rm.Accepted() && !bytes.Equal(rm.JSON, ri.JSON):
			ctx.Cov.Hit("macro documents: accepted")
			ctx.Violate(Violation{Kind: "wrong-output", Site: "macros", What: "a document with macros and its inlining have different catalogs: " + firstDiff(rm.JSON, ri.JSON), Input: in,
				Signature: "inline-catalog"})
		case rm.Accepted():
			ctx.Cov.Hit("macro documents: accepted")
		default:
			ctx.Cov.Hit("macro documents: rejected (" + firstWords(rm.Verdict(), 4) + ")")
			if ri.Accepted() && extraKind != 1 {
				ctx.Violate(Violation{Kind: "wrong-output", Site: "macros", What: "the inlining is accepted, the document with macros is rejected: " + rm.Verdict(), Input: in,
					Observed: rm.Verdict(), Expected: "accepted", Signature: "macro-rejected"})
			}
		}
	}
	ctx.Cov.Component("documents with macros vs their inlining: verdict and catalog (specification on the implementation)", cases, len(ctx.Violations), "")
}

// c07UrlMacros: macros whose bodies are CHILDREN of a URL — whole method blocks with their own Path directive, a Path
// at URL level — pasted under two or three consecutive URLs: the document equals the one with every PASTE written out
// (the copies keep the coordinates of the macro's text; "one Path per context" must go by the context, F44).
// urlMacroDocs: (document with the macro, document with every PASTE written out, number of URLs, body number)
func urlMacroDocs() (out []struct {
	M, I string
	N, B int
}) {
	bodies := []string{
		"GET\n  Path\n  {\"id\": 1}\n  200 any\n",
		"GET\n  200 any\n",
		"Path\n{\"id\": 1}\nGET\n  200 any\n",
		"GET\n  Path\n  {\"id\": 1}\n  200 any\nPOST\n  Path\n  {\"id\": 2}\n  200 any\n",
		"GET\n  Query\n  {\"q\": 1}\n  Path\n  {\"id\": 3}\n  200 any\n",
	}
	urls := []string{"/cats/{id}", "/dogs/{id}", "/birds/{id}"}
	indent := func(s, ind string) string {
		var b strings.Builder
		for _, l := range strings.SplitAfter(s, "\n") {
			if l != "" {
				b.WriteString(ind + l)
			}
		}
		return b.String()
	}
	for bi, body := range bodies {
		for n := 1; n <= 3; n++ {
			for _, between := range []string{"", "TYPE @t\n{}\n", "GET /other/{id}\n  Path\n  {\"id\": 9}\n  200 any\n"} {
				for _, defFirst := range []bool{false, true} {
					var docM, docI strings.Builder
					docM.WriteString("JSIGHT 0.3\n")
					docI.WriteString("JSIGHT 0.3\n")
					def := "MACRO @m\n(\n" + indent(body, "  ") + ")\n"
					if defFirst {
						docM.WriteString(def)
					}
					for k := 0; k < n; k++ {
						if k > 0 {
							docM.WriteString(between)
							docI.WriteString(between)
						}
						docM.WriteString("URL " + urls[k] + "\n  PASTE @m\n")
						docI.WriteString("URL " + urls[k] + "\n" + indent(body, "  "))
					}
					if !defFirst {
						docM.WriteString(def)
					}
					out = append(out, struct {
						M, I string
						N, B int
					}{docM.String(), docI.String(), n, bi})
				}
			}
		}
	}
	return out
}

func c07UrlMacros(ctx *Ctx) {
	cases := 0
	for _, d := range urlMacroDocs() {
		rm := RunProject(SingleFile([]byte(d.M)), false)
		ri := RunProject(SingleFile([]byte(d.I)), false)
		cases++
		ctx.Cov.Count([]byte(d.M), d.N >= 2)
		ctx.Cov.Hit(fmt.Sprintf("macro of URL children #%d pasted under %d URLs", d.B, d.N))
		if rm.Panic != "" || ri.Panic != "" {
			continue
		}
		in := projectInput(SingleFile([]byte(d.M)))
		in["op"] = "inline"
		in["inlined"] = d.I
		switch {
		case ri.Accepted() != rm.Accepted():
			ctx.Violate(Violation{Kind: "wrong-output", Site: "macros", What: fmt.Sprintf("a macro of URL children pasted under %d URLs: with every PASTE written out: %s; with the macro: %s", d.N, ri.Verdict(), rm.Verdict()), Input: in,
				Observed: rm.Verdict(), Expected: ri.Verdict(), Signature: "url-macro-verdict"})
		case ri.Accepted() && !bytes.Equal(rm.JSON, ri.JSON):
			ctx.Violate(Violation{Kind: "wrong-output", Site: "macros", What: "a macro of URL children: the document with the macro and the one with every PASTE written out have different catalogs: " + firstDiff(ri.JSON, rm.JSON), Input: in,
				Signature: "url-macro-catalog"})
		}
	}
	ctx.Cov.Component("macros of URL children (method blocks with their own Path, URL-level Path) pasted under 1-3 URLs vs the hand-inlined document", cases, len(ctx.Violations), "")
}
