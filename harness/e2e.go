package main

import (
	"fmt"
	"os"
	"path/filepath"
	"sort"
	"strings"

	"github.com/jsightapi/jsight-schema-go-library/fs"

	"github.com/jsightapi/jsight-api-go-library/core"
	"github.com/jsightapi/jsight-api-go-library/directive"
)

// End-to-end correspondence of the COMPOSED model (lean/JSight/Model/Project.lean, op "project" of jsight-build):
// the model is given the BYTES of a single-file document (and the schema library's body lengths, on demand) and
// runs scanner table -> assembly of directives -> context resolution -> PASTE expansion -> catalog construction;
// its verdict — the catalog skeleton, or the stage, class and byte index of the first diagnostic — is compared
// with what the real pipeline reports for the same bytes. This ties the seams between the separately modelled
// stages (lexemes -> parameters / annotation / body / parenthesis flag -> directive -> forest -> catalog).

type e2eCase struct {
	Real    string // "ok <skeleton>" | "err <stage> <class> <idx>" | ""
	Skip    string
	BodyIdx bool // the diagnostic may lie anywhere in the body of the directive
}

// classifyScanStageMsg maps a diagnostic raised while scanning (core/scan_project.go, context_processing.go,
// directive/parameter.go) to the model's "<stage> <class>"; anything else raised there comes from the scanner.
func classifyScanStageMsg(msg string) string {
	pre := func(s string) bool { return strings.HasPrefix(msg, s) }
	switch {
	case pre("unknown directive "):
		return "assemble unknownDirective"
	case pre("directive not allowed"):
		return "assemble notAllowed"
	case pre("there is no directive for the "):
		return "assemble noDirective"
	case msg == "JSIGHT should be the first directive":
		return "assemble jsightNotFirst"
	case pre("the \"") && strings.Contains(msg, "parameter is already defined for the"):
		return "assemble paramDefined"
	case pre("incorrect parameter"):
		return "assemble paramIncorrect"
	case pre("incorrect context of directive"):
		return "ctx context"
	case msg == "there is no explicit context for closure":
		return "ctx noclose"
	case msg == "not all explicit contexts are closed":
		return "ctx unclosed"
	}
	return "scan scan"
}

// classifyPasteStageMsg: collectMacro, checkMacroForRecursion, processPaste
func classifyPasteStageMsg(msg string) string {
	pre := func(s string) bool { return strings.HasPrefix(msg, s) }
	switch {
	case msg == "annotation is forbidden for the directive":
		return "annotation"
	case msg == "required parameter(s) not specified (Name)":
		return "nameMissing"
	case msg == "empty macro":
		return "emptyMacro"
	case pre("duplicate names are not allowed"):
		return "duplicate"
	case msg == "recursion is prohibited":
		return "recursion"
	case pre("incorrect context of directive"):
		return "context"
	case msg == "macro not found":
		return "inPaste"
	}
	return "inPaste"
}

func e2eCaseOf(content []byte, banned []directive.Enumeration) (ec e2eCase) {
	defer func() {
		if r := recover(); r != nil {
			ec.Skip = "panic (C01 matter)"
		}
	}()
	var oo []core.Option
	if len(banned) > 0 {
		oo = append(oo, banOptions(banned)...)
	}
	oo = append(oo, core.WithFixedSeedForRegex())
	c2 := core.NewJApiCore(fs.NewFile("root.jst", content), oo...)
	if je := c2.VerifScanOnly(); je != nil {
		ec.Real = fmt.Sprintf("err %s %d", classifyScanStageMsg(je.Msg), je.Index())
		return
	}
	if je := c2.VerifPasteOnly(); je != nil {
		cl := classifyPasteStageMsg(je.Msg)
		// a PASTE's own faults (annotation, missing name, unknown macro) and everything below it are
		// re-attributed to the PASTE; the model has one class for that
		for _, d := range allDirectives(c2.VerifDirectives(), c2.VerifMacros()) {
			_, kb, _ := d.VerifKeywordCoords()
			if d.Type() == directive.Paste && kb == uint(je.Index()) && cl != "recursion" {
				cl = "inPaste"
			}
		}
		ec.Real = fmt.Sprintf("err paste %s %d", cl, je.Index())
		return
	}
	c1 := core.NewJApiCore(fs.NewFile("root.jst", content), oo...)
	if je := c1.ValidateJAPI(); je != nil {
		cl := classifyBuildMsg(je.Msg)
		if cl == "" {
			ec.Skip = "diagnostic of a stage outside the model"
			return
		}
		// diagnostics located at an ENUM (collectRules) are raised by a stage outside the model
		for _, d := range flattenDirs(c2.VerifDirectivesWithPastes()) {
			_, kb, _ := d.VerifKeywordCoords()
			if d.Type() == directive.Enum && kb == uint(je.Index()) && cl != "required:Name" && cl != "duplicateNames" {
				ec.Skip = "diagnostic of a stage outside the model"
				return
			}
		}
		ec.BodyIdx = cl == "descrParens"
		ec.Real = fmt.Sprintf("err build %s %d", cl, je.Index())
		return
	}
	js, err := c1.Catalog().ToJson()
	if err != nil {
		ec.Skip = "serialisation error (C09 matter)"
		return
	}
	doc, _, err := ParseOJSON(js)
	if err != nil {
		ec.Skip = "unreadable JSON (C09 matter)"
		return
	}
	ec.Real = "ok " + realSkeleton(doc)
	return
}

func flattenDirs(forest []*directive.Directive) []*directive.Directive {
	var out []*directive.Directive
	var rec func(d *directive.Directive)
	rec = func(d *directive.Directive) {
		out = append(out, d)
		for _, c := range d.Children {
			rec(c)
		}
	}
	for _, d := range forest {
		rec(d)
	}
	return out
}

func allDirectives(forest []*directive.Directive, macros map[string]*directive.Directive) []*directive.Directive {
	out := flattenDirs(forest)
	for _, m := range macros {
		out = append(out, flattenDirs([]*directive.Directive{m})...)
	}
	return out
}

func compareE2E(ec e2eCase, model string) string {
	if strings.HasPrefix(ec.Real, "ok ") {
		if model == ec.Real {
			return ""
		}
		if strings.HasPrefix(model, "ok ") {
			return "catalog differs"
		}
		return "the model rejects, the implementation accepts"
	}
	if strings.HasPrefix(model, "ok ") {
		return "the model accepts, the implementation rejects"
	}
	var rs, rc, ms, mc string
	var ri, mi, mbe int
	if n, _ := fmt.Sscanf(ec.Real, "err %s %s %d", &rs, &rc, &ri); n != 3 {
		return "unreadable real outcome"
	}
	n, _ := fmt.Sscanf(model, "err %s %s %d %d", &ms, &mc, &mi, &mbe)
	if n < 3 {
		return "unreadable model outcome"
	}
	if ms == "build" {
		mc = normBuildClass(mc)
	}
	if rs != ms {
		return "diagnostic of another stage"
	}
	// a PASTE without a name is reported with one message text by the recursion check (model class nameMissing) and by
	// the expansion (model class inPaste); the real side cannot tell the two apart at a PASTE directive
	if rs == "paste" && rc == "inPaste" && mc == "nameMissing" {
		mc = "inPaste"
	}
	if rc != mc {
		return "diagnostic class differs"
	}
	if ec.BodyIdx && ms == "build" {
		if ri >= mi && ri <= mbe+1 {
			return ""
		}
		return "diagnostic located elsewhere"
	}
	if ri != mi {
		return "diagnostic located elsewhere"
	}
	return ""
}

// ModelProject runs the composed model on all inputs, answering oracle misses with the real library.
func ModelProject(ctx *Ctx, inputs [][]byte, bans [][]directive.Enumeration) ([]string, error) {
	m, err := ctx.Model("jsight-build")
	if err != nil {
		return nil, err
	}
	out := make([]string, len(inputs))
	oracle := make([]string, len(inputs))
	banArg := make([]string, len(inputs))
	var pending []int
	for i := range inputs {
		pending = append(pending, i)
		banArg[i] = "-"
		if bans != nil && len(bans[i]) > 0 {
			var ss []string
			for _, e := range bans[i] {
				ss = append(ss, fmt.Sprintf("%d", int(e)))
			}
			banArg[i] = strings.Join(ss, ",")
		}
	}
	for round := 0; len(pending) > 0 && round < 400; round++ {
		reqs := make([]string, len(pending))
		for k, i := range pending {
			reqs[k] = "project " + banArg[i] + " " + hx(inputs[i]) + oracle[i]
		}
		resp, err := m.Batch(reqs)
		if err != nil {
			return out, err
		}
		var next []int
		for k, i := range pending {
			r := resp[k]
			if strings.HasPrefix(r, "miss ") {
				var kind string
				var cur int
				fmt.Sscanf(r, "miss %s %d", &kind, &cur)
				ans := LibLen(inputs[i], cur, kind == "e")
				if ans == "panic" {
					out[i] = "fault-lib"
					continue
				}
				oracle[i] += fmt.Sprintf(" %s:%d:%s", kind, cur, ans)
				next = append(next, i)
				continue
			}
			out[i] = r
		}
		pending = next
	}
	for _, i := range pending {
		out[i] = "oracle-loop"
	}
	return out, nil
}

// projectCorrespondence feeds the BYTES of single-file documents to the composed model and to the real pipeline.
func projectCorrespondence(ctx *Ctx, docs [][]byte, bans [][]directive.Enumeration, label string) {
	var inputs [][]byte
	var ibans [][]directive.Enumeration
	var cases []e2eCase
	for i, d := range docs {
		if len(d) == 0 || len(d) > 6000 {
			continue
		}
		var b []directive.Enumeration
		if bans != nil {
			b = bans[i]
		}
		ec := e2eCaseOf(d, b)
		if ec.Skip != "" {
			ctx.Cov.Hit("project: " + ec.Skip)
			continue
		}
		inputs = append(inputs, d)
		ibans = append(ibans, b)
		cases = append(cases, ec)
	}
	outs, err := ModelProject(ctx, inputs, ibans)
	if err != nil {
		ctx.Break("correspondence composed model: model not available: " + err.Error())
		return
	}
	bad, n := 0, 0
	for k, out := range outs {
		if out == "skip include" || out == "fault-lib" {
			ctx.Cov.Hit("project: " + out)
			continue
		}
		n++
		ec := cases[k]
		ctx.Cov.Count(inputs[k], len(inputs[k]) > 40)
		if strings.HasPrefix(ec.Real, "ok ") {
			ctx.Cov.Hit("project: accepted")
		} else {
			f := strings.Fields(ec.Real)
			ctx.Cov.Hit("project: " + strings.Join(f[:3], " "))
		}
		if why := compareE2E(ec, out); why != "" {
			bad++
			if bad <= 3 {
				ctx.Break(fmt.Sprintf("correspondence composed model bytes -> catalog (%s): document %q: implementation %q, model %q", why, trunc(string(inputs[k]), 700), trunc(ec.Real, 900), trunc(out, 900)))
			}
		}
	}
	ctx.Cov.Component("composed model: Model/Project.lean (bytes -> lexemes -> directives -> forest -> expansion -> catalog skeleton) vs the real pipeline on "+label, n, bad, "")
}

// projectCorrSuite: documents that exercise the EARLY stages of the composed model — random token sequences over the
// scanner alphabet (separated by blanks / line ends so that directives form), structured token documents with macros and
// parentheses, byte-level mutants of the fixture files — next to the documents of the catalog-construction suites.
func projectCorrSuite(ctx *Ctx, r *Rng, n int) {
	var docs [][]byte
	seps := []string{" ", "\n", "\n  ", " ", "\n", ""}
	for i := 0; i < n; i++ {
		k := 2 + r.Intn(9)
		var b []byte
		if r.Chance(2, 3) {
			b = append(b, "JSIGHT 0.3\n"...)
		}
		for j := 0; j < k; j++ {
			b = append(b, scanTokens[r.Intn(len(scanTokens))]...)
			b = append(b, seps[r.Intn(len(seps))]...)
		}
		docs = append(docs, b)
	}
	for i := 0; i < n/2; i++ {
		c, _ := renderCToks(plausibleCToks(r, 3+r.Intn(10), true))
		docs = append(docs, c)
		c2, _ := renderCToks(macroDoc(r))
		docs = append(docs, c2)
	}
	var fixtures [][]byte
	for _, f := range fixtureFiles() {
		if b, err := os.ReadFile(f); err == nil && len(b) < 3000 {
			fixtures = append(fixtures, b)
		}
	}
	for i := 0; i < n/2 && len(fixtures) > 0; i++ {
		docs = append(docs, mutate(r, fixtures[r.Intn(len(fixtures))]))
	}
	projectCorrespondence(ctx, docs, nil, "random token sequences, structured token documents with macros and parentheses, byte-level mutants of the fixture files")
}

// ---- projects of several files: the composed model with INCLUDE at byte level (op "projectfs")

// classifyIncludeMsg: diagnostics of processInclude / the JSIGHT-in-an-included-file check
func classifyIncludeMsg(msg string) string {
	switch {
	case msg == "required parameter(s) not specified (Filename)":
		return "include required"
	case strings.HasPrefix(msg, "incorrect parameter (Filename)") && strings.HasSuffix(msg, "isn't exists"):
		return "include missing"
	case strings.HasPrefix(msg, "incorrect parameter (Filename)") && strings.HasSuffix(msg, "is a directory"):
		return "include isDirectory"
	case strings.HasPrefix(msg, "incorrect parameter (Filename)") && (strings.Contains(msg, "mustn't") || strings.Contains(msg, "the separator for directories")):
		return "include badName"
	case msg == "recursion detected":
		return "include recursion"
	case strings.HasPrefix(msg, "directive \"JSIGHT\" not allowed in included file"):
		return "include jsightInIncluded"
	}
	return ""
}

// fsOrder: the files of a project in the order they are sent to the model (the root first)
func fsOrder(p Project) []string {
	names := []string{p.Root}
	var rest []string
	for k := range p.Files {
		if k != p.Root {
			rest = append(rest, k)
		}
	}
	sort.Strings(rest)
	return append(names, rest...)
}

func e2eCaseOfProject(p Project, order []string) (ec e2eCase) {
	defer func() {
		if r := recover(); r != nil {
			ec.Skip = "panic (C01 matter)"
		}
	}()
	d, err := os.MkdirTemp(scratchBase(), "jsve")
	if err != nil {
		ec.Skip = "scratch"
		return
	}
	defer os.RemoveAll(d)
	for name, content := range p.Files {
		full := filepath.Join(d, name)
		if strings.HasSuffix(name, "/") {
			_ = os.MkdirAll(full, 0o755)
			continue
		}
		_ = os.MkdirAll(filepath.Dir(full), 0o755)
		_ = os.WriteFile(full, content, 0o644)
	}
	rootName := filepath.Join(d, p.Root)
	fileIdx := func(abs string) int {
		rel := relTo(d, abs)
		for i, n := range order {
			if strings.TrimSuffix(n, "/") == rel {
				return i
			}
		}
		return -1
	}
	var oo []core.Option
	if len(p.Banned) > 0 {
		oo = append(oo, banOptions(p.Banned)...)
	}
	oo = append(oo, core.WithFixedSeedForRegex())
	c2 := core.NewJApiCore(fs.NewFile(rootName, p.Files[p.Root]), oo...)
	if je := c2.VerifScanOnly(); je != nil {
		cl := classifyIncludeMsg(je.Msg)
		if cl == "" {
			cl = classifyScanStageMsg(je.Msg)
		}
		ec.Real = fmt.Sprintf("err %d %s %d", fileIdx(je.VerifFile()), cl, je.Index())
		return
	}
	if je := c2.VerifPasteOnly(); je != nil {
		cl := classifyPasteStageMsg(je.Msg)
		for _, dd := range allDirectives(c2.VerifDirectives(), c2.VerifMacros()) {
			file, kb, _ := dd.VerifKeywordCoords()
			if dd.Type() == directive.Paste && kb == uint(je.Index()) && file == je.VerifFile() && cl != "recursion" {
				cl = "inPaste"
			}
		}
		ec.Real = fmt.Sprintf("err %d paste %s %d", fileIdx(je.VerifFile()), cl, je.Index())
		return
	}
	c1 := core.NewJApiCore(fs.NewFile(rootName, p.Files[p.Root]), oo...)
	if je := c1.ValidateJAPI(); je != nil {
		cl := classifyBuildMsg(je.Msg)
		if cl == "" {
			ec.Skip = "diagnostic of a stage outside the model"
			return
		}
		for _, dd := range flattenDirs(c2.VerifDirectivesWithPastes()) {
			file, kb, _ := dd.VerifKeywordCoords()
			if dd.Type() == directive.Enum && kb == uint(je.Index()) && file == je.VerifFile() && cl != "required:Name" && cl != "duplicateNames" {
				ec.Skip = "diagnostic of a stage outside the model"
				return
			}
		}
		ec.BodyIdx = cl == "descrParens"
		ec.Real = fmt.Sprintf("err %d build %s %d", fileIdx(je.VerifFile()), cl, je.Index())
		return
	}
	js, err := c1.Catalog().ToJson()
	if err != nil {
		ec.Skip = "serialisation error (C09 matter)"
		return
	}
	doc, _, err := ParseOJSON(js)
	if err != nil {
		ec.Skip = "unreadable JSON (C09 matter)"
		return
	}
	ec.Real = "ok " + realSkeleton(doc)
	return
}

// compareE2EFS: like compareE2E, with the file index in front of the stage
func compareE2EFS(ec e2eCase, model string) string {
	if strings.HasPrefix(ec.Real, "ok ") || strings.HasPrefix(model, "ok ") {
		return compareE2E(ec, model)
	}
	var rf, mf int
	var rrest, mrest string
	if i := strings.Index(ec.Real[4:], " "); i > 0 {
		fmt.Sscanf(ec.Real[4:4+i], "%d", &rf)
		rrest = ec.Real[4+i+1:]
	}
	if !strings.HasPrefix(model, "err ") {
		return "unreadable model outcome"
	}
	if i := strings.Index(model[4:], " "); i > 0 {
		fmt.Sscanf(model[4:4+i], "%d", &mf)
		mrest = model[4+i+1:]
	}
	if why := compareE2E(e2eCase{Real: "err " + rrest, BodyIdx: ec.BodyIdx}, "err "+mrest); why != "" {
		return why
	}
	if rf != mf {
		return "diagnostic located in another file"
	}
	return ""
}

// projectFSCorrespondence feeds the FILES of projects to the composed model (op projectfs) and to the real pipeline.
func projectFSCorrespondence(ctx *Ctx, projects []Project, label string) {
	m, err := ctx.Model("jsight-build")
	if err != nil {
		ctx.Break("correspondence composed model (projects): model not available: " + err.Error())
		return
	}
	type item struct {
		p      Project
		order  []string
		ec     e2eCase
		oracle string
		out    string
	}
	var items []*item
	for _, p := range projects {
		tooBig := false
		for _, c := range p.Files {
			if len(c) > 6000 {
				tooBig = true
			}
		}
		if tooBig || len(p.Files) > 60 {
			continue
		}
		order := fsOrder(p)
		ec := e2eCaseOfProject(p, order)
		if ec.Skip != "" {
			ctx.Cov.Hit("projectfs: " + ec.Skip)
			continue
		}
		items = append(items, &item{p: p, order: order, ec: ec})
	}
	pending := make([]int, len(items))
	for i := range pending {
		pending[i] = i
	}
	req := func(it *item) string {
		var b strings.Builder
		b.WriteString("projectfs ")
		if len(it.p.Banned) == 0 {
			b.WriteString("-")
		} else {
			for k, e := range it.p.Banned {
				if k > 0 {
					b.WriteString(",")
				}
				fmt.Fprintf(&b, "%d", int(e))
			}
		}
		fmt.Fprintf(&b, " %d", len(it.order))
		for _, n := range it.order {
			if strings.HasSuffix(n, "/") {
				b.WriteString(" " + hxs(strings.TrimSuffix(n, "/")) + " DIR")
			} else {
				b.WriteString(" " + hxs(n) + " " + hxs(string(it.p.Files[n])))
			}
		}
		b.WriteString(it.oracle)
		return b.String()
	}
	for round := 0; len(pending) > 0 && round < 400; round++ {
		reqs := make([]string, len(pending))
		for k, i := range pending {
			reqs[k] = req(items[i])
		}
		resp, err := m.Batch(reqs)
		if err != nil {
			ctx.Break("model executable jsight-build failed: " + err.Error())
			return
		}
		var next []int
		for k, i := range pending {
			r := resp[k]
			it := items[i]
			if strings.HasPrefix(r, "miss ") {
				var f, cur int
				var kind string
				fmt.Sscanf(r, "miss %d %s %d", &f, &kind, &cur)
				if f < 0 || f >= len(it.order) {
					it.out = "bad-miss"
					continue
				}
				ans := LibLen(it.p.Files[it.order[f]], cur, kind == "e")
				if ans == "panic" {
					it.out = "fault-lib"
					continue
				}
				it.oracle += fmt.Sprintf(" %d:%s:%d:%s", f, kind, cur, ans)
				next = append(next, i)
				continue
			}
			it.out = r
		}
		pending = next
	}
	bad, n := 0, 0
	for _, it := range items {
		if it.out == "" || it.out == "fault-lib" {
			ctx.Cov.Hit("projectfs: no answer (" + it.out + ")")
			continue
		}
		n++
		var key []byte
		for _, nm := range it.order {
			key = append(append(key, nm...), it.p.Files[nm]...)
		}
		ctx.Cov.Count(key, len(it.order) >= 2)
		if strings.HasPrefix(it.ec.Real, "ok ") {
			ctx.Cov.Hit("projectfs: accepted")
		} else if f := strings.Fields(it.ec.Real); len(f) >= 4 {
			ctx.Cov.Hit("projectfs: err " + f[2] + " " + f[3])
		}
		if why := compareE2EFS(it.ec, it.out); why != "" {
			bad++
			if bad <= 3 {
				var desc strings.Builder
				for _, nm := range it.order {
					fmt.Fprintf(&desc, "[%s] %q ", nm, trunc(string(it.p.Files[nm]), 300))
				}
				ctx.Break(fmt.Sprintf("correspondence composed model files -> catalog (%s): project %s: implementation %q, model %q", why, trunc(desc.String(), 1200), trunc(it.ec.Real, 700), trunc(it.out, 700)))
			}
		}
	}
	ctx.Cov.Component("composed model of projects: Model/Project.lean processFS (files -> lexemes -> INCLUDE -> directives -> forest -> expansion -> catalog skeleton) vs the real pipeline on "+label, n, bad, "")
}
