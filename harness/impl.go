package main

import (
	"fmt"
	"os"
	"path/filepath"
	"runtime/debug"
	"strings"

	"github.com/jsightapi/jsight-schema-go-library/fs"

	"github.com/jsightapi/jsight-api-go-library/core"
	"github.com/jsightapi/jsight-api-go-library/directive"
	"github.com/jsightapi/jsight-api-go-library/jerr"
)

// ErrInfo is the canonical form of a jerr.JApiError.
type ErrInfo struct {
	Msg      string      `json:"msg"`
	File     string      `json:"file"`
	Index    uint        `json:"index"`
	Line     uint        `json:"line"`
	Quote    string      `json:"quote"`
	Trace    []TraceItem `json:"trace,omitempty"`
	FileSize int         `json:"file_size"`
	Full     string      `json:"full"`
}

type TraceItem struct {
	Path string `json:"path"`
	Line uint   `json:"line"`
}

// Project is a set of files; Root is the name of the root file. Names are
// relative paths (with '/'), materialised under a scratch directory when the
// project has more than one file.
type Project struct {
	Files  map[string][]byte
	Root   string
	Banned []directive.Enumeration
}

func SingleFile(content []byte) Project {
	return Project{Files: map[string][]byte{"root.jst": content}, Root: "root.jst"}
}

type RunResult struct {
	LibFault string   // stack recorded by the overlay of the library's panic handler when it swallowed a runtime fault
	Panic    string   // non-empty: the library panicked (recovered here)
	Stack    string   // stack of the panic
	Err      *ErrInfo // rejected
	JSON     []byte   // accepted: compact JSON
	Indent   []byte
	JSErr    string // serialisation error
	Core     *core.JApiCore
	Dir      string // scratch directory ("" for in-memory)
}

func errInfo(je *jerr.JApiError, dir string) *ErrInfo {
	e := &ErrInfo{
		Msg:      je.Msg,
		File:     relTo(dir, je.VerifFile()),
		Index:    uint(je.Index()),
		Line:     uint(je.Line()),
		Quote:    je.Quote(),
		FileSize: je.VerifFileSize(),
		Full:     je.Error(),
	}
	for _, t := range je.VerifTrace() {
		e.Trace = append(e.Trace, TraceItem{Path: relTo(dir, t.Path), Line: t.Line})
	}
	return e
}

func relTo(dir, p string) string {
	if dir != "" && strings.HasPrefix(p, dir+"/") {
		return p[len(dir)+1:]
	}
	return p
}

// curInput is what the watchdog dumps when an in-process call does not return.
var curInput *Project

// RunProject processes a project with the real library, in-process.
// Panics are recovered and reported in the result (a panic is a C01 matter,
// but every property's search must survive it).
func RunProject(p Project, keepCore bool) (res RunResult) {
	curInput = &p
	defer func() { curInput = nil }()
	dir := ""
	rootName := p.Root
	if len(p.Files) > 1 || needsDisk(p) {
		d, err := os.MkdirTemp(scratchBase(), "jsv")
		if err != nil {
			panic(err)
		}
		dir = d
		defer os.RemoveAll(d)
		for name, content := range p.Files {
			full := filepath.Join(d, name)
			if strings.HasSuffix(name, "/") { // a directory
				_ = os.MkdirAll(full, 0o755)
				continue
			}
			_ = os.MkdirAll(filepath.Dir(full), 0o755)
			if err := os.WriteFile(full, content, 0o644); err != nil {
				panic(err)
			}
		}
		rootName = filepath.Join(d, p.Root)
	}
	res.Dir = dir
	defer func() {
		if r := recover(); r != nil {
			res.Panic = fmt.Sprint(r)
			res.Stack = string(debug.Stack())
		}
	}()
	var oo []core.Option
	if len(p.Banned) > 0 {
		oo = append(oo, banOptions(p.Banned)...)
	}
	oo = append(oo, core.WithFixedSeedForRegex())
	c := core.NewJApiCore(fs.NewFile(rootName, p.Files[p.Root]), oo...)
	if keepCore {
		res.Core = c
	}
	if je := c.ValidateJAPI(); je != nil {
		res.Err = errInfo(je, dir)
		return res
	}
	js, err := c.Catalog().ToJson()
	if err != nil {
		res.JSErr = err.Error()
		return res
	}
	res.JSON = js
	ind, err := c.Catalog().ToJsonIndent()
	if err != nil {
		res.JSErr = "indent: " + err.Error()
		return res
	}
	res.Indent = ind
	return res
}

func needsDisk(p Project) bool {
	return false
}

func scratchBase() string {
	if d := os.Getenv("JSV_SCRATCH"); d != "" {
		return d
	}
	if st, err := os.Stat("/dev/shm"); err == nil && st.IsDir() {
		return "/dev/shm"
	}
	return ""
}

// Verdict is a short canonical description of a result.
func (r RunResult) Verdict() string {
	switch {
	case r.Panic != "":
		return "panic: " + r.Panic
	case r.Err != nil:
		return fmt.Sprintf("rejected: %s @%s:%d", r.Err.Msg, r.Err.File, r.Err.Index)
	case r.JSErr != "":
		return "json-error: " + r.JSErr
	default:
		return "accepted"
	}
}

func (r RunResult) Accepted() bool { return r.Panic == "" && r.Err == nil && r.JSErr == "" }


// banOptions supplies a ban set the way callers of the library may: as ONE WithBannedDirectives option, as one
// option per kind, or split into two options — chosen by the set itself, so that a replay makes the same choice.
// The set banned is the union in every case.
func banOptions(banned []directive.Enumeration) []core.Option {
	if len(banned) < 2 {
		return []core.Option{core.WithBannedDirectives(banned...)}
	}
	sum := 0
	for _, e := range banned {
		sum += int(e)
	}
	switch sum % 3 {
	case 0:
		return []core.Option{core.WithBannedDirectives(banned...)}
	case 1:
		var oo []core.Option
		for _, e := range banned {
			oo = append(oo, core.WithBannedDirectives(e))
		}
		return oo
	}
	h := len(banned) / 2
	return []core.Option{core.WithBannedDirectives(banned[:h]...), core.WithBannedDirectives(banned[h:]...)}
}
