package main

import (
	"bytes"
	"fmt"
	"os"
	"path/filepath"
	"strings"

	"github.com/jsightapi/jsight-api-go-library/directive"
)

func init() {
	props["C14"] = &propCheck{
		lean: []string{"JSight.Props.C14", "JSight.Props.C14_Trivia"},
		exes: []string{"jsight-scan"},
		run:  runC14,
		rule: "all sequences up to the length bound over a 66-token alphabet (every keyword, every delimiter, representative parameters and bodies, CR, TAB, NUL, 0xff), all fixture .jst files and byte-level mutants of them; non-trivial = the scanner emits at least 2 lexemes; distinct = distinct input bytes",
		assume: []string{
			"the schema library's Len() answers (body length or error position) are an oracle of the scanner model; in correspondence runs they are computed with the real library",
		},
		trusted: []string{
			"modelled, not verified: schema library jschema/enum Len() (oracle), bytes.Unquote (abstracted on non-ASCII and \\u, see Model/Scanner.lean)",
		},
	}
}

var scanTokens = []string{
	"JSIGHT", "INFO", "Title", "Version", "Description", "SERVER", "BaseUrl", "URL", "GET", "POST", "PUT", "PATCH", "DELETE",
	"Body", "Request", "200", "Path", "Headers", "Query", "TYPE", "ENUM", "MACRO", "PASTE", "INCLUDE", "Protocol", "Method",
	"Params", "Result", "TAG", "Tags",
	" ", "\n", "\r", "\t", "(", ")", "#", "###", "//", "/*", "*/", "/", "*", "\"", "\\", "@a", "a", "0.3", "/p",
	"{}", "[1]", "[@a]", "any", "empty", "regex", "jsight", "/x/", "{", "[", "\x00", "\xff", "é", "\"a b\"", "5", "B", "{\"a\":1}", "\"regex\"",
}

// enumTokenSeqs calls f on every sequence of at most n tokens.
func enumTokenSeqs(tokens []string, n int, f func([]byte)) {
	var rec func(prefix []byte, depth int)
	rec = func(prefix []byte, depth int) {
		f(prefix)
		if depth == n {
			return
		}
		for _, t := range tokens {
			rec(append(prefix[:len(prefix):len(prefix)], t...), depth+1)
		}
	}
	rec(nil, 0)
}

func fixtureFiles() []string {
	var out []string
	_ = filepath.Walk(filepath.Join(repoDir(), "testdata"), func(p string, info os.FileInfo, err error) error {
		if err == nil && !info.IsDir() && strings.HasSuffix(p, ".jst") {
			out = append(out, p)
		}
		return nil
	})
	return out
}

func mutate(r *Rng, b []byte) []byte {
	out := append([]byte(nil), b...)
	n := 1 + r.Intn(3)
	for i := 0; i < n && len(out) > 0; i++ {
		pos := r.Intn(len(out))
		switch r.Intn(6) {
		case 0: // delete a byte
			out = append(out[:pos], out[pos+1:]...)
		case 1: // insert a token
			t := scanTokens[r.Intn(len(scanTokens))]
			out = append(out[:pos], append([]byte(t), out[pos:]...)...)
		case 2: // replace a byte
			repl := []byte(" \n\r\t()#/*\"\\@{}[]a0")
			out[pos] = repl[r.Intn(len(repl))]
		case 3: // delete a line
			e := bytes.IndexByte(out[pos:], '\n')
			if e >= 0 {
				out = append(out[:pos], out[pos+e:]...)
			}
		case 4: // truncate
			out = out[:pos]
		case 5: // duplicate a chunk
			e := pos + r.Intn(20)
			if e > len(out) {
				e = len(out)
			}
			out = append(out[:e], append(append([]byte(nil), out[pos:e]...), out[e:]...)...)
		}
	}
	return out
}

func canonTail(s string) string {
	// every kind of fault is "fault"
	if i := strings.LastIndex(s, "fault"); i >= 0 && (i == 0 || s[i-1] == ' ') {
		return s[:i] + "fault"
	}
	return s
}

func runC14(ctx *Ctx) {
	var inputs [][]byte
	depth := 2
	if ctx.Thorough() {
		depth = 3
	}
	enumTokenSeqs(scanTokens, depth, func(b []byte) { inputs = append(inputs, append([]byte(nil), b...)) })
	r := ctx.Rng.Fork()
	// sampled longer sequences
	for i := 0; i < ctx.Budget(60000, 1500000); i++ {
		n := 3 + r.Intn(6)
		var b []byte
		for k := 0; k < n; k++ {
			b = append(b, scanTokens[r.Intn(len(scanTokens))]...)
			if r.Chance(1, 3) {
				b = append(b, ' ')
			}
		}
		inputs = append(inputs, b)
	}
	// a systematic family around bodies: keyword, parameters, line end, body, what follows the body
	for _, kw := range scanTokens[:30] {
		for _, par := range []string{"", " @a", " /p", " any", " regex", " 0.3", " \"a b\"", " \"regex\"", " \"any\"", " regex x", " \"reg\\\\ex\""} {
			for _, body := range []string{"{}", "[1]", "/x/", "text", "@a", "{\"a\":1}", "/x\\", "/x\\/", "/"} {
				for _, suf := range []string{"", " ", "\t", " # c", " //", "\n", "\r", "\r\n", " \n"} {
					for _, next := range []string{"", "GET /a", ")"} {
						inputs = append(inputs, []byte(kw+par+"\n"+body+suf+next))
					}
				}
			}
		}
	}
	// annotations in every spelling of their delimiters (runs of '*' and '/' around the text), followed by more directives
	// and a later closing delimiter
	for _, open := range []string{"/*", "/**", "/***", "/*/", "//", "///", "/* *"} {
		for _, text := range []string{"", " t ", "t", " a * b ", " a */ b ", " a / b ", "*", " ** "} {
			for _, cl := range []string{"*/", "**/", "***/", "****/", "* /", "/*/", "*/*/", ""} {
				for _, rest := range []string{"", "\nGET /dogs /* d */", "\nGET /dogs // d", " GET /dogs /* d */\nPOST /x", "\n\nTYPE @a\n{} /* in schema */\nGET /c /* c **/\n"} {
					inputs = append(inputs, []byte("JSIGHT 0.3\nGET /cats "+open+text+cl+rest))
				}
			}
		}
	}
	fixtures := fixtureFiles()
	var fixtureContents [][]byte
	for _, f := range fixtures {
		b, err := os.ReadFile(f)
		if err == nil && len(b) < 20000 {
			fixtureContents = append(fixtureContents, b)
			inputs = append(inputs, b)
		}
	}
	if len(fixtureContents) > 0 {
		for i := 0; i < ctx.Budget(3000, 100000); i++ {
			src := fixtureContents[r.Intn(len(fixtureContents))]
			if len(src) > 3000 {
				continue
			}
			inputs = append(inputs, mutate(r, src))
		}
	}
	ctx.Cov.Hit(fmt.Sprintf("fixture files: %d", len(fixtureContents)))

	// implementation
	implOut := make([]string, len(inputs))
	implLex := make([][]Lex, len(inputs))
	implTail := make([]string, len(inputs))
	parallelFor(len(inputs), func(i int) {
		lexs, tail := ScanAll(inputs[i])
		implLex[i], implTail[i] = lexs, tail
		implOut[i] = canonTail(lexStr(lexs, tail))
	})
	// model
	modelOut, err := ModelLex(ctx, inputs, implLex)
	if err != nil {
		ctx.Break("correspondence scanner lexeme stream: " + err.Error())
	} else {
		dis := 0
		for i := range inputs {
			if canonTail(modelOut[i]) != implOut[i] {
				dis++
				if dis <= 3 {
					ctx.Break(fmt.Sprintf("correspondence scanner lexeme stream: input %q: implementation %q, model %q", trunc(string(inputs[i]), 200), trunc(implOut[i], 300), trunc(modelOut[i], 300)))
				}
			}
		}
		ctx.Cov.Component("scanner.Next lexeme stream vs Model.Scanner.lexAll (interpreter of the regenerated table)", len(inputs), dis, "oracle = real library Len()")
	}

	// search: the four statements of C14 directly on the implementation
	names := map[string]bool{}
	for _, n := range directive.VerifAllNames() {
		names[n] = true
	}
	for i, in := range inputs {
		lexs, tail := implLex[i], implTail[i]
		ctx.Cov.Count(in, len(lexs) >= 2)
		switch {
		case tail == "end":
			ctx.Cov.Hit("scanned to the end")
		case strings.HasPrefix(tail, "diag"):
			ctx.Cov.Hit("scanner diagnostic")
		default:
			ctx.Cov.Hit("scanner fault")
		}
		if i < 2 || (i%50000 == 7 && len(ctx.Cov.Samples) < 6) {
			ctx.Cov.Sample(map[string]any{"input": trunc(string(in), 120), "lexemes": trunc(implOut[i], 200)})
		}
		if tail != "end" {
			continue
		}
		if msg := checkLexemes(in, lexs, names); msg != "" {
			class := strings.SplitN(msg, ":", 2)[0]
			orig := append([]byte(nil), in...)
			ctx.Violate(Violation{Kind: "wrong-output", Site: "scanner", What: fmt.Sprintf("input %q: %s (lexemes %s)", trunc(string(in), 200), msg, trunc(implOut[i], 300)),
				Input: map[string]any{"op": "lex", "content": hx(in)}, Observed: implOut[i], Signature: "lex:" + class,
				// reduce the input while the scanner still reads it to the end and the same rule is broken
				shrink: func() map[string]any {
					q, ok := shrinkProject(SingleFile(orig), func(cands []Project) []bool {
						out := make([]bool, len(cands))
						for k, c := range cands {
							b := c.Files[c.Root]
							ll, tail := ScanAll(b)
							out[k] = tail == "end" && strings.SplitN(checkLexemes(b, ll, names), ":", 2)[0] == class
						}
						return out
					}, 3000)
					if !ok {
						return nil
					}
					b := q.Files[q.Root]
					ll, tail := ScanAll(b)
					return map[string]any{"op": "lex", "content": hx(b), "text": string(b), "lexemes": lexStr(ll, tail), "what": checkLexemes(b, ll, names), "original_content": hx(orig), "shrunk": true}
				}})
		}
	}
}

// checkLexemes evaluates C14 on a finished run of the real scanner.
func checkLexemes(in []byte, lexs []Lex, names map[string]bool) string {
	n := uint(len(in))
	prevEnd := uint(0) // exclusive end of the previous lexeme
	for k, l := range lexs {
		if l.B > l.E1 {
			return fmt.Sprintf("inverted lexeme: [%d,%d)", l.B, l.E1)
		}
		if l.E1 > n {
			return fmt.Sprintf("out of bounds lexeme: [%d,%d) in %d bytes", l.B, l.E1, n)
		}
		if l.B < prevEnd {
			return fmt.Sprintf("overlapping or unordered lexeme: #%d [%d,%d) after end %d", k, l.B, l.E1, prevEnd)
		}
		val := in[l.B:l.E1]
		switch l.Ty {
		case 'K':
			if !names[string(val)] && !directive.IsHTTPResponseCode(string(val)) {
				return fmt.Sprintf("keyword lexeme does not spell a directive: %q", val)
			}
		case 'A':
			// an annotation lexeme is the text between its delimiters: a block annotation ends at the FIRST "*/"
			// after its opening (it cannot run over a closing delimiter), a line annotation ends with its line
			if l.B >= 2 && string(in[l.B-2:l.B]) == "/*" {
				if j := bytes.Index(in[l.B:], []byte("*/")); j >= 0 && uint(j) != l.E1-l.B {
					return fmt.Sprintf("annotation lexeme does not end at the first closing delimiter: [%d,%d) while the first \"*/\" after the opening stands at %d", l.B, l.E1, l.B+uint(j))
				}
			} else if l.B >= 2 && string(in[l.B-2:l.B]) == "//" {
				if bytes.ContainsAny(val, "\n\r") {
					return fmt.Sprintf("annotation lexeme of a line annotation runs over a line end: [%d,%d)", l.B, l.E1)
				}
			}
		case 'S', 'E':
			want := LibLen(in, int(l.B), l.Ty == 'E')
			if want != fmt.Sprint(l.E1-l.B) {
				return fmt.Sprintf("body lexeme is not the library value: [%d,%d) vs library %s", l.B, l.E1, want)
			}
		}
		// the gap before this lexeme
		if msg := checkGap(in, prevEnd, l.B, l.Ty == 'A', k > 0 && lexs[k-1].Ty == 'A'); msg != "" {
			return msg
		}
		prevEnd = l.E1
	}
	last := len(lexs) > 0 && lexs[len(lexs)-1].Ty == 'A'
	return checkGap(in, prevEnd, n, false, last)
}

// checkGap: bytes that belong to no lexeme must be white space, line ends, comment text or
// annotation delimiters.
func checkGap(in []byte, b, e uint, beforeAnnotation, afterAnnotation bool) string {
	g := in[b:e]
	i := 0
	if afterAnnotation && bytes.HasPrefix(g, []byte("*/")) {
		i = 2
	}
	for i < len(g) {
		c := g[i]
		switch {
		case c == ' ' || c == '\t' || c == '\n' || c == '\r':
			i++
		case c == '#':
			if afterAnnotation && i == 0 {
				// a '#' that ends a // annotation starts a one-line comment (stateAnnotation -> stateSingleComment)
				for i < len(g) && g[i] != '\n' && g[i] != '\r' {
					i++
				}
			} else if bytes.HasPrefix(g[i:], []byte("###")) {
				j := bytes.Index(g[i+3:], []byte("###"))
				if j < 0 {
					return fmt.Sprintf("skipped: unterminated block comment in the gap [%d,%d)", b, e)
				}
				i += 3 + j + 3
			} else {
				for i < len(g) && g[i] != '\n' && g[i] != '\r' {
					i++
				}
			}
		case c == '/' && beforeAnnotation && i+2 == len(g) && (g[i+1] == '/' || g[i+1] == '*'):
			i += 2
		default:
			return fmt.Sprintf("skipped: byte %q at %d belongs to no lexeme and is not trivia", c, b+uint(i))
		}
	}
	return ""
}
