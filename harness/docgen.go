package main

import (
	"fmt"
	"sort"
	"strings"
)

// ---------------------------------------------------------------------------------------------
// Abstract API model (the specification side of C04): what a document declares.
// ---------------------------------------------------------------------------------------------

type SchemaM struct {
	Mode  string   // "inline" | "type" | "array" | "any" | "empty" | "regex"
	Body  string   // inline jsight source (one or more lines) or the regex literal /…/
	Type  string   // @name for type/array
	Types []string // user types referenced (inline)
	Enums []string // enums referenced (inline)
	AllOf []string // base types (inline object schema with an allOf rule)
}

func (s *SchemaM) notation() string {
	switch s.Mode {
	case "any", "empty", "regex":
		return s.Mode
	}
	return "jsight"
}

func (s *SchemaM) format() string {
	switch s.notation() {
	case "jsight":
		return "json"
	case "regex":
		return "plainString"
	}
	return "binary"
}

func (s *SchemaM) usedTypes() []string {
	switch s.Mode {
	case "type", "array":
		return []string{s.Type}
	}
	tt := append([]string(nil), s.Types...)
	for _, b := range s.AllOf {
		tt = appendUniq(tt, b)
	}
	return tt
}

type ResponseM struct {
	Code       string
	Annotation string
	Body       *SchemaM
	BodyChild  bool     // body given by a child Body directive instead of parameters / inline schema
	Headers    *SchemaM // inline object schema
}

type MethodM struct {
	Verb        string
	Path        string // full path
	Annotation  string
	Description string
	Query       *SchemaM
	QueryEx     string
	QueryFormat string // "" (default) | "htmlFormEncoded" | "noFormat"
	QueryFmt1st bool   // the format is written before the example
	Request     *SchemaM
	ReqChild    bool // request body given by a child Body directive
	ReqHeaders  *SchemaM
	Responses   []ResponseM
	Tags        []string
}

type RpcM struct {
	Name        string
	Annotation  string
	Description string
	Params      *SchemaM
	Result      *SchemaM
	Tags        []string
}

type BlockM struct {
	Kind string // info server type enum tag url method
	// info
	Title, Version, Description string
	// server / type / enum / tag
	Name, Annotation string
	BaseURL          string
	Schema           *SchemaM // type
	EnumBody         string
	// url
	Path    string
	Methods []MethodM // http methods under the URL (no own path)
	Rpc     []RpcM
	Tags    []string
	PathVar *SchemaM // Path directive (under URL or under the method)
	// method (path-bearing, top level)
	Method *MethodM
}

type ApiModel struct {
	Blocks []BlockM
}

// ---------------------------------------------------------------------------------------------
// Generator
// ---------------------------------------------------------------------------------------------

type genState struct {
	r        *Rng
	types    []string
	enums    []string
	tags     []string
	nextID   int
	usedPath map[string]bool
}

func (g *genState) id() int { g.nextID++; return g.nextID }

func (g *genState) inlineSchema(allowRefs bool) *SchemaM {
	r := g.r
	s := &SchemaM{Mode: "inline"}
	n := 1 + r.Intn(3)
	var props []string
	for i := 0; i < n; i++ {
		key := fmt.Sprintf("f%d", g.id())
		switch k := r.Intn(7); {
		case k == 0 && allowRefs && len(g.types) > 0:
			t := g.types[r.Intn(len(g.types))]
			props = append(props, fmt.Sprintf("%q: %s", key, t))
			s.Types = appendUniq(s.Types, t)
		case k == 1 && allowRefs && len(g.enums) > 0:
			e := g.enums[r.Intn(len(g.enums))]
			props = append(props, fmt.Sprintf("%q: \"red\" // {enum: %s}", key, e))
			s.Enums = appendUniq(s.Enums, e)
		case k == 2 && allowRefs && len(g.types) > 0 && r.Chance(1, 3):
			// an "or" rule mixing built-in and user types, in any order
			t := g.types[r.Intn(len(g.types))]
			type alt struct {
				val   string
				rules []string
			}
			a := []alt{{"\"text\"", []string{"\"string\"", fmt.Sprintf("%q", t)}}, {"5", []string{fmt.Sprintf("%q", t), "\"integer\""}},
				{"7", []string{"{type: \"integer\"}", fmt.Sprintf("{type: %q}", t)}}, {"true", []string{"\"boolean\"", "\"string\"", fmt.Sprintf("%q", t)}}}[r.Intn(4)]
			props = append(props, fmt.Sprintf("%q: %s // {or: [%s]}", key, a.val, strings.Join(a.rules, ", ")))
			s.Types = appendUniq(s.Types, t)
		case k == 2:
			props = append(props, fmt.Sprintf("%q: \"text %d\"", key, r.Intn(100)))
		case k == 3:
			props = append(props, fmt.Sprintf("%q: true", key))
		case k == 4 && allowRefs && len(g.types) > 0:
			t := g.types[r.Intn(len(g.types))]
			props = append(props, fmt.Sprintf("%q: [%s]", key, t))
			s.Types = appendUniq(s.Types, t)
		default:
			props = append(props, fmt.Sprintf("%q: %d", key, r.Intn(1000)))
		}
	}
	hasNote := false
	for _, p := range props {
		if strings.Contains(p, " // ") {
			hasNote = true
		}
	}
	if r.Chance(1, 2) && !hasNote {
		s.Body = "{" + strings.Join(props, ", ") + "}"
	} else {
		var b strings.Builder
		b.WriteString("{\n")
		for i, p := range props {
			text, note := p, ""
			if k := strings.Index(p, " // "); k >= 0 {
				text, note = p[:k], p[k:]
			}
			b.WriteString("  " + text)
			if i+1 < len(props) {
				b.WriteString(",")
			}
			b.WriteString(note + "\n")
		}
		b.WriteString("}")
		s.Body = b.String()
	}
	return s
}

// withAllOf puts an allOf rule on the opening brace of an object schema (multi-line form).
func withAllOf(body string, bases []string) string {
	rule := fmt.Sprintf("%q", bases[0])
	if len(bases) > 1 {
		var qq []string
		for _, b := range bases {
			qq = append(qq, fmt.Sprintf("%q", b))
		}
		rule = "[" + strings.Join(qq, ", ") + "]"
	}
	inner := strings.TrimSuffix(strings.TrimPrefix(body, "{"), "}")
	if !strings.HasPrefix(inner, "\n") {
		// one-line form: split the properties onto lines
		inner = "\n  " + strings.TrimSpace(inner) + "\n"
	}
	return "{ // {allOf: " + rule + "}" + inner + "}"
}

func appendUniq(ss []string, s string) []string {
	for _, x := range ss {
		if x == s {
			return ss
		}
	}
	return append(ss, s)
}

func (g *genState) bodySchema() *SchemaM {
	r := g.r
	switch k := r.Intn(8); {
	case k == 0:
		return &SchemaM{Mode: "any"}
	case k == 1:
		return &SchemaM{Mode: "empty"}
	case k == 2:
		return &SchemaM{Mode: "regex", Body: "/ab+c/"}
	case k == 3 && len(g.types) > 0:
		return &SchemaM{Mode: "type", Type: g.types[r.Intn(len(g.types))]}
	case k == 4 && len(g.types) > 0:
		return &SchemaM{Mode: "array", Type: g.types[r.Intn(len(g.types))]}
	}
	return g.inlineSchema(true)
}

func (g *genState) annotation() string {
	if g.r.Chance(1, 2) {
		return ""
	}
	// words, incl. some with white space that is NOT a blank of the annotation grammar inside them: a no-break space,
	// a thin space, an ideographic space, a vertical tab — they are part of the text and must come out unchanged
	words := []string{"get", "the", "cat", "list", "by id", "v2", "(draft)", "a-b", "x/y", "10\u00a0000", "a\u2009b", "wide\u3000gap", "x\vy", "é"}
	n := 1 + g.r.Intn(3)
	var ww []string
	for i := 0; i < n; i++ {
		ww = append(ww, words[g.r.Intn(len(words))])
	}
	return strings.Join(ww, " ")
}

func (g *genState) description() string {
	if g.r.Chance(2, 3) {
		return ""
	}
	lines := []string{"Some text", "more text here", "  indented line", "last line.", "- item", "with # hash"}
	n := 1 + g.r.Intn(3)
	var ll []string
	for i := 0; i < n; i++ {
		ll = append(ll, lines[g.r.Intn(len(lines))])
	}
	d := strings.Join(ll, "\n")
	d = strings.TrimLeft(d, " ")
	return d
}

func (g *genState) pickTags() []string {
	if len(g.tags) == 0 || g.r.Chance(2, 3) {
		return nil
	}
	n := 1 + g.r.Intn(2)
	var tt []string
	for i := 0; i < n; i++ {
		tt = appendUniq(tt, g.tags[g.r.Intn(len(g.tags))])
	}
	return tt
}

func (g *genState) method(path string) MethodM {
	r := g.r
	verbs := []string{"GET", "POST", "PUT", "PATCH", "DELETE"}
	m := MethodM{Verb: verbs[r.Intn(5)], Path: path, Annotation: g.annotation(), Description: g.description(), Tags: g.pickTags()}
	if r.Chance(1, 4) {
		m.Query = g.inlineSchema(false)
		if r.Chance(1, 2) {
			m.QueryEx = fmt.Sprintf("a=%d&b=x", r.Intn(10))
		}
		m.QueryFormat = []string{"", "", "htmlFormEncoded", "noFormat"}[r.Intn(4)]
		m.QueryFmt1st = r.Bool()
	}
	if r.Chance(1, 2) {
		m.Request = g.bodySchema()
		m.ReqChild = r.Chance(1, 3)
		if r.Chance(1, 4) {
			m.ReqHeaders = g.inlineSchema(false)
		}
	}
	n := 1 + r.Intn(2)
	codes := []string{"200", "201", "404", "500", "302"}
	for i := 0; i < n; i++ {
		resp := ResponseM{Code: codes[r.Intn(len(codes))], Body: g.bodySchema(), BodyChild: r.Chance(1, 3)}
		if !resp.BodyChild {
			resp.Annotation = g.annotation()
		}
		if r.Chance(1, 5) {
			resp.Headers = g.inlineSchema(false)
		}
		m.Responses = append(m.Responses, resp)
	}
	return m
}

func (g *genState) freshPath() string {
	for {
		segs := 1 + g.r.Intn(2)
		var pp []string
		for i := 0; i < segs; i++ {
			pp = append(pp, fmt.Sprintf("%s%d", []string{"cats", "dogs", "v", "items"}[g.r.Intn(4)], g.id()))
		}
		p := "/" + strings.Join(pp, "/")
		if !g.usedPath[p] {
			g.usedPath[p] = true
			return p
		}
	}
}

// GenModel generates a mostly-valid API model. Names are unique; references point to declared things
// (declared anywhere in the document: use-before-definition is allowed by the language).
func GenModel(r *Rng) *ApiModel {
	g := &genState{r: r, usedPath: map[string]bool{}}
	nTypes, nEnums, nTags := r.Intn(4), r.Intn(3), r.Intn(3)
	for i := 0; i < nTypes; i++ {
		g.types = append(g.types, fmt.Sprintf("@type%d", g.id()))
	}
	for i := 0; i < nEnums; i++ {
		g.enums = append(g.enums, fmt.Sprintf("@enum%d", g.id()))
	}
	for i := 0; i < nTags; i++ {
		g.tags = append(g.tags, fmt.Sprintf("@tag%d", g.id()))
	}
	// sometimes a DECLARED tag has the very name the automatic tag of a path would get
	presetPath := ""
	if r.Chance(1, 3) {
		presetPath = g.freshPath()
		seg := strings.Split(strings.TrimPrefix(presetPath, "/"), "/")[0]
		g.tags = append(g.tags, "@"+seg)
	}
	var blocks []BlockM
	if r.Chance(2, 3) {
		b := BlockM{Kind: "info"}
		if r.Chance(2, 3) {
			b.Title = []string{"My API", "t", "Cats & Dogs"}[r.Intn(3)]
		}
		if r.Chance(2, 3) {
			b.Version = []string{"1.0", "0.3.1", "v2"}[r.Intn(3)]
		}
		b.Description = g.description()
		if b.Title != "" || b.Version != "" || b.Description != "" {
			blocks = append(blocks, b)
		}
	}
	for i := 0; i < r.Intn(3); i++ {
		blocks = append(blocks, BlockM{Kind: "server", Name: fmt.Sprintf("@srv%d", g.id()), Annotation: g.annotation(), BaseURL: fmt.Sprintf("https://h%d.example.com/api", g.id())})
	}
	// types may reference earlier or later types, but never cyclically: type i references only types j > i
	for i, t := range g.types {
		later := g.types[i+1:]
		s := (&genState{r: r, types: later, enums: g.enums, nextID: g.nextID}).inlineSchema(true)
		g.nextID += 10
		if len(later) > 0 && r.Chance(1, 2) {
			s.AllOf = []string{later[r.Intn(len(later))]}
			// a second base only when it is the last type (which has no base itself) and the first base is
			// the type right before it without... keep it simple: two bases are generated by the C12 generator
			s.Body = withAllOf(s.Body, s.AllOf)
		}
		blocks = append(blocks, BlockM{Kind: "type", Name: t, Annotation: g.annotation(), Schema: s})
	}
	for _, e := range g.enums {
		blocks = append(blocks, BlockM{Kind: "enum", Name: e, Annotation: g.annotation(), EnumBody: `["red", "green", "blue"]`})
	}
	for _, t := range g.tags {
		blocks = append(blocks, BlockM{Kind: "tag", Name: t, Annotation: g.annotation(), Description: g.description()})
	}
	nRes := 1 + r.Intn(4)
	for i := 0; i < nRes; i++ {
		p := g.freshPath()
		if i == 0 && presetPath != "" {
			p = presetPath
		}
		switch r.Intn(3) {
		case 0: // path-bearing method
			m := g.method(p)
			blocks = append(blocks, BlockM{Kind: "method", Method: &m})
		case 1: // URL block with http methods
			b := BlockM{Kind: "url", Path: p, Tags: g.pickTags()}
			used := map[string]bool{}
			for k := 0; k < 1+r.Intn(3); k++ {
				m := g.method(p)
				if used[m.Verb] {
					continue
				}
				used[m.Verb] = true
				b.Methods = append(b.Methods, m)
			}
			blocks = append(blocks, b)
		default: // JSON-RPC
			b := BlockM{Kind: "url", Path: p, Tags: g.pickTags()}
			for k := 0; k < 1+r.Intn(2); k++ {
				m := RpcM{Name: fmt.Sprintf("rpc%d", g.id()), Annotation: g.annotation(), Description: g.description(), Tags: g.pickTags()}
				if r.Chance(2, 3) {
					m.Params = g.inlineSchema(true)
				}
				if r.Chance(2, 3) {
					m.Result = g.inlineSchema(true)
				}
				b.Rpc = append(b.Rpc, m)
			}
			blocks = append(blocks, b)
		}
	}
	// shuffle the order of the top-level blocks (declaration order is free)
	for i := len(blocks) - 1; i > 0; i-- {
		j := r.Intn(i + 1)
		blocks[i], blocks[j] = blocks[j], blocks[i]
	}
	return &ApiModel{Blocks: blocks}
}

// ---------------------------------------------------------------------------------------------
// Rendering (Style = the surface syntax choices that must not matter: C05)
// ---------------------------------------------------------------------------------------------

type Style struct {
	r        *Rng // nil = plain style
	NL       string
	Indent   int
	Comments bool
	Blank    bool
	Parens   bool
	Quotes   bool
	Trailing bool
}

func PlainStyle() *Style { return &Style{NL: "\n", Indent: 2} }

func RandomStyle(r *Rng) *Style {
	return &Style{r: r, NL: []string{"\n", "\r\n", "\r"}[r.Intn(3)], Indent: r.Intn(5), Comments: r.Bool(), Blank: r.Bool(), Parens: r.Bool(), Quotes: r.Bool(), Trailing: r.Bool()}
}

type renderer struct {
	st        *Style
	b         strings.Builder
	afterText bool // the last thing written was free description text: anything before the next keyword would be content
	// keyword offsets of top-level blocks, for fault injection / diagnostics
}

func (w *renderer) chance(num, den int) bool { return w.st.r != nil && w.st.r.Chance(num, den) }

func (w *renderer) ind(level int) string {
	n := level * w.st.Indent
	if w.st.r != nil && w.st.r.Chance(1, 6) {
		n += w.st.r.Intn(3)
	}
	if w.st.r != nil && w.st.r.Chance(1, 10) {
		return strings.Repeat("\t", level)
	}
	return strings.Repeat(" ", n)
}

// trivia between directives: blank lines and comments
func (w *renderer) trivia(level int) {
	if w.afterText {
		w.afterText = false
		return
	}
	if w.st.Blank && w.chance(1, 3) {
		w.b.WriteString(w.st.NL)
	}
	if w.st.Comments && w.chance(1, 4) {
		w.b.WriteString(w.ind(level) + "# a comment, with (parens) and \"quotes\" and #hashes#" + w.st.NL)
	}
	if w.st.Comments && w.chance(1, 8) {
		w.b.WriteString(w.ind(level) + "###" + w.st.NL + "block # comment" + w.st.NL + "GET /not/a/directive" + w.st.NL + w.ind(level) + "###" + w.st.NL)
	}
}

// line writes a directive line: keyword, parameters, optional annotation.
func (w *renderer) line(level int, kw string, params []string, annotation string) {
	w.trivia(level)
	w.b.WriteString(w.ind(level) + kw)
	for _, p := range params {
		w.b.WriteString(" ")
		if w.st.Trailing && w.chance(1, 5) {
			w.b.WriteString(" ")
		}
		w.b.WriteString(p)
	}
	// the blank between the last parameter and what follows it on the line may be a tab
	gap := " "
	if w.st.Trailing && w.chance(1, 3) {
		gap = []string{"\t", " \t", "\t "}[w.st.r.Intn(3)]
	}
	if annotation != "" {
		if w.chance(1, 3) {
			w.b.WriteString(gap + "/* " + annotation + " */")
		} else {
			w.b.WriteString(gap + "// " + annotation)
		}
	} else if w.st.Comments && w.chance(1, 6) {
		w.b.WriteString(gap + "# trailing comment")
	}
	if w.st.Trailing && w.chance(1, 4) {
		w.b.WriteString([]string{"  ", "\t", " \t", "\t "}[w.st.r.Intn(4)])
	}
	w.b.WriteString(w.st.NL)
}

// q quotes a parameter when the style asks for it (or when it must be quoted).
func (w *renderer) q(v string, must bool) string {
	if must || (w.st.Quotes && w.chance(1, 2)) {
		return string(quoteSpec([]byte(v)))
	}
	return v
}

func needsQuotes(v string) bool {
	return v == "" || strings.ContainsAny(v, " \t\"#") || strings.HasPrefix(v, "//") || strings.HasPrefix(v, "/*")
}

func (w *renderer) body(level int, text string) {
	for _, l := range strings.Split(text, "\n") {
		w.b.WriteString(w.ind(level) + l + w.st.NL)
	}
}

func (w *renderer) open(level int) bool {
	if w.st.Parens && w.chance(1, 3) {
		w.trivia(level)
		w.b.WriteString(w.ind(level) + "(" + w.st.NL)
		return true
	}
	return false
}

func (w *renderer) close(level int, opened bool) {
	if opened {
		w.trivia(level)
		w.b.WriteString(w.ind(level) + ")" + w.st.NL)
	}
}

func (w *renderer) descr(level int, text string) {
	if text == "" {
		return
	}
	w.line(level, "Description", nil, "")
	paren := w.st.Parens && w.chance(1, 3)
	if paren {
		w.b.WriteString(w.ind(level) + "(" + w.st.NL)
	}
	pre := strings.Repeat(" ", (level+1)*2)
	for _, l := range strings.Split(text, "\n") {
		w.b.WriteString(pre + l + w.st.NL)
	}
	if paren {
		w.b.WriteString(w.ind(level) + ")" + w.st.NL)
	} else {
		w.afterText = true
	}
}

func (w *renderer) tagsLine(level int, tags []string) {
	if len(tags) > 0 {
		w.line(level, "Tags", tags, "")
	}
}

// schemaParams: how a body-carrying directive spells its schema: parameters + optional inline body
func schemaParams(s *SchemaM) (params []string, body string) {
	switch s.Mode {
	case "any", "empty":
		return []string{s.Mode}, ""
	case "regex":
		return []string{"regex"}, s.Body
	case "type":
		return []string{s.Type}, ""
	case "array":
		return []string{"[" + s.Type + "]"}, ""
	}
	return nil, s.Body
}

// schemaParams spells the schema parameters of a body-carrying directive in the renderer's style: the
// notation keyword or the type name may be written in quotes
func (w *renderer) schemaParams(s *SchemaM) (params []string, body string) {
	params, body = schemaParams(s)
	if s.Mode == "array" {
		return
	}
	for i := range params {
		params[i] = w.q(params[i], false)
	}
	return
}

func (w *renderer) method(level int, m *MethodM, withPath bool) {
	var params []string
	if withPath {
		params = []string{w.q(m.Path, false)}
	}
	w.line(level, m.Verb, params, m.Annotation)
	op := w.open(level)
	w.descr(level+1, m.Description)
	w.tagsLine(level+1, m.Tags)
	if m.Query != nil {
		var pp []string
		if m.QueryEx != "" {
			pp = []string{w.q(m.QueryEx, true)}
		}
		if m.QueryFormat != "" {
			if m.QueryFmt1st {
				pp = append([]string{w.q(m.QueryFormat, false)}, pp...)
			} else {
				pp = append(pp, w.q(m.QueryFormat, false))
			}
		}
		w.line(level+1, "Query", pp, "")
		w.body(level+1, m.Query.Body)
	}
	if m.Request != nil {
		if m.ReqChild {
			w.line(level+1, "Request", nil, "")
			op2 := w.open(level + 1)
			if m.ReqHeaders != nil {
				w.line(level+2, "Headers", nil, "")
				w.body(level+2, m.ReqHeaders.Body)
			}
			pp, body := w.schemaParams(m.Request)
			w.line(level+2, "Body", pp, "")
			if body != "" {
				w.body(level+2, body)
			}
			w.close(level+1, op2)
		} else {
			pp, body := w.schemaParams(m.Request)
			w.line(level+1, "Request", pp, "")
			if body != "" {
				w.body(level+1, body)
			}
			if m.ReqHeaders != nil {
				w.line(level+2, "Headers", nil, "")
				w.body(level+2, m.ReqHeaders.Body)
			}
		}
	}
	for i := range m.Responses {
		resp := &m.Responses[i]
		if resp.BodyChild {
			w.line(level+1, resp.Code, nil, resp.Annotation)
			op2 := w.open(level + 1)
			if resp.Headers != nil {
				w.line(level+2, "Headers", nil, "")
				w.body(level+2, resp.Headers.Body)
			}
			pp, body := w.schemaParams(resp.Body)
			w.line(level+2, "Body", pp, "")
			if body != "" {
				w.body(level+2, body)
			}
			w.close(level+1, op2)
		} else {
			pp, body := w.schemaParams(resp.Body)
			w.line(level+1, resp.Code, pp, resp.Annotation)
			if body != "" {
				w.body(level+1, body)
			}
			if resp.Headers != nil {
				w.line(level+2, "Headers", nil, "")
				w.body(level+2, resp.Headers.Body)
			}
		}
	}
	w.close(level, op)
}

// Render renders the model; offsets[i] = byte offset of the first byte of block i's rendering
// (its trivia included).
func (m *ApiModel) Render(st *Style, withJsight bool) (content []byte, offsets []int) {
	w := &renderer{st: st}
	if withJsight {
		w.line(0, "JSIGHT", []string{"0.3"}, "")
	}
	for i := range m.Blocks {
		offsets = append(offsets, w.b.Len())
		w.block(&m.Blocks[i])
	}
	return []byte(w.b.String()), offsets
}

func (w *renderer) block(b *BlockM) {
	switch b.Kind {
	case "info":
		w.line(0, "INFO", nil, "")
		op := w.open(0)
		if b.Title != "" {
			w.line(1, "Title", []string{w.q(b.Title, needsQuotes(b.Title))}, "")
		}
		if b.Version != "" {
			w.line(1, "Version", []string{w.q(b.Version, needsQuotes(b.Version))}, "")
		}
		w.descr(1, b.Description)
		w.close(0, op)
	case "server":
		w.line(0, "SERVER", []string{b.Name}, b.Annotation)
		op := w.open(0)
		w.line(1, "BaseUrl", []string{w.q(b.BaseURL, true)}, "")
		w.close(0, op)
	case "type":
		w.line(0, "TYPE", []string{b.Name}, b.Annotation)
		w.body(0, b.Schema.Body)
	case "enum":
		w.line(0, "ENUM", []string{b.Name}, b.Annotation)
		w.body(0, b.EnumBody)
	case "tag":
		w.line(0, "TAG", []string{b.Name}, b.Annotation)
		op := b.Description != "" && w.open(0)
		w.descr(1, b.Description)
		w.close(0, op)
	case "method":
		w.method(0, b.Method, true)
	case "url":
		w.line(0, "URL", []string{w.q(b.Path, false)}, "")
		op := w.open(0)
		w.tagsLine(1, b.Tags)
		if len(b.Rpc) > 0 {
			w.line(1, "Protocol", []string{"json-rpc-2.0"}, "")
			for i := range b.Rpc {
				m := &b.Rpc[i]
				w.line(1, "Method", []string{w.q(m.Name, false)}, m.Annotation)
				op2 := w.open(1)
				w.descr(2, m.Description)
				w.tagsLine(2, m.Tags)
				if m.Params != nil {
					w.line(2, "Params", nil, "")
					w.body(2, m.Params.Body)
				}
				if m.Result != nil {
					w.line(2, "Result", nil, "")
					w.body(2, m.Result.Body)
				}
				w.close(1, op2)
			}
		}
		for i := range b.Methods {
			w.method(1, &b.Methods[i], false)
		}
		w.close(0, op)
	}
}

// ---------------------------------------------------------------------------------------------
// Expected catalog (skeleton): what the catalog must contain, computed from the model alone.
// Schema content / examples are the schema library's business (oracle): the skeleton carries
// notation, format and the sets of used types / enums.
// ---------------------------------------------------------------------------------------------

func sortedCopy(ss []string) []string {
	c := append([]string(nil), ss...)
	sort.Strings(c)
	return c
}

func strArr(ss []string) *OVal {
	v := &OVal{Kind: OArr}
	for _, s := range ss {
		v.Arr = append(v.Arr, &OVal{Kind: OStr, S: s})
	}
	return v
}

func oStr(s string) *OVal { return &OVal{Kind: OStr, S: s} }

func (o *OVal) set(k string, v *OVal) { o.Obj = append(o.Obj, OKV{k, v}) }

func schemaSkel(s *SchemaM) *OVal {
	o := &OVal{Kind: OObj}
	o.set("notation", oStr(s.notation()))
	if ut := s.usedTypes(); len(ut) > 0 {
		o.set("usedUserTypes", strArr(sortedCopy(ut)))
	}
	// note: the catalog never lists used enums (UsedUserEnums is declared but never filled by the
	// library's AST conversion), so the skeleton does not either
	return o
}

func firstSegment(path string) string {
	for _, p := range strings.Split(path, "/") {
		if p != "" && p != "." {
			return "/" + p
		}
	}
	return "/"
}

type tagAcc struct {
	name, title, descr string
	http, rpc          []string
}

// Expected computes the expected catalog skeleton of the model.
func (m *ApiModel) Expected(tagNameOf func(title string) string) *OVal {
	root := &OVal{Kind: OObj}
	var tags []*tagAcc
	tagIdx := map[string]*tagAcc{}
	// declared tags first, in declaration order
	for i := range m.Blocks {
		b := &m.Blocks[i]
		if b.Kind == "tag" {
			title := b.Annotation
			if title == "" {
				title = b.Name
			}
			t := &tagAcc{name: b.Name, title: title, descr: b.Description}
			tags = append(tags, t)
			tagIdx[b.Name] = t
		}
	}
	inter := &OVal{Kind: OObj}
	addTags := func(own, parent []string, path, id string, rpc bool) []string {
		use := own
		if len(use) == 0 {
			use = parent
		}
		if len(use) == 0 {
			title := firstSegment(path)
			name := tagNameOf(title)
			if _, ok := tagIdx[name]; !ok {
				t := &tagAcc{name: name, title: title}
				tags = append(tags, t)
				tagIdx[name] = t
			}
			use = []string{name}
		}
		for _, tn := range use {
			t := tagIdx[tn]
			if t == nil {
				continue
			}
			if rpc {
				t.rpc = append(t.rpc, id)
			} else {
				t.http = append(t.http, id)
			}
		}
		return use
	}
	httpEntry := func(mm *MethodM, parentTags []string) {
		id := "http " + mm.Verb + " " + mm.Path
		o := &OVal{Kind: OObj}
		o.set("id", oStr(id))
		o.set("protocol", oStr("http"))
		o.set("httpMethod", oStr(mm.Verb))
		o.set("path", oStr(mm.Path))
		o.set("tags", strArr(addTags(mm.Tags, parentTags, mm.Path, id, false)))
		if mm.Annotation != "" {
			o.set("annotation", oStr(mm.Annotation))
		}
		if mm.Description != "" {
			o.set("description", oStr(mm.Description))
		}
		if mm.Query != nil {
			q := &OVal{Kind: OObj}
			if mm.QueryEx != "" {
				q.set("example", oStr(mm.QueryEx))
			}
			if mm.QueryFormat != "" {
				q.set("format", oStr(mm.QueryFormat))
			} else {
				q.set("format", oStr("htmlFormEncoded"))
			}
			q.set("schema", schemaSkel(mm.Query))
			o.set("query", q)
		}
		if mm.Request != nil {
			rq := &OVal{Kind: OObj}
			if mm.ReqHeaders != nil {
				h := &OVal{Kind: OObj}
				h.set("schema", schemaSkel(mm.ReqHeaders))
				rq.set("headers", h)
			}
			bd := &OVal{Kind: OObj}
			bd.set("format", oStr(mm.Request.format()))
			bd.set("schema", schemaSkel(mm.Request))
			rq.set("body", bd)
			o.set("request", rq)
		}
		rs := &OVal{Kind: OArr}
		for i := range mm.Responses {
			resp := &mm.Responses[i]
			r := &OVal{Kind: OObj}
			r.set("code", oStr(resp.Code))
			if resp.Annotation != "" {
				r.set("annotation", oStr(resp.Annotation))
			}
			if resp.Headers != nil {
				h := &OVal{Kind: OObj}
				h.set("schema", schemaSkel(resp.Headers))
				r.set("headers", h)
			}
			bd := &OVal{Kind: OObj}
			bd.set("format", oStr(resp.Body.format()))
			bd.set("schema", schemaSkel(resp.Body))
			r.set("body", bd)
			rs.Arr = append(rs.Arr, r)
		}
		o.set("responses", rs)
		inter.set(id, o)
	}
	var info, servers, types, enums *OVal
	for i := range m.Blocks {
		b := &m.Blocks[i]
		switch b.Kind {
		case "info":
			info = &OVal{Kind: OObj}
			if b.Title != "" {
				info.set("title", oStr(b.Title))
			}
			if b.Version != "" {
				info.set("version", oStr(b.Version))
			}
			if b.Description != "" {
				info.set("description", oStr(b.Description))
			}
		case "server":
			if servers == nil {
				servers = &OVal{Kind: OObj}
			}
			s := &OVal{Kind: OObj}
			if b.Annotation != "" {
				s.set("annotation", oStr(b.Annotation))
			}
			s.set("baseUrl", oStr(b.BaseURL))
			servers.set(b.Name, s)
		case "type":
			if types == nil {
				types = &OVal{Kind: OObj}
			}
			t := &OVal{Kind: OObj}
			if b.Annotation != "" {
				t.set("annotation", oStr(b.Annotation))
			}
			t.set("schema", schemaSkel(b.Schema))
			types.set(b.Name, t)
		case "enum":
			if enums == nil {
				enums = &OVal{Kind: OObj}
			}
			e := &OVal{Kind: OObj}
			if b.Annotation != "" {
				e.set("annotation", oStr(b.Annotation))
			}
			enums.set(b.Name, e)
		case "method":
			httpEntry(b.Method, nil)
		case "url":
			for k := range b.Rpc {
				mm := &b.Rpc[k]
				id := "json-rpc-2.0 " + mm.Name + " " + b.Path
				o := &OVal{Kind: OObj}
				o.set("id", oStr(id))
				o.set("protocol", oStr("json-rpc-2.0"))
				o.set("path", oStr(b.Path))
				o.set("method", oStr(mm.Name))
				o.set("tags", strArr(addTags(mm.Tags, b.Tags, b.Path, id, true)))
				if mm.Annotation != "" {
					o.set("annotation", oStr(mm.Annotation))
				}
				if mm.Description != "" {
					o.set("description", oStr(mm.Description))
				}
				if mm.Params != nil {
					p := &OVal{Kind: OObj}
					p.set("schema", schemaSkel(mm.Params))
					o.set("params", p)
				}
				if mm.Result != nil {
					p := &OVal{Kind: OObj}
					p.set("schema", schemaSkel(mm.Result))
					o.set("result", p)
				}
				inter.set(id, o)
			}
			for k := range b.Methods {
				httpEntry(&b.Methods[k], b.Tags)
			}
		}
	}
	tg := &OVal{Kind: OObj}
	for _, t := range tags {
		o := &OVal{Kind: OObj}
		o.set("name", oStr(t.name))
		o.set("title", oStr(t.title))
		if t.descr != "" {
			o.set("description", oStr(t.descr))
		}
		groups := &OVal{Kind: OArr}
		if len(t.http) > 0 {
			g := &OVal{Kind: OObj}
			g.set("protocol", oStr("http"))
			g.set("interactions", strArr(t.http))
			groups.Arr = append(groups.Arr, g)
		}
		if len(t.rpc) > 0 {
			g := &OVal{Kind: OObj}
			g.set("protocol", oStr("json-rpc-2.0"))
			g.set("interactions", strArr(t.rpc))
			groups.Arr = append(groups.Arr, g)
		}
		o.set("interactionGroups", groups)
		tg.set(t.name, o)
	}
	root.set("tags", tg)
	if info != nil {
		root.set("info", info)
	}
	if servers != nil {
		root.set("servers", servers)
	}
	if types != nil {
		root.set("userTypes", types)
	}
	if enums != nil {
		root.set("userEnums", enums)
	}
	root.set("interactions", inter)
	root.set("jsight", oStr("0.3"))
	return root
}

// Skeleton projects an actual catalog onto the skeleton: schema content, examples, enum values and
// the exchange version are dropped; used-type lists are sorted (their order is the library's).
func Skeleton(v *OVal) *OVal {
	if v == nil {
		return nil
	}
	switch v.Kind {
	case OObj:
		o := &OVal{Kind: OObj}
		for _, kv := range v.Obj {
			switch kv.K {
			case "content", "example", "value", "jdocExchangeVersion", "pathVariables":
				// "example" inside query is the declared query example: keep strings there
				if kv.K == "example" && kv.V.Kind == OStr && v.Get("format") != nil && v.Get("schema") != nil {
					o.set(kv.K, kv.V)
				}
				continue
			case "usedUserTypes", "usedUserEnums":
				var ss []string
				for _, x := range kv.V.Arr {
					ss = append(ss, x.S)
				}
				o.set(kv.K, strArr(sortedCopy(ss)))
				continue
			case "description", "annotation":
				// userEnums carry an empty annotation / description: drop empty ones
				if kv.V.Kind == OStr && kv.V.S == "" {
					continue
				}
			}
			o.set(kv.K, Skeleton(kv.V))
		}
		return o
	case OArr:
		a := &OVal{Kind: OArr}
		for _, x := range v.Arr {
			a.Arr = append(a.Arr, Skeleton(x))
		}
		return a
	}
	return v
}

// allOfGraph: type name -> its allOf bases.
func (m *ApiModel) allOfGraph() map[string][]string {
	g := map[string][]string{}
	for i := range m.Blocks {
		b := &m.Blocks[i]
		if b.Kind == "type" && b.Schema != nil && len(b.Schema.AllOf) > 0 {
			g[b.Name] = b.Schema.AllOf
		}
	}
	return g
}

// closeUsedTypes replaces every usedUserTypes list by its closure under allOf ancestry (sorted).
// Whether a schema lists only the types it names or also the allOf ancestors of those depends on the
// order in which the implementation happens to process the schemas (known finding F15); the closure is the
// same in both cases, so comparisons are made on it and F15 itself is tracked by its own witness.
func closeUsedTypes(v *OVal, graph map[string][]string) {
	if v == nil {
		return
	}
	switch v.Kind {
	case OObj:
		for i := range v.Obj {
			if v.Obj[i].K == "usedUserTypes" {
				set := map[string]bool{}
				var add func(t string)
				add = func(t string) {
					if set[t] {
						return
					}
					set[t] = true
					for _, b := range graph[t] {
						add(b)
					}
				}
				for _, x := range v.Obj[i].V.Items() {
					add(x.S)
				}
				var ss []string
				for t := range set {
					ss = append(ss, t)
				}
				v.Obj[i].V = strArr(sortedCopy(ss))
				continue
			}
			closeUsedTypes(v.Obj[i].V, graph)
		}
	case OArr:
		for _, x := range v.Arr {
			closeUsedTypes(x, graph)
		}
	}
}
