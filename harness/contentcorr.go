package main

import (
	"fmt"
	"strings"

	jschemaLib "github.com/jsightapi/jsight-schema-go-library"
	"github.com/jsightapi/jsight-schema-go-library/fs"
	"github.com/jsightapi/jsight-schema-go-library/notations/jschema"

	"github.com/jsightapi/jsight-api-go-library/catalog"
	"github.com/jsightapi/jsight-api-go-library/core"
	"github.com/jsightapi/jsight-api-go-library/directive"
)

// Correspondence of Model/SchemaContent.lean (op "content" of jsight-build) with catalog.UnmarshalJSightSchema:
// the schema library's AST of every JSight body of a document (obtained through the library's public API, prepared as
// catalog.prepareJSightSchema prepares it) is handed to the model; the content tree and the list of used user types it
// computes are compared with what the real conversion returns.

func protoRuleAst(b *strings.Builder, r jschemaLib.RuleASTNode) {
	gen := "0"
	if r.Source == jschemaLib.RuleASTNodeSourceGenerated {
		gen = "1"
	}
	np := 0
	if r.Properties != nil {
		np = r.Properties.Len()
	}
	fmt.Fprintf(b, " R %s %s %s %s %d %d", hxs(string(r.TokenType)), hxs(r.Value), hxs(r.Comment), gen, np, len(r.Items))
	if r.Properties != nil {
		r.Properties.EachSafe(func(k string, v jschemaLib.RuleASTNode) {
			fmt.Fprintf(b, " K %s", hxs(k))
			protoRuleAst(b, v)
		})
	}
	for _, i := range r.Items {
		protoRuleAst(b, i)
	}
}

func protoAst(b *strings.Builder, n jschemaLib.ASTNode) {
	ks := "0"
	if n.IsKeyShortcut {
		ks = "1"
	}
	nr := 0
	if n.Rules != nil {
		nr = n.Rules.Len()
	}
	fmt.Fprintf(b, " A %s %s %s %s %s %s %d %d", hxs(string(n.TokenType)), hxs(n.SchemaType), hxs(n.Key), hxs(n.Value), hxs(n.Comment), ks, nr, len(n.Children))
	if n.Rules != nil {
		n.Rules.EachSafe(func(k string, v jschemaLib.RuleASTNode) {
			fmt.Fprintf(b, " K %s", hxs(k))
			protoRuleAst(b, v)
		})
	}
	for _, c := range n.Children {
		protoAst(b, c)
	}
}

func showRealRule(b *strings.Builder, r catalog.Rule) {
	fmt.Fprintf(b, " r %s %s %s %s %d", hxs(r.Key), hxs(string(r.TokenType)), hxs(r.ScalarValue), hxs(r.Note), len(r.Children))
	for _, c := range r.Children {
		showRealRule(b, c)
	}
}

func showRealContent(b *strings.Builder, c *catalog.SchemaContentJSight) {
	key := "~"
	if c.Key != nil {
		key = hxs(*c.Key)
	}
	kr, o := "0", "0"
	if c.IsKeyUserTypeRef {
		kr = "1"
	}
	if c.Optional {
		o = "1"
	}
	nr := 0
	if c.Rules != nil {
		nr = c.Rules.Len()
	}
	fmt.Fprintf(b, " C %s %s %s %s %s %s %s %d %d", key, hxs(c.TokenType), hxs(c.Type), hxs(c.ScalarValue), hxs(c.Note), kr, o, nr, len(c.Children))
	if c.Rules != nil {
		_ = c.Rules.Each(func(k string, v catalog.Rule) error {
			showRealRule(b, v)
			return nil
		})
	}
	for _, ch := range c.Children {
		showRealContent(b, ch)
	}
}

type contentCase struct {
	proto string
	real  string
}

// contentCasesOf: every JSight body of the document
func contentCasesOf(content []byte) (out []contentCase, skipped int) {
	defer func() {
		if r := recover(); r != nil {
			skipped++
		}
	}()
	c := core.NewJApiCore(fs.NewFile("root.jst", content))
	if je := c.ValidateJAPI(); je != nil {
		// the user types and rules collected so far are still usable when the failure came later; keep it simple
		return nil, 1
	}
	userTypes, rules := c.VerifUserTypes(), c.VerifRules()
	var walk func(d *directive.Directive)
	walk = func(d *directive.Directive) {
		for _, ch := range d.Children {
			walk(ch)
		}
		sn := d.NamedParameter("SchemaNotation")
		if sn != "" && sn != "jsight" {
			return
		}
		var body []byte
		name := ""
		switch d.Type() {
		case directive.Type:
			name = d.NamedParameter("Name")
			if d.BodyCoords.IsSet() {
				body = d.BodyCoords.Read()
			}
		case directive.Query, directive.Headers, directive.Params, directive.Result, directive.Path, directive.Request, directive.HTTPResponseCode, directive.Body:
			if d.BodyCoords.IsSet() {
				body = d.BodyCoords.Read()
			} else if t := d.NamedParameter("Type"); t != "" {
				body = []byte(t)
			}
		}
		if body == nil {
			return
		}
		real, err := catalog.UnmarshalJSightSchema(name, body, userTypes, rules)
		var want string
		if err != nil {
			if strings.Contains(err.Error(), "runtime error") {
				want = "fault"
			} else {
				skipped++
				return
			}
		} else {
			var b strings.Builder
			b.WriteString("ok")
			showRealContent(&b, real.ContentJSight)
			b.WriteString(" |")
			for _, u := range real.UsedUserTypes.Data() {
				b.WriteString(" " + hxs(u))
			}
			want = b.String()
		}
		// the AST, prepared as catalog.prepareJSightSchema does
		s := jschema.New(name, body)
		for n, v := range rules {
			if err := s.AddRule(n, v); err != nil {
				skipped++
				return
			}
		}
		if err := userTypes.Each(func(k string, v jschemaLib.Schema) error { return s.AddType(k, v) }); err != nil {
			skipped++
			return
		}
		ast, err := s.GetAST()
		if err != nil {
			skipped++
			return
		}
		var b strings.Builder
		b.WriteString("content")
		protoAst(&b, ast)
		out = append(out, contentCase{b.String(), want})
	}
	for _, d := range c.VerifDirectivesWithPastes() {
		walk(d)
	}
	return
}

func contentCorrespondence(ctx *Ctx, docs [][]byte, label string) {
	m, err := ctx.Model("jsight-build")
	if err != nil {
		ctx.Break("correspondence schema content: model not available: " + err.Error())
		return
	}
	var cases []contentCase
	skipped := 0
	for _, d := range docs {
		cc, sk := contentCasesOf(d)
		cases = append(cases, cc...)
		skipped += sk
	}
	reqs := make([]string, len(cases))
	for i, c := range cases {
		reqs[i] = c.proto
	}
	outs, err := m.Batch(reqs)
	if err != nil {
		ctx.Break("correspondence schema content: " + err.Error())
		return
	}
	dis := 0
	for i, out := range outs {
		want := cases[i].real
		got := strings.TrimRight(out, " ")
		if strings.HasPrefix(got, "fault") && want == "fault" {
			got = "fault"
		}
		ctx.Cov.Count([]byte(reqs[i]), strings.Count(reqs[i], " A ") >= 3)
		if got != strings.TrimRight(want, " ") {
			dis++
			if dis <= 3 {
				ctx.Break(fmt.Sprintf("correspondence catalog.UnmarshalJSightSchema vs Model.SchemaContent: request %q: implementation %q, model %q", trunc(reqs[i], 500), trunc(want, 500), trunc(got, 500)))
			}
		}
	}
	ctx.Cov.Component("schema content: Model/SchemaContent.lean (jsight-build content) vs catalog.UnmarshalJSightSchema on the JSight bodies of "+label, len(outs), dis, fmt.Sprintf("%d bodies / documents skipped (rejected documents, library errors)", skipped))
}
