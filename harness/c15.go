package main

import (
	"bytes"
	"fmt"
	"strings"

	"github.com/jsightapi/jsight-api-go-library/catalog"
	"github.com/jsightapi/jsight-api-go-library/core"
)

func init() {
	props["C15"] = &propCheck{
		lean: []string{"JSight.Props.C15", "JSight.Props.C15_Scan"},
		exes: []string{"jsight-model"},
		run:  runC15,
		rule: "texts: all strings over {a,space,tab,LF,CR,(,),#} up to the length bound + all sequences of up to 4 (thorough: 5) pieces over {a,space,tab,LF,(,),VT, U+00A0 (C2 A0), U+2028 (E2 80 A8), U+3000 (E3 80 80), and the lone bytes C2, E2, A8, 80, 85 (invalid / truncated UTF-8)} + random longer multi-line texts over both alphabets; non-trivial = at least two lines or leading blanks; end-to-end: the same text bare and parenthesised on all four description hosts",
		assume: []string{
			"bytes.TrimSpace / strings.TrimSpace remove exactly the byte sequences of Model/Descr.lean spaceSeqs (unicode.IsSpace, UTF-8 encoded; invalid UTF-8 is not space) and regexp \\s is [\\t\\n\\f\\r ]: compared by correspondence on the enumerated and random texts, including multi-byte spaces and invalid UTF-8",
		},
		trusted: []string{"modelled, not verified: bytes.TrimSpace / strings.TrimSpace (byte-level, Unicode spaces included), bytes.Trim*, bytes.Split/Join, regexp \\s+ (byte-level models in Model/Descr.lean)"},
	}
}

func implDescr(b []byte) string {
	return safely(func() string {
		d, err := core.VerifDescription(append([]byte(nil), b...))
		if err != nil {
			return "err"
		}
		return "ok " + hx(d)
	})
}

func runC15(ctx *Ctx) {
	var texts [][]byte
	enumStrings([]byte{'a', ' ', '\t', '\n', '\r', '(', ')', '#'}, ctx.Len(6, 7), func(s []byte) {
		texts = append(texts, append([]byte(nil), s...))
	})
	// pieces: ASCII, the UTF-8 encodings of some Unicode spaces (trimmed by TrimSpace, not matched by the regexp \s),
	// and lone lead / continuation bytes (invalid or truncated UTF-8: not space, trimming stops there)
	pieces := [][]byte{{'a'}, {' '}, {'\t'}, {'\n'}, {'('}, {')'}, {0x0b},
		{0xC2, 0xA0}, {0xE2, 0x80, 0xA8}, {0xE3, 0x80, 0x80}, {0xC2}, {0xE2}, {0xA8}, {0x80}, {0x85}}
	enumPieces(pieces, ctx.Len(4, 5), func(s []byte) {
		texts = append(texts, append([]byte(nil), s...))
	})
	r := ctx.Rng.Fork()
	for i := 0; i < ctx.Budget(30000, 1000000); i++ {
		texts = append(texts, r.Bytes([]byte{'a', 'b', ' ', ' ', '\t', '\n', '\n', '\r', '(', ')', '#', 'G'}, r.Intn(30)))
	}
	// random texts with all the multi-byte spaces of unicode.IsSpace, their fragments, and arbitrary bytes
	uni := [][]byte{{'a'}, {'b'}, {' '}, {' '}, {'\t'}, {'\n'}, {'\n'}, {'\r'}, {'('}, {')'}, {0x0b}, {0x0c},
		{0xC2, 0x85}, {0xC2, 0xA0}, {0xE1, 0x9A, 0x80}, {0xE2, 0x80, 0x80}, {0xE2, 0x80, 0x85}, {0xE2, 0x80, 0x8A}, {0xE2, 0x80, 0x8B},
		{0xE2, 0x80, 0xA8}, {0xE2, 0x80, 0xA9}, {0xE2, 0x80, 0xAF}, {0xE2, 0x81, 0x9F}, {0xE3, 0x80, 0x80}, {0xEF, 0xBF, 0xBD}, {0xC3, 0xA9},
		{0xC2}, {0xE1}, {0xE2}, {0xE3}, {0xE2, 0x80}, {0x80}, {0x85}, {0xA0}, {0xA8}, {0x9F}, {0xF0, 0x9A, 0x80}, {0xFF}}
	for i := 0; i < ctx.Budget(30000, 1000000); i++ {
		var t []byte
		for k := r.Intn(12); k > 0; k-- {
			if r.Intn(16) == 0 {
				t = append(t, byte(r.Intn(256)))
			} else {
				t = append(t, uni[r.Intn(len(uni))]...)
			}
		}
		texts = append(texts, t)
	}
	reqs := make([]string, len(texts))
	for i, t := range texts {
		reqs[i] = "descr " + hx(t)
	}
	Corr(ctx, "core.description vs Model.description", "jsight-model", reqs, func(i int) string { return implDescr(texts[i]) })
	for i, t := range texts {
		reqs[i] = "annot " + hx(t)
	}
	Corr(ctx, "catalog.Annotation vs Model.annotation", "jsight-model", reqs, func(i int) string {
		return "ok " + hx([]byte(catalog.Annotation(string(texts[i]))))
	})

	// search: the specification on the implementation
	for _, t := range texts {
		nontrivial := bytes.Count(t, []byte{'\n'})+bytes.Count(t, []byte{'\r'}) > 0 || (len(t) > 0 && (t[0] == ' ' || t[0] == '\t'))
		ctx.Cov.Count(t, nontrivial)
		d, err := core.VerifDescription(append([]byte(nil), t...))
		if err != nil {
			ctx.Cov.Hit("description: rejected parenthesised form")
			continue
		}
		in := map[string]any{"op": "descr", "text": hx(t)}
		if bytes.IndexByte(d, '\r') >= 0 {
			ctx.Violate(Violation{Kind: "wrong-output", Site: "core.description", What: fmt.Sprintf("description of %q contains CR: %q", t, d), Input: in, Signature: "descr-cr"})
		}
		// no surrounding blank lines, no common indentation
		if specErr := descrNormalForm(d); specErr != "" {
			ctx.Violate(Violation{Kind: "wrong-output", Site: "core.description", What: fmt.Sprintf("description of %q is %q: %s", t, d, specErr), Input: in, Observed: string(d), Signature: "descr-normal-form:" + specErr})
		}
		// the text itself: an independent reading of the statement (LF only, parentheses stripped, surrounding
		// blank lines removed, the indentation common to the non-blank lines removed)
		if want, ok := specDescription(t); ok && !bytes.Equal(want, d) {
			ctx.Violate(Violation{Kind: "wrong-output", Site: "core.description", What: fmt.Sprintf("description of %q is %q, the statement gives %q", t, d, want), Input: in, Observed: string(d), Expected: string(want), Signature: "descr-spec"})
		}
		// idempotent (a result that is itself "( ... )"-shaped is a different spelling, excluded)
		tr := bytes.TrimSpace(d)
		parenShaped := len(tr) >= 2 && tr[0] == '(' && tr[len(tr)-1] == ')'
		if !parenShaped {
			d2, err2 := core.VerifDescription(append([]byte(nil), d...))
			if err2 != nil || !bytes.Equal(d2, d) {
				ctx.Violate(Violation{Kind: "wrong-output", Site: "core.description", What: fmt.Sprintf("normalising twice changes the text: %q -> %q -> %q", t, d, d2), Input: in, Observed: string(d2), Expected: string(d), Signature: "descr-idempotent"})
			}
		}
		// annotation: idempotent, blanks-insensitive
		a := catalog.Annotation(string(t))
		if catalog.Annotation(a) != a || catalog.Annotation(" "+string(t)+"  ") != a || catalog.Annotation("\u2028"+string(t)+"\u00a0") != a {
			ctx.Violate(Violation{Kind: "wrong-output", Site: "catalog.Annotation", What: fmt.Sprintf("annotation of %q is not stable: %q", t, a), Input: map[string]any{"op": "annot", "text": hx(t)}, Signature: "annot-stable"})
		}
	}
	ctx.Cov.Sample(map[string]any{"text": "  foo\n    bar\n", "description": string(mustDescr([]byte("  foo\n    bar\n")))})
	c15EndToEnd(ctx, r)
	c15PastedDescriptions(ctx)
	c15AnnotationSpelling(ctx, r)
}

// enumPieces: all concatenations of at most n pieces
func enumPieces(pieces [][]byte, n int, f func([]byte)) {
	var buf []byte
	var rec func(k int)
	rec = func(k int) {
		f(buf)
		if k == n {
			return
		}
		for _, p := range pieces {
			l := len(buf)
			buf = append(buf, p...)
			rec(k + 1)
			buf = buf[:l]
		}
	}
	rec(0)
}

func mustDescr(b []byte) []byte {
	d, _ := core.VerifDescription(b)
	return d
}

// descrNormalForm checks the result against the statement of C15: LF only, no surrounding blank
// lines, the indentation common to the lines removed.
func descrNormalForm(d []byte) string {
	if len(d) == 0 {
		return ""
	}
	lines := bytes.Split(d, []byte{'\n'})
	isBlank := func(l []byte) bool { return len(bytes.Trim(l, " \t")) == 0 }
	if len(lines) > 1 && isBlank(lines[0]) {
		return "leading blank line"
	}
	last := lines[len(lines)-1]
	if len(lines) > 1 && isBlank(last) {
		return "trailing blank line"
	}
	if n := len(d); d[n-1] == ' ' || d[n-1] == '\t' || d[n-1] == '\n' {
		return "trailing white space"
	}
	// common indentation of the non-empty lines, as a prefix of the first line's indentation
	first := lines[0]
	ind := first[:len(first)-len(bytes.TrimLeft(first, " \t"))]
	if len(ind) == len(first) && len(first) > 0 { // first line all blank (single-line case)
		return ""
	}
	common := ind
	for _, l := range lines[1:] {
		if isBlank(l) {
			continue
		}
		for !bytes.HasPrefix(l, common) {
			common = common[:len(common)-1]
		}
	}
	if len(common) != 0 {
		return "common indentation not removed"
	}
	return ""
}

// c15EndToEnd: a description written bare and in parentheses, in every place a description may stand and in front
// of every directive that may follow it, gives the same catalog; its value is the normal form of the text.
func c15EndToEnd(ctx *Ctx, r *Rng) {
	type host struct {
		name      string
		open      string   // lines before the Description (its parent and earlier siblings)
		ind       string   // indentation of the Description line
		followers []string // what may come after the description (complete lines, "" = end of file)
		tail      string   // closes the document so that it is accepted
		path      []string // where the description is in the catalog
	}
	top := []string{"", "TYPE @t9\n{}\n", "ENUM @e9\n[1]\n", "SERVER @s9\n  BaseUrl \"http://x\"\n", "TAG @g9\n", "URL /u9\n  GET\n    200 any\n",
		"GET /m9\n  200 any\n", "POST /m9\n  200 any\n", "PUT /m9\n  200 any\n", "PATCH /m9\n  200 any\n", "DELETE /m9\n  200 any\n",
		"MACRO @m9\n  TYPE @t8\n  {}\n", "INFO\n  Title \"late\"\n"}
	hosts := []host{
		{"INFO", "INFO\n", "  ", append([]string{"  Title \"T\"\n", "  Version 1\n"}, top[:12]...), "", []string{"info", "description"}},
		{"TAG", "TAG @g\n", "  ", top, "", []string{"tags", "@g", "description"}},
		{"GET", "TAG @g\nGET /a\n", "  ", append([]string{"  Tags @g\n  200 any\n", "  Query\n  {}\n  200 any\n", "  Request any\n  200 any\n", "  200 any\n", "  404 empty\n"}, top[1:12]...), "", []string{"interactions", "http GET /a", "description"}},
		{"Method", "TAG @g\nURL /r\n  Protocol json-rpc-2.0\n  Method foo\n", "    ", append([]string{"    Tags @g\n    Params\n    {}\n", "    Params\n    {}\n", "    Result\n    {}\n", "  Method bar\n    Params\n    {}\n"}, top[1:12]...), "", []string{"interactions", "json-rpc-2.0 foo /r", "description"}},
	}
	texts := []string{"one line", "two\nlines", "first\n  indented more\nback", "with # hash\nand (parens)", "  spaced  \n\n  after a blank line", "Ends with a word like Tags\nor GET in the text"}
	n := ctx.Budget(400, 20000)
	cases := 0
	for i := 0; i < n && len(ctx.Violations) < 10; i++ {
		h := hosts[r.Intn(len(hosts))]
		f := h.followers[r.Intn(len(h.followers))]
		t := texts[r.Intn(len(texts))]
		var body strings.Builder
		for _, l := range strings.Split(t, "\n") {
			if strings.TrimSpace(l) == "" {
				body.WriteString("\n")
			} else {
				body.WriteString(h.ind + "  " + l + "\n")
			}
		}
		// methods need a response when the follower does not bring one
		tail := ""
		if h.name == "GET" && !strings.Contains(f, "  200 any") && !strings.Contains(f, "  404 empty") {
			tail = "GET /z\n  200 any\n"
			f = "  200 any\n" + f
		}
		if h.name == "Method" && !strings.Contains(f, "Params") && !strings.Contains(f, "Result") {
			f = "    Params\n    {}\n" + f
		}
		bare := "JSIGHT 0.3\n" + h.open + h.ind + "Description\n" + body.String() + f + tail
		paren := "JSIGHT 0.3\n" + h.open + h.ind + "Description\n" + h.ind + "(\n" + body.String() + h.ind + ")\n" + f + tail
		rb := RunProject(SingleFile([]byte(bare)), false)
		rp := RunProject(SingleFile([]byte(paren)), false)
		cases++
		ctx.Cov.Count([]byte(bare), strings.Contains(t, "\n"))
		ctx.Cov.Hit("description under " + h.name)
		in := projectInput(SingleFile([]byte(bare)))
		in["op"] = "doc"
		in["parenthesised"] = paren
		if rb.Panic != "" || rp.Panic != "" {
			continue
		}
		if rb.Accepted() != rp.Accepted() || !bytes.Equal(rb.JSON, rp.JSON) {
			what := fmt.Sprintf("bare: %s; in parentheses: %s", rb.Verdict(), rp.Verdict())
			if rb.Accepted() && rp.Accepted() {
				what = "the catalogs differ: " + firstDiff(rb.JSON, rp.JSON)
			}
			ctx.Violate(Violation{Kind: "wrong-output", Site: "description", What: "a description written bare and in parentheses gives different results (" + h.name + "): " + what,
				Input: in, Observed: rb.Verdict(), Expected: rp.Verdict(), Signature: "descr-spelling"})
			continue
		}
		if !rb.Accepted() {
			ctx.Violate(Violation{Kind: "wrong-output", Site: "description", What: "a well-formed document with a description is rejected: " + rb.Verdict(), Input: in, Signature: "descr-doc-rejected"})
			continue
		}
		doc, _, err := ParseOJSON(rb.JSON)
		if err != nil {
			continue
		}
		want, _ := specDescription([]byte(body.String()))
		if got := doc.Path(h.path...).Str(); got != string(want) {
			ctx.Violate(Violation{Kind: "wrong-output", Site: "description", What: fmt.Sprintf("description under %s is %q, the normal form of the text is %q", h.name, got, want),
				Input: in, Observed: got, Expected: string(want), Signature: "descr-value"})
		}
	}
	ctx.Cov.Component("descriptions bare vs in parentheses in every host and before every follower (specification on the implementation)", cases, len(ctx.Violations), "")
}

// specDescription: the normalised description text as C15 states it (written from the statement, not from the code).
// ok=false when the parenthesised spelling is malformed (the implementation reports an error there).
func specDescription(t []byte) ([]byte, bool) {
	s := strings.ReplaceAll(string(t), "\r\n", "\n")
	s = strings.ReplaceAll(s, "\r", "\n")
	tr := strings.TrimSpace(s)
	if len(tr) >= 2 && tr[0] == '(' && tr[len(tr)-1] == ')' {
		inner := strings.Trim(tr[1:len(tr)-1], " \t")
		if inner == "" || inner[0] != '\n' || inner[len(inner)-1] != '\n' {
			return nil, false
		}
		s = strings.Trim(inner, "\n")
	}
	lines := strings.Split(s, "\n")
	isBlank := func(l string) bool { return strings.Trim(l, " \t") == "" }
	for len(lines) > 1 && isBlank(lines[0]) {
		lines = lines[1:]
	}
	s = strings.TrimRight(strings.Join(lines, "\n"), " \t\r\n")
	lines = strings.Split(s, "\n")
	first := lines[0]
	indent := first[:len(first)-len(strings.TrimLeft(first, " \t"))]
	if len(indent) == len(first) {
		if len(first) > 0 {
			indent = first[:len(first)-1]
		}
	}
	for _, l := range lines[1:] {
		if isBlank(l) {
			continue
		}
		for !strings.HasPrefix(l, indent) {
			indent = indent[:len(indent)-1]
		}
	}
	for i, l := range lines {
		lines[i] = strings.TrimPrefix(l, indent)
	}
	return []byte(strings.Join(lines, "\n")), true
}


// specAnnotation: an annotation is its text with white-space runs collapsed to one blank and no surrounding blanks
// (written from the statement of C15).
func specAnnotation(t string) string {
	// surrounding white space (any Unicode white space) is dropped; inside, only runs of the blanks of the annotation
	// grammar — space, tab, line ends, form feed — collapse; other white space (no-break space, vertical tab, …) is text
	t = strings.TrimSpace(t)
	var b strings.Builder
	in := false
	for i := 0; i < len(t); i++ {
		c := t[i]
		if c == ' ' || c == '\t' || c == '\n' || c == '\r' || c == '\f' {
			if !in {
				b.WriteByte(' ')
			}
			in = true
			continue
		}
		in = false
		b.WriteByte(c)
	}
	return b.String()
}

// c15AnnotationSpelling: the same annotation text written after "//" and between "/*" and "*/", on every kind of line
// that takes an annotation: both documents are accepted, give the same catalog, and the annotation in the catalog is
// the text with its white space collapsed. The texts are all sequences of a few pieces that matter to the two
// spellings: words, blanks, '*' (also right before the closing "*/"), '/', '#', quotes.
func c15AnnotationSpelling(ctx *Ctx, r *Rng) {
	type host struct {
		name, before, line, after string
		path                      []string
	}
	hosts := []host{
		{"method", "", "GET /a", "\n  200 any\n", []string{"interactions", "http GET /a", "annotation"}},
		{"response", "GET /a\n", "  200 any", "\n", []string{"interactions", "http GET /a", "responses", "0", "annotation"}},
		{"type", "", "TYPE @t", "\n{}\nGET /a\n  200 any\n", []string{"userTypes", "@t", "annotation"}},
		{"server", "", "SERVER @s", "\n  BaseUrl \"http://x\"\nGET /a\n  200 any\n", []string{"servers", "@s", "annotation"}},
		{"rpc method", "URL /r\n  Protocol json-rpc-2.0\n", "  Method foo", "\n    Params\n    {}\n", []string{"interactions", "json-rpc-2.0 foo /r", "annotation"}},
	}
	pieces := []string{"a", "b c", " ", "  ", "*", "**", "/", "\t", "\"", "x*y", "*/", "#", "\u00a0", "\v", "\u2009"}
	var texts []string
	var rec func(prefix string, depth int)
	rec = func(prefix string, depth int) {
		if prefix != "" {
			texts = append(texts, prefix)
		}
		if depth == 3 {
			return
		}
		for _, p := range pieces {
			rec(prefix+p, depth+1)
		}
	}
	rec("", 0)
	cases, skipped := 0, 0
	n := ctx.Budget(1500, 100000)
	for i := 0; i < n && len(ctx.Violations) < 10; i++ {
		t := texts[r.Intn(len(texts))]
		if i < len(texts) && ctx.Thorough() {
			t = texts[i]
		}
		want := specAnnotation(t)
		if want == "" || strings.Contains(t, "*/") || strings.Contains(t, "#") {
			// "*/" ends the block spelling, "#" starts a comment: not the same text in both spellings
			skipped++
			continue
		}
		h := hosts[r.Intn(len(hosts))]
		line := "JSIGHT 0.3\n" + h.before + h.line + " // " + t + h.after
		block := "JSIGHT 0.3\n" + h.before + h.line + " /* " + t + " */" + h.after
		tight := "JSIGHT 0.3\n" + h.before + h.line + " /*" + t + "*/" + h.after
		rl := RunProject(SingleFile([]byte(line)), false)
		cases++
		ctx.Cov.Count([]byte(line), strings.ContainsAny(t, "*/"))
		ctx.Cov.Hit("annotation on a " + h.name + " line")
		for _, alt := range []string{block, tight} {
			if alt == tight && (strings.HasPrefix(t, "/") || strings.HasPrefix(t, "*")) && false {
				continue
			}
			rb := RunProject(SingleFile([]byte(alt)), false)
			in := projectInput(SingleFile([]byte(line)))
			in["op"] = "doc"
			in["block"] = alt
			if rl.Panic != "" || rb.Panic != "" {
				continue
			}
			if rl.Accepted() != rb.Accepted() || !bytes.Equal(rl.JSON, rb.JSON) {
				what := fmt.Sprintf("after //: %s; between /* and */: %s", rl.Verdict(), rb.Verdict())
				if rl.Accepted() && rb.Accepted() {
					what = "the catalogs differ: " + firstDiff(rl.JSON, rb.JSON)
				}
				ctx.Violate(Violation{Kind: "wrong-output", Site: "annotation", What: fmt.Sprintf("the annotation %q written after // and between /* */ gives different results (%s line): %s", t, h.name, what),
					Input: in, Observed: rb.Verdict(), Expected: rl.Verdict(), Signature: "annot-spelling"})
				break
			}
		}
		if !rl.Accepted() {
			in := projectInput(SingleFile([]byte(line)))
			in["op"] = "doc"
			ctx.Violate(Violation{Kind: "wrong-output", Site: "annotation", What: "a well-formed document with an annotation is rejected: " + rl.Verdict(), Input: in, Signature: "annot-doc-rejected"})
			continue
		}
		doc, _, err := ParseOJSON(rl.JSON)
		if err != nil {
			continue
		}
		if got := pathIdx(doc, h.path...).Str(); got != want {
			in := projectInput(SingleFile([]byte(line)))
			in["op"] = "doc"
			ctx.Violate(Violation{Kind: "wrong-output", Site: "annotation", What: fmt.Sprintf("annotation on the %s line is %q, the collapsed text is %q", h.name, got, want),
				Input: in, Observed: got, Expected: want, Signature: "annot-value"})
		}
	}
	ctx.Cov.Component("annotations after // and between /* */ on every kind of line that takes one (specification on the implementation)", cases, len(ctx.Violations), "")
}

// pathIdx: Path that also walks into arrays (a decimal key is an index)
func pathIdx(v *OVal, keys ...string) *OVal {
	cur := v
	for _, k := range keys {
		if cur == nil {
			return nil
		}
		if items := cur.Items(); items != nil && len(k) > 0 && k[0] >= '0' && k[0] <= '9' {
			i := int(k[0] - '0')
			if i >= len(items) {
				return nil
			}
			cur = items[i]
			continue
		}
		cur = cur.Get(k)
	}
	return cur
}

// c15PastedDescriptions: ONE Description text that reaches several places — inside a macro pasted into two or three
// methods (bare and in parentheses, LF / CRLF / CR) — must have its normal form in every one of them, and processing the
// very same input bytes a second time must give the very same catalog (a normalisation never consumes its source).
func c15PastedDescriptions(ctx *Ctx) {
	texts := []string{"one line", "First line.\n  Indented more.\nThe last line.", "two\nlines", "a\n\n  after a blank line\nb", "x # y\n(z)"}
	cases := 0
	for _, t := range texts {
		for _, paren := range []bool{false, true} {
			for _, nl := range []string{"\n", "\r\n", "\r"} {
				for n := 1; n <= 3; n++ {
					for _, ind := range []string{"    ", "\t\t", "      "} {
						var body strings.Builder
						for _, l := range strings.Split(t, "\n") {
							if strings.TrimSpace(l) == "" {
								body.WriteString("\n")
							} else {
								body.WriteString(ind + l + "\n")
							}
						}
						var doc strings.Builder
						doc.WriteString("JSIGHT 0.3\nMACRO @d\n(\n  Description\n")
						if paren {
							doc.WriteString("  (\n" + body.String() + "  )\n")
						} else {
							doc.WriteString(body.String())
						}
						doc.WriteString(")\n")
						paths := []string{"/cat", "/dog", "/fox"}[:n]
						for _, p := range paths {
							doc.WriteString("GET " + p + "\n  PASTE @d\n  200 any\n")
						}
						src := strings.ReplaceAll(doc.String(), "\n", nl)
						input := []byte(src)
						res := RunProject(SingleFile(input), false)
						cases++
						ctx.Cov.Count(input, n >= 2 && strings.Contains(t, "\n"))
						ctx.Cov.Hit(fmt.Sprintf("one description pasted into %d methods", n))
						if res.Panic != "" {
							continue
						}
						in := projectInput(SingleFile([]byte(src)))
						in["op"] = "doc"
						if !res.Accepted() {
							ctx.Violate(Violation{Kind: "wrong-output", Site: "description", What: "a well-formed document with a pasted description is rejected: " + res.Verdict(), Input: in, Signature: "descr-doc-rejected"})
							continue
						}
						if string(input) != src {
							ctx.Violate(Violation{Kind: "wrong-output", Site: "description", What: "the bytes of the input file were changed while it was processed: " + firstDiff([]byte(src), input), Input: in, Signature: "descr-input-changed"})
							continue
						}
						od, _, err := ParseOJSON(res.JSON)
						if err != nil {
							continue
						}
						want, _ := specDescription([]byte(strings.ReplaceAll(body.String(), "\n", nl)))
						for _, p := range paths {
							if got := od.Path("interactions", "http GET "+p, "description").Str(); got != string(want) {
								ctx.Violate(Violation{Kind: "wrong-output", Site: "description", What: fmt.Sprintf("one description pasted into %d methods: under GET %s it is %q, the normal form of the text is %q", n, p, got, want),
									Input: in, Observed: got, Expected: string(want), Signature: "descr-value"})
								break
							}
						}
						again := RunProject(SingleFile(input), false)
						if again.Panic == "" && (again.Accepted() != res.Accepted() || !bytes.Equal(again.JSON, res.JSON)) {
							ctx.Violate(Violation{Kind: "wrong-output", Site: "description", What: "processing the same input bytes a second time gives another result: " + firstDiff(res.JSON, again.JSON), Input: in, Signature: "descr-second-reading"})
						}
					}
				}
			}
		}
	}
	ctx.Cov.Component("one Description pasted into 1-3 methods (bare / parenthesised, LF / CRLF / CR): normal form everywhere, input bytes untouched, second reading equal", cases, len(ctx.Violations), "")
}
